From Coq Require Import Lia.
From CR Require Import Model.RWLock gen.ExtLock.

Lemma extracted_not_reentrant : extracted_reentrant = false.
Proof. reflexivity. Qed.

(* no thread is inside a nested read lock (always true without re-entrancy) *)
Definition flat (s : list thread) : Prop := forall t, In t s -> t_pc t <> R2 /\ t_pc t <> R3.

Lemma readers_pos s : readers s <> 0 -> exists t, In t s /\ held t <> 0.
Proof.
  induction s as [|x s IH]; cbn [readers fold_right]; [intro H; exfalso; apply H; reflexivity|].
  intro H. destruct (Nat.eq_dec (held x) 0) as [E|E].
  - destruct IH as (t & Hi & Ht); [unfold readers; lia|]. exists t; split; [right; exact Hi|exact Ht].
  - exists x; split; [left; reflexivity|exact E].
Qed.

Lemma step_of_tstep re s t : In t s -> tstep re s t <> None -> exists i s', step re s i = Some s'.
Proof.
  intros Hi Ht. apply In_nth_error in Hi. destruct Hi as (i & Hi).
  destruct (tstep re s t) as [t'|] eqn:E; [|exfalso; apply Ht; reflexivity].
  exists i, (replace i t' s). unfold step. rewrite Hi, E. reflexivity.
Qed.

Lemma not_done s : done s = false -> exists t, In t s /\ finished t = false.
Proof.
  unfold done. induction s as [|x s IH]; cbn [forallb]; [discriminate|].
  destruct (finished x) eqn:E; cbn [andb].
  - intro H. destruct (IH H) as (t & Hi & Ht). exists t; split; [right; exact Hi|exact Ht].
  - intros _. exists x; split; [left; reflexivity|exact E].
Qed.

(* PROGRESS: without re-entrancy, in every state -- any number of readers and writers, any
   interleaving so far -- some thread can move unless all have finished: no deadlock *)
Lemma progress s : flat s -> done s = false -> exists i s', step false s i = Some s'.
Proof.
  intros Hf Hd.
  destruct (wbusy s) eqn:Hw.
  - unfold wbusy in Hw. apply existsb_exists in Hw. destruct Hw as (w & Hi & Hb).
    destruct w as [p r]. unfold is_wbusy in Hb; cbn [t_pc] in Hb.
    destruct p; try discriminate.
    + (* announced *)
      destruct (Nat.eq_dec (readers s) 0) as [E|E].
      * apply (step_of_tstep false s (mkT W1 r) Hi). cbn [tstep t_pc t_rem]. rewrite E. discriminate.
      * destruct (readers_pos s E) as (t & Hti & Hh).
        apply (step_of_tstep false s t Hti). destruct t as [p r']. destruct (Hf _ Hti) as [H2 H3]. cbn [t_pc] in H2, H3.
        unfold held in Hh; cbn [t_pc] in Hh. destruct p; try (exfalso; apply Hh; reflexivity); try contradiction.
        cbn [tstep t_pc t_rem]. discriminate.
    + apply (step_of_tstep false s (mkT W2 r) Hi). cbn [tstep t_pc]. discriminate.
  - destruct (not_done s Hd) as (t & Hi & Ht). apply (step_of_tstep false s t Hi).
    assert (Hnb : is_wbusy t = false).
    { destruct (is_wbusy t) eqn:E; [|reflexivity]. exfalso.
      unfold wbusy in Hw. rewrite <- Bool.not_true_iff_false in Hw. apply Hw. apply existsb_exists.
      exists t; split; assumption. }
    destruct t as [p r]. destruct (Hf _ Hi) as [H2 H3]. cbn [t_pc] in H2, H3.
    unfold is_wbusy in Hnb; cbn [t_pc] in Hnb.
    unfold finished in Ht; cbn [t_pc t_rem] in Ht. unfold tstep; cbn [t_pc t_rem]. rewrite Hw.
    destruct p; try contradiction; try discriminate; destruct r; discriminate.
Qed.

(* flatness is preserved by non-reentrant steps *)
Lemma in_replace i t s x : In x (replace i t s) -> x = t \/ In x s.
Proof.
  revert i; induction s as [|y s IH]; intros i H; [destruct i; cbn [replace] in H; destruct H|].
  destruct i; cbn [replace In] in H.
  - destruct H as [<-|H]; [left; reflexivity|right; right; exact H].
  - destruct H as [<-|H]; [right; left; reflexivity|]. destruct (IH _ H) as [->|H']; [left; reflexivity|right; right; exact H'].
Qed.

Lemma flat_step s i s' : flat s -> step false s i = Some s' -> flat s'.
Proof.
  intros Hf H. unfold step in H. destruct (nth_error s i) as [t|] eqn:E; [|discriminate].
  destruct (tstep false s t) as [t'|] eqn:Et; [|discriminate]. injection H as <-.
  intros x Hx. destruct (in_replace _ _ _ _ Hx) as [->|Hin]; [|exact (Hf _ Hin)].
  apply nth_error_In in E. destruct (Hf _ E) as [H2 H3]. destruct t as [p r]; cbn [t_pc] in *.
  unfold tstep in Et; cbn [t_pc t_rem] in Et.
  destruct p; try contradiction;
    repeat match type of Et with
           | context [match ?r with 0 => _ | S _ => _ end] => destruct r
           | context [if ?b then _ else _] => destruct b
           end; try discriminate; injection Et as <-; cbn [t_pc]; split; discriminate.
Qed.

Definition start (s : list thread) : Prop := forall t, In t s -> t_pc t = R0 \/ t_pc t = W0.

Lemma start_flat s : start s -> flat s.
Proof. intros H t Hi. destruct (H t Hi) as [E|E]; rewrite E; split; discriminate. Qed.

Lemma run_flat is_ : forall s s', flat s -> run false s is_ = Some s' -> flat s'.
Proof.
  induction is_ as [|i tl IH]; intros s s' Hf H; cbn [run] in H.
  - injection H as <-. exact Hf.
  - destruct (step false s i) as [s1|] eqn:E; [|discriminate]. exact (IH s1 s' (flat_step _ _ _ Hf E) H).
Qed.

(* every state reachable from a start state can move unless all threads have finished *)
Lemma no_deadlock s is_ s' : start s -> run false s is_ = Some s' -> stuck false s' = false.
Proof.
  intros Hs Hr. unfold stuck. destruct (done s') eqn:Hd; [reflexivity|]. cbn [negb andb].
  destruct (progress s' (run_flat is_ s s' (start_flat s Hs) Hr) Hd) as (i & s2 & Hst).
  apply Bool.not_true_iff_false. intro Hall. rewrite forallb_forall in Hall.
  assert (Hi : In i (seq 0 (length s'))).
  { apply in_seq. split; [lia|]. cbn. unfold step in Hst. destruct (nth_error s' i) eqn:E; [|discriminate].
    apply nth_error_Some. rewrite E. discriminate. }
  specialize (Hall i Hi). rewrite Hst in Hall. discriminate.
Qed.

(* TERMINATION: every step decreases a measure, so every execution is finite and (by progress)
   ends with all threads finished *)
Definition tmeasure (t : thread) : nat :=
  5 * t_rem t + match t_pc t with R0 | W0 => 0 | R1 => 3 | R2 | W1 => 2 | R3 | W2 => 1 end.
Definition measure (s : list thread) : nat := fold_right (fun t a => tmeasure t + a) 0 s.

Lemma measure_replace i t t' s : nth_error s i = Some t -> tmeasure t' < tmeasure t ->
  measure (replace i t' s) < measure s.
Proof.
  revert i; induction s as [|x s IH]; intros i H Hl; [destruct i; discriminate|].
  destruct i; cbn [nth_error] in H; cbn [replace measure fold_right].
  - injection H as ->. lia.
  - specialize (IH i H Hl). unfold measure in IH. lia.
Qed.

Lemma step_decreases re s i s' : step re s i = Some s' -> measure s' < measure s.
Proof.
  unfold step. destruct (nth_error s i) as [t|] eqn:E; [|discriminate].
  destruct (tstep re s t) as [t'|] eqn:Et; [|discriminate]. intro H; injection H as <-.
  apply (measure_replace i t t' s E). destruct t as [p r]. unfold tstep in Et; cbn [t_pc t_rem] in Et.
  destruct p;
    repeat match type of Et with
           | context [match ?r with 0 => _ | S _ => _ end] => destruct r
           | context [if ?b then _ else _] => destruct b
           end; try discriminate; injection Et as <-; unfold tmeasure; cbn [t_pc t_rem]; lia.
Qed.

Lemma run_bounded re is_ : forall s s', run re s is_ = Some s' -> length is_ + measure s' <= measure s.
Proof.
  induction is_ as [|i tl IH]; intros s s' H; cbn [run] in H.
  - injection H as <-. cbn. lia.
  - destruct (step re s i) as [s1|] eqn:E; [|discriminate].
    specialize (IH s1 s' H). pose proof (step_decreases re s i s1 E). cbn [length]. lia.
Qed.

(* the repaired-before-it-happened defect (seeded three times independently): with a re-entrant
   read lock one reader and one writer deadlock -- the reader holds the lock and waits for the
   announced writer, the writer waits for the reader *)
Lemma reentrant_deadlock :
  exists s', run true [mkT R0 1; mkT W0 1] [0; 1] = Some s' /\ stuck true s' = true.
Proof. eexists. split; vm_compute; reflexivity. Qed.
