(* Lemmas about the ::/64 prefix wildcard (C13) and the ::/0 route wildcard (C15) of Model/Wildcard.v. *)
From CR Require Import Model.Wildcard.
From CR Require Import Proofs.WildcardSort.
From Coq Require Import Lia Permutation Sorted.
Local Open Scope N_scope.

Lemma memN_In x l : memN x l = true <-> In x l.
Proof.
  unfold memN. rewrite existsb_exists. split.
  - intros [y [Hin He]]. apply N.eqb_eq in He. subst. exact Hin.
  - intros Hin. exists x. split; [exact Hin | apply N.eqb_refl].
Qed.

Lemma pair_eqb_eq x y : pair_eqb x y = true <-> x = y.
Proof.
  unfold pair_eqb. rewrite andb_true_iff, !N.eqb_eq. destruct x, y; cbn [fst snd].
  split; [intros [-> ->]; reflexivity | intros E; inversion E; split; reflexivity].
Qed.

Lemma memNN_In x l : memNN x l = true <-> In x l.
Proof.
  unfold memNN. rewrite existsb_exists. split.
  - intros [y [Hin He]]. apply pair_eqb_eq in He. subst. exact Hin.
  - intros Hin. exists x. split; [exact Hin | apply pair_eqb_eq; reflexivity].
Qed.

Lemma not_true_false b : b <> true <-> b = false.
Proof. destruct b; split; congruence. Qed.

(* =================================================================== C13 *)

(* the entries that survive both `continue`s *)
Definition prefix_ok (pbits : N) (a : sysip) : bool := negb (prefix_skip1 pbits a) && negb (prefix_skip2 a).

Lemma prefix_ok_iff pbits a :
  prefix_ok pbits a = true <->
  ip_v4 a = false /\ go_link_local (ip_addr a) = false /\ ip_bits a = pbits /\
  ip_temporary a = false /\ ip_tentative a = false.
Proof.
  unfold prefix_ok, prefix_skip1, prefix_skip2.
  rewrite andb_true_iff, !negb_true_iff, !orb_false_iff, negb_false_iff, N.eqb_eq. tauto.
Qed.

Lemma prefix_scan_in pbits l : forall seen p,
  In p (prefix_scan pbits seen l) <->
  ~ In p seen /\ exists a, In a l /\ prefix_ok pbits a = true /\ mask (ip_addr a) pbits = p.
Proof.
  induction l as [|a tl IH]; intros seen p; cbn [prefix_scan].
  - split; [intros [] | intros [_ [a [[] _]]]].
  - unfold prefix_ok in *.
    destruct (prefix_skip1 pbits a) eqn:E1; cbn [negb andb].
    { rewrite IH. split; intros [Hs [b [Hin Hb]]]; split; try exact Hs.
      - exists b. split; [right; exact Hin | exact Hb].
      - destruct Hin as [<-|Hin]; [rewrite E1 in Hb; cbn in Hb; destruct Hb; discriminate|].
        exists b. split; assumption. }
    destruct (prefix_skip2 a) eqn:E2; cbn [negb andb].
    { rewrite IH. split; intros [Hs [b [Hin Hb]]]; split; try exact Hs.
      - exists b. split; [right; exact Hin | exact Hb].
      - destruct Hin as [<-|Hin]; [rewrite E1, E2 in Hb; cbn in Hb; destruct Hb; discriminate|].
        exists b. split; assumption. }
    assert (Hbits : ip_bits a = pbits).
    { unfold prefix_skip1 in E1. rewrite !orb_false_iff, negb_false_iff, N.eqb_eq in E1. tauto. }
    rewrite Hbits.
    destruct (memN (mask (ip_addr a) pbits) seen) eqn:Em.
    + apply memN_In in Em. rewrite IH.
      split; intros [Hs [b [Hin Hb]]]; split; try exact Hs.
      * exists b. split; [right; exact Hin | exact Hb].
      * destruct Hin as [<-|Hin]; [exfalso; destruct Hb as [_ <-]; exact (Hs Em)|].
        exists b. split; assumption.
    + assert (Hn : ~ In (mask (ip_addr a) pbits) seen).
      { intros H. apply memN_In in H. congruence. }
      cbn [In]. rewrite IH. cbn [In]. split.
      * intros [<-|[Hs [b [Hin Hb]]]].
        -- split; [exact Hn|]. exists a. rewrite E1, E2. repeat split; try reflexivity. left; reflexivity.
        -- split; [tauto|]. exists b. split; [right; exact Hin | exact Hb].
      * intros [Hs [b [Hin Hb]]].
        destruct (N.eq_dec (mask (ip_addr a) pbits) p) as [E|E]; [left; exact E|right].
        split; [intros [H|H]; [exact (E H) | exact (Hs H)]|].
        destruct Hin as [<-|Hin]; [exfalso; apply E; apply Hb|].
        exists b. split; assumption.
Qed.

Lemma prefix_scan_nodup pbits l : forall seen, NoDup (prefix_scan pbits seen l).
Proof.
  induction l as [|a tl IH]; intros seen; cbn [prefix_scan]; [constructor|].
  destruct (prefix_skip1 pbits a); [apply IH|].
  destruct (prefix_skip2 a); [apply IH|].
  destruct (memN _ seen); [apply IH|].
  constructor; [|apply IH].
  rewrite prefix_scan_in. intros [Hs _]. apply Hs. left; reflexivity.
Qed.

Lemma prefix_list_in pbits l p :
  In p (prefix_list pbits l) <-> exists a, In a l /\ prefix_ok pbits a = true /\ mask (ip_addr a) pbits = p.
Proof.
  unfold prefix_list. rewrite in_isort, prefix_scan_in. split; [intros [_ H]; exact H | intros H; split; [intros []|exact H]].
Qed.

Lemma prefix_list_sorted pbits l : StronglySorted N.lt (prefix_list pbits l).
Proof.
  unfold prefix_list. apply klt_id_lt, isort_strict, NoDup_map_id, prefix_scan_nodup.
Qed.

Lemma prefix_list_nodup pbits l : NoDup (prefix_list pbits l).
Proof. eapply strict_nodup with (key := fun x => x). apply klt_id_lt, prefix_list_sorted. Qed.

(* the result is a function of the SET of listed entries *)
Lemma prefix_list_set_ext pbits l l' :
  (forall a, In a l <-> In a l') -> prefix_list pbits l = prefix_list pbits l'.
Proof.
  intros Heq. unfold prefix_list. apply isort_set_ext; try (apply NoDup_map_id, prefix_scan_nodup).
  intros p. rewrite !prefix_scan_in.
  split; intros [Hs [a [Hin Ha]]]; (split; [exact Hs|]); exists a; (split; [apply Heq, Hin | exact Ha]).
Qed.

Lemma prefix_list_perm pbits l l' : Permutation l l' -> prefix_list pbits l = prefix_list pbits l'.
Proof.
  intros Hp. apply prefix_list_set_ext. intros a.
  split; apply Permutation_in; [exact Hp | apply Permutation_sym, Hp].
Qed.

Lemma prefix_list_dup pbits a l : In a l -> prefix_list pbits (a :: l) = prefix_list pbits l.
Proof.
  intros Hin. apply prefix_list_set_ext. intros b. cbn [In]. split; [intros [<-|H]; assumption | right; assumption].
Qed.

(* uniform options: exactly one option per prefix, all with the stanza's parameters *)
Lemma prefix_Apply_auto pfx pbits ol au v p dep epoch now l :
  prefix_Apply true pfx pbits ol au v p dep epoch now (Some l) =
  Ok (map (fun x => OPrefix pbits ol au (fst (prefix_lifetimes dep epoch v p now))
                     (snd (prefix_lifetimes dep epoch v p now)) x) (prefix_list pbits l)).
Proof. reflexivity. Qed.

Lemma prefix_Apply_error pfx pbits ol au v p dep epoch now :
  is_ok (prefix_Apply true pfx pbits ol au v p dep epoch now None) = false.
Proof. reflexivity. Qed.

(* =================================================================== C15 *)

Definition route_ok (all : list sysroute) (rt : sysroute) : bool :=
  negb (route_skip rt) && negb (route_covered all rt).

Lemma route_scan_in all l : forall seen p,
  In p (route_scan all seen l) <->
  ~ In p seen /\ exists rt, In rt l /\ route_ok all rt = true /\ (rt_addr rt, rt_bits rt) = p.
Proof.
  induction l as [|a tl IH]; intros seen p; cbn [route_scan].
  - split; [intros [] | intros [_ [a [[] _]]]].
  - unfold route_ok in *.
    destruct (route_skip a) eqn:E1; cbn [negb andb].
    { rewrite IH. split; intros [Hs [b [Hin Hb]]]; split; try exact Hs.
      - exists b. split; [right; exact Hin | exact Hb].
      - destruct Hin as [<-|Hin]; [rewrite E1 in Hb; cbn in Hb; destruct Hb; discriminate|].
        exists b. split; assumption. }
    destruct (memNN (rt_addr a, rt_bits a) seen) eqn:Em.
    { apply memNN_In in Em. rewrite IH.
      split; intros [Hs [b [Hin Hb]]]; split; try exact Hs.
      - exists b. split; [right; exact Hin | exact Hb].
      - destruct Hin as [<-|Hin]; [exfalso; destruct Hb as [_ <-]; exact (Hs Em)|].
        exists b. split; assumption. }
    destruct (route_covered all a) eqn:E2; cbn [negb andb].
    { rewrite IH. split; intros [Hs [b [Hin Hb]]]; split; try exact Hs.
      - exists b. split; [right; exact Hin | exact Hb].
      - destruct Hin as [<-|Hin]; [rewrite E1, E2 in Hb; cbn in Hb; destruct Hb; discriminate|].
        exists b. split; assumption. }
    assert (Hn : ~ In (rt_addr a, rt_bits a) seen).
    { intros H. apply memNN_In in H. congruence. }
    cbn [In]. rewrite IH. cbn [In]. split.
    + intros [<-|[Hs [b [Hin Hb]]]].
      * split; [exact Hn|]. exists a. rewrite E1, E2. repeat split; try reflexivity. left; reflexivity.
      * split; [tauto|]. exists b. split; [right; exact Hin | exact Hb].
    + intros [Hs [b [Hin Hb]]].
      destruct (pair_eqb (rt_addr a, rt_bits a) p) eqn:E.
      * left. apply pair_eqb_eq, E.
      * right. assert (E' : (rt_addr a, rt_bits a) <> p) by (intros H; apply pair_eqb_eq in H; congruence).
        split; [intros [H|H]; [exact (E' H) | exact (Hs H)]|].
        destruct Hin as [<-|Hin]; [exfalso; apply E'; apply Hb|].
        exists b. split; assumption.
Qed.

Lemma route_scan_nodup all l : forall seen, NoDup (route_scan all seen l).
Proof.
  induction l as [|a tl IH]; intros seen; cbn [route_scan]; [constructor|].
  destruct (route_skip a); [apply IH|].
  destruct (memNN _ seen); [apply IH|].
  destruct (route_covered all a); [apply IH|].
  constructor; [|apply IH].
  rewrite route_scan_in. intros [Hs _]. apply Hs. left; reflexivity.
Qed.

Lemma contains_self a b : contains a b a = true.
Proof. unfold contains. apply N.eqb_refl. Qed.

Lemma route_covered_iff all rt :
  route_covered all rt = true <->
  exists q, In q all /\ rt_v4 q = false /\ rt_bits q < rt_bits rt /\
            contains (rt_addr q) (rt_bits q) (rt_addr rt) = true.
Proof.
  unfold route_covered, route_covers. rewrite existsb_exists.
  split; intros [q [Hin H]]; exists q; (split; [exact Hin|]).
  - rewrite !andb_true_iff, negb_true_iff, N.ltb_lt in H. tauto.
  - rewrite !andb_true_iff, negb_true_iff, N.ltb_lt. tauto.
Qed.

Lemma route_ok_iff all rt :
  route_ok all rt = true <->
  rt_v4 rt = false /\ rt_bits rt <> 128 /\
  ~ exists q, In q all /\ rt_v4 q = false /\ rt_bits q < rt_bits rt /\
              contains (rt_addr q) (rt_bits q) (rt_addr rt) = true.
Proof.
  unfold route_ok, route_skip.
  rewrite andb_true_iff, !negb_true_iff, orb_false_iff, N.eqb_neq, <- route_covered_iff, not_true_false.
  tauto.
Qed.

(* the surviving routes have pairwise different addresses *)
Lemma route_scan_fst_inj l x y :
  In x (route_scan l [] l) -> In y (route_scan l [] l) -> fst x = fst y -> x = y.
Proof.
  rewrite !route_scan_in.
  intros [_ [r [Hr [Hrok <-]]]] [_ [q [Hq [Hqok <-]]]]. cbn [fst]. intros Ha.
  apply route_ok_iff in Hrok. apply route_ok_iff in Hqok.
  destruct Hrok as [Hr4 [_ Hrn]]. destruct Hqok as [Hq4 [_ Hqn]].
  destruct (N.lt_trichotomy (rt_bits r) (rt_bits q)) as [Hlt|[He|Hlt]].
  - exfalso. apply Hqn. exists r. repeat split; try assumption. rewrite Ha. apply contains_self.
  - rewrite Ha, He. reflexivity.
  - exfalso. apply Hrn. exists q. repeat split; try assumption. rewrite <- Ha. apply contains_self.
Qed.

Lemma route_scan_keys_nodup l : NoDup (map fst (route_scan l [] l)).
Proof.
  apply NoDup_map_inj_in; [apply route_scan_nodup|]. intros x y. apply route_scan_fst_inj.
Qed.

Lemma route_list_in l p :
  In p (route_list l) <-> exists rt, In rt l /\ route_ok l rt = true /\ (rt_addr rt, rt_bits rt) = p.
Proof.
  unfold route_list. rewrite in_isort, route_scan_in. split; [intros [_ H]; exact H | intros H; split; [intros []|exact H]].
Qed.

Lemma route_list_sorted l : StronglySorted (fun x y => fst x < fst y) (route_list l).
Proof. unfold route_list. apply (isort_strict fst), route_scan_keys_nodup. Qed.

Lemma route_list_nodup l : NoDup (route_list l).
Proof. eapply strict_nodup with (key := fst). apply route_list_sorted. Qed.

Lemma route_ok_set_ext l l' rt : (forall r, In r l <-> In r l') -> route_ok l rt = route_ok l' rt.
Proof.
  intros Heq. unfold route_ok, route_covered. rewrite (existsb_set_ext _ l l' Heq). reflexivity.
Qed.

(* the result is a function of the SET of dumped routes *)
Lemma route_list_set_ext l l' : (forall r, In r l <-> In r l') -> route_list l = route_list l'.
Proof.
  intros Heq. unfold route_list. apply isort_set_ext; try apply route_scan_keys_nodup.
  intros p. rewrite !route_scan_in.
  split; intros [Hs [r [Hin [Hok Hp]]]]; (split; [exact Hs|]); exists r.
  - split; [apply Heq, Hin|]. rewrite <- (route_ok_set_ext l l' r Heq). split; assumption.
  - split; [apply Heq, Hin|]. rewrite (route_ok_set_ext l l' r Heq). split; assumption.
Qed.

Lemma route_list_perm l l' : Permutation l l' -> route_list l = route_list l'.
Proof.
  intros Hp. apply route_list_set_ext. intros a.
  split; apply Permutation_in; [exact Hp | apply Permutation_sym, Hp].
Qed.

Lemma route_list_dup r l : In r l -> route_list (r :: l) = route_list l.
Proof.
  intros Hin. apply route_list_set_ext. intros b. cbn [In]. split; [intros [<-|H]; assumption | right; assumption].
Qed.

(* canonical dump: no IPv6 route has bits set below its length *)
Definition canonicalb (l : list sysroute) : bool :=
  forallb (fun r => rt_v4 r || (mask (rt_addr r) (rt_bits r) =? rt_addr r)) l.

Lemma route_list_no_overlap l p q :
  canonicalb l = true -> In p (route_list l) -> In q (route_list l) -> p <> q ->
  overlaps (fst p) (snd p) (fst q) (snd q) = false.
Proof.
  intros Hc Hp Hq Hne. apply not_true_false. intros Hov.
  rewrite route_list_in in Hp, Hq.
  destruct Hp as [r [Hr [Hrok <-]]]. destruct Hq as [s [Hs [Hsok <-]]]. cbn [fst snd] in *.
  apply route_ok_iff in Hrok. apply route_ok_iff in Hsok.
  destruct Hrok as [Hr4 [_ Hrn]]. destruct Hsok as [Hs4 [_ Hsn]].
  unfold overlaps in Hov. apply N.eqb_eq in Hov.
  destruct (N.lt_trichotomy (rt_bits r) (rt_bits s)) as [Hlt|[He|Hlt]].
  - rewrite N.min_l in Hov by lia. apply Hsn. exists r. repeat split; try assumption.
    unfold contains. apply N.eqb_eq. symmetry. exact Hov.
  - rewrite He, N.min_id in Hov.
    unfold canonicalb in Hc. rewrite forallb_forall in Hc.
    pose proof (Hc r Hr) as Cr. pose proof (Hc s Hs) as Cs.
    rewrite Hr4 in Cr. rewrite Hs4 in Cs. cbn [orb] in Cr, Cs. apply N.eqb_eq in Cr, Cs.
    apply Hne. rewrite <- Cr, <- Cs, He, Hov. reflexivity.
  - rewrite N.min_r in Hov by lia. apply Hrn. exists s. repeat split; try assumption.
    unfold contains. apply N.eqb_eq. exact Hov.
Qed.

(* masking twice: the shorter mask wins *)
Lemma mask_ldiff a b : mask a b = N.ldiff a (N.ones (128 - b)).
Proof. unfold mask. symmetry. apply N.ldiff_ones_r. Qed.

Lemma mask_mask a b b' : b' <= b -> mask (mask a b) b' = mask a b'.
Proof.
  intros Hle. rewrite !mask_ldiff. apply N.bits_inj. intros n.
  rewrite !N.ldiff_spec.
  destruct (N.lt_ge_cases n (128 - b')) as [Hn|Hn].
  - rewrite (N.ones_spec_low (128 - b') n Hn). cbn [negb]. rewrite !andb_false_r. reflexivity.
  - rewrite (N.ones_spec_high (128 - b') n Hn).
    assert (Hn' : 128 - b <= n) by lia.
    rewrite (N.ones_spec_high (128 - b) n Hn'). cbn [negb]. rewrite !andb_true_r. reflexivity.
Qed.

Lemma contains_trans pa pb qa qb x :
  pb <= qb -> contains pa pb qa = true -> contains qa qb x = true -> contains pa pb x = true.
Proof.
  unfold contains. rewrite !N.eqb_eq. intros Hle H1 H2.
  rewrite <- (mask_mask x qb pb Hle), H2, (mask_mask qa qb pb Hle). exact H1.
Qed.

(* maximality: every IPv6 non-host route of the dump lies inside (or is) an advertised route *)
Lemma route_list_cover l :
  (forall r, In r l -> rt_bits r <= 128) ->
  forall n r, rt_bits r = n -> In r l -> rt_v4 r = false -> rt_bits r <> 128 ->
  exists p, In p (route_list l) /\ snd p <= rt_bits r /\ contains (fst p) (snd p) (rt_addr r) = true.
Proof.
  intros Hvalid n. induction n as [n IH] using (well_founded_induction N.lt_wf_0).
  intros r Hn Hr Hr4 Hr128.
  destruct (route_covered l r) eqn:Hc.
  - apply route_covered_iff in Hc. destruct Hc as [q [Hq [Hq4 [Hlt Hcont]]]].
    assert (Hq128 : rt_bits q <> 128) by (specialize (Hvalid r Hr); lia).
    destruct (IH (rt_bits q) ltac:(lia) q eq_refl Hq Hq4 Hq128) as [p [Hp [Hple Hpc]]].
    exists p. split; [exact Hp|]. split; [lia|].
    eapply contains_trans; [exact Hple | exact Hpc | exact Hcont].
  - exists (rt_addr r, rt_bits r). cbn [fst snd]. split; [|split; [lia | apply contains_self]].
    apply route_list_in. exists r. split; [exact Hr|]. split; [|reflexivity].
    unfold route_ok, route_skip. rewrite Hr4, Hc. cbn [orb negb andb].
    apply andb_true_iff. split; [|reflexivity]. apply negb_true_iff, N.eqb_neq, Hr128.
Qed.

Lemma route_Apply_auto pfx pbits prf lt dep epoch now l :
  route_Apply true pfx pbits prf lt dep epoch now (Some l) =
  Ok (map (fun r => ORoute (snd r) prf (route_lifetime dep epoch lt now) (fst r)) (route_list l)).
Proof. reflexivity. Qed.

Lemma route_Apply_error pfx pbits prf lt dep epoch now :
  is_ok (route_Apply true pfx pbits prf lt dep epoch now None) = false.
Proof. reflexivity. Qed.

(* the advertised prefixes are networks: no bits below the prefix length *)
Lemma prefix_list_masked pbits l p : In p (prefix_list pbits l) -> mask p pbits = p.
Proof.
  rewrite prefix_list_in. intros [a [_ [_ <-]]]. apply mask_mask. apply N.le_refl.
Qed.
