(* C02 -- Accepts_b is the boolean form of Accepts (reflection). *)
From Coq Require Import Lia ZifyBool Btauto.
From CR Require Import Model.Config.
From CR Require Import Model.ConfigSpec.
Local Open Scope Z_scope.

Lemma with_value_iff o (Pb : Z -> bool) (P : Z -> Prop) :
  (forall v, Pb v = true <-> P v) -> (with_value_b o Pb = true <-> with_value o P).
Proof. intros H. destruct o; cbn; [apply H | split; [discriminate | tauto]]. Qed.

Lemma forallb_Forall_iff {A} (f : A -> bool) (P : A -> Prop) l :
  (forall x, f x = true <-> P x) -> (forallb f l = true <-> Forall P l).
Proof.
  intros H. induction l as [|x t IH]; cbn.
  - split; auto.
  - rewrite andb_true_iff, IH, H. split.
    + intros [? ?]. constructor; assumption.
    + intros F. inversion F; auto.
Qed.

Lemma pairwise_b_iff {A} (r : A -> A -> bool) (R : A -> A -> Prop) l :
  (forall x y, r x y = true <-> R x y) -> (pairwise_b r l = true <-> ForallOrdPairs R l).
Proof.
  intros H. induction l as [|x t IH]; cbn.
  - split; [constructor | reflexivity].
  - rewrite andb_true_iff, IH, (forallb_Forall_iff (r x) (R x)) by (intros y; apply H). split.
    + intros [? ?]. constructor; assumption.
    + intros F. inversion F; auto.
Qed.

Lemma nodup_b_iff {A} (eqb : A -> A -> bool) l :
  (forall x y, eqb x y = true <-> x = y) -> (nodup_b eqb l = true <-> NoDup l).
Proof.
  intros H. induction l as [|x t IH]; cbn.
  - split; [constructor | reflexivity].
  - rewrite andb_true_iff, IH, negb_true_iff. split.
    + intros [E ?]. constructor; [|assumption]. intros I.
      assert (existsb (eqb x) t = true) by (apply existsb_exists; exists x; split; [assumption | apply H; reflexivity]).
      congruence.
    + intros F. inversion F as [|? ? Hn Hd]; subst. split; [|assumption].
      destruct (existsb (eqb x) t) eqn:E; [|reflexivity].
      apply existsb_exists in E as [y [Hy Exy]]. apply H in Exy. subst. contradiction.
Qed.

Lemma skey_eqb_eq (x y : skey) : skey_eqb x y = true <-> x = y.
Proof.
  destruct x as [a z], y as [a' z']. unfold skey_eqb. cbn.
  rewrite andb_true_iff, !N.eqb_eq. split; [intros [-> ->]; reflexivity | intros E; inversion E; auto].
Qed.

Ltac unfold_units := unfold infinity, hour, minute, sec, ms, us, ns in *.

Lemma canonical_v6_iff c : canonical_v6_b c = true <-> canonical_v6 c.
Proof.
  destruct c as [| | |v4 a b]; cbn; try tauto; [split; [discriminate | tauto]|].
  rewrite !andb_true_iff, !negb_true_iff, N.eqb_eq. tauto.
Qed.

Lemma pref_ok_iff t : pref_ok_b t = true <-> pref_ok t.
Proof. unfold pref_ok. destruct t; cbn; split; congruence. Qed.

Lemma no_overlap_iff p q : no_overlap_b p q = true <-> no_overlap p q.
Proof. unfold no_overlap_b, no_overlap. apply negb_true_iff. Qed.

Lemma prefix_ok_iff p : prefix_ok_b p = true <-> prefix_ok p.
Proof.
  unfold prefix_ok_b, prefix_ok. rewrite !andb_true_iff, canonical_v6_iff.
  rewrite (with_value_iff (prefix_valid p) _ (fun valid =>
    with_value (prefix_preferred p) (fun preferred =>
      0 < valid <= infinity /\ 0 < preferred <= infinity /\ preferred <= valid /\
      (rp_deprecated p = true -> valid <> infinity /\ preferred <> infinity)))).
  - rewrite negb_true_iff, N.eqb_neq, orb_true_iff, negb_true_iff, N.eqb_neq, N.eqb_eq.
    destruct (N.eq_dec (fst (prefix_cidr p)) 0); tauto.
  - intros valid. apply with_value_iff. intros preferred.
    destruct (rp_deprecated p); unfold_units; cbn; split; intros; lia.
Qed.

Lemma route_ok_iff r : route_ok_b r = true <-> route_ok r.
Proof.
  unfold route_ok_b, route_ok. rewrite !andb_true_iff, canonical_v6_iff, pref_ok_iff.
  rewrite (with_value_iff (route_lifetime_v r) _ (fun lt =>
    0 < lt <= infinity /\ (rr_deprecated r = true -> lt <> infinity))).
  - rewrite orb_true_iff, negb_true_iff, N.eqb_neq, N.eqb_eq.
    destruct (N.eq_dec (fst (route_cidr r)) 0); tauto.
  - intros lt. destruct (rr_deprecated r); unfold_units; cbn; split; intros; lia.
Qed.

Lemma in_range_iff lo v hi : in_range_b lo v hi = true <-> lo <= v <= hi.
Proof. unfold in_range_b. lia. Qed.

Lemma rdnss_ok_iff mx d : rdnss_ok_b mx d = true <-> rdnss_ok mx d.
Proof.
  unfold rdnss_ok_b, rdnss_ok. rewrite !andb_true_iff.
  rewrite (with_value_iff _ _ (fun lt => 0 <= lt <= infinity)) by (intros; apply in_range_iff).
  rewrite (forallb_Forall_iff _ (fun s => server_key s <> None)).
  2: { intros s. destruct (server_key s); cbn; split; congruence. }
  rewrite (nodup_b_iff skey_eqb) by apply skey_eqb_eq. tauto.
Qed.

Lemma dnssl_ok_iff mx d : dnssl_ok_b mx d = true <-> dnssl_ok mx d.
Proof.
  unfold dnssl_ok_b, dnssl_ok. rewrite !andb_true_iff.
  rewrite (with_value_iff _ _ (fun lt => 0 <= lt <= infinity)) by (intros; apply in_range_iff).
  rewrite (nodup_b_iff N.eqb) by apply N.eqb_eq.
  destruct (rn_names d); cbn; intuition congruence.
Qed.

Lemma pref64_ok_iff p : pref64_ok_b p = true <-> pref64_ok p.
Proof.
  unfold pref64_ok_b, pref64_ok. rewrite andb_true_iff, canonical_v6_iff, existsb_exists.
  split; intros [H1 H2]; split; auto.
  - destruct H2 as [x [Hx E]]. apply N.eqb_eq in E. subst. exact Hx.
  - exists (snd (pref64_cidr p)). split; [assumption | apply N.eqb_refl].
Qed.

Lemma min_interval_ok_iff t mx : min_interval_ok_b t mx = true <-> min_interval_ok t mx.
Proof. destruct t; cbn; try tauto; try (split; [discriminate | tauto]). apply in_range_iff. Qed.

Lemma captive_ok_iff u : captive_ok_b u = true <-> captive_ok u.
Proof.
  unfold captive_ok. destruct u as [| |u]; cbn.
  - split; [split; congruence | reflexivity].
  - split; [discriminate | intros [H _]; congruence].
  - rewrite negb_true_iff, N.eqb_neq. split.
    + intros H. split; [discriminate | congruence].
    + intros [_ H] E. apply H. congruence.
Qed.

Lemma advertising_ok_iff st : advertising_ok_b st = true <-> advertising_ok st.
Proof.
  unfold advertising_ok_b, advertising_ok. apply with_value_iff. intros mx.
  rewrite !andb_true_iff, !in_range_iff, min_interval_ok_iff, pref_ok_iff, captive_ok_iff.
  rewrite (with_value_iff (reachable_v st) _ (fun r => 0 <= r <= hour)) by (intros; apply in_range_iff).
  rewrite (with_value_iff (retrans_v st) _ (fun r => 0 <= r <= hour)) by (intros; apply in_range_iff).
  rewrite (with_value_iff (default_lifetime_v mx st) _ (fun lt => lt = 0 \/ mx <= lt <= 9000 * sec)).
  2: { intros lt. rewrite orb_true_iff, in_range_iff, Z.eqb_eq. tauto. }
  rewrite (forallb_Forall_iff _ _ _ prefix_ok_iff), (forallb_Forall_iff _ _ _ route_ok_iff).
  rewrite (forallb_Forall_iff _ _ _ (rdnss_ok_iff mx)), (forallb_Forall_iff _ _ _ (dnssl_ok_iff mx)).
  rewrite (forallb_Forall_iff _ _ _ pref64_ok_iff).
  rewrite !(pairwise_b_iff _ _ _ no_overlap_iff). tauto.
Qed.

Lemma stanza_ok_iff st : stanza_ok_b st = true <-> stanza_ok st.
Proof.
  unfold stanza_ok_b, stanza_ok. rewrite !andb_true_iff, orb_true_iff, advertising_ok_iff, negb_true_iff.
  assert (X : xorb (negb (N.eqb (ri_name st) 0)) (negb match ri_names st with [] => true | _ => false end) = true <->
              (ri_name st <> 0%N /\ ri_names st = []) \/ (ri_name st = 0%N /\ ri_names st <> [])).
  { destruct (N.eqb_spec (ri_name st) 0) as [E|E]; destruct (ri_names st); cbn; split; try discriminate; intuition congruence. }
  rewrite X. destruct (ri_monitor st); destruct (ri_advertise st); cbn; intuition congruence.
Qed.

Theorem Accepts_b_iff raw : Accepts_b raw = true <-> Accepts raw.
Proof.
  unfold Accepts_b, Accepts, debug_ok_b, debug_ok. rewrite !andb_true_iff, orb_true_iff, N.eqb_eq.
  rewrite (forallb_Forall_iff _ _ _ stanza_ok_iff), (nodup_b_iff N.eqb) by apply N.eqb_eq.
  destruct (rc_ifaces raw); cbn; intuition congruence.
Qed.
