(* Proofs about Model/Metrics.v (C17): the scrape mirrors the current RA, never panics, and the facts about the
   tables regenerated from the source (gen/ExtMetrics.v) which those proofs rest on. *)
From Coq Require Import Permutation Lia.
From CR Require Import Model.Metrics.
Local Open Scope Z_scope.

(* ---- facts computed on the regenerated tables *)

Definition strs_eqb (a b : list string) : bool := list_eqb String.eqb a b.

(* a registration is sound: its name is a documented metric, collectMetrics has a case for it, and it is
   registered with the documented label names *)
Definition reg_ok (r : string * list string) : bool :=
  match metric_of_name (fst r) with
  | Some m => str_mem (fst r) ExtMetrics.collect_cases && strs_eqb (snd r) (label_names m)
  | None => false
  end.

Lemma table_ok : forallb reg_ok ExtMetrics.const_metrics = true.
Proof. vm_compute. reflexivity. Qed.

Definition reg_metric (r : string * list string) : list metric :=
  match metric_of_name (fst r) with Some m => [m] | None => [] end.

Definition metric_eq_dec : forall a b : metric, {a = b} + {a <> b}.
Proof. decide equality. Defined.

(* every documented const metric is registered exactly once *)
Lemma table_perm : Permutation (flat_map reg_metric ExtMetrics.const_metrics) all_metrics.
Proof.
  apply (Permutation_count_occ metric_eq_dec). intro x. destruct x; vm_compute; reflexivity.
Qed.

Lemma misconf_cases_ok : forall ms, misconfs_handled ms = true.
Proof.
  induction ms as [|m ms IH]; [reflexivity|].
  unfold misconfs_handled in *. cbn [forallb]. rewrite IH. destruct m. vm_compute. reflexivity.
Qed.

(* ---- generic list lemmas *)

Lemma String_eqb_eq : forall a b, String.eqb a b = true -> a = b.
Proof. intros a b H. apply String.eqb_eq. exact H. Qed.

Lemma strs_eqb_eq : forall a b, strs_eqb a b = true -> a = b.
Proof.
  induction a as [|x a IH]; destruct b as [|y b]; cbn; try discriminate; auto.
  intro H. apply andb_prop in H. destruct H as [H1 H2].
  apply String_eqb_eq in H1. apply IH in H2. congruence.
Qed.

Lemma flat_map_app_perm {A B} (f g : A -> list B) l :
  Permutation (flat_map f l ++ flat_map g l) (flat_map (fun x => f x ++ g x) l).
Proof.
  induction l as [|x l IH]; cbn; [constructor|].
  rewrite <- !app_assoc. apply Permutation_app_head.
  rewrite app_assoc. etransitivity.
  { apply Permutation_app_tail. apply Permutation_app_comm. }
  rewrite <- app_assoc. apply Permutation_app_head. exact IH.
Qed.

Lemma map_flat_map2 {A B C D} (g : C -> D) (f : B -> list C) (p : A -> list B) l :
  map g (flat_map f (flat_map p l)) = flat_map (fun o => map g (flat_map f (p o))) l.
Proof.
  induction l as [|x l IH]; cbn; [reflexivity|].
  rewrite flat_map_app, map_app, IH. reflexivity.
Qed.

Lemma Forall_flat_map {A B} (P : B -> Prop) (f : A -> list B) l :
  (forall x, Forall P (f x)) -> Forall P (flat_map f l).
Proof.
  intro H. induction l as [|x l IH]; cbn; [constructor|]. apply Forall_app. split; auto.
Qed.

(* ---- emit / collect *)

Definition mk (name : string) (lnames : list string) (c : Z * list lval) : sample :=
  (name, combine lnames (snd c), fst c).

Lemma emit_ok : forall name lnames cs,
  Forall (fun c : Z * list lval => length (snd c) = length lnames) cs ->
  emit name lnames cs = Some (map (mk name lnames) cs).
Proof.
  induction cs as [|[v ls] cs IH]; intro H; cbn; [reflexivity|].
  inversion H as [|? ? H1 H2]; subst. cbn in H1. rewrite H1, Nat.eqb_refl, (IH H2). reflexivity.
Qed.

Lemma calls_arity : forall m c,
  Forall (fun x : Z * list lval => length (snd x) = length (label_names m)) (calls m c).
Proof.
  intros m c. destruct m; cbn [calls label_names];
    try (repeat constructor; fail);
    try (apply Forall_flat_map; intro o; destruct o; repeat constructor).
  - apply Forall_forall. intros x Hx. apply in_map_iff in Hx. destruct Hx as [ms [<- _]]. destruct ms. reflexivity.
Qed.

Definition samples_of (m : metric) (c : mctx) : list sample := map (mk (metric_name m) (label_names m)) (calls m c).

Lemma metric_of_name_sound : forall s m, metric_of_name s = Some m -> metric_name m = s.
Proof.
  intros s m H. unfold metric_of_name in H. apply find_some in H. destruct H as [_ H].
  apply String_eqb_eq. exact H.
Qed.

Lemma collect_ok : forall regs c, forallb reg_ok regs = true ->
  collect regs c = Some (flat_map (fun r => flat_map (fun m => samples_of m c) (reg_metric r)) regs).
Proof.
  induction regs as [|[name lnames] regs IH]; intros c H; [reflexivity|].
  cbn [forallb] in H. apply andb_prop in H. destruct H as [H1 H2].
  unfold reg_ok in H1. cbn [fst snd] in H1.
  cbn [collect flat_map]. unfold reg_metric at 1. cbn [fst].
  destruct (metric_of_name name) as [m|] eqn:Em; [|discriminate].
  apply andb_prop in H1. destruct H1 as [Hc Hl].
  rewrite Hc. apply strs_eqb_eq in Hl. apply metric_of_name_sound in Em. subst name lnames.
  rewrite (emit_ok _ _ _ (calls_arity m c)), (IH c H2).
  cbn [flat_map]. rewrite app_nil_r. reflexivity.
Qed.

Lemma flat_map_comp {A B C} (F : B -> list C) (g : A -> list B) l :
  flat_map (fun r => flat_map F (g r)) l = flat_map F (flat_map g l).
Proof.
  induction l as [|x l IH]; cbn; [reflexivity|]. rewrite flat_map_app, IH. reflexivity.
Qed.

Lemma collect_table : forall c, exists ss,
  collect ExtMetrics.const_metrics c = Some ss /\
  Permutation ss (flat_map (fun m => samples_of m c) all_metrics).
Proof.
  intro c. eexists. split; [apply collect_ok, table_ok|].
  rewrite flat_map_comp. apply Permutation_flat_map. apply table_perm.
Qed.

(* ---- per-option view of the option metrics *)

(* the samples which metric [m] contributes for option [o] on interface [n] *)
Definition h (m : metric) (n : N) (o : opt) : list sample :=
  match m, o with
  | MDnssl, ODNSSL l names => [(metric_name MDnssl, [lbl_if n; ("domains"%string, LIds names)], l)]
  | MPfxAutonomous, OPrefix bits _ au _ _ a => [(metric_name MPfxAutonomous, [lbl_if n; ("prefix"%string, LCidr a bits)], bool_val au)]
  | MPfxOnLink, OPrefix bits ol _ _ _ a => [(metric_name MPfxOnLink, [lbl_if n; ("prefix"%string, LCidr a bits)], bool_val ol)]
  | MPfxValid, OPrefix bits _ _ v _ a => [(metric_name MPfxValid, [lbl_if n; ("prefix"%string, LCidr a bits)], v)]
  | MPfxPreferred, OPrefix bits _ _ _ p a => [(metric_name MPfxPreferred, [lbl_if n; ("prefix"%string, LCidr a bits)], p)]
  | MRdnss, ORDNSS l servers => [(metric_name MRdnss, [lbl_if n; ("servers"%string, LAddrs servers)], l)]
  | MRoute, ORoute bits _ l a => [(metric_name MRoute, [lbl_if n; ("route"%string, LCidr a bits)], l)]
  | _, _ => []
  end.

Definition is_opt_metric (m : metric) : bool :=
  match m with MDnssl | MPfxAutonomous | MPfxOnLink | MPfxValid | MPfxPreferred | MRdnss | MRoute => true | _ => false end.

Lemma samples_of_opt : forall m c, is_opt_metric m = true ->
  samples_of m c = flat_map (h m (x_name c)) (ctx_opts c).
Proof.
  intros m c Hm. unfold samples_of.
  destruct m; try discriminate; cbn [calls];
    unfold pick_dnssl, pick_prefix, pick_rdnss, pick_route;
    rewrite map_flat_map2; apply flat_map_ext; intro o; destruct o; reflexivity.
Qed.

Lemma opt_samples_split : forall n o,
  opt_samples n o = h MDnssl n o ++ h MPfxAutonomous n o ++ h MPfxOnLink n o ++ h MPfxValid n o ++
                    h MPfxPreferred n o ++ h MRdnss n o ++ h MRoute n o.
Proof. intros n o. destruct o; reflexivity. Qed.

Lemma opt_metrics_perm : forall n os,
  Permutation (flat_map (h MDnssl n) os ++ flat_map (h MPfxAutonomous n) os ++ flat_map (h MPfxOnLink n) os ++
               flat_map (h MPfxValid n) os ++ flat_map (h MPfxPreferred n) os ++ flat_map (h MRdnss n) os ++
               flat_map (h MRoute n) os)
              (flat_map (opt_samples n) os).
Proof.
  intros n os.
  rewrite (flat_map_ext _ _ (opt_samples_split n)).
  repeat (etransitivity; [| apply flat_map_app_perm]; apply Permutation_app_head).
  reflexivity.
Qed.

(* ---- one interface *)

Lemma iface_perm : forall n adv auto fwd mon r ms,
  ms = [] \/ ms = [InterfaceNotForwarding] ->
  Permutation (flat_map (fun m => samples_of m (mkCtx n adv auto fwd mon r ms)) all_metrics)
              (spec_samples n adv mon auto fwd r (match ms with [] => false | _ => true end)).
Proof.
  intros n adv auto fwd mon r ms Hms. unfold all_metrics. cbn [flat_map]. rewrite app_nil_r.
  rewrite (samples_of_opt MDnssl), (samples_of_opt MPfxAutonomous), (samples_of_opt MPfxOnLink),
    (samples_of_opt MPfxValid), (samples_of_opt MPfxPreferred), (samples_of_opt MRdnss), (samples_of_opt MRoute)
    by reflexivity.
  cbn [x_name ctx_opts x_ra].
  unfold spec_samples, samples_of.
  cbn [calls x_name x_adv x_auto x_fwd x_mon x_ms map mk label_names combine fst snd app].
  do 4 apply perm_skip.
  destruct Hms; subst ms; cbn [map mk combine fst snd app label_names]; [|apply perm_skip]; apply opt_metrics_perm.
Qed.

Lemma finalize_ms : forall fwd r, snd (finalize fwd r) = [] \/ snd (finalize fwd r) = [InterfaceNotForwarding].
Proof. intros. unfold finalize. destruct ((0 <? ra_lifetime r) && negb fwd); cbn; auto. Qed.

(* ---- the whole scrape *)

Lemma scrape_from_acc : forall regs ifs acc,
  scrape_from regs ifs acc =
  match scrape_from regs ifs [] with
  | Done l => Done (acc ++ l) | Failed l => Failed (acc ++ l) | Panic => Panic
  end.
Proof.
  induction ifs as [|i tl IH]; intro acc; cbn [scrape_from].
  - rewrite app_nil_r. reflexivity.
  - destruct (i_auto i); [|rewrite app_nil_r; reflexivity].
    destruct (i_fwd i) as [fwd|]; [|rewrite app_nil_r; reflexivity].
    destruct (built i fwd) as [[r ms]|]; [|rewrite app_nil_r; reflexivity].
    destruct (misconfs_handled ms); [|reflexivity].
    destruct (collect regs _) as [ss|]; [|reflexivity].
    rewrite (IH (acc ++ ss)), (IH ([] ++ ss)). cbn [app].
    destruct (scrape_from regs tl []); try reflexivity; rewrite app_assoc; reflexivity.
Qed.

Lemma built_spec : forall i fwd r ms, built i fwd = Some (r, ms) ->
  i_fwd i = Some fwd ->
  r = sent_ra i /\ (match ms with [] => false | _ => true end) = lifetime_overridden i /\
  (ms = [] \/ ms = [InterfaceNotForwarding]).
Proof.
  intros i fwd r ms H Hf. unfold built in H. unfold sent_ra, lifetime_overridden. rewrite Hf. cbn [flag].
  destruct (i_adv i).
  - destruct (i_build i) as [b|]; [|discriminate].
    pose proof (finalize_ms fwd b) as Hm. unfold finalize in *.
    destruct ((0 <? ra_lifetime b) && negb fwd); cbn in *; inversion H; subst; auto.
  - inversion H; subst. auto.
Qed.

Theorem scrape_mirror : forall ifs l, scrape ifs = Done l -> Permutation l (flat_map iface_spec ifs).
Proof.
  unfold scrape. induction ifs as [|i tl IH]; intros l H; cbn [scrape_from] in H.
  - inversion H. constructor.
  - destruct (i_auto i) as [auto|] eqn:Ea; [|discriminate].
    destruct (i_fwd i) as [fwd|] eqn:Ef; [|discriminate].
    destruct (built i fwd) as [[r ms]|] eqn:Eb; [|discriminate].
    rewrite misconf_cases_ok in H.
    destruct (collect_table (mkCtx (i_name i) (i_adv i) auto fwd (i_mon i) r ms)) as [ss [Hc Hp]].
    rewrite Hc in H. rewrite scrape_from_acc in H. cbn [app] in H.
    destruct (scrape_from ExtMetrics.const_metrics tl []) as [l'| |] eqn:Et; try discriminate.
    inversion H; subst l. cbn [flat_map]. apply Permutation_app; [|apply IH; reflexivity].
    destruct (built_spec i fwd r ms Eb Ef) as [Hr [Ho Hms]].
    etransitivity; [exact Hp|]. unfold iface_spec. rewrite Ea, Ef, <- Hr, <- Ho. cbn [flag].
    apply iface_perm. exact Hms.
Qed.

Theorem scrape_no_panic : forall ifs, scrape ifs <> Panic.
Proof.
  unfold scrape. induction ifs as [|i tl IH]; cbn [scrape_from]; [discriminate|].
  destruct (i_auto i) as [auto|]; [|discriminate].
  destruct (i_fwd i) as [fwd|]; [|discriminate].
  destruct (built i fwd) as [[r ms]|]; [|discriminate].
  rewrite misconf_cases_ok.
  destruct (collect_table (mkCtx (i_name i) (i_adv i) auto fwd (i_mon i) r ms)) as [ss [Hc _]].
  rewrite Hc, scrape_from_acc.
  destruct (scrape_from ExtMetrics.const_metrics tl []); try discriminate. contradiction.
Qed.

(* a scrape succeeds exactly when everything it needs can be read *)
Theorem scrape_done_iff : forall ifs, (exists l, scrape ifs = Done l) <-> forallb readable ifs = true.
Proof.
  unfold scrape. induction ifs as [|i tl IH]; cbn [scrape_from forallb].
  - split; eauto.
  - unfold readable at 1, built.
    destruct (i_auto i) as [auto|]; [|split; [intros [l H]|]; discriminate].
    destruct (i_fwd i) as [fwd|]; [|split; [intros [l H]|]; discriminate].
    destruct (i_adv i); cbn [negb orb].
    + destruct (i_build i) as [b|]; cbn [is_ok andb]; [|split; [intros [l H]|]; discriminate].
      destruct (finalize fwd b) as [r' ms]. rewrite misconf_cases_ok.
      destruct (collect_table (mkCtx (i_name i) true auto fwd (i_mon i) (Some r') ms)) as [ss [Hc _]].
      rewrite Hc, scrape_from_acc.
      destruct (scrape_from ExtMetrics.const_metrics tl []) eqn:Et.
      * split; [intros _; apply IH; eauto | eauto].
      * split; [intros [l H]; discriminate | intro H; apply IH in H; destruct H; discriminate].
      * split; [intros [l H]; discriminate | intro H; apply IH in H; destruct H; discriminate].
    + rewrite misconf_cases_ok.
      destruct (collect_table (mkCtx (i_name i) false auto fwd (i_mon i) None [])) as [ss [Hc _]].
      rewrite Hc, scrape_from_acc.
      destruct (scrape_from ExtMetrics.const_metrics tl []) eqn:Et.
      * split; [intros _; apply IH; eauto | eauto].
      * split; [intros [l H]; discriminate | intro H; apply IH in H; destruct H; discriminate].
      * split; [intros [l H]; discriminate | intro H; apply IH in H; destruct H; discriminate].
Qed.

(* ---- back ends *)

Lemma dedup_last_nodup : forall l, has_dup l = false -> dedup_last l = l.
Proof.
  induction l as [|s l IH]; cbn; [reflexivity|].
  intro H. apply orb_false_iff in H. destruct H as [H1 H2]. rewrite H1, (IH H2). reflexivity.
Qed.

Theorem gather_ok_mirror : forall ifs l,
  prom_gather (scrape ifs) = GOk l -> Permutation l (flat_map iface_spec ifs) /\ has_dup l = false.
Proof.
  intros ifs l H. unfold prom_gather in H. destruct (scrape ifs) as [l'| |] eqn:E; try discriminate.
  destruct (has_dup l') eqn:Ed; [discriminate|]. inversion H; subst. split; [apply scrape_mirror; exact E | exact Ed].
Qed.

Theorem backends_when_no_duplicates : forall ifs,
  forallb readable ifs = true ->
  exists l, scrape ifs = Done l /\ Permutation l (flat_map iface_spec ifs) /\
            (has_dup l = false -> prom_gather (scrape ifs) = GOk l /\ mem_series (scrape ifs) = MOk l).
Proof.
  intros ifs H. apply scrape_done_iff in H. destruct H as [l Hl]. exists l. split; [exact Hl|].
  split; [apply scrape_mirror; exact Hl|]. intro Hd. rewrite Hl. cbn. rewrite Hd, (dedup_last_nodup _ Hd). auto.
Qed.

Theorem backends_no_panic : forall ifs, prom_gather (scrape ifs) <> GPanic /\ mem_series (scrape ifs) <> MPanic.
Proof.
  intro ifs. pose proof (scrape_no_panic ifs) as H.
  destruct (scrape ifs) as [l| |]; cbn; [destruct (has_dup l)| |contradiction]; split; discriminate.
Qed.
