(* Proofs about Model/Addresser.v (C13's rtnetlink layer) and its specification checker Corr/C13sys.v. *)
From Coq Require Import Lia.
From CR Require Import Model.Addresser.
From CR Require Import Corr.C13sys.
Local Open Scope N_scope.

Lemma addresses_failed : forall msgs, addresses_by_index msgs true = Err 1.
Proof. intros. reflexivity. Qed.

Lemma addresses_ok : forall msgs, addresses_by_index msgs false = Ok (map decode_addr msgs).
Proof. intros [|m tl]; reflexivity. Qed.

Lemma routes_failed : forall msgs, routes_by_index msgs true = Err 1.
Proof. intros. reflexivity. Qed.

Lemma routes_ok : forall msgs, routes_by_index msgs false = Ok (map decode_route msgs).
Proof. intros [|m tl]; reflexivity. Qed.

Lemma addrs_source_none : forall msgs failed, addrs_source msgs failed = None <-> failed = true.
Proof.
  intros msgs [|]; unfold addrs_source.
  - rewrite addresses_failed. split; reflexivity.
  - rewrite addresses_ok. split; discriminate.
Qed.

(* has_flag with a single-bit mask is the test of that bit *)
Lemma has_flag_bit : forall f k, has_flag f (2 ^ k) = N.testbit f k.
Proof.
  intros f k. unfold has_flag.
  destruct (N.testbit f k) eqn:T.
  - apply Bool.negb_true_iff, N.eqb_neq. intro H.
    assert (N.testbit (N.land f (2 ^ k)) k = false) by (rewrite H; apply N.bits_0).
    rewrite N.land_spec, T, N.pow2_bits_true in H0. discriminate.
  - apply Bool.negb_false_iff, N.eqb_eq. apply N.bits_inj. intro n.
    rewrite N.land_spec, N.bits_0.
    destruct (N.eq_dec n k) as [->|Hn]; [rewrite T; reflexivity|].
    rewrite N.pow2_bits_false by (intro; subst; contradiction). apply Bool.andb_false_r.
Qed.

Lemma bit_testbit : forall f k, bit f k = N.testbit f k.
Proof.
  intros f k. unfold bit. rewrite <- N.shiftr_div_pow2, <- N.bit0_mod, N.shiftr_spec by apply N.le_0_l.
  rewrite N.add_0_l. destruct (N.testbit f k); reflexivity.
Qed.

Lemma decode_addr_ok : forall m, addr_ok m (decode_addr m) = true.
Proof.
  intros m. unfold addr_ok, decode_addr.
  cbn [ip_v4 ip_addr ip_bits ip_temporary ip_deprecated ip_tentative ip_mngtmp ip_stablepriv ip_forever negb].
  rewrite !N.eqb_refl. rewrite !bit_testbit.
  change IFA_F_TEMPORARY with (2 ^ 0). change IFA_F_DEPRECATED with (2 ^ 5).
  change IFA_F_TENTATIVE with (2 ^ 6). change IFA_F_MANAGETEMPADDR with (2 ^ 8).
  change IFA_F_STABLE_PRIVACY with (2 ^ 11). rewrite !has_flag_bit.
  change valid_forever with 4294967295.
  rewrite !Bool.eqb_reflx. reflexivity.
Qed.

Lemma decode_route_ok : forall m, route_ok m (decode_route m) = true.
Proof. intros m. unfold route_ok, decode_route. cbn. rewrite !N.eqb_refl. reflexivity. Qed.

Lemma all2_map : forall {A B} (f : A -> B -> bool) (g : A -> B) l,
  (forall a, f a (g a) = true) -> all2 f l (map g l) = true.
Proof. intros A B f g l H. induction l as [|a tl IH]; [reflexivity|]. cbn. rewrite H, IH. reflexivity. Qed.

Theorem checker_accepts_addresses : forall msgs failed,
  holds (CAddrs msgs failed (addresses_by_index msgs failed)) = true.
Proof.
  intros msgs [|]; [rewrite addresses_failed; reflexivity|].
  rewrite addresses_ok. cbn [holds negb andb]. apply all2_map, decode_addr_ok.
Qed.

Theorem checker_accepts_routes : forall msgs failed,
  holds (CRoutes msgs failed (routes_by_index msgs failed)) = true.
Proof.
  intros msgs [|]; [rewrite routes_failed; reflexivity|].
  rewrite routes_ok. cbn [holds negb andb]. apply all2_map, decode_route_ok.
Qed.
