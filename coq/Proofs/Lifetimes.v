From CR Require Import Model.Lifetimes.
From Coq Require Import Lia.
Local Open Scope Z_scope.

Lemma remaining_spec epoch L now : remaining epoch L now = Z.max 0 (epoch + L - now).
Proof.
  unfold remaining. destruct (Z.eqb_spec now (epoch + L)) as [He|He]; cbn [orb].
  - lia.
  - destruct (Z.ltb_spec (epoch + L) now) as [Hl|Hl]; lia.
Qed.

Lemma remaining_nonneg epoch L now : 0 <= remaining epoch L now.
Proof. rewrite remaining_spec. lia. Qed.

Lemma remaining_zero_after epoch L now : epoch + L <= now -> remaining epoch L now = 0.
Proof. rewrite remaining_spec. lia. Qed.

Lemma remaining_pos_before epoch L now : now < epoch + L -> remaining epoch L now = epoch + L - now.
Proof. rewrite remaining_spec. lia. Qed.

Lemma remaining_mono epoch L now now' : now <= now' -> remaining epoch L now' <= remaining epoch L now.
Proof. rewrite !remaining_spec. lia. Qed.

Lemma remaining_le epoch L L' now : L <= L' -> remaining epoch L now <= remaining epoch L' now.
Proof. rewrite !remaining_spec. lia. Qed.

(* along any non-decreasing clock sequence the advertised values never increase *)
Inductive nondecreasing : list Z -> Prop :=
| nd_nil : nondecreasing []
| nd_one x : nondecreasing [x]
| nd_cons x y l : x <= y -> nondecreasing (y :: l) -> nondecreasing (x :: y :: l).
Inductive nonincreasing : list Z -> Prop :=
| ni_nil : nonincreasing []
| ni_one x : nonincreasing [x]
| ni_cons x y l : y <= x -> nonincreasing (y :: l) -> nonincreasing (x :: y :: l).

Lemma remaining_sequence epoch L nows :
  nondecreasing nows -> nonincreasing (map (remaining epoch L) nows).
Proof.
  induction 1 as [|x|x y l Hxy Hnd IH]; cbn [map]; try constructor.
  - apply remaining_mono; exact Hxy.
  - exact IH.
Qed.

Lemma prefix_pref_le_valid dep epoch valid preferred now :
  preferred <= valid ->
  snd (prefix_lifetimes dep epoch valid preferred now) <= fst (prefix_lifetimes dep epoch valid preferred now).
Proof.
  intros H. unfold prefix_lifetimes. destruct dep; cbn [fst snd]; [apply remaining_le|]; exact H.
Qed.
