(* Vocabulary in which the C19 theorems are stated (definitions only): what one subscriber
   sees of a history, and the 8-slot bookkeeping of the property text. *)
From CR Require Import Model.Watcher.
Local Open Scope nat_scope.

(* what happens to ONE subscriber: a change it asked for arrives / it takes up to n changes out *)
Inductive pev := PArr (c : N) | PTake (n : nat).

(* the changes of one notify call that occurred on [iface] and intersect [mask], in order *)
Definition rel_changes (iface mask : N) (changed : list (N * list N)) : list N :=
  flat_map (fun kv => if N.eqb iface (fst kv)
                      then filter (fun c => negb (N.eqb (N.land mask c) 0)) (snd kv)
                      else []) changed.

Definition project1 (i : nat) (iface mask : N) (e : event) : list pev :=
  match e with
  | Notify changed => map PArr (rel_changes iface mask changed)
  | Drain j n => if Nat.eqb j i then [PTake n] else []
  | _ => []
  end.

(* the history as subscriber number i (on iface, with mask) experiences it *)
Definition project (i : nat) (iface mask : N) (evs : list event) : list pev :=
  flat_map (project1 i iface mask) evs.

(* every arriving change, paired with the number of changes waiting in the subscriber's buffer
   at that instant; the buffer takes a change when fewer than 8 are waiting *)
Fixpoint annotate (occ : nat) (pevs : list pev) : list (N * nat) :=
  match pevs with
  | [] => []
  | PArr c :: r => (c, occ) :: annotate (if Nat.ltb occ 8 then S occ else occ) r
  | PTake n :: r => annotate (occ - n) r
  end.

Definition arrivals (i : nat) (iface mask : N) (evs : list event) : list (N * nat) :=
  annotate 0 (project i iface mask evs).

(* ... minus those that arrived while the buffer held 8 *)
Definition kept (l : list (N * nat)) : list N :=
  map fst (filter (fun p => Nat.ltb (snd p) 8) l).

(* all changes on the subscriber's interface that intersect its mask, in order of occurrence *)
Definition relevant (iface mask : N) (evs : list event) : list N :=
  flat_map (fun e => match e with Notify changed => rel_changes iface mask changed | _ => [] end) evs.

Definition count_subscribe (evs : list event) : nat :=
  length (filter (fun e => match e with Subscribe _ _ => true | _ => false end) evs).

(* order-preserving sub-sequence *)
Inductive subseq {A} : list A -> list A -> Prop :=
| sub_nil : subseq [] []
| sub_take : forall a l1 l2, subseq l1 l2 -> subseq (a :: l1) (a :: l2)
| sub_skip : forall a l1 l2, subseq l1 l2 -> subseq l1 (a :: l2).

(* the bounded FIFO one subscriber's channel is *)
Definition fifo_step (qd : list N * list N) (p : pev) : list N * list N :=
  match p with
  | PArr c => if Nat.ltb (length (fst qd)) 8 then (fst qd ++ [c], snd qd) else qd
  | PTake n => (skipn n (fst qd), snd qd ++ firstn n (fst qd))
  end.

Definition fifo_run (pevs : list pev) (qd : list N * list N) : list N * list N :=
  fold_left fifo_step pevs qd.

Definition all_open (ss : list sub) : Prop :=
  Forall (fun s => s_closed s = false /\ s_closes s = 0%nat) ss.

(* subscriptions number < k: closed, by exactly one close(); the others: never closed *)
Definition closed_upto (k : nat) (ss : list sub) : Prop :=
  forall i s, nth_error ss i = Some s ->
    if Nat.ltb i k then s_closed s = true /\ s_closes s = 1%nat
    else s_closed s = false /\ s_closes s = 0%nat.
