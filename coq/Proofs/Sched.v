From CR Require Import Model.Sched Base.IP gen.ExtAdvertise.
From Coq Require Import Lia ZifyBool.
Local Open Scope Z_scope.

Lemma minDelay_is : minDelayBetweenRAs = 3 * sec.  Proof. reflexivity. Qed.
Lemma maxRADelay_is : maxRADelay = 500 * ms.  Proof. reflexivity. Qed.
Ltac slia := unfold sec, ms in *; lia.
Lemma sec_pos : 0 < sec.  Proof. reflexivity. Qed.
Lemma ms_pos : 0 < ms.  Proof. reflexivity. Qed.
Lemma all_nodes_multi : is_multicast all_nodes = true.  Proof. reflexivity. Qed.

(* histories: non-decreasing instants, not before the (re)initialisation instant *)
Fixpoint hist_ok (tprev : Z) (h : list (Z * request)) : Prop :=
  match h with
  | [] => True
  | (t, q) :: h' => tprev <= t /\
      match q with ReqUni dst r => is_multicast dst = false /\ 0 <= r < 500 * ms | ReqMulti => True end /\
      hist_ok t h'
  end.

(* consecutive elements at least d apart, all >= lo *)
Fixpoint spaced (d lo : Z) (l : list Z) : Prop :=
  match l with
  | [] => True
  | x :: l' => lo <= x /\ spaced d (x + d) l'
  end.

Lemma spaced_weaken d lo lo' l : lo' <= lo -> spaced d lo l -> spaced d lo' l.
Proof. destruct l; cbn; [auto|]. intros ? [? ?]; split; [lia|assumption]. Qed.

Lemma multi_times_app a b : multi_times (a ++ b) = multi_times a ++ multi_times b.
Proof. unfold multi_times. now rewrite filter_app, map_app. Qed.

Lemma multi_times_step last t q :
  match q with ReqUni dst r => is_multicast dst = false | ReqMulti => True end ->
  multi_times (snd (sched_step last t q)) =
  match q with
  | ReqUni _ _ => []
  | ReqMulti => if t <? last then [] else [Z.max t (last + minDelayBetweenRAs)]
  end.
Proof.
  destruct q as [|dst r]; cbn [sched_step]; intros H.
  - destruct (t <? last); cbn [snd]; [reflexivity|]. unfold multi_times, is_multi; cbn [filter map fst snd].
    now rewrite all_nodes_multi.
  - unfold multi_times, is_multi; cbn [filter map fst snd]. now rewrite H.
Qed.

(* Invariant: last <= tprev + 3s (a pending multicast RA is never more than 3 s away).
   Conclusion: the multicast instants produced from here on are >= last + 3s, 3 s apart. *)
Lemma sched_spaced h : forall last tprev,
  hist_ok tprev h -> last <= tprev + 3 * sec ->
  spaced (3 * sec) (last + 3 * sec) (multi_times (sched last h)).
Proof.
  pose proof sec_pos as Hsec.
  induction h as [|[t q] h IH]; intros last tprev Hh Hl; cbn [sched]; [exact I|].
  destruct Hh as (Ht & Hq & Hh).
  destruct (sched_step last t q) as [last' out] eqn:E.
  rewrite multi_times_app.
  assert (Hm := multi_times_step last t q). rewrite E in Hm. cbn [snd] in Hm.
  destruct q as [|dst r].
  - cbn [sched_step] in E. rewrite Hm by exact I. rewrite minDelay_is in *.
    destruct (Z.ltb_spec t last).
    + injection E as <- <-. cbn [app]. eapply IH; [exact Hh|slia].
    + injection E as <- <-. cbn [app spaced]. split; [slia|].
      eapply IH; [exact Hh|slia].
  - cbn [sched_step] in E. injection E as <- <-. rewrite Hm by tauto. cbn [app].
    eapply IH; [exact Hh|slia].
Qed.

(* every multicast trigger is served by a multicast RA within 3 s *)
Lemma sched_served h : forall last tprev t,
  hist_ok tprev h -> last <= tprev + 3 * sec -> In (t, ReqMulti) h ->
  (t < last /\ last <= t + 3 * sec) \/
  exists s, In s (multi_times (sched last h)) /\ t <= s <= t + 3 * sec.
Proof.
  pose proof sec_pos as Hsec. pose proof ms_pos as Hms.
  induction h as [|[t' q] h IH]; intros last tprev t Hh Hl Hin; [destruct Hin|].
  destruct Hh as (Ht & Hq & Hh). cbn [sched].
  destruct (sched_step last t' q) as [last' out] eqn:E. rewrite multi_times_app.
  assert (Hm := multi_times_step last t' q). rewrite E in Hm. cbn [snd] in Hm.
  destruct Hin as [Heq|Hin].
  - injection Heq as -> ->. cbn [sched_step] in E. rewrite Hm by exact I. rewrite minDelay_is in *.
    destruct (Z.ltb_spec t last).
    + left. slia.
    + right. exists (Z.max t (last + 3 * sec)). split; [apply in_or_app; left; left; reflexivity|slia].
  - assert (Hl' : last' <= t' + 3 * sec).
    { destruct q as [|dst r]; cbn [sched_step] in E; rewrite ?minDelay_is in E.
      - destruct (Z.ltb_spec t' last); injection E as <- <-; slia.
      - injection E as <- <-. slia. }
    destruct (IH last' t' t Hh Hl' Hin) as [[H1 H2]|[s [Hs Hr]]].
    + (* served by the RA pending at last': it is either the one scheduled at this step or an earlier pending one *)
      destruct q as [|dst r]; cbn [sched_step] in E; rewrite ?minDelay_is in E.
      * destruct (Z.ltb_spec t' last).
        -- injection E as <- <-. left. slia.
        -- injection E as <- <-. right. exists (Z.max t' (last + 3 * sec)).
           split; [rewrite Hm by exact I; rewrite minDelay_is; destruct (Z.ltb_spec t' last); [slia|]; apply in_or_app; left; left; reflexivity|slia].
      * injection E as <- <-. left. slia.
    + right. exists s. split; [apply in_or_app; right; exact Hs|exact Hr].
Qed.

(* ---- unicast conservation *)
Definition rs_times (a : N) (h : list (Z * request)) : list (Z * Z) :=
  flat_map (fun tq => match snd tq with
                      | ReqUni dst r => if N.eqb dst a then [(fst tq, r)] else []
                      | ReqMulti => [] end) h.

Lemma uni_to_app a x y : uni_to a (x ++ y) = uni_to a x ++ uni_to a y.
Proof. unfold uni_to. now rewrite filter_app, map_app. Qed.

Lemma sched_unicast a h : is_multicast a = false -> forall last,
  uni_to a (sched last h) = map (fun tr => fst tr + snd tr) (rs_times a h).
Proof.
  intros Ha. induction h as [|[t q] h IH]; intros last; [reflexivity|].
  cbn [sched]. destruct (sched_step last t q) as [last' out] eqn:E. rewrite uni_to_app, IH.
  destruct q as [|dst r]; cbn [sched_step] in E.
  - destruct (t <? last); injection E as <- <-; cbn [rs_times flat_map snd app]; [reflexivity|].
    unfold uni_to; cbn [filter map fst snd app]. destruct (N.eqb_spec all_nodes a) as [<-|]; [now rewrite all_nodes_multi in Ha|reflexivity].
  - injection E as <- <-. cbn [rs_times flat_map snd fst]. unfold uni_to at 1; cbn [filter map fst snd].
    destruct (N.eqb_spec dst a); cbn [map app fst snd]; reflexivity.
Qed.

(* every destination is all-nodes or the source of some solicitation *)
Lemma sched_dest h : forall last s, In s (sched last h) ->
  snd s = all_nodes \/ exists t r, In (t, ReqUni (snd s) r) h.
Proof.
  induction h as [|[t q] h IH]; intros last s Hin; [destruct Hin|].
  cbn [sched] in Hin. destruct (sched_step last t q) as [last' out] eqn:E.
  apply in_app_or in Hin. destruct Hin as [Hin|Hin].
  - destruct q as [|dst r]; cbn [sched_step] in E.
    + destruct (t <? last); injection E as <- <-; [destruct Hin|].
      destruct Hin as [<-|[]]. left; reflexivity.
    + injection E as <- <-. destruct Hin as [<-|[]]. right. exists t, r. left; reflexivity.
  - destruct (IH _ _ Hin) as [?|(t' & r' & H)]; [left; assumption|right; exists t', r'; right; exact H].
Qed.

Lemma transmitted_unicast_only l s : In s (transmitted true l) -> is_multicast (snd s) = false.
Proof. unfold transmitted. rewrite filter_In. unfold is_multi. intros [_ H]. now destruct (is_multicast (snd s)). Qed.

(* ---- statements about the whole run *)
Lemma hist_ok_ge h : forall tprev t q, hist_ok tprev h -> In (t, q) h -> tprev <= t.
Proof.
  induction h as [|[t' q'] h IH]; intros tprev t q Hh Hin; [destruct Hin|].
  destruct Hh as (Ht & _ & Hh). destruct Hin as [Heq|Hin].
  - injection Heq as -> ->. exact Ht.
  - specialize (IH _ _ _ Hh Hin). lia.
Qed.

Lemma run_multi_times t0 h : multi_times (run_sends false t0 h) = t0 :: multi_times (sched t0 h).
Proof.
  unfold run_sends, transmitted, multi_times, is_multi. cbn [filter map fst snd].
  now rewrite all_nodes_multi.
Qed.

Lemma run_spaced t0 h : hist_ok t0 h -> spaced (3 * sec) t0 (multi_times (run_sends false t0 h)).
Proof.
  intros Hh. rewrite run_multi_times. cbn [spaced]. split; [lia|].
  apply (sched_spaced h t0 t0 Hh). pose proof sec_pos. lia.
Qed.

Lemma run_served t0 h t : hist_ok t0 h -> In (t, ReqMulti) h ->
  exists s, In s (multi_times (run_sends false t0 h)) /\ t <= s <= t + 3 * sec.
Proof.
  intros Hh Hin. pose proof sec_pos.
  destruct (sched_served h t0 t0 t Hh ltac:(lia) Hin) as [[H1 _]|[s [Hs Hr]]].
  - pose proof (hist_ok_ge _ _ _ _ Hh Hin). lia.
  - exists s. rewrite run_multi_times. split; [right; exact Hs|exact Hr].
Qed.

Lemma run_unicast uo a t0 h : is_multicast a = false ->
  uni_to a (run_sends uo t0 h) = map (fun tr => fst tr + snd tr) (rs_times a h).
Proof.
  intros Ha. rewrite <- (sched_unicast a h Ha t0). unfold run_sends, transmitted, uni_to.
  assert (Hf : forall l, filter (fun s => N.eqb (snd s) a) (filter (fun s => negb (is_multi s)) l)
                        = filter (fun s => N.eqb (snd s) a) l).
  { induction l as [|s l IH]; [reflexivity|]. cbn [filter]. unfold is_multi at 1.
    destruct (is_multicast (snd s)) eqn:Em; cbn [negb].
    - destruct (N.eqb_spec (snd s) a) as [E|]; [rewrite E, Ha in Em; discriminate|exact IH].
    - cbn [filter]. now rewrite IH. }
  assert (Hh : filter (fun s => N.eqb (snd s) a) ((t0, all_nodes) :: sched t0 h)
             = filter (fun s => N.eqb (snd s) a) (sched t0 h)).
  { cbn [filter snd]. destruct (N.eqb_spec all_nodes a) as [<-|]; [now rewrite all_nodes_multi in Ha|reflexivity]. }
  destruct uo; [rewrite Hf|]; now rewrite Hh.
Qed.

Lemma rs_times_delay a h tprev : hist_ok tprev h ->
  Forall (fun tr => 0 <= snd tr < 500 * ms) (rs_times a h).
Proof.
  revert tprev; induction h as [|[t q] h IH]; intros tprev Hh; [constructor|].
  destruct Hh as (_ & Hq & Hh). cbn [rs_times flat_map snd fst].
  apply Forall_app. split; [|exact (IH _ Hh)].
  destruct q as [|dst r]; [constructor|]. destruct (N.eqb dst a); constructor; [exact (proj2 Hq)|constructor].
Qed.

Lemma run_dest uo t0 h s : In s (run_sends uo t0 h) ->
  snd s = all_nodes \/ exists t r, In (t, ReqUni (snd s) r) h.
Proof.
  unfold run_sends, transmitted. intros Hin.
  assert (Hin' : In s ((t0, all_nodes) :: sched t0 h)).
  { destruct uo; [apply filter_In in Hin; tauto|exact Hin]. }
  destruct Hin' as [<-|Hin']; [left; reflexivity|]. exact (sched_dest h t0 s Hin').
Qed.

(* nothing else: every all-nodes RA the scheduler emits answers a multicast trigger of the last 3 s *)
Lemma sched_justified h : forall last tprev s, hist_ok tprev h -> In s (multi_times (sched last h)) ->
  exists t, In (t, ReqMulti) h /\ t <= s <= t + 3 * sec.
Proof.
  pose proof sec_pos as Hsec.
  induction h as [|[t q] h IH]; intros last tprev s Hh Hin; [destruct Hin|].
  destruct Hh as (Ht & Hq & Hh).
  cbn [sched] in Hin. destruct (sched_step last t q) as [last' out] eqn:E.
  rewrite multi_times_app in Hin. apply in_app_or in Hin. destruct Hin as [Hin|Hin].
  - assert (Hm := multi_times_step last t q). rewrite E in Hm. cbn [snd] in Hm.
    destruct q as [|dst r].
    + rewrite Hm in Hin by exact I. rewrite minDelay_is in Hin.
      destruct (Z.ltb_spec t last); [destruct Hin|]. destruct Hin as [<-|[]].
      exists t. split; [left; reflexivity|slia].
    + rewrite Hm in Hin by tauto. destruct Hin.
  - destruct (IH last' t s Hh Hin) as (t' & Ht' & Hr). exists t'. split; [right; exact Ht'|exact Hr].
Qed.

Lemma run_justified t0 h s : hist_ok t0 h -> In s (multi_times (run_sends false t0 h)) ->
  s = t0 \/ exists t, In (t, ReqMulti) h /\ t <= s <= t + 3 * sec.
Proof.
  intros Hh Hin. rewrite run_multi_times in Hin. destruct Hin as [<-|Hin]; [left; reflexivity|].
  right. exact (sched_justified h t0 t0 s Hh Hin).
Qed.
