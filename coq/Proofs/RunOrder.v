From CR Require Import Model.Group Model.RunOrder Proofs.Group gen.ExtGroup.
From Coq Require Import Lia Arith.
Local Open Scope nat_scope.

Lemma extracted_order_true : extracted_order = mkO true true.
Proof. reflexivity. Qed.

Definition gT := mkG true true true true true true.
Definition oT := mkO true true.

Inductive rreach (o : order) (g : guards) : rst -> Prop :=
| rr_init : rreach o g rinit
| rr_step r r' : rreach o g r -> In r' (rsteps o g r) -> rreach o g r'.

Definition rinv (r : rst) : Prop :=
  inv (grp r) /\ (ph r <> PGroup -> all_done (grp r) = true /\ gc (grp r) = true).

Lemma in_lift p l r : In r (lift p l) -> exists s, In s l /\ r = mkR s p.
Proof. unfold lift. rewrite in_map_iff. intros (s & <- & H). exists s; auto. Qed.

Lemma gc_mono s s' : In s' (steps gT s) -> inv s -> all_done s = true -> gc s = true -> gc s' = true.
Proof.
  intros Hin Hi Hd Hg.
  (* from an all-done state the only steps left are a timer refusing to start a worker and the
     interrupt goroutine; neither clears gc *)
  unfold all_done in Hd. destruct Hi as (I1 & I2 & _ & _).
  destruct (S s) eqn:ES; try discriminate. destruct (M s) eqn:EM; try discriminate.
  destruct (L s) eqn:EL; try discriminate. destruct (W s) eqn:EW; try discriminate.
  destruct (I2 eq_refl) as [Hk1 Hk2]. destruct (I1 ltac:(discriminate)) as [Hst _].
  unfold steps, internal, env, steps_S, steps_K, steps_M, steps_L, steps_W, steps_I in Hin.
  rewrite ES, EM, EL, EW, Hk1, Hk2, Hst in Hin. cbn [app when Nat.ltb Nat.leb andb] in Hin.
  repeat (apply in_app_or in Hin; destruct Hin as [Hin|Hin]); try (destruct Hin; fail).
  - destruct (pending s); cbn [when] in Hin; [destruct Hin|]. destruct Hin as [<-|[]]. exact Hg.
  - destruct (I s); [|destruct Hin]. destruct (lctx s); cbn [when] in Hin; [|destruct Hin]. destruct Hin as [<-|[]]. exact Hg.
Qed.

Lemma rinv_step r r' : rinv r -> In r' (rsteps oT gT r) -> rinv r'.
Proof.
  intros [Hi Hp] Hin. unfold rsteps in Hin. apply in_app_or in Hin. destruct Hin as [Hin|Hin].
  - apply in_lift in Hin. destruct Hin as (s & Hs & ->). split; cbn [grp ph].
    + exact (inv_step _ _ Hi Hs).
    + intro Hn. destruct (Hp Hn) as [Hd Hg]. split.
      * exact (proj2 (proj2 (proj2 (proj2 (proj2 (done_quiet _ Hi Hd)))) s Hs)).
      * exact (gc_mono _ _ Hs Hi Hd Hg).
  - destruct (ph r) eqn:E.
    + cbn [oT o_wait o_after andb negb orb] in Hin.
      destruct (gc (grp r)) eqn:Hg; cbn [andb rwhen] in Hin; [|destruct Hin].
      destruct (all_done (grp r)) eqn:Hd; cbn [rwhen] in Hin; [|destruct Hin].
      destruct Hin as [<-|[]]. split; cbn [grp ph]; [exact Hi|]. intros _. split; [exact Hd|exact Hg].
    + destruct Hin as [<-|[]]. split; cbn [grp ph]; [exact Hi|]. intros _. apply Hp. discriminate.
    + destruct Hin.
Qed.

Lemma rreach_inv r : rreach oT gT r -> rinv r.
Proof.
  induction 1 as [|r r' _ IH Hin].
  - split; [exact inv_init|]. intro H; exfalso; apply H; reflexivity.
  - exact (rinv_step r r' IH Hin).
Qed.

(* while the final RA is being transmitted, and ever after, nothing else is: no worker is inside
   WriteTo, none is about to report, no worker can start, the listener has returned *)
Lemma final_alone r : rreach oT gT r -> ph r <> PGroup ->
  all_done (grp r) = true /\ kw (grp r) = 0 /\ ke (grp r) = 0 /\ stopped (grp r) = true /\ L (grp r) = Ldone /\
  forall r', In r' (rsteps oT gT r) -> kw (grp r') = 0.
Proof.
  intros Hr Hp. destruct (rreach_inv r Hr) as [Hi Hq]. destruct (Hq Hp) as [Hd _].
  destruct (done_quiet _ Hi Hd) as (H1 & H2 & H3 & H4 & H5).
  repeat split; try assumption.
  intros r' Hin. unfold rsteps in Hin. apply in_app_or in Hin. destruct Hin as [Hin|Hin].
  - apply in_lift in Hin. destruct Hin as (s & Hs & ->). exact (proj1 (H5 s Hs)).
  - destruct (ph r); [exfalso; apply Hp; reflexivity| |destruct Hin]. destruct Hin as [<-|[]]. exact H1.
Qed.

(* the final RA begins only after the cancellation *)
Lemma final_after_cancel r : rreach oT gT r -> ph r <> PGroup -> gc (grp r) = true.
Proof. intros Hr Hp. exact (proj2 (proj2 (rreach_inv r Hr) Hp)). Qed.

(* ---- what the orderings and the scheduler's wait are needed for *)
Fixpoint rrun (o : order) (g : guards) (r : rst) (choices : list nat) : option rst :=
  match choices with
  | [] => Some r
  | c :: cs => match nth_error (rsteps o g r) c with Some r' => rrun o g r' cs | None => None end
  end.

Lemma rrun_reach o g cs : forall r r', rreach o g r -> rrun o g r cs = Some r' -> rreach o g r'.
Proof.
  induction cs as [|c cs IH]; intros r r' Hr H; cbn [rrun] in H.
  - injection H as <-. exact Hr.
  - destruct (nth_error (rsteps o g r) c) as [r1|] eqn:E; [|discriminate].
    apply (IH r1); [|exact H]. eapply rr_step; [exact Hr|]. eapply nth_error_In; exact E.
Qed.

Definition overtaken (r : rst) : bool :=
  match ph r with PFinal => 0 <? kw (grp r) | _ => false end.

Definition find_overtaken (o : order) (g : guards) (cs : list nat) : bool :=
  match rrun o g rinit cs with Some r => overtaken r | None => false end.

(* the repaired defect 224e990 (in-flight send workers outlive the scheduler): when the scheduler
   does not wait for its workers the group returns with a transmission in flight and the final RA
   overtakes it *)
Lemma legacy_no_wait_overtaken :
  find_overtaken oT (mkG true true true false true true) [1; 1; 1; 0; 0; 4; 0; 0; 2; 1; 1; 1; 1; 2] = true.
Proof. vm_compute. reflexivity. Qed.

(* either ordering of Run missing: the final RA can begin while a worker is inside WriteTo *)
Lemma order_needed_wait : find_overtaken (mkO false true) gT [1; 1; 1; 0; 0; 4; 7] = true.
Proof. vm_compute. reflexivity. Qed.
Lemma order_needed_after : find_overtaken (mkO true false) gT [1; 1; 1; 0; 0; 4; 7] = true.
Proof. vm_compute. reflexivity. Qed.

Lemma overtaken_reach o g cs : find_overtaken o g cs = true ->
  exists r, rreach o g r /\ ph r = PFinal /\ 0 < kw (grp r).
Proof.
  unfold find_overtaken. destruct (rrun o g rinit cs) as [r|] eqn:E; [|discriminate].
  intro H. exists r. split; [exact (rrun_reach o g cs rinit r (rr_init o g) E)|].
  unfold overtaken in H. destruct (ph r); try discriminate. split; [reflexivity|]. apply Nat.ltb_lt. exact H.
Qed.

(* ---- Run returns: from every reachable state after the cancellation, every execution is finite
   (bounded by the group's measure plus the two steps of Run itself) and cannot stop before Run has
   returned: there is always a step to take until then *)
Definition phase_rank (p : phase) : nat := match p with PGroup => 2 | PFinal => 1 | PReturned => 0 end.

Inductive rpath : rst -> list rst -> Prop :=
| rp_nil r : rpath r []
| rp_cons r r' l : In r' (rsteps oT gT r) -> rpath r' l -> rpath r (r' :: l).

Lemma rstep_ok r r' : rinv r -> gc (grp r) = true -> In r' (rsteps oT gT r) ->
  rinv r' /\ gc (grp r') = true /\
  measure (grp r') + phase_rank (ph r') < measure (grp r) + phase_rank (ph r).
Proof.
  intros Hi Hg Hin. split; [exact (rinv_step r r' Hi Hin)|].
  unfold rsteps in Hin. apply in_app_or in Hin. destruct Hin as [Hin|Hin].
  - apply in_lift in Hin. destruct Hin as (s & Hs & ->). cbn [grp ph].
    destruct (step_ok (grp r) s (proj1 Hi) Hg Hs) as (_ & Hg' & Hlt). split; [exact Hg'|lia].
  - destruct (ph r) eqn:E.
    + cbn [oT o_wait o_after andb negb orb] in Hin. rewrite Hg in Hin. cbn [andb] in Hin.
      destruct (all_done (grp r)); cbn [rwhen] in Hin; [|destruct Hin].
      destruct Hin as [<-|[]]. cbn [grp ph phase_rank]. split; [exact Hg|lia].
    + destruct Hin as [<-|[]]. cbn [grp ph phase_rank]. split; [exact Hg|lia].
    + destruct Hin.
Qed.

Lemma rpath_bounded l : forall r, rpath r l -> rinv r -> gc (grp r) = true ->
  length l <= measure (grp r) + phase_rank (ph r).
Proof.
  induction l as [|r' l IH]; intros r Hp Hi Hg; [cbn; lia|].
  inversion Hp as [|? ? ? Hin Hp']; subst.
  destruct (rstep_ok r r' Hi Hg Hin) as (Hi' & Hg' & Hlt).
  specialize (IH r' Hp' Hi' Hg'). cbn [length]. lia.
Qed.

Lemma rprogress r : rinv r -> gc (grp r) = true -> ph r <> PReturned -> rsteps oT gT r <> [].
Proof.
  intros [Hi Hq] Hg Hp Hnil. unfold rsteps in Hnil. apply app_eq_nil in Hnil. destruct Hnil as [Hl Hr].
  destruct (ph r) eqn:E.
  - cbn [oT o_wait o_after andb negb orb] in Hr. rewrite Hg in Hr. cbn [andb] in Hr.
    destruct (all_done (grp r)) eqn:Hd; cbn [rwhen] in Hr; [discriminate|].
    (* some member has not returned: the group can move by itself *)
    apply (progress (grp r) Hi Hg Hd). unfold lift in Hl. apply map_eq_nil in Hl.
    unfold steps in Hl. apply app_eq_nil in Hl. exact (proj1 Hl).
  - discriminate.
  - apply Hp; reflexivity.
Qed.

Lemma run_returns r : rreach oT gT r -> gc (grp r) = true ->
  (forall l, rpath r l -> length l <= measure (grp r) + 2) /\
  (ph r <> PReturned -> rsteps oT gT r <> []).
Proof.
  intros Hr Hg. pose proof (rreach_inv r Hr) as Hi. split.
  - intros l Hp. pose proof (rpath_bounded l r Hp Hi Hg). destruct (ph r); cbn [phase_rank] in *; lia.
  - exact (rprogress r Hi Hg).
Qed.
