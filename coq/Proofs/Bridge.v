(* Link between the parser's guarantee (C02: cfg_wf) and what RA construction / the wire codec
   consume (C03: cfg_ok).  The two predicates were written independently; this file proves that the
   first implies the second, so that C03's theorems apply to every configuration the parser model
   accepts.  The only extra hypothesis is about string interning: C03's models read the byte length of
   a URI from its token ([str_len]), C02's only use token 0 for the empty string. *)
From CR Require Import Model.ConfigWf Model.CfgWfBuild Model.Build Model.Wire gen.ExtPlugins.
From Coq Require Import Lia ZifyBool ZifyN.
Local Open Scope Z_scope.
Ltac Zify.zify_post_hook ::= Z.to_euclidean_division_equations.

Definition captive_lens_ok (i : iface) : Prop :=
  forall u, In (PCaptive u) (if_plugins i) -> str_len u <> 0%N.

Lemma pref64_len_ok b : In b pref64_lengths -> pref64_bits_ok b = true.
Proof. unfold pref64_lengths. cbn [In]. intros H. repeat (destruct H as [<-|H]; [reflexivity|]). destruct H. Qed.

Lemma pref64_lifetime_unique mx lt :
  4 * sec <= mx <= 1800 * sec -> 3 * mx <= lt < 3 * mx + 8 * sec -> lt mod (8 * sec) = 0 ->
  lt = new_pref64_lifetime mx.
Proof.
  intros Hmx Hlt Hmod. unfold new_pref64_lifetime, pref64Factor, maxPref64Lifetime, pref64Unit, sec in *.
  destruct (Z.ltb_spec (3 * mx) 65528000000000); [|lia]. lia.
Qed.

Lemma plugin_bridge mx p : 4 * sec <= mx <= 1800 * sec -> plugin_wf mx p ->
  (match p with PCaptive u => str_len u <> 0%N | _ => True end) -> plugin_ok mx p = true.
Proof.
  intros Hmx Hwf Hcap. destruct p as [auto a b onl aut valid preferred dep|auto a b prf lt dep|auto lt servers|lt names|m| |u|v4 a b lt];
    cbn [plugin_wf plugin_ok] in *.
  - destruct Hwf as (Ha & Hb & Hm & H4 & Ha0 & Hauto & Hp & Hpv & Hv & Hdep).
    unfold dur_ok, masked_ok, infinity, sec in *. change (is4in6 a) with (addr_is_4in6 a). rewrite H4.
    assert (Hd : (if dep then (valid <? 4294967295 * 1000000000) && (preferred <? 4294967295 * 1000000000) else true) = true).
    { destruct dep; [|reflexivity]. specialize (Hdep eq_refl). lia. }
    rewrite Hd. destruct auto.
    + assert (a = 0%N) by (apply Hauto; reflexivity). subst a. rewrite (Ha0 eq_refl). cbn. lia.
    + assert (a <> 0%N) by (intros ->; destruct Hauto as [_ H]; discriminate (H eq_refl)).
      rewrite Hm, N.eqb_refl. cbn [negb andb]. lia.
  - destruct Hwf as (Ha & Hb & Hm & H4 & Ha0 & Hauto & Hl & Hli & Hdep).
    unfold dur_ok, masked_ok, infinity, sec in *.
    assert (Hd : (if dep then lt <? 4294967295 * 1000000000 else true) = true).
    { destruct dep; [|reflexivity]. specialize (Hdep eq_refl). lia. }
    rewrite Hd. destruct auto.
    + assert (a = 0%N) by (apply Hauto; reflexivity). subst a. rewrite (Ha0 eq_refl). cbn. lia.
    + rewrite Hm, N.eqb_refl. lia.
  - destruct Hwf as (Hl & _ & _ & Hne & _). unfold dur_ok, infinity, sec in *.
    destruct auto; cbn [orb]; [lia|]. destruct Hne as [?|Hne]; [discriminate|].
    destruct servers; [contradiction|]. cbn [length]. lia.
  - destruct Hwf as (Hl & Hne & _). unfold dur_ok, infinity, sec in *.
    destruct names; [contradiction|]. cbn [length]. lia.
  - lia.
  - reflexivity.
  - apply Bool.negb_true_iff. apply N.eqb_neq. exact Hcap.
  - destruct Hwf as (Hv & Ha & Hb & Hm & H4 & Hr & Hmod & Hpos). subst v4.
    rewrite (pref64_len_ok b Hb), Hm, N.eqb_refl. cbn [negb andb].
    apply Z.eqb_eq. apply pref64_lifetime_unique; assumption.
Qed.

Lemma cfg_bridge i : cfg_wf i -> if_monitor i = false -> captive_lens_ok i -> cfg_ok i = true.
Proof.
  unfold cfg_wf, cfg_ok. intros H Hm Hc. rewrite Hm in H.
  destruct H as (Hmax & Hmin & Hre & Hrt & Hhop & Hlt & Hpl).
  assert (Hf : forallb (plugin_ok (if_max i)) (if_plugins i) = true).
  { apply forallb_forall. intros p Hin. rewrite Forall_forall in Hpl.
    apply plugin_bridge; [exact Hmax|exact (Hpl p Hin)|].
    destruct p; try exact I. apply Hc. exact Hin. }
  rewrite Hf. unfold hour, sec in *. lia.
Qed.

(* ---- C02 -> C01: the parser model's plugin list is grouped by kind in the order that goextract
   reads from parsePlugins (gen/ExtPlugins.plugin_order), which is the hypothesis of C01_kind_order. *)
From CR Require Import Model.Config Spec.BuildSpec.
From Coq Require Import Sorted.
Local Open Scope N_scope.

Definition kind_is (k : N) (p : plugin) : Prop := rank_in plugin_order p = k.

Lemma bind_ok {A B} (r : result A) (f : A -> result B) b :
  bind r f = Ok b -> exists a, r = Ok a /\ f a = Ok b.
Proof. destruct r as [a|e]; cbn [bind]; [eauto|discriminate]. Qed.

Lemma mapM_forall {A} (f : A -> result plugin) (P : plugin -> Prop) :
  (forall x y, f x = Ok y -> P y) -> forall l ys, mapM f l = Ok ys -> Forall P ys.
Proof.
  intros Hf. induction l as [|x t IH]; intros ys H; cbn [mapM] in H.
  - injection H as <-. constructor.
  - apply bind_ok in H as (y & Hy & H). apply bind_ok in H as (ys' & Hys & H). injection H as <-.
    constructor; [exact (Hf x y Hy)|exact (IH ys' Hys)].
Qed.

(* peel the binds of a parser function until its final Ok *)
Ltac peel H :=
  repeat (let a := fresh "a" in let Ha := fresh "Ha" in
          apply bind_ok in H as (a & Ha & H)).

Lemma parse_prefix_kind x y : parse_prefix x = Ok y -> kind_is 0 y.
Proof.
  unfold parse_prefix. intros H. apply bind_ok in H as (o & _ & H).
  destruct (match o with Some ab => ab | None => (0, 64) end) as [a b].
  peel H. injection H as <-. reflexivity.
Qed.
Lemma parse_route_kind x y : parse_route x = Ok y -> kind_is 1 y.
Proof.
  unfold parse_route. intros H. apply bind_ok in H as (o & _ & H).
  destruct (match o with Some ab => ab | None => (0, 0) end) as [a b].
  peel H. injection H as <-. reflexivity.
Qed.
Lemma parse_rdnss_kind mx x y : parse_rdnss mx x = Ok y -> kind_is 2 y.
Proof.
  unfold parse_rdnss. intros H. apply bind_ok in H as (lt & _ & H).
  destruct (rd_servers x); [injection H as <-; reflexivity|].
  apply bind_ok in H as (r & _ & H). injection H as <-. reflexivity.
Qed.
Lemma parse_dnssl_kind mx x y : parse_dnssl mx x = Ok y -> kind_is 3 y.
Proof. unfold parse_dnssl. intros H. peel H. injection H as <-. reflexivity. Qed.
Lemma parse_pref64_kind mx x y : parse_pref64 mx x = Ok y -> kind_is 7 y.
Proof.
  unfold parse_pref64. intros H. apply bind_ok in H as (o & _ & H).
  destruct o as [[a b]|]; [|discriminate]. destruct (pref64_len_ok b); [|discriminate].
  injection H as <-. reflexivity.
Qed.

Lemma blocks_sorted : forall (ls : list (list plugin)) (k : N),
  (forall i l, nth_error ls i = Some l -> Forall (kind_is (k + N.of_nat i)) l) ->
  StronglySorted N.le (map (rank_in plugin_order) (concat ls)) /\
  Forall (fun r => k <= r) (map (rank_in plugin_order) (concat ls)).
Proof.
  induction ls as [|l ls IH]; intros k H; cbn [concat map]; [split; constructor|].
  assert (Hl : Forall (kind_is k) l).
  { specialize (H 0%nat l eq_refl). now rewrite N.add_0_r in H. }
  destruct (IH (k + 1)) as [Hs Hge].
  { intros i l' Hn. specialize (H (S i) l' Hn). rewrite Nat2N.inj_succ in H.
    now replace (k + 1 + N.of_nat i) with (k + N.succ (N.of_nat i)) by lia. }
  rewrite map_app. clear H IH. split.
  - induction Hl as [|p l Hp Hl IHl]; cbn [map app]; [exact Hs|].
    constructor; [exact IHl|]. rewrite Hp. apply Forall_app. split.
    + clear IHl. induction Hl as [|q l' Hq _ IHq]; cbn [map]; constructor; [rewrite Hq; lia|exact IHq].
    + eapply Forall_impl; [|exact Hge]. cbn. intros; lia.
  - apply Forall_app. split.
    + clear Hs Hge. induction Hl as [|p l' Hp _ IHp]; cbn [map]; constructor; [rewrite Hp; lia|exact IHp].
    + eapply Forall_impl; [|exact Hge]. cbn. intros; lia.
Qed.

Lemma parse_plugins_sorted ifi mx ps : parse_plugins ifi mx = Ok ps ->
  sorted_by (rank_in plugin_order) ps.
Proof.
  unfold parse_plugins. intros H.
  apply bind_ok in H as (prefixes & Hp & H). apply bind_ok in H as (u1 & _ & H).
  apply bind_ok in H as (routes & Hr & H). apply bind_ok in H as (u2 & _ & H).
  apply bind_ok in H as (rdnss & Hd & H). apply bind_ok in H as (dnssl & Hs & H).
  apply bind_ok in H as (u3 & _ & H). cbv zeta in H.
  apply bind_ok in H as (cp & Hc & H). apply bind_ok in H as (p64 & H6 & H). injection H as <-.
  set (mtu := if (ri_mtu ifi =? 0)%Z then [] else [PMTU (ri_mtu ifi)]).
  set (lla := match ri_source_lla ifi with Some false => [] | _ => [PLLA] end).
  unfold sorted_by.
  replace (prefixes ++ routes ++ rdnss ++ dnssl ++ mtu ++ lla ++ cp ++ p64)
    with (concat [prefixes; routes; rdnss; dnssl; mtu; lla; cp; p64]) by (cbn [concat]; now rewrite app_nil_r).
  apply (blocks_sorted _ 0). intros i l Hn.
  destruct i as [|[|[|[|[|[|[|[|i]]]]]]]]; cbn in Hn; try discriminate;
    try (injection Hn as <-; cbn [N.of_nat N.add Pos.of_succ_nat Pos.succ]).
  - exact (mapM_forall _ _ parse_prefix_kind _ _ Hp).
  - exact (mapM_forall _ _ parse_route_kind _ _ Hr).
  - exact (mapM_forall _ _ (parse_rdnss_kind mx) _ _ Hd).
  - exact (mapM_forall _ _ (parse_dnssl_kind mx) _ _ Hs).
  - unfold mtu. destruct (ri_mtu ifi =? 0)%Z; repeat constructor.
  - unfold lla. destruct (ri_source_lla ifi) as [[]|]; repeat constructor.
  - destruct (ri_captive ifi) as [| |u]; [injection Hc as <-; constructor|discriminate|].
    destruct (N.eqb u 0); [discriminate|]. injection Hc as <-. repeat constructor.
  - exact (mapM_forall _ _ (parse_pref64_kind mx) _ _ H6).
  - destruct i; discriminate.
Qed.

(* every interface the parser model returns has a plugin list grouped by kind in the extracted order *)
Lemma parse_interface_sorted ifi name i : parse_interface ifi name = Ok i ->
  sorted_by (rank_in plugin_order) (if_plugins i).
Proof.
  unfold parse_interface. intros H. apply bind_ok in H as (u & _ & H).
  destruct (ri_monitor ifi).
  - injection H as <-. constructor.
  - peel H. injection H as <-. cbn [if_plugins].
    match goal with Hp : parse_plugins _ _ = Ok _ |- _ => exact (parse_plugins_sorted _ _ _ Hp) end.
Qed.

Lemma mapM_in {A B} (f : A -> result B) (P : B -> Prop) :
  (forall x y, f x = Ok y -> P y) -> forall l ys, mapM f l = Ok ys -> Forall P ys.
Proof.
  intros Hf. induction l as [|x t IH]; intros ys H; cbn [mapM] in H.
  - injection H as <-. constructor.
  - apply bind_ok in H as (y & Hy & H). apply bind_ok in H as (ys' & Hys & H). injection H as <-.
    constructor; [exact (Hf x y Hy)|exact (IH ys' Hys)].
Qed.

Lemma parse_interfaces_sorted st ifis : parse_interfaces st = Ok ifis ->
  Forall (fun i => sorted_by (rank_in plugin_order) (if_plugins i)) ifis.
Proof.
  unfold parse_interfaces. intros H.
  destruct (negb (N.eqb (ri_name st) 0)); destruct (ri_names st); try discriminate;
    eapply mapM_in; try exact H; intros x y; apply parse_interface_sorted.
Qed.

Lemma parse_stanzas_sorted sts : forall seen acc out,
  Forall (fun i => sorted_by (rank_in plugin_order) (if_plugins i)) acc ->
  parse_stanzas sts seen acc = Ok out ->
  Forall (fun i => sorted_by (rank_in plugin_order) (if_plugins i)) out.
Proof.
  induction sts as [|st rest IH]; intros seen acc out Hacc H; cbn [parse_stanzas] in H.
  - injection H as <-. exact Hacc.
  - apply bind_ok in H as (ifis & Hi & H). apply bind_ok in H as (seen' & _ & H).
    apply (IH seen' (acc ++ ifis) out); [|exact H].
    apply Forall_app. split; [exact Hacc|exact (parse_interfaces_sorted st ifis Hi)].
Qed.

Lemma parse_sorted raw c : parse raw = Ok c ->
  Forall (fun i => sorted_by (rank_in plugin_order) (if_plugins i)) (fst c).
Proof.
  unfold parse. intros H. apply bind_ok in H as (u & _ & H). cbv zeta in H.
  apply bind_ok in H as (dbg & _ & H). apply bind_ok in H as (ifis & Hi & H). injection H as <-.
  cbn [fst]. exact (parse_stanzas_sorted _ [] [] ifis (Forall_nil _) Hi).
Qed.

(* ---- C02 -> C05: the (min,max) pair of every advertising interface the parser model accepts is
   one that C05's parse_min_interval produces, so C05's theorems apply to all accepted configurations. *)
From CR Require Model.Delay.
Local Open Scope Z_scope.

Lemma min_interval_link t mx mn : 0 <= mx -> parse_min_interval t mx = Ok mn ->
  exists e, Delay.parse_min_interval e mx = Some mn.
Proof.
  intros Hmx H. unfold parse_min_interval in H. destruct t as [| | | |d|]; try discriminate.
  1-3: exists None; unfold Delay.parse_min_interval, Delay.default_min, Delay.trunc_dur;
       destruct (9 * sec <=? mx); injection H as <-; unfold truncate_s, mul_033, sec; f_equal;
       try reflexivity; rewrite Z.rem_mod_nonneg by lia; reflexivity.
  exists (Some d). unfold Delay.parse_min_interval, Delay.trunc_dur.
  assert (E : truncate_s (mul_075 mx) = 3 * mx / 4 - (3 * mx / 4) mod sec).
  { unfold truncate_s, mul_075, sec. rewrite Z.rem_mod_nonneg by lia. reflexivity. }
  rewrite E in H. destruct ((d <? 3 * sec) || (3 * mx / 4 - (3 * mx / 4) mod sec <? d)); [discriminate|].
  injection H as <-. reflexivity.
Qed.

Definition intervals_ok (i : iface) : Prop :=
  if_monitor i = true \/
  (4 * sec <= if_max i <= 1800 * sec /\ exists e, Delay.parse_min_interval e (if_max i) = Some (if_min i)).

Lemma parse_interface_intervals ifi name i : parse_interface ifi name = Ok i -> intervals_ok i.
Proof.
  unfold parse_interface, intervals_ok. intros H. apply bind_ok in H as (u & _ & H).
  destruct (ri_monitor ifi) eqn:Em.
  - injection H as <-. left. reflexivity.
  - right. apply bind_ok in H as (mx & _ & H). apply bind_ok in H as (u2 & Hr & H).
    apply bind_ok in H as (mn & Hmn & H). peel H. injection H as <-. cbn [if_max if_min].
    unfold reject_if in Hr. destruct ((mx <? 4 * sec) || (1800 * sec <? mx)) eqn:E; [discriminate|].
    assert (Hmx : 4 * sec <= mx <= 1800 * sec) by (unfold sec in *; lia).
    split; [exact Hmx|]. apply (min_interval_link (ri_min ifi) mx mn); [unfold sec in *; lia|exact Hmn].
Qed.

Lemma parse_intervals raw c : parse raw = Ok c -> Forall intervals_ok (fst c).
Proof.
  unfold parse. intros H. apply bind_ok in H as (u & _ & H). cbv zeta in H.
  apply bind_ok in H as (dbg & _ & H). apply bind_ok in H as (ifis & Hi & H). injection H as <-. cbn [fst].
  assert (G : forall sts seen acc out, Forall intervals_ok acc -> parse_stanzas sts seen acc = Ok out -> Forall intervals_ok out).
  { induction sts as [|st rest IH]; intros seen acc out Hacc H; cbn [parse_stanzas] in H.
    - injection H as <-. exact Hacc.
    - apply bind_ok in H as (l & Hl & H). apply bind_ok in H as (seen' & _ & H).
      apply (IH seen' (acc ++ l) out); [|exact H]. apply Forall_app. split; [exact Hacc|].
      unfold parse_interfaces in Hl.
      destruct (negb (N.eqb (ri_name st) 0)); destruct (ri_names st); try discriminate;
        eapply mapM_in; try exact Hl; intros x y; apply parse_interface_intervals. }
  exact (G _ [] [] ifis (Forall_nil _) Hi).
Qed.
