(* Link between the parser's guarantee (C02: cfg_wf) and what RA construction / the wire codec
   consume (C03: cfg_ok).  The two predicates were written independently; this file proves that the
   first implies the second, so that C03's theorems apply to every configuration the parser model
   accepts.  The only extra hypothesis is about string interning: C03's models read the byte length of
   a URI from its token ([str_len]), C02's only use token 0 for the empty string. *)
From CR Require Import Model.ConfigWf Model.CfgWfBuild Model.Build Model.Wire gen.ExtPlugins.
From Coq Require Import Lia ZifyBool ZifyN.
Local Open Scope Z_scope.
Ltac Zify.zify_post_hook ::= Z.to_euclidean_division_equations.

Definition captive_lens_ok (i : iface) : Prop :=
  forall u, In (PCaptive u) (if_plugins i) -> str_len u <> 0%N.

Lemma pref64_len_ok b : In b pref64_lengths -> pref64_bits_ok b = true.
Proof. unfold pref64_lengths. cbn [In]. intros H. repeat (destruct H as [<-|H]; [reflexivity|]). destruct H. Qed.

Lemma pref64_lifetime_unique mx lt :
  4 * sec <= mx <= 1800 * sec -> 3 * mx <= lt < 3 * mx + 8 * sec -> lt mod (8 * sec) = 0 ->
  lt = new_pref64_lifetime mx.
Proof.
  intros Hmx Hlt Hmod. unfold new_pref64_lifetime, pref64Factor, maxPref64Lifetime, pref64Unit, sec in *.
  destruct (Z.ltb_spec (3 * mx) 65528000000000); [|lia]. lia.
Qed.

Lemma plugin_bridge mx p : 4 * sec <= mx <= 1800 * sec -> plugin_wf mx p ->
  (match p with PCaptive u => str_len u <> 0%N | _ => True end) -> plugin_ok mx p = true.
Proof.
  intros Hmx Hwf Hcap. destruct p as [auto a b onl aut valid preferred dep|auto a b prf lt dep|auto lt servers|lt names|m| |u|v4 a b lt];
    cbn [plugin_wf plugin_ok] in *.
  - destruct Hwf as (Ha & Hb & Hm & H4 & Ha0 & Hauto & Hp & Hpv & Hv & Hdep).
    unfold dur_ok, masked_ok, infinity, sec in *. change (is4in6 a) with (addr_is_4in6 a). rewrite H4.
    assert (Hd : (if dep then (valid <? 4294967295 * 1000000000) && (preferred <? 4294967295 * 1000000000) else true) = true).
    { destruct dep; [|reflexivity]. specialize (Hdep eq_refl). lia. }
    rewrite Hd. destruct auto.
    + assert (a = 0%N) by (apply Hauto; reflexivity). subst a. rewrite (Ha0 eq_refl). cbn. lia.
    + assert (a <> 0%N) by (intros ->; destruct Hauto as [_ H]; discriminate (H eq_refl)).
      rewrite Hm, N.eqb_refl. cbn [negb andb]. lia.
  - destruct Hwf as (Ha & Hb & Hm & H4 & Ha0 & Hauto & Hl & Hli & Hdep).
    unfold dur_ok, masked_ok, infinity, sec in *.
    assert (Hd : (if dep then lt <? 4294967295 * 1000000000 else true) = true).
    { destruct dep; [|reflexivity]. specialize (Hdep eq_refl). lia. }
    rewrite Hd. destruct auto.
    + assert (a = 0%N) by (apply Hauto; reflexivity). subst a. rewrite (Ha0 eq_refl). cbn. lia.
    + rewrite Hm, N.eqb_refl. lia.
  - destruct Hwf as (Hl & _ & _ & Hne & _). unfold dur_ok, infinity, sec in *.
    destruct auto; cbn [orb]; [lia|]. destruct Hne as [?|Hne]; [discriminate|].
    destruct servers; [contradiction|]. cbn [length]. lia.
  - destruct Hwf as (Hl & Hne & _). unfold dur_ok, infinity, sec in *.
    destruct names; [contradiction|]. cbn [length]. lia.
  - lia.
  - reflexivity.
  - apply Bool.negb_true_iff. apply N.eqb_neq. exact Hcap.
  - destruct Hwf as (Hv & Ha & Hb & Hm & H4 & Hr & Hmod & Hpos). subst v4.
    rewrite (pref64_len_ok b Hb), Hm, N.eqb_refl. cbn [negb andb].
    apply Z.eqb_eq. apply pref64_lifetime_unique; assumption.
Qed.

Lemma cfg_bridge i : cfg_wf i -> if_monitor i = false -> captive_lens_ok i -> cfg_ok i = true.
Proof.
  unfold cfg_wf, cfg_ok. intros H Hm Hc. rewrite Hm in H.
  destruct H as (Hmax & Hmin & Hre & Hrt & Hhop & Hlt & Hpl).
  assert (Hf : forallb (plugin_ok (if_max i)) (if_plugins i) = true).
  { apply forallb_forall. intros p Hin. rewrite Forall_forall in Hpl.
    apply plugin_bridge; [exact Hmax|exact (Hpl p Hin)|].
    destruct p; try exact I. apply Hc. exact Hin. }
  rewrite Hf. unfold hour, sec in *. lia.
Qed.
