(* C02 -- the parser model meets its specification:
     parse raw = Ok c  <->  Accepts_b raw = true /\ c = defaults raw
   (one lemma per parser function, composed in the order of the call graph). *)
From Coq Require Import Lia ZifyBool Btauto.
From CR Require Import Model.Config.
From CR Require Import Model.ConfigSpec.
Local Open Scope Z_scope.

(* [r] succeeds exactly when [ok] holds, and then with value [v] *)
Definition spec_res {A} (r : result A) (ok : bool) (v : A) : Prop :=
  match r with Ok x => ok = true /\ x = v | Err _ => ok = false end.

Lemma spec_res_ok {A} (r : result A) ok v x : spec_res r ok v -> r = Ok x -> ok = true /\ x = v.
Proof. intros H E. rewrite E in H. exact H. Qed.
Lemma spec_res_true {A} (r : result A) ok v : spec_res r ok v -> ok = true -> r = Ok v.
Proof. destruct r; cbn; intros H E; [destruct H as [_ ->]; reflexivity | congruence]. Qed.
Lemma spec_res_false {A} (r : result A) ok v : spec_res r ok v -> ok = false -> exists e, r = Err e.
Proof. destruct r; cbn; intros H E; [destruct H; congruence | eauto]. Qed.

Lemma mapM_spec {A B} (f : A -> result B) okb d l :
  (forall x, spec_res (f x) (okb x) (d x)) -> spec_res (mapM f l) (forallb okb l) (map d l).
Proof.
  intros H. induction l as [|x t IH]; cbn; [auto|].
  specialize (H x). destruct (f x); cbn in *.
  - destruct H as [-> ->]. destruct (mapM f t); cbn in *.
    + destruct IH as [-> ->]. auto.
    + exact IH.
  - rewrite H. reflexivity.
Qed.

Ltac case_if :=
  match goal with
  | |- context[if ?b then _ else _] => let E := fresh "E" in destruct b eqn:E
  end.
Ltac case_ifs := repeat case_if.
Ltac unfold_units := unfold infinity, hour, minute, sec, ms, us, ns in *.

(* ---------------------------------------------------------------- durations *)

Lemma parse_duration_eq t def : 0 <= def <= infinity ->
  parse_duration t def =
  match lifetime_value t def with
  | Some v => if in_range_b 0 v infinity then Ok v else Err 11%N
  | None => Err 10%N
  end.
Proof.
  intros H. unfold in_range_b. destruct t; cbn; try reflexivity; case_ifs; try reflexivity; exfalso; unfold_units; lia.
Qed.

Lemma parse_plain_duration_eq t def e :
  parse_plain_duration t def e = match interval_value t def with Some v => Ok v | None => Err e end.
Proof. destruct t; reflexivity. Qed.

Lemma truncate_s_floor d : 0 <= d -> truncate_s d = sec_floor d.
Proof.
  intros H. unfold truncate_s, sec_floor. rewrite Z.rem_mod_nonneg by (unfold sec; lia).
  pose proof (Z.div_mod d sec ltac:(unfold sec; lia)). lia.
Qed.

Lemma new_pref64_lifetime_eq mx : 0 <= mx -> new_pref64_lifetime mx = pref64_lifetime mx.
Proof.
  intros H. unfold new_pref64_lifetime, pref64_lifetime, max_pref64_lifetime.
  replace (3 * mx + 8 * sec - 1) with (3 * mx + (8 * sec - 1)) by lia.
  rewrite Z.quot_div_nonneg by (unfold sec; lia).
  unfold sec. destruct (3 * mx <? 8191 * 8 * 1000000000) eqn:E.
  - Local Ltac Zify.zify_post_hook ::= Z.div_mod_to_equations. lia.
  - lia.
Qed.

(* ---------------------------------------------------------------- CIDR prefixes, prefix / route stanzas *)

Ltac fin :=
  cbn in *; unfold_units; repeat split; first [ reflexivity | lia | f_equal; lia ].

Definition cidr_opt (c : ctext) : option (N * N) :=
  match c with CPfx _ a b => Some (a, b) | _ => None end.

Lemma parse_ip_prefix_spec c : spec_res (parse_ip_prefix c) (canonical_v6_b c) (cidr_opt c).
Proof.
  destruct c as [| | |v4 a b]; cbn; auto.
  destruct v4; cbn.
  - case_ifs; reflexivity.
  - change (mask_w 128 a b) with (mask a b). case_ifs; fin.
Qed.

Lemma cidr_opt_of c d : match cidr_opt c with Some ab => ab | None => d end = cidr_of c d.
Proof. destruct c; reflexivity. Qed.

Lemma parse_prefix_spec p : spec_res (parse_prefix p) (prefix_ok_b p) (prefix_default p).
Proof.
  unfold parse_prefix, prefix_ok_b, prefix_default, prefix_cidr, prefix_valid, prefix_preferred.
  rewrite !parse_duration_eq by (unfold_units; lia).
  pose proof (parse_ip_prefix_spec (rp_prefix p)) as Hc.
  destruct (parse_ip_prefix (rp_prefix p)) as [o|e]; cbn [bind].
  2: { cbn in Hc. rewrite Hc. reflexivity. }
  destruct Hc as [Hc ->]. rewrite Hc. cbn [andb].
  change (0%N, 64%N) with wild_prefix. rewrite cidr_opt_of.
  destruct (cidr_of (rp_prefix p) wild_prefix) as [a b].
  unfold reject_if, in_range_b, is_unspecified, wild_prefix, pair_eqb. cbn [fst snd].
  destruct (lifetime_value (rp_valid p) (24 * hour)) as [valid|]; cbn [with_value_b value_or bind].
  2: { case_ifs; fin. }
  destruct (lifetime_value (rp_preferred p) (4 * hour)) as [preferred|]; cbn [with_value_b value_or bind].
  2: { repeat (case_if; cbn [bind]); fin. }
  unfold opt_true. destruct (rp_deprecated p); repeat (case_if; cbn [bind]); fin.
Qed.
