From CR Require Import Model.Group gen.ExtGroup gen.ExtAdvertise.
From Coq Require Import Lia Arith.
Local Open Scope nat_scope.

Lemma extracted_all_true : extracted = mkG true true true true true true.
Proof. reflexivity. Qed.
Lemma cap_is : cap = 16.  Proof. reflexivity. Qed.
Local Opaque cap.

(* ---- invariant *)
Definition inv (s : st) : Prop :=
  (S s <> Ssel -> stopped s = true /\ sctx s = true) /\
  (S s = Sdone -> kw s = 0 /\ ke s = 0) /\
  q s <= cap /\
  (I s = Idone -> dl s = true).

Lemma inv_init : inv init.
Proof. unfold inv, init; cbn. repeat split; try discriminate; try lia; try congruence. Qed.

Definition measure (s : st) : nat :=
  4 * q s + 3 * pending s + 2 * kw s + ke s +
  match S s with Ssel => 2 | Sstop _ => 1 | Sdone => 0 end +
  match M s with Msend => 12 | Mwait => 6 | Mdone => 0 end +
  match L s with Lread => 20 | Lsend => 14 | Lcheck => 8 | Lexit1 _ => 6 | Lexit2 _ => 4 | Ldone => 0 end +
  match I s with Iwait => 1 | Idone => 0 end +
  match W s with Wsel => 1 | Wdone => 0 end.

Ltac inwhen H :=
  match type of H with
  | In _ (when ?b _) => let E := fresh "E" in destruct b eqn:E; cbn [when] in H; [|destruct H]
  end.
Ltac split_in H :=
  repeat match type of H with
  | In _ (_ ++ _) => apply in_app_or in H; destruct H as [H|H]
  end.
Ltac one H := cbn [In] in H; destruct H as [H|H]; [subst|contradiction].

(* booleans to arithmetic *)
Ltac bools := repeat match goal with
  | H : (_ <? _) = true |- _ => apply Nat.ltb_lt in H
  | H : (_ <? _) = false |- _ => apply Nat.ltb_ge in H
  | H : (_ =? _) = true |- _ => apply Nat.eqb_eq in H
  | H : (_ && _)%bool = true |- _ => apply andb_prop in H; destruct H
  | H : (_ || _)%bool = true |- _ => apply Bool.orb_prop in H
  | H : negb _ = true |- _ => apply Bool.negb_true_iff in H
  end.

Ltac fin := repeat split; intros; try discriminate; try congruence; try lia; auto;
  try match goal with
  | HS : S ?s = Sdone, I2 : S ?s = Sdone -> _ |- _ => destruct (I2 HS); try lia; try congruence end;
  try match goal with
  | HS : S ?s = Sdone, I1 : S ?s <> Ssel -> _ |- _ =>
      let H := fresh in assert (H : S s <> Ssel) by congruence; destruct (I1 H); try congruence end;
  try match goal with
  | HS : S ?s <> Ssel, I1 : S ?s <> Ssel -> _ |- _ => destruct (I1 HS); try congruence; try lia end.

Section WithExtracted.
Let g := mkG true true true true true true.

(* every step (internal or environment) of a cancelled group keeps it cancelled, keeps the
   invariant and strictly decreases the measure *)
Lemma step_ok s s' : inv s -> gc s = true -> In s' (steps g s) ->
  inv s' /\ gc s' = true /\ measure s' < measure s.
Proof.
  intros (I1 & I2 & I3 & I4) Hgc Hin. unfold steps, internal, env in Hin. split_in Hin.
  - (* scheduler *)
    unfold steps_S in Hin. destruct (S s) eqn:ES.
    + split_in Hin; inwhen Hin; one Hin; bools; unfold inv, measure, sctx; cbn; rewrite ?ES, ?Hgc; cbn;
        fin.
    + inwhen Hin. one Hin. bools. destruct (I1 ltac:(congruence)) as [Hst Hsc].
      assert (kw s = 0 /\ ke s = 0) as [Hk1 Hk2] by (destruct E as [E|E]; [discriminate|bools; auto]).
      destruct err; unfold inv, measure, sctx in *; cbn; rewrite ?ES, ?Hgc in *; cbn;
        fin.
    + destruct Hin.
  - (* timers and workers *)
    unfold steps_K in Hin. split_in Hin; inwhen Hin; one Hin; bools.
    + destruct (stopped s) eqn:Est; unfold inv, measure, sctx in *; cbn; rewrite ?Hgc, ?Est in *; cbn; fin.
    + unfold inv, measure, sctx in *; cbn; rewrite ?Hgc in *; cbn; fin.
    + unfold inv, measure, sctx in *; cbn; rewrite ?Hgc in *; cbn; fin.
  - (* multicast loop *)
    unfold steps_M in Hin. destruct (M s) eqn:EM.
    + split_in Hin; inwhen Hin; one Hin; bools; unfold inv, measure, sctx in *; cbn; rewrite ?EM, ?Hgc in *; cbn;
        fin.
    + inwhen Hin. one Hin. unfold inv, measure, sctx in *; cbn; rewrite ?EM, ?Hgc in *; cbn; fin.
    + destruct Hin.
  - (* listener *)
    unfold steps_L in Hin. destruct (L s) eqn:EL.
    + unfold lctx in Hin. rewrite Hgc in Hin. cbn in Hin. one Hin.
      unfold inv, measure, sctx in *; cbn; rewrite ?EL, ?Hgc in *; cbn; fin.
    + inwhen Hin. one Hin. unfold inv, measure, sctx in *; cbn; rewrite ?EL, ?Hgc in *; cbn; fin.
    + split_in Hin; inwhen Hin; one Hin; bools; unfold inv, measure, sctx in *; cbn; rewrite ?EL, ?Hgc in *; cbn;
        fin.
    + one Hin. cbn. unfold inv, measure, sctx in *; cbn; rewrite ?EL, ?Hgc in *; cbn; fin.
    + destruct (I s) eqn:EI; [destruct Hin|]. one Hin.
      destruct err; unfold inv, measure, sctx in *; cbn; rewrite ?EL, ?EI, ?Hgc in *; cbn; fin.
    + destruct Hin.
  - (* interrupt goroutine *)
    unfold steps_I in Hin. destruct (I s) eqn:EI; [|destruct Hin]. inwhen Hin. one Hin.
    unfold inv, measure, sctx in *; cbn; rewrite ?EI, ?Hgc in *; cbn; fin.
  - (* watcher *)
    unfold steps_W in Hin. destruct (W s) eqn:EW; [|destruct Hin]. inwhen Hin. one Hin.
    unfold inv, measure, sctx in *; cbn; rewrite ?EW, ?Hgc in *; cbn; fin.
  - (* environment: a WriteTo fails *)
    inwhen Hin. one Hin. bools. unfold inv, measure, sctx in *; cbn; rewrite ?Hgc in *; cbn; fin.
  - (* environment: arrival / read failure *)
    destruct (L s) eqn:EL; try (destruct Hin; fail).
    cbn [In] in Hin. destruct Hin as [Hin|[Hin|[]]]; subst;
      unfold inv, measure, sctx in *; cbn; rewrite ?EL, ?Hgc in *; cbn; fin.
  - (* environment: link event *)
    destruct (W s) eqn:EW; [|destruct Hin]. one Hin.
    unfold inv, measure, sctx in *; cbn; rewrite ?EW, ?Hgc in *; cbn; fin.
  - (* environment: the interval timer only fires while not cancelled *)
    destruct (M s) eqn:EM; try (destruct Hin; fail). rewrite Hgc in Hin. destruct Hin.
Qed.

(* progress: a cancelled group that has not completely returned can always take an internal step *)
Lemma progress s : inv s -> gc s = true -> all_done s = false -> internal g s <> [].
Proof.
  intros (I1 & I2 & I3 & I4) Hgc Hnd Hnil. unfold internal in Hnil.
  apply app_eq_nil in Hnil. destruct Hnil as [HS Hnil].
  apply app_eq_nil in Hnil. destruct Hnil as [HK Hnil].
  apply app_eq_nil in Hnil. destruct Hnil as [HM Hnil].
  apply app_eq_nil in Hnil. destruct Hnil as [HL Hnil].
  apply app_eq_nil in Hnil. destruct Hnil as [HI HW].
  unfold all_done in Hnd.
  assert (ES : S s = Sdone).
  { unfold steps_S in HS. destruct (S s) eqn:ES; [| |reflexivity].
    - unfold sctx in HS. rewrite Hgc in HS. cbn [orb when] in HS.
      apply app_eq_nil in HS. destruct HS as [_ HS]. discriminate.
    - destruct (I1 ltac:(congruence)) as [_ Hsc].
      unfold steps_K in HK. apply app_eq_nil in HK. destruct HK as [_ HK].
      apply app_eq_nil in HK. destruct HK as [HK1 HK2].
      destruct (kw s) as [|n] eqn:Ekw; [|cbn in HK1; discriminate].
      destruct (ke s) as [|m] eqn:Eke; [|rewrite Hsc in HK2; cbn in HK2; discriminate].
      cbn in HS. destruct err; discriminate. }
  assert (EM : M s = Mdone).
  { unfold steps_M in HM. destruct (M s) eqn:EM; [| |reflexivity].
    - rewrite Hgc in HM. cbn in HM. apply app_eq_nil in HM. destruct HM; discriminate.
    - rewrite Hgc in HM. discriminate. }
  assert (EW : W s = Wdone).
  { unfold steps_W in HW. destruct (W s) eqn:EW; [|reflexivity]. rewrite Hgc in HW. discriminate. }
  assert (EL : L s = Ldone).
  { unfold steps_L, steps_I, lctx in *. rewrite Hgc in *. cbn [orb] in *.
    destruct (L s) eqn:EL; try reflexivity; try discriminate.
    - (* Lread *) destruct (I s) eqn:EI; [discriminate|]. rewrite (I4 eq_refl) in HL. discriminate.
    - (* Lsend *) cbn in HL. apply app_eq_nil in HL. destruct HL; discriminate.
    - (* Lexit2 *) destruct (I s) eqn:EI; discriminate. }
  rewrite ES, EM, EL, EW in Hnd. discriminate.
Qed.

(* once every member has returned nothing is being written or read, and nothing starts any more *)
Lemma done_quiet s : inv s -> all_done s = true ->
  kw s = 0 /\ ke s = 0 /\ stopped s = true /\ L s = Ldone /\
  forall s', In s' (steps g s) -> kw s' = 0 /\ all_done s' = true.
Proof.
  intros (I1 & I2 & I3 & I4) Hd. unfold all_done in Hd.
  destruct (S s) eqn:ES; try discriminate. destruct (M s) eqn:EM; try discriminate.
  destruct (L s) eqn:EL; try discriminate. destruct (W s) eqn:EW; try discriminate.
  destruct (I2 eq_refl) as [Hk1 Hk2]. destruct (I1 ltac:(discriminate)) as [Hst _].
  split; [exact Hk1|]. split; [exact Hk2|]. split; [exact Hst|]. split; [reflexivity|]. intros s' Hin. unfold steps, internal, env, steps_S, steps_K, steps_M, steps_L, steps_W in Hin.
  rewrite ES, EM, EL, EW, Hk1, Hk2, Hst in Hin. cbn [app when Nat.ltb Nat.leb andb] in Hin.
  split_in Hin; try (destruct Hin; fail).
  - destruct (pending s); cbn [when] in Hin; [destruct Hin|]. one Hin. unfold all_done; cbn. rewrite ES, EM, EL, EW. auto.
  - unfold steps_I in Hin. destruct (I s); [|destruct Hin]. inwhen Hin. one Hin. unfold all_done; cbn. rewrite ES, EM, EL, EW. auto.
Qed.

End WithExtracted.

(* ---- consequences *)
Section Teardown.
Let g := mkG true true true true true true.

(* every maximal execution from s reaches the state in which every member has returned, and
   until then some goroutine can always move by itself (no deadlock) *)
Inductive ends_done : st -> Prop :=
| ed_done s : all_done s = true -> ends_done s
| ed_step s : internal g s <> [] -> (forall s', In s' (steps g s) -> ends_done s') -> ends_done s.

Lemma teardown_aux n : forall s, measure s < n -> inv s -> gc s = true -> ends_done s.
Proof.
  induction n as [|n IH]; intros s Hm Hi Hg; [lia|].
  destruct (all_done s) eqn:Hd; [apply ed_done; exact Hd|].
  apply ed_step; [apply progress; assumption|].
  intros s' Hin. destruct (step_ok s s' Hi Hg Hin) as (Hi' & Hg' & Hlt).
  apply IH; [lia|assumption|assumption].
Qed.

Lemma teardown s : inv s -> gc s = true -> ends_done s.
Proof. intros. apply (teardown_aux (Datatypes.S (measure s))); auto. Qed.

(* the number of steps any execution can still take is bounded by the measure *)
Inductive path : st -> list st -> Prop :=
| p_nil s : path s []
| p_cons s s' l : In s' (steps g s) -> path s' l -> path s (s' :: l).

Lemma path_bounded l : forall s, path s l -> inv s -> gc s = true -> length l <= measure s.
Proof.
  induction l as [|s' l IH]; intros s Hp Hi Hg; [cbn; lia|].
  inversion Hp as [|? ? ? Hin Hp']; subst.
  destruct (step_ok s s' Hi Hg Hin) as (Hi' & Hg' & Hlt).
  specialize (IH s' Hp' Hi' Hg'). cbn [length]. lia.
Qed.

(* the invariant holds in every state, cancelled or not *)
Lemma inv_step s s' : inv s -> In s' (steps g s) -> inv s'.
Proof.
  intros (I1 & I2 & I3 & I4) Hin. unfold steps, internal, env in Hin. split_in Hin.
  - unfold steps_S in Hin. destruct (S s) eqn:ES.
    + split_in Hin; inwhen Hin; one Hin; bools; unfold inv, sctx in *; cbn; rewrite ?ES in *; cbn; fin.
    + inwhen Hin. one Hin. bools. destruct (I1 ltac:(congruence)) as [Hst Hsc].
      assert (kw s = 0 /\ ke s = 0) as [Hk1 Hk2] by (destruct E as [E|E]; [discriminate|bools; auto]).
      destruct err; unfold inv, sctx in *; cbn; rewrite ?ES in *; cbn; fin.
    + destruct Hin.
  - unfold steps_K in Hin. split_in Hin; inwhen Hin; one Hin; bools.
    + destruct (stopped s) eqn:Est; unfold inv, sctx in *; cbn; rewrite ?Est in *; cbn; fin.
    + unfold inv, sctx in *; cbn; fin.
    + unfold inv, sctx in *; cbn; fin.
  - unfold steps_M in Hin. destruct (M s) eqn:EM.
    + split_in Hin; inwhen Hin; one Hin; bools; unfold inv, sctx in *; cbn; fin.
    + inwhen Hin. one Hin. unfold inv, sctx in *; cbn; fin.
    + destruct Hin.
  - unfold steps_L in Hin. destruct (L s) eqn:EL.
    + destruct (lctx s); one Hin; unfold inv, sctx in *; cbn; fin.
    + inwhen Hin. one Hin. unfold inv, sctx in *; cbn; fin.
    + split_in Hin; inwhen Hin; one Hin; bools; unfold inv, sctx in *; cbn; fin.
    + one Hin. cbn. unfold inv, sctx in *; cbn; fin.
    + destruct (I s) eqn:EI; [destruct Hin|]. one Hin.
      destruct err; unfold inv, sctx in *; cbn; rewrite ?EI in *; fin.
    + destruct Hin.
  - unfold steps_I in Hin. destruct (I s) eqn:EI; [|destruct Hin]. inwhen Hin. one Hin.
    unfold inv, sctx in *; cbn; fin.
  - unfold steps_W in Hin. destruct (W s) eqn:EW; [|destruct Hin]. inwhen Hin. one Hin.
    unfold inv, sctx in *; cbn; fin.
  - inwhen Hin. one Hin. bools. unfold inv, sctx in *; cbn; fin.
  - destruct (L s) eqn:EL; try (destruct Hin; fail).
    cbn [In] in Hin. destruct Hin as [Hin|[Hin|[]]]; subst; unfold inv, sctx in *; cbn; fin.
  - destruct (W s) eqn:EW; [|destruct Hin]. one Hin. unfold inv, sctx in *; cbn; fin.
  - destruct (M s) eqn:EM; try (destruct Hin; fail). inwhen Hin. one Hin. unfold inv, sctx in *; cbn; fin.
Qed.

Inductive reach : st -> Prop :=
| r_init : reach init
| r_step s s' : reach s -> In s' (steps g s) -> reach s'.

Lemma reach_inv s : reach s -> inv s.
Proof. induction 1 as [|s s' _ IH Hin]; [exact inv_init|exact (inv_step s s' IH Hin)]. Qed.

(* a failing listener always gets to report its error: its interrupt goroutine is released by the
   cancel() that precedes the wait (the repaired Listen deadlock) *)
Lemma failing_listener_reports s e : L s = Lexit1 e \/ (L s = Lexit2 e /\ lcancel s = true) ->
  steps_L g s ++ steps_I s <> [].
Proof.
  intros [H|[H Hc]]; unfold steps_L, steps_I; rewrite H; [discriminate|].
  destruct (I s); [|discriminate]. unfold lctx. rewrite Hc, Bool.orb_true_r. discriminate.
Qed.
End Teardown.

(* ---- the defects that were repaired, as reachable deadlocks of the LTS with the old guards *)
Definition stuck (gd : guards) (s : st) : Prop := all_done s = false /\ internal gd s = [].

Inductive reach_g (gd : guards) : st -> Prop :=
| rg_init : reach_g gd init
| rg_step s s' : reach_g gd s -> In s' (steps gd s) -> reach_g gd s'.

(* Listen without cancel-before-wait: a read error leaves the listener waiting forever for its
   interrupt goroutine while the group is not cancelled (the task stays half-alive) *)
Lemma legacy_listen_deadlock :
  exists s, reach_g (mkG true true true true false true) s /\ L s = Lexit2 true /\ I s = Iwait /\ gc s = false /\
            steps_L (mkG true true true true false true) s ++ steps_I s = [].
Proof.
  set (gd := mkG true true true true false true).
  set (s1 := set_L init Lread). set (s2 := set_L s1 (Lexit1 true)). set (s3 := set_L s2 (Lexit2 true)).
  exists s3. split; [|repeat split; reflexivity].
  assert (R1 : reach_g gd s1) by (apply (rg_step gd init s1); [constructor|vm_compute; auto 20]).
  assert (R2 : reach_g gd s2) by (apply (rg_step gd s1 s2); [exact R1|vm_compute; auto 20]).
  apply (rg_step gd s2 s3); [exact R2|vm_compute; auto 20].
Qed.

(* the listener's request-channel send without a <-ctx.Done() case: with the channel full and the
   scheduler gone the listener blocks forever although the group is cancelled *)
Section LegacySend.
Let gd := mkG false true true true true true.

Lemma in_steps_internal s s' : In s' (internal gd s) -> In s' (steps gd s).
Proof. intros H. unfold steps. apply in_or_app. left. exact H. Qed.
Lemma in_steps_env s s' : In s' (env s) -> In s' (steps gd s).
Proof. intros H. unfold steps. apply in_or_app. right. exact H. Qed.

Lemma fill n : n <= cap -> reach_g gd (set_q init n).
Proof.
  induction n as [|n IH]; intros Hn; [apply rg_init|].
  specialize (IH ltac:(lia)).
  set (a := set_L (set_q init n) Lread).
  assert (Ra : reach_g gd a).
  { apply (rg_step gd (set_q init n) a IH). apply in_steps_internal.
    unfold internal. do 3 (apply in_or_app; right). apply in_or_app; left. cbn. left. reflexivity. }
  set (b := set_L a Lsend).
  assert (Rb : reach_g gd b).
  { apply (rg_step gd a b Ra). apply in_steps_env. unfold env. apply in_or_app; right. apply in_or_app; left.
    cbn. left. reflexivity. }
  apply (rg_step gd b _ Rb). apply in_steps_internal.
  unfold internal. do 3 (apply in_or_app; right). apply in_or_app; left.
  unfold steps_L. cbn [L b a set_L]. apply in_or_app; left.
  change (q b) with n. assert (E : (n <? cap) = true) by (apply Nat.ltb_lt; lia). rewrite E. cbn [when].
  left. unfold b, a, set_q, set_L, init; cbn. rewrite Nat.add_1_r. reflexivity.
Qed.

Lemma legacy_send_deadlock : exists s, reach_g gd s /\ gc s = true /\ stuck gd s.
Proof.
  pose proof (fill cap (le_n _)) as R0. rewrite cap_is in R0.
  set (s0 := set_q init 16) in R0.
  set (s1 := set_L s0 Lread). set (s2 := set_L s1 Lsend).                 (* the 17th solicitation *)
  set (s3 := set_fail (set_W s2 Wdone)).                                    (* a link event cancels the group *)
  set (s4 := set_stopped (set_S s3 (Sstop false))). set (s5 := set_scancel (set_S s4 Sdone)).
  set (s6 := set_M s5 Mdone). set (s7 := set_dl (set_I s6 Idone)).
  assert (R1 : reach_g gd s1) by (apply (rg_step gd s0 s1 R0); vm_compute; auto 30).
  assert (R2 : reach_g gd s2) by (apply (rg_step gd s1 s2 R1); vm_compute; auto 30).
  assert (R3 : reach_g gd s3) by (apply (rg_step gd s2 s3 R2); vm_compute; auto 30).
  assert (R4 : reach_g gd s4) by (apply (rg_step gd s3 s4 R3); vm_compute; auto 30).
  assert (R5 : reach_g gd s5) by (apply (rg_step gd s4 s5 R4); vm_compute; auto 30).
  assert (R6 : reach_g gd s6) by (apply (rg_step gd s5 s6 R5); vm_compute; auto 30).
  assert (R7 : reach_g gd s7) by (apply (rg_step gd s6 s7 R6); vm_compute; auto 30).
  exists s7. split; [exact R7|]. split; [reflexivity|]. split; vm_compute; reflexivity.
Qed.
End LegacySend.

(* the scheduler's error branch with ws.stop() before cancel(): after taking the first of two
   transmit errors it waits for the second failing worker, which can neither hand over its error
   (nobody receives) nor see a cancellation (none was issued): both wait forever, the task is
   half-alive *)
Section LegacyStopFirst.
Let gd := mkG true true true true true false.

Lemma legacy_stop_before_cancel_deadlock :
  exists s, reach_g gd s /\ gc s = false /\ S s = Sstop true /\ ke s = 1 /\
            steps_S gd s = [] /\ steps_K gd s = [].
Proof.
  set (s1 := set_pending (set_q init 0) 0).
  (* two requests are taken and scheduled, both timers fire, both writes fail *)
  set (a1 := set_L init Lread). set (a2 := set_L a1 Lsend). set (a3 := set_L (set_q a2 1) Lcheck).
  set (a4 := set_pending (set_q a3 0) 1).
  set (b1 := set_L a4 Lread). set (b2 := set_L b1 Lsend). set (b3 := set_L (set_q b2 1) Lcheck).
  set (b4 := set_pending (set_q b3 0) 2).
  set (c1 := set_kw (set_pending b4 1) 1). set (c2 := set_kw (set_pending c1 0) 2).
  set (d1 := set_ke (set_kw c2 1) 1). set (d2 := set_ke (set_kw d1 0) 2).
  set (e1 := set_stopped (set_S (set_ke d2 1) (Sstop true))).
  assert (R : reach_g gd e1).
  { assert (Ra1 : reach_g gd a1) by (apply (rg_step gd init a1); [constructor|vm_compute; auto 30]).
    assert (Ra2 : reach_g gd a2) by (apply (rg_step gd a1 a2 Ra1); vm_compute; auto 30).
    assert (Ra3 : reach_g gd a3) by (apply (rg_step gd a2 a3 Ra2); vm_compute; auto 30).
    assert (Ra4 : reach_g gd a4) by (apply (rg_step gd a3 a4 Ra3); vm_compute; auto 30).
    assert (Rb1 : reach_g gd b1) by (apply (rg_step gd a4 b1 Ra4); vm_compute; auto 30).
    assert (Rb2 : reach_g gd b2) by (apply (rg_step gd b1 b2 Rb1); vm_compute; auto 30).
    assert (Rb3 : reach_g gd b3) by (apply (rg_step gd b2 b3 Rb2); vm_compute; auto 30).
    assert (Rb4 : reach_g gd b4) by (apply (rg_step gd b3 b4 Rb3); vm_compute; auto 30).
    assert (Rc1 : reach_g gd c1) by (apply (rg_step gd b4 c1 Rb4); vm_compute; auto 30).
    assert (Rc2 : reach_g gd c2) by (apply (rg_step gd c1 c2 Rc1); vm_compute; auto 30).
    assert (Rd1 : reach_g gd d1) by (apply (rg_step gd c2 d1 Rc2); vm_compute; auto 30).
    assert (Rd2 : reach_g gd d2) by (apply (rg_step gd d1 d2 Rd1); vm_compute; auto 30).
    apply (rg_step gd d2 e1 Rd2); vm_compute; auto 30. }
  exists e1. split; [exact R|]. repeat split; vm_compute; reflexivity.
Qed.
End LegacyStopFirst.
