(* Lemmas about Model/Dialer.v (properties C10 -- dialer clauses -- and C11). *)
From Coq Require Import Lia ZifyBool.
From CR Require Import Model.Dialer.
From CR Require Import gen.ExtDialer.
Local Open Scope Z_scope.

Lemma ext_constants :
  dialAttempts = 50 /\ dialMaxDelay = 3000000000 /\ dialStep = 250000000 /\
  dialStepOffset = 1 /\ dialLoopStart = 0 /\ serveAttempts = 40.
Proof. repeat split; reflexivity. Qed.

(* ------------------------------------------------------------------ projections of a trace *)

(* the back-off skeleton: waits and dial attempts *)
Definition is_skel (e : event) : bool :=
  match e with Wait _ | WaitCut _ _ | DialAttempt _ => true | _ => false end.
Definition skel (l : list event) : list event := filter is_skel l.

Lemma skel_app : forall a b, skel (a ++ b) = skel a ++ skel b.
Proof. intros; apply filter_app. Qed.

Definition dres (o : dial_out) : option err :=
  match o with DConn _ _ => None | DFail e => Some e end.

Lemma skel_mark : forall c w, skel (mark c w) = [].
Proof. intros; unfold mark; destruct (c && negb (w_cancelled w)); reflexivity. Qed.

Lemma skel_cons_dial : forall r l, skel (DialAttempt r :: l) = DialAttempt r :: skel l.
Proof. reflexivity. Qed.

Lemma skel_cons_wait : forall d l, skel (Wait d :: l) = Wait d :: skel l.
Proof. reflexivity. Qed.

Lemma do_real_skel : forall m s w, skel (fst (fst (do_real m s w))) = [].
Proof.
  intros m [lk ck op g st lv cl] w; unfold do_real; cbn.
  destruct lk; [reflexivity|]. destruct ck; [reflexivity|]. destruct op; [reflexivity|].
  destruct m; [|reflexivity]. destruct g; try reflexivity. destruct st; reflexivity.
Qed.

Lemma do_dial_skel : forall m real w ev w' o,
  do_dial m real w = (ev, w', o) -> skel ev = [DialAttempt (dres o)].
Proof.
  intros m real w ev w' o; unfold do_dial.
  destruct (hd (default_dial real) (w_dials w)) as [r c | s c].
  - destruct r; intro H; inversion H; subst; cbn [skel filter is_skel app];
      fold (skel (mark c (set_dials w (tl (w_dials w))))); rewrite skel_mark; reflexivity.
  - pose proof (do_real_skel m s (set_dials w (tl (w_dials w)))) as Hs.
    destruct (do_real m s (set_dials w (tl (w_dials w)))) as [[ev1 w1] o1]; cbn [fst] in Hs.
    intro H; inversion H; subst. rewrite skel_app, Hs. cbn [app]. rewrite skel_cons_dial, skel_mark. destruct o; reflexivity.
Qed.

(* ------------------------------------------------------------------ back-off *)

(* the documented back-off: the wait before attempt j of a re-initialisation *)
Definition lit_delay (j : nat) : Z := Z.min (Z.of_nat j * 250000000) 3000000000.

Lemma backoff_lit : forall j, backoff (Z.of_nat j) = lit_delay (S j).
Proof.
  intro j; unfold backoff, lit_delay, dialStepOffset, dialStep, dialMaxDelay.
  destruct (3000000000 <? (Z.of_nat j + 1) * 250000000) eqn:E; lia.
Qed.

Lemma lit_delay_pos : forall j, 0 < lit_delay (S j).
Proof. intro j; unfold lit_delay; lia. Qed.

Lemma lit_delay_0 : lit_delay 0 = 0.
Proof. reflexivity. Qed.

(* Wait(d0) Dial(r0) Wait(d1) Dial(r1) ... with the documented delays, starting at attempt j *)
Fixpoint bskel (j : nat) (rs : list (option err)) : list event :=
  match rs with
  | [] => []
  | r :: rs' => Wait (lit_delay j) :: DialAttempt r :: bskel (S j) rs'
  end.

Definition failed (r : option err) : Prop := r <> None.

Definition retry_post (n j : nat) (ev : list event) (o : init_out) : Prop :=
  exists rs tail, skel ev = bskel j rs ++ tail /\ (length rs <= n)%nat /\
    match o with
    | IConn _ _ => tail = [] /\ exists rs0, rs = rs0 ++ [None] /\ Forall failed rs0
    | ITimeout => tail = [] /\ length rs = n /\ Forall failed rs
    | ICanceled => Forall failed rs /\ (length rs < n)%nat /\
                   exists e, tail = [WaitCut (lit_delay (j + length rs)) e]
    | IErr _ => False
    end.

Lemma retry_unfold : forall m real n' i delay w,
  retry m real (S n') i delay w =
    let go (pre : list event) (w0 : world) :=
      let '(ev, w1, o) := do_dial m real w0 in
      match o with
      | DConn k kind => (pre ++ ev, w1, IConn k kind)
      | DFail _ =>
          let '(ev2, w2, o2) := retry m real n' (i + 1) (backoff i) w1 in
          (pre ++ ev ++ ev2, w2, o2)
      end in
    if w_cancelled w then
      if delay <=? 0 then
        let (b, w0) := pop_bit w in
        if b then go [Wait delay] w0 else ([WaitCut delay 0], w0, ICanceled)
      else ([WaitCut delay 0], w, ICanceled)
    else if 0 <? delay then
      let (c, w0) := pop_wait w in
      if c then ([WaitCut delay cut_offset; Cancel], set_cancelled w0, ICanceled)
      else go [Wait delay] w0
    else go [Wait delay] w.
Proof. reflexivity. Qed.

Lemma retry_shape : forall m real n j w ev w' o,
  retry m real n (Z.of_nat j) (lit_delay j) w = (ev, w', o) -> retry_post n j ev o.
Proof.
  intros m real n; induction n as [|n IH]; intros j w ev w' o H.
  - cbn in H; inversion H; subst. exists [], []; cbn; repeat split; auto.
  - rewrite retry_unfold in H.
    (* the three ways of leaving the select *)
    assert (Hcut : forall e, retry_post (S n) j [WaitCut (lit_delay j) e] ICanceled).
    { intro e; exists [], [WaitCut (lit_delay j) e]; cbn; repeat split; auto; try lia.
      exists e; rewrite Nat.add_0_r; reflexivity. }
    assert (Hgo : forall w0 ev w' o,
      (let '(ev, w1, o) := do_dial m real w0 in
       match o with
       | DConn k kind => ([Wait (lit_delay j)] ++ ev, w1, IConn k kind)
       | DFail _ =>
           let '(ev2, w2, o2) := retry m real n (Z.of_nat j + 1) (backoff (Z.of_nat j)) w1 in
           ([Wait (lit_delay j)] ++ ev ++ ev2, w2, o2)
       end) = (ev, w', o) -> retry_post (S n) j ev o).
    { clear H; intros w0 ev0 w0' o0 H.
      destruct (do_dial m real w0) as [[evd w1] od] eqn:Ed.
      apply do_dial_skel in Ed.
      destruct od as [k kind | e].
      - inversion H; subst. exists [None], []; split.
        + cbn [app]; rewrite skel_cons_wait, Ed; reflexivity.
        + cbn; repeat split; try lia. exists []; split; [reflexivity | constructor].
      - replace (Z.of_nat j + 1) with (Z.of_nat (S j)) in H by lia.
        rewrite backoff_lit in H.
        destruct (retry m real n (Z.of_nat (S j)) (lit_delay (S j)) w1) as [[ev2 w2] o2] eqn:Er.
        apply IH in Er. inversion H; subst.
        destruct Er as (rs & tail & Hs & Hl & Ho).
        exists (Some e :: rs), tail; split.
        + cbn [app]; rewrite skel_cons_wait, skel_app, Ed, Hs; reflexivity.
        + assert (Hf : failed (Some e)) by discriminate.
          cbn [length]; split; [lia|].
          destruct o0 as [k kind | e' | | ]; cbv beta iota in Ho |- *; [ | contradiction | | ].
          * destruct Ho as (Ht & rs0 & Hr & Hf0). subst tail rs. split; [reflexivity|].
            exists (Some e :: rs0); split; [reflexivity | constructor; assumption].
          * destruct Ho as (Hf0 & Hlt & e0 & Ht). subst tail. split; [constructor; assumption|]. split; [cbn [length]; lia|].
            exists e0. replace (j + S (length rs))%nat with (S j + length rs)%nat by lia. reflexivity.
          * destruct Ho as (Ht & Hn & Hf0). subst tail. split; [reflexivity|]. split; [cbn [length]; lia|].
            constructor; assumption. }
    cbv zeta in H.
    destruct (w_cancelled w).
    + destruct (lit_delay j <=? 0).
      * unfold pop_bit in H. destruct (hd false (w_bits w)).
        -- eapply Hgo; exact H.
        -- inversion H; subst; apply Hcut.
      * inversion H; subst; apply Hcut.
    + destruct (0 <? lit_delay j).
      * unfold pop_wait in H. destruct (hd false (w_waits w)).
        -- inversion H; subst.
           destruct (Hcut cut_offset) as (rs & tail & Hs & Hl & Ho).
           exists rs, tail; split; auto.
        -- eapply Hgo; exact H.
      * eapply Hgo; exact H.
Qed.

(* ------------------------------------------------------------------ Dialer.init *)

Definition attempts_nat : nat := Z.to_nat dialAttempts.
Lemma attempts_50 : attempts_nat = 50%nat.
Proof. reflexivity. Qed.

(* the documented classification of a cause *)
Definition lit_recoverable (e : err) : bool :=
  match e with ELinkNotReady | ELinkChange | ESyscall => true | _ => false end.
Lemma recoverable_lit : forall e, recoverable e = lit_recoverable e.
Proof. destruct e; reflexivity. Qed.

(* what one call of init does, for a given cause (None = first initialisation) *)
Definition init_post (cause : option err) (ev : list event) (o : init_out) : Prop :=
  match cause with
  | Some e =>
      if lit_recoverable e then retry_post 50 0 ev o
      else ev = [] /\ o = IErr e
  | None =>
      exists ev0 ev1 r, ev = ev0 ++ ev1 /\ skel ev0 = [DialAttempt r] /\
        match r with
        | None => ev1 = [] /\ exists k kind, o = IConn k kind
        | Some e =>
            if lit_recoverable e then retry_post 50 0 ev1 o
            else ev1 = [] /\ o = IErr e
        end
  end.

Lemma init_shape : forall m real cause w ev w' o,
  init m real cause w = (ev, w', o) -> init_post cause ev o.
Proof.
  intros m real cause w ev w' o; unfold init, init_post.
  destruct cause as [e|].
  - rewrite recoverable_lit. destruct (lit_recoverable e).
    + intro H. change (Z.to_nat dialAttempts) with 50%nat in H.
      change dialLoopStart with (Z.of_nat 0) in H. change 0 with (lit_delay 0) in H.
      eapply retry_shape; exact H.
    + intro H; inversion H; auto.
  - destruct (do_dial m real w) as [[ev0 w1] od] eqn:Ed. pose proof (do_dial_skel _ _ _ _ _ _ Ed) as Hs.
    destruct od as [k kind | e].
    + intro H; inversion H; subst. exists ev, [], None. rewrite app_nil_r. repeat split; auto. eauto.
    + rewrite recoverable_lit. destruct (lit_recoverable e) eqn:El.
      * destruct (retry m real (Z.to_nat dialAttempts) dialLoopStart 0 w1) as [[ev2 w2] o2] eqn:Er.
        intro H; inversion H; subst.
        exists ev0, ev2, (Some e). rewrite El. repeat split; auto.
        change (Z.to_nat dialAttempts) with 50%nat in Er.
        change dialLoopStart with (Z.of_nat 0) in Er. change 0 with (lit_delay 0) in Er.
        eapply retry_shape; exact Er.
      * intro H; inversion H; subst. exists ev, [], (Some e). rewrite app_nil_r, El. repeat split; auto.
Qed.

(* ------------------------------------------------------------------ Dial as a sequence of chunks *)

Inductive chunk :=
| CInit (cause : option err) (evs : list event) (o : init_out)   (* one call of Dialer.init *)
| CRound (k : N) (te : task_ev) (evs : list event) (ro : round_out) (* fn, then done(), on connection k *)
| CRet (v : ret).

Definition chunk_events (c : chunk) : list event :=
  match c with CInit _ evs _ => evs | CRound _ _ evs _ => evs | CRet v => [Return v] end.

Fixpoint chunks (m : mode) (real : bool) (tasks : list task_ev) (cause : option err) (w : world)
  : list chunk :=
  let '(ev, w1, o) := init m real cause w in
  CInit cause ev o ::
  match o with
  | IConn k kind =>
      let te := hd default_task tasks in
      let '(ev2, w2, ro) := round k kind te w1 in
      CRound k te ev2 ro ::
      match ro with
      | RDone v => [CRet v]
      | RAgain e =>
          match tasks with
          | [] => [CRet RNil]
          | _ :: tl => chunks m real tl (Some e) w2
          end
      end
  | _ => [CRet (final o)]
  end.

Definition dial_chunks (sc : script) : list chunk :=
  chunks (sc_mode sc) (sc_real sc) (sc_tasks sc) None (init_world sc).

Lemma chunks_flat : forall m real tasks cause w,
  flat_map chunk_events (chunks m real tasks cause w) = loop m real tasks cause w.
Proof.
  intros m real tasks; induction tasks as [|te tl IH]; intros cause w.
  - cbn [chunks loop]. destruct (init m real cause w) as [[ev w1] o].
    destruct o; cbn [flat_map chunk_events app]; try reflexivity.
    cbn [hd]. destruct (round k kind default_task w1) as [[ev2 w2] ro].
    destruct ro; cbn [flat_map chunk_events app]; rewrite ?app_nil_r; reflexivity.
  - cbn [chunks loop]. destruct (init m real cause w) as [[ev w1] o].
    destruct o; cbn [flat_map chunk_events app]; try reflexivity.
    cbn [hd]. destruct (round k kind te w1) as [[ev2 w2] ro].
    destruct ro; cbn [flat_map chunk_events app]; rewrite ?app_nil_r; try reflexivity.
    rewrite IH; reflexivity.
Qed.

Theorem dial_loop_chunks : forall sc,
  dial_loop sc = (if sc_pre sc then [Cancel] else []) ++ flat_map chunk_events (dial_chunks sc).
Proof. intro sc; unfold dial_loop, dial_chunks; rewrite chunks_flat; reflexivity. Qed.

(* every CInit chunk is one call of init *)
Lemma chunks_init : forall m real tasks cause w c evs o,
  In (CInit c evs o) (chunks m real tasks cause w) ->
  exists w0 w1, init m real c w0 = (evs, w1, o).
Proof.
  intros m real tasks; induction tasks as [|te tl IH]; intros cause w c evs o;
    cbn [chunks]; destruct (init m real cause w) as [[ev w1] o1] eqn:Ei.
  - destruct o1; cbn [In].
    2-4: intros [H|[H|[]]]; try discriminate; inversion H; subst; eauto.
    cbn [hd]. destruct (round k kind default_task w1) as [[ev2 w2] ro].
    destruct ro; cbn [In]; intros [H|[H|[H|[]]]]; try discriminate; inversion H; subst; eauto.
  - destruct o1; cbn [In].
    2-4: intros [H|[H|[]]]; try discriminate; inversion H; subst; eauto.
    cbn [hd]. destruct (round k kind te w1) as [[ev2 w2] ro].
    destruct ro; cbn [In].
    + intros [H|[H|[H|[]]]]; try discriminate; inversion H; subst; eauto.
    + intros [H|[H|H]]; try discriminate; [inversion H; subst; eauto|]. eapply IH; exact H.
Qed.

Theorem chunks_init_post : forall sc cause evs o,
  In (CInit cause evs o) (dial_chunks sc) -> init_post cause evs o.
Proof.
  intros sc cause evs o H. apply chunks_init in H. destruct H as (w0 & w1 & H).
  eapply init_shape; exact H.
Qed.

(* ------------------------------------------------------------------ policy: the grammar of chunks *)

(* life-cycle events: everything but the cancellation mark and the sub-steps of dial()/done() *)
Definition is_life (e : event) : bool :=
  match e with
  | Wait _ | WaitCut _ _ | DialAttempt _ | Task _ _ | Cleanup _ _ | Return _ => true
  | _ => false
  end.
Definition life (l : list event) : list event := filter is_life l.

Lemma life_app : forall a b, life (a ++ b) = life a ++ life b.
Proof. intros; apply filter_app. Qed.
Lemma life_mark : forall c w, life (mark c w) = [].
Proof. intros; unfold mark; destruct (c && negb (w_cancelled w)); reflexivity. Qed.

Lemma do_cleanup_life : forall k kind te w, life (fst (fst (do_cleanup k kind te w))) = [].
Proof.
  intros k kind te w; unfold do_cleanup. destruct kind as [|[prev|]]; try reflexivity.
  destruct (t_restore te); reflexivity.
Qed.

Definition round_result (r : option err) (ok : bool) : round_out :=
  if ok then match r with None => RDone RNil | Some e => RAgain e end else RDone RCleanupErr.

Lemma round_life : forall k kind te w ev w' ro,
  round k kind te w = (ev, w', ro) ->
  exists ok, life ev = [Task k (t_res te); Cleanup k ok] /\ ro = round_result (t_res te) ok.
Proof.
  intros k kind te w ev w' ro; unfold round.
  pose proof (do_cleanup_life k kind te (cancel_if (t_cancel te) w)) as Hc.
  destruct (do_cleanup k kind te (cancel_if (t_cancel te) w)) as [[evc w2] ok]; cbn [fst] in Hc.
  intro H; inversion H; subst. exists ok; split; [|reflexivity].
  rewrite life_app, life_mark. cbn [app]. change (life (Task k (t_res te) :: ?l)) with (Task k (t_res te) :: life l).
  rewrite life_app, Hc. cbn [app]. change (life (Cleanup k ok :: ?l)) with (Cleanup k ok :: life l).
  rewrite life_mark. reflexivity.
Qed.

(* Dial: init; then either return, or fn + done() on the connection and, per the result, return or
   re-initialise with that result as the cause *)
Fixpoint policy_ok (cause : option err) (l : list chunk) : Prop :=
  match l with
  | CInit c evs o :: rest =>
      c = cause /\
      match o with
      | IConn k _ =>
          match rest with
          | CRound k' te evs2 ro :: rest' =>
              k' = k /\
              (exists ok, life evs2 = [Task k (t_res te); Cleanup k ok] /\ ro = round_result (t_res te) ok) /\
              match ro with
              | RDone v => rest' = [CRet v]
              | RAgain e => policy_ok (Some e) rest'
              end
          | _ => False
          end
      | IErr e => rest = [CRet (if is_canceled e then RNil else RWrap e)]
      | ICanceled => rest = [CRet RNil]
      | ITimeout => rest = [CRet RTimeout]
      end
  | _ => False
  end.

Lemma chunks_policy : forall m real tasks cause w, policy_ok cause (chunks m real tasks cause w).
Proof.
  intros m real tasks; induction tasks as [|te tl IH]; intros cause w;
    cbn [chunks]; destruct (init m real cause w) as [[ev w1] o] eqn:Ei; cbn [policy_ok]; split; auto.
  - destruct o; try reflexivity. cbn [hd].
    destruct (round k kind default_task w1) as [[ev2 w2] ro] eqn:Er.
    pose proof (round_life _ _ _ _ _ _ _ Er) as (ok & Hl & Hr).
    split; auto. split; [exists ok; auto|].
    destruct ro; auto. destruct ok; cbn in Hr; discriminate.
  - destruct o; try reflexivity. cbn [hd].
    destruct (round k kind te w1) as [[ev2 w2] ro] eqn:Er.
    pose proof (round_life _ _ _ _ _ _ _ Er) as (ok & Hl & Hr).
    split; auto. split; [exists ok; auto|].
    destruct ro; auto.
Qed.

(* ------------------------------------------------------------------ cancellation *)

Definition count_dials (l : list event) : nat :=
  length (filter (fun e => match e with DialAttempt _ => true | _ => false end) l).
Definition count_tasks (l : list event) : nat :=
  length (filter (fun e => match e with Task _ _ => true | _ => false end) l).
Definition count_cleanups (l : list event) : nat :=
  length (filter (fun e => match e with Cleanup _ _ => true | _ => false end) l).
(* no back-off timer of positive length ever elapses *)
Definition no_pos_wait (l : list event) : Prop := forall d, In (Wait d) l -> d <= 0.

Lemma do_dial_cancelled : forall m real w ev w' o,
  do_dial m real w = (ev, w', o) -> w_cancelled w = true -> w_cancelled w' = true.
Proof.
  intros m real w ev w' o; unfold do_dial.
  destruct (hd (default_dial real) (w_dials w)) as [r c | s c].
  - destruct r; intro H; inversion H; subst; intro Hc; destruct c; cbn; auto.
  - destruct (do_real m s (set_dials w (tl (w_dials w)))) as [[ev1 w1] o1] eqn:Er.
    assert (w_cancelled w1 = w_cancelled w).
    { revert Er; unfold do_real; destruct s as [lk ck op g st lv cl]; cbn.
      destruct lk; [intro H; inversion H; reflexivity|]. destruct ck; [intro H; inversion H; reflexivity|].
      destruct op; [intro H; inversion H; reflexivity|].
      destruct m; [|intro H; inversion H; reflexivity].
      destruct g; try (intro H; inversion H; reflexivity). destruct st; intro H; inversion H; reflexivity. }
    intro H'; inversion H'; subst. intro Hc. destruct c; cbn; congruence.
Qed.

Lemma count_dials_skel : forall l, count_dials l = count_dials (skel l).
Proof.
  induction l as [|e l IH]; [reflexivity|]. destruct e; cbn in *; auto.
Qed.

Lemma no_pos_wait_skel : forall l, no_pos_wait (skel l) -> no_pos_wait l.
Proof.
  intros l H d Hin. apply H. unfold skel. apply filter_In. split; auto.
Qed.

(* from a cancelled context a re-initialisation makes at most one dial attempt (the select race
   with the 0 timer), never sits out a back-off, and ends cancelled or connected *)
Lemma retry_cancelled : forall m real n w ev w' o,
  w_cancelled w = true ->
  retry m real (S (S n)) 0 0 w = (ev, w', o) ->
  (count_dials ev <= 1)%nat /\ no_pos_wait ev /\ w_cancelled w' = true /\
  (o = ICanceled \/ exists k kind, o = IConn k kind).
Proof.
  intros m real n w ev w' o Hc H. rewrite retry_unfold in H. cbv zeta in H. rewrite Hc in H.
  change (0 <=? 0) with true in H. cbv iota in H. unfold pop_bit in H.
  destruct (hd false (w_bits w)).
  - destruct (do_dial m real (set_bits w (tl (w_bits w)))) as [[evd w1] od] eqn:Ed.
    pose proof (do_dial_skel _ _ _ _ _ _ Ed) as Hs.
    pose proof (do_dial_cancelled _ _ _ _ _ _ Ed Hc) as Hc1.
    destruct od as [k kind | e].
    + inversion H; subst. rewrite count_dials_skel. repeat split; auto.
      * cbn [app]; rewrite skel_cons_wait, Hs; cbn; lia.
      * apply no_pos_wait_skel. cbn [app]; rewrite skel_cons_wait, Hs. intros d [Hd|[Hd|[]]]; inversion Hd; lia.
      * right; eauto.
    + rewrite retry_unfold in H. cbv zeta in H. rewrite Hc1 in H.
      assert (Hb : backoff 0 <=? 0 = false) by reflexivity. rewrite Hb in H.
      inversion H; subst. rewrite count_dials_skel. repeat split; auto.
      * cbn [app]; rewrite skel_cons_wait, skel_app, Hs; cbn; lia.
      * apply no_pos_wait_skel. cbn [app]; rewrite skel_cons_wait, skel_app, Hs.
        intros d [Hd|[Hd|[Hd|[]]]]; inversion Hd; lia.
  - inversion H; subst. split; [cbn; lia|]. split; [intros d [Hd|[]]; inversion Hd|].
    split; [cbn; exact Hc|]. left; reflexivity.
Qed.

(* ------------------------------------------------------------------ statements used by Properties/C10dial.v *)

Lemma init_backoff : forall cause evs o, init_post cause evs o ->
  exists first rs tail,
    skel evs = first ++ bskel 0 rs ++ tail /\ (length rs <= 50)%nat /\
    (first = [] \/ (cause = None /\ exists r, first = [DialAttempt r])) /\
    (tail = [] \/ (exists e, tail = [WaitCut (lit_delay (length rs)) e]) /\ (length rs < 50)%nat) /\
    (o = ITimeout -> length rs = 50%nat /\ Forall failed rs /\ tail = []) /\
    (forall k kind, o = IConn k kind -> tail = [] /\ (rs = [] \/ exists rs0, rs = rs0 ++ [None] /\ Forall failed rs0)).
Proof.
  assert (Hr : forall ev o, retry_post 50 0 ev o ->
    exists rs tail, skel ev = bskel 0 rs ++ tail /\ (length rs <= 50)%nat /\
      (tail = [] \/ (exists e, tail = [WaitCut (lit_delay (length rs)) e]) /\ (length rs < 50)%nat) /\
      (o = ITimeout -> length rs = 50%nat /\ Forall failed rs /\ tail = []) /\
      (forall k kind, o = IConn k kind -> tail = [] /\ (rs = [] \/ exists rs0, rs = rs0 ++ [None] /\ Forall failed rs0))).
  { intros ev o (rs & tail & Hs & Hl & Ho). exists rs, tail. split; auto. split; auto.
    destruct o as [k kind | e | | ].
    - destruct Ho as (-> & rs0 & -> & Hf). split; auto. split; [discriminate|]. intros; split; auto. right; eauto.
    - contradiction.
    - destruct Ho as (Hf & Hlt & e & ->). split; [right; split; eauto|]. split; [discriminate|]. discriminate.
    - destruct Ho as (-> & Hn & Hf). split; auto. split; [auto|discriminate]. }
  intros cause evs o H. unfold init_post in H. destruct cause as [e|].
  - destruct (lit_recoverable e).
    + destruct (Hr _ _ H) as (rs & tail & Hs & Hl & Ht & Hto & Hc). exists [], rs, tail. cbn [app]. refine (conj Hs (conj Hl (conj (or_introl eq_refl) (conj Ht (conj Hto Hc))))).
    + destruct H as (-> & ->). exists [], [], []. cbn. repeat split; auto; try lia; try discriminate.
  - destruct H as (ev0 & ev1 & r & -> & Hs0 & H). rewrite skel_app, Hs0.
    destruct r as [e|].
    + destruct (lit_recoverable e).
      * destruct (Hr _ _ H) as (rs & tail & Hs & Hl & Ht & Hto & Hc). exists [DialAttempt (Some e)], rs, tail.
        rewrite Hs. refine (conj eq_refl (conj Hl (conj (or_intror (conj eq_refl (ex_intro _ _ eq_refl))) (conj Ht (conj Hto Hc))))).
      * destruct H as (-> & ->). exists [DialAttempt (Some e)], [], []. cbn. repeat split; auto; try lia; try discriminate.
        right; split; eauto.
    + destruct H as (-> & k & kind & ->). exists [DialAttempt None], [], []. cbn. repeat split; auto; try lia; try discriminate.
      right; split; eauto.
Qed.

Lemma init_policy : forall e evs o, init_post (Some e) evs o ->
  if lit_recoverable e
  then (exists tl, skel evs = Wait 0 :: tl \/ exists d, skel evs = WaitCut 0 d :: tl) /\ (forall e', o <> IErr e')
  else evs = [] /\ o = IErr e.
Proof.
  intros e evs o H; unfold init_post in H. destruct (lit_recoverable e); [|exact H].
  destruct H as (rs & tail & Hs & Hl & Ho). split.
  - destruct rs as [|r rs].
    + destruct o as [k kind | e' | | ]; try contradiction.
      * destruct Ho as (_ & rs0 & Hr & _). destruct rs0; discriminate.
      * destruct Ho as (_ & _ & d & ->). exists []. right. exists d. exact Hs.
      * destruct Ho as (_ & Hn & _). discriminate.
    + exists (DialAttempt r :: bskel 1 rs ++ tail). left. exact Hs.
  - intros e' ->. exact Ho.
Qed.

Lemma init_cancelled : forall m real e w ev w' o,
  w_cancelled w = true -> lit_recoverable e = true -> init m real (Some e) w = (ev, w', o) ->
  (count_dials ev <= 1)%nat /\ no_pos_wait ev /\ w_cancelled w' = true /\
  (o = ICanceled \/ exists k kind, o = IConn k kind).
Proof.
  intros m real e w ev w' o Hc He; unfold init. rewrite recoverable_lit, He.
  change (Z.to_nat dialAttempts) with (S (S 48)). change dialLoopStart with 0.
  apply retry_cancelled; exact Hc.
Qed.

(* a cancellation that arrives during a back-off wait ends the re-initialisation at once *)
Lemma wait_cancelled : forall m real n i delay w,
  w_cancelled w = false -> 0 < delay -> hd false (w_waits w) = true ->
  exists w', retry m real (S n) i delay w = ([WaitCut delay cut_offset; Cancel], w', ICanceled) /\ w_cancelled w' = true.
Proof.
  intros m real n i delay w Hc Hd Hw. rewrite retry_unfold. cbv zeta. rewrite Hc.
  assert (H : 0 <? delay = true) by lia. rewrite H. unfold pop_wait. rewrite Hw.
  eexists; split; reflexivity.
Qed.

(* with the context cancelled, a back-off wait of positive length returns at once *)
Lemma wait_when_cancelled : forall m real n i delay w,
  w_cancelled w = true -> 0 < delay ->
  retry m real (S n) i delay w = ([WaitCut delay 0], w, ICanceled).
Proof.
  intros m real n i delay w Hc Hd. rewrite retry_unfold. cbv zeta. rewrite Hc.
  assert (H : delay <=? 0 = false) by lia. rewrite H. reflexivity.
Qed.


(* ------------------------------------------------------------------ the full cancellation theorem *)

(* the tasks in l return nil or context.Canceled *)
Definition benign_trace (l : list event) : Prop :=
  forall k r, In (Task k r) l -> r = None \/ r = Some ECanceled.

Lemma benign_app_l : forall a b, benign_trace (a ++ b) -> benign_trace a.
Proof. intros a b H k r Hin; apply (H k r); apply in_or_app; auto. Qed.
Lemma benign_app_r : forall a b, benign_trace (a ++ b) -> benign_trace b.
Proof. intros a b H k r Hin; apply (H k r); apply in_or_app; auto. Qed.

(* classes of events, from the weakest to the strongest:
   nc: not the cancellation mark; quiet: moreover not a wait of positive length that elapsed;
   calm: moreover neither a task nor a clean-up; inert: moreover not a dial attempt, wait or return *)
Definition is_nc (e : event) : bool := match e with Cancel => false | _ => true end.
Definition is_quiet (e : event) : bool :=
  match e with Cancel => false | Wait d => d <=? 0 | _ => true end.
Definition is_calm (e : event) : bool :=
  match e with Cancel | Task _ _ | Cleanup _ _ => false | Wait d => d <=? 0 | _ => true end.
Definition is_inert (e : event) : bool :=
  match e with
  | Cancel | Wait _ | DialAttempt _ | Task _ _ | Cleanup _ _ | Return _ => false
  | _ => true
  end.
Local Notation nc l := (forallb is_nc l = true).
Local Notation quiet l := (forallb is_quiet l = true).
Local Notation calm l := (forallb is_calm l = true).
Local Notation inert l := (forallb is_inert l = true).

Lemma fb_impl : forall (f g : event -> bool) l,
  (forall x, f x = true -> g x = true) -> forallb f l = true -> forallb g l = true.
Proof.
  intros f g l H; induction l as [|x l IH]; cbn; auto. intro Hx.
  apply andb_true_iff in Hx. destruct Hx as [H1 H2]. rewrite (H _ H1), (IH H2). reflexivity.
Qed.
Lemma fb_app : forall (f : event -> bool) a b,
  forallb f a = true -> forallb f b = true -> forallb f (a ++ b) = true.
Proof. intros f a b Ha Hb. rewrite forallb_app, Ha, Hb. reflexivity. Qed.
Lemma fb_cons : forall (f : event -> bool) e l,
  f e = true -> forallb f l = true -> forallb f (e :: l) = true.
Proof. intros f e l He Hl. cbn. rewrite He, Hl. reflexivity. Qed.
Lemma fb_app_inv : forall (f : event -> bool) a b,
  forallb f (a ++ b) = true -> forallb f a = true /\ forallb f b = true.
Proof. intros f a b H. rewrite forallb_app in H. apply andb_true_iff in H. exact H. Qed.

Lemma inert_calm : forall l, inert l -> calm l.
Proof. intro l; apply fb_impl. intros [] H; cbn in *; congruence. Qed.
Lemma calm_quiet : forall l, calm l -> quiet l.
Proof. intro l; apply fb_impl. intros [] H; cbn in *; congruence. Qed.
Lemma quiet_nc : forall l, quiet l -> nc l.
Proof. intro l; apply fb_impl. intros [] H; cbn in *; congruence. Qed.

Local Ltac fb := repeat match goal with
  | |- forallb _ [] = true => reflexivity
  | |- forallb _ (_ ++ _) = true => apply fb_app
  | |- forallb _ (_ :: _) = true => apply fb_cons; [cbn; try reflexivity; try lia|]
  | |- forallb is_calm _ = true => first [assumption | apply inert_calm; assumption]
  | |- forallb is_quiet _ = true =>
      first [assumption | apply calm_quiet; first [assumption | apply inert_calm; assumption]]
  | |- forallb is_nc _ = true =>
      first [assumption | apply quiet_nc;
             first [assumption | apply calm_quiet; first [assumption | apply inert_calm; assumption]]]
  end.

Lemma nc_not_in : forall l, nc l -> ~ In Cancel l.
Proof.
  induction l as [|a l IH]; cbn; [tauto|]. intro H. apply andb_true_iff in H. destruct H as [Ha Hl].
  intros [E|Hin]; [subst a; discriminate | exact (IH Hl Hin)].
Qed.
Lemma not_in_nc : forall l, ~ In Cancel l -> nc l.
Proof.
  induction l as [|a l IH]; cbn; [reflexivity|]. intro H. rewrite IH by tauto.
  destruct a; try reflexivity. exfalso; apply H; left; reflexivity.
Qed.
Lemma quiet_no_pos_wait : forall l, quiet l -> no_pos_wait l.
Proof.
  induction l as [|a l IH]; intros H d Hin; [destruct Hin|]. cbn in H.
  apply andb_true_iff in H. destruct H as [Ha Hl]. destruct Hin as [E|Hin].
  - subst a. cbn in Ha. lia.
  - exact (IH Hl d Hin).
Qed.

Lemma count_dials_app : forall a b, count_dials (a ++ b) = (count_dials a + count_dials b)%nat.
Proof. intros; unfold count_dials; rewrite filter_app, app_length; reflexivity. Qed.
Lemma count_tasks_app : forall a b, count_tasks (a ++ b) = (count_tasks a + count_tasks b)%nat.
Proof. intros; unfold count_tasks; rewrite filter_app, app_length; reflexivity. Qed.
Lemma count_cleanups_app : forall a b, count_cleanups (a ++ b) = (count_cleanups a + count_cleanups b)%nat.
Proof. intros; unfold count_cleanups; rewrite filter_app, app_length; reflexivity. Qed.

Lemma count_dials_cons : forall e l,
  count_dials (e :: l) = ((match e with DialAttempt _ => 1 | _ => 0 end) + count_dials l)%nat.
Proof. intros [] l; reflexivity. Qed.
Lemma count_tasks_cons : forall e l,
  count_tasks (e :: l) = ((match e with Task _ _ => 1 | _ => 0 end) + count_tasks l)%nat.
Proof. intros [] l; reflexivity. Qed.
Lemma count_cleanups_cons : forall e l,
  count_cleanups (e :: l) = ((match e with Cleanup _ _ => 1 | _ => 0 end) + count_cleanups l)%nat.
Proof. intros [] l; reflexivity. Qed.
Lemma count_dials_nil : count_dials [] = 0%nat. Proof. reflexivity. Qed.
Lemma count_tasks_nil : count_tasks [] = 0%nat. Proof. reflexivity. Qed.
Lemma count_cleanups_nil : count_cleanups [] = 0%nat. Proof. reflexivity. Qed.
#[local] Hint Rewrite count_dials_app count_tasks_app count_cleanups_app
  count_dials_cons count_tasks_cons count_cleanups_cons
  count_dials_nil count_tasks_nil count_cleanups_nil : cnt.
Local Ltac cnt := autorewrite with cnt in *; cbv match in *.

Lemma calm_counts : forall l, calm l -> count_tasks l = 0%nat /\ count_cleanups l = 0%nat.
Proof.
  induction l as [|a l IH]; intro H; [split; reflexivity|]. cbn in H.
  apply andb_true_iff in H. destruct H as [Ha Hl]. destruct (IH Hl) as [H1 H2].
  destruct a; cbn in Ha; try discriminate; split; assumption.
Qed.
Lemma inert_dials : forall l, inert l -> count_dials l = 0%nat.
Proof.
  induction l as [|a l IH]; intro H; [reflexivity|]. cbn in H.
  apply andb_true_iff in H. destruct H as [Ha Hl]. pose proof (IH Hl) as H1.
  destruct a; cbn in Ha; try discriminate; assumption.
Qed.

Lemma backoff_pos : forall i, 0 <= i -> 0 < backoff i.
Proof.
  intros i Hi; unfold backoff, dialStepOffset, dialStep, dialMaxDelay.
  destruct (3000000000 <? (i + 1) * 250000000); lia.
Qed.

(* ---- one DialFunc call *)
Lemma do_real_spec : forall m s w ev w' o,
  do_real m s w = (ev, w', o) -> inert ev /\ w_cancelled w' = w_cancelled w.
Proof.
  intros m [lk ck op g st lv cl] w ev w' o; unfold do_real; cbn.
  destruct lk, ck, op, m, g, st; intro H; inversion H; subst; split; reflexivity.
Qed.

Lemma do_dial_spec : forall m real w ev w' o, do_dial m real w = (ev, w', o) ->
  exists body c,
    ev = body ++ DialAttempt (dres o) :: (if c && negb (w_cancelled w) then [Cancel] else []) /\
    inert body /\ w_cancelled w' = c || w_cancelled w.
Proof.
  intros m real w ev w' o; unfold do_dial.
  destruct (hd (default_dial real) (w_dials w)) as [r c | s c].
  - destruct r; intro H; inversion H; subst; exists [], c;
      (split; [reflexivity|]); (split; [reflexivity|]); destruct c; reflexivity.
  - destruct (do_real m s (set_dials w (tl (w_dials w)))) as [[ev1 w1] o1] eqn:Er.
    apply do_real_spec in Er. destruct Er as [Hi Hc]. cbn [w_cancelled set_dials] in Hc.
    intro H; inversion H; subst. exists ev1, c. split.
    + unfold mark. rewrite Hc. reflexivity.
    + split; [exact Hi|]. destruct c; cbn; auto.
Qed.

(* ---- re-initialisation from a cancelled context *)
Lemma retry_cancelled_calm : forall m real n i delay w ev w' o,
  w_cancelled w = true -> 0 <= i ->
  retry m real (S (S n)) i delay w = (ev, w', o) ->
  calm ev /\ (count_dials ev <= 1)%nat /\ w_cancelled w' = true /\
  (o = ICanceled \/ exists k kind, o = IConn k kind).
Proof.
  intros m real n i delay w ev w' o Hc Hi H. rewrite retry_unfold in H. cbv zeta in H. rewrite Hc in H.
  destruct (delay <=? 0) eqn:Ed.
  - unfold pop_bit in H. destruct (hd false (w_bits w)).
    + destruct (do_dial m real (set_bits w (tl (w_bits w)))) as [[evd w1] od] eqn:Edl.
      apply do_dial_spec in Edl. destruct Edl as (body & c & -> & Hb & Hc1).
      cbn [w_cancelled set_bits] in Hc1. rewrite Hc in Hc1. rewrite orb_true_r in Hc1.
      cbn [w_cancelled set_bits] in H. rewrite Hc, andb_false_r in H.
      destruct od as [k kind | e].
      * inversion H; subst. split; [fb|]. split.
        { cnt. rewrite (inert_dials _ Hb). lia. }
        split; [exact Hc1|]. right; eauto.
      * rewrite (wait_when_cancelled m real n (i + 1) (backoff i) w1 Hc1 (backoff_pos i Hi)) in H.
        inversion H; subst. split; [fb|]. split.
        { cnt. rewrite (inert_dials _ Hb). lia. }
        split; [exact Hc1|]. left; reflexivity.
    + inversion H; subst. split; [reflexivity|]. split; [cbn; lia|]. split; [exact Hc|]. left; reflexivity.
  - inversion H; subst. split; [reflexivity|]. split; [cbn; lia|]. split; [exact Hc|]. left; reflexivity.
Qed.

Lemma init_cancelled_some : forall m real e w ev w' o,
  w_cancelled w = true -> init m real (Some e) w = (ev, w', o) ->
  calm ev /\ (count_dials ev <= 1)%nat /\ w_cancelled w' = true /\
  (count_dials ev = 0%nat \/ o = ICanceled \/ exists k kind, o = IConn k kind).
Proof.
  intros m real e w ev w' o Hc; unfold init. destruct (recoverable e).
  - change (Z.to_nat dialAttempts) with (S (S 48)). change dialLoopStart with 0. intro H.
    apply retry_cancelled_calm in H; [|exact Hc|lia]. destruct H as (H1 & H2 & H3 & H4). auto.
  - intro H; inversion H; subst. split; [reflexivity|]. split; [cbn; lia|]. split; [exact Hc|]. left; reflexivity.
Qed.

Lemma init_cancelled_none : forall m real w ev w' o,
  w_cancelled w = true -> init m real None w = (ev, w', o) ->
  calm ev /\ (count_dials ev <= 2)%nat /\ w_cancelled w' = true /\
  (o = ICanceled \/ (exists k kind, o = IConn k kind) \/
   exists e, o = IErr e /\ lit_recoverable e = false /\ In (DialAttempt (Some e)) ev).
Proof.
  intros m real w ev w' o Hc; unfold init.
  destruct (do_dial m real w) as [[evd w1] od] eqn:Edl.
  apply do_dial_spec in Edl. destruct Edl as (body & c & -> & Hb & Hc1).
  rewrite Hc, andb_false_r in *. rewrite orb_true_r in Hc1.
  destruct od as [k kind | e].
  - intro H; inversion H; subst. split; [fb|]. split; [cnt; rewrite (inert_dials _ Hb); lia|].
    split; [exact Hc1|]. right; left; eauto.
  - rewrite recoverable_lit. destruct (lit_recoverable e) eqn:El.
    + change (Z.to_nat dialAttempts) with (S (S 48)). change dialLoopStart with 0.
      destruct (retry m real (S (S 48)) 0 0 w1) as [[ev2 w2] o2] eqn:Er.
      apply retry_cancelled_calm in Er; [|exact Hc1|lia]. destruct Er as (H1 & H2 & H3 & H4).
      intro H; inversion H; subst. split; [fb|]. split; [cnt; rewrite (inert_dials _ Hb); lia|].
      split; [exact H3|]. destruct H4 as [H4|H4]; auto.
    + intro H; inversion H; subst. split; [fb|]. split; [cnt; rewrite (inert_dials _ Hb); lia|].
      split; [exact Hc1|]. right; right. exists e. split; [reflexivity|]. split; [exact El|].
      apply in_or_app; right; left; reflexivity.
Qed.

(* ---- fn + done *)
Lemma do_cleanup_spec : forall k kind te w evc w' ok,
  do_cleanup k kind te w = (evc, w', ok) -> inert evc /\ w_cancelled w' = w_cancelled w.
Proof.
  intros k kind te w evc w' ok; unfold do_cleanup. destruct kind as [|[prev|]].
  - intro H; inversion H; subst; split; reflexivity.
  - destruct (t_restore te); intro H; inversion H; subst; split; reflexivity.
  - intro H; inversion H; subst; split; reflexivity.
Qed.

Lemma round_spec : forall k kind te w ev w' ro, round k kind te w = (ev, w', ro) ->
  exists evc ok,
    ev = (if t_cancel te && negb (w_cancelled w) then [Cancel] else []) ++
         Task k (t_res te) :: evc ++
         Cleanup k ok :: (if t_cancel_done te && negb (t_cancel te || w_cancelled w) then [Cancel] else []) /\
    inert evc /\ w_cancelled w' = t_cancel_done te || (t_cancel te || w_cancelled w) /\
    ro = round_result (t_res te) ok.
Proof.
  intros k kind te w ev w' ro; unfold round.
  destruct (do_cleanup k kind te (cancel_if (t_cancel te) w)) as [[evc w2] ok] eqn:Ec.
  apply do_cleanup_spec in Ec. destruct Ec as [Hi Hc].
  assert (Hc2 : w_cancelled w2 = t_cancel te || w_cancelled w).
  { rewrite Hc. destruct (t_cancel te); reflexivity. }
  intro H; inversion H; subst. exists evc, ok. split.
  - unfold mark. rewrite Hc2. reflexivity.
  - split; [exact Hi|]. split; [|reflexivity]. rewrite <- Hc2. destruct (t_cancel_done te); reflexivity.
Qed.

(* ---- Dial = init, then the continuation *)
Definition cont (m : mode) (real : bool) (tasks : list task_ev) (o : init_out) (w1 : world) : list event :=
  match o with
  | IConn k kind =>
      let '(ev2, w2, ro) := round k kind (hd default_task tasks) w1 in
      ev2 ++
      match ro with
      | RDone v => [Return v]
      | RAgain e =>
          match tasks with
          | [] => [Return RNil]
          | _ :: tl => loop m real tl (Some e) w2
          end
      end
  | _ => [Return (final o)]
  end.

Lemma loop_unfold : forall m real tasks cause w,
  loop m real tasks cause w = let '(ev, w1, o) := init m real cause w in ev ++ cont m real tasks o w1.
Proof. intros m real [|te tl] cause w; reflexivity. Qed.

Lemma loop_not_recoverable : forall m real tasks e w,
  recoverable e = false -> loop m real tasks (Some e) w = [Return (final (IErr e))].
Proof. intros m real tasks e w H. rewrite loop_unfold. cbn [init]. rewrite H. reflexivity. Qed.

(* from a cancelled context: no further mark, no back-off wait of positive length *)
Lemma cont_quiet : forall m real tasks o w1,
  (forall te ts, tasks = te :: ts ->
     forall e w2, w_cancelled w2 = true -> quiet (loop m real ts (Some e) w2)) ->
  w_cancelled w1 = true -> quiet (cont m real tasks o w1).
Proof.
  intros m real tasks o w1 IH Hc. unfold cont. destruct o as [k kind | e | | ]; try reflexivity.
  destruct (round k kind (hd default_task tasks) w1) as [[ev2 w2] ro] eqn:Er.
  apply round_spec in Er. destruct Er as (evc & ok & -> & Hi & Hc2 & _).
  rewrite Hc, orb_true_r, !andb_false_r in *. rewrite orb_true_r in Hc2.
  destruct ro as [v | e]; [fb|]. destruct tasks as [|te ts]; [fb|].
  pose proof (IH te ts eq_refl e w2 Hc2). fb.
Qed.

Lemma init_cancelled_calm : forall m real cause w ev w' o,
  w_cancelled w = true -> init m real cause w = (ev, w', o) -> calm ev /\ w_cancelled w' = true.
Proof.
  intros m real cause w ev w' o Hc Ei.
  destruct cause as [e|]; [apply init_cancelled_some in Ei | apply init_cancelled_none in Ei]; tauto.
Qed.

Lemma loop_cancelled_quiet : forall m real tasks cause w,
  w_cancelled w = true -> quiet (loop m real tasks cause w).
Proof.
  intros m real tasks; induction tasks as [|te ts IH]; intros cause w Hc; rewrite loop_unfold;
    destruct (init m real cause w) as [[ev w1] o] eqn:Ei;
    apply init_cancelled_calm in Ei; try exact Hc; destruct Ei as [Hq Hc1];
    (apply fb_app; [fb|]); (apply cont_quiet; [|exact Hc1]); intros te' ts' E; inversion E; subst.
  intros e w2; apply IH.
Qed.

Lemma cont_cancelled_quiet : forall m real tasks o w1,
  w_cancelled w1 = true -> quiet (cont m real tasks o w1).
Proof.
  intros m real tasks o w1 Hc. apply cont_quiet; [|exact Hc].
  intros te ts _ e w2. apply loop_cancelled_quiet.
Qed.

(* from a cancelled context, when the task (if any) returns nil / context.Canceled: no dial, at most
   one task and clean-up, and the value returned *)
Lemma cont_cancelled_benign : forall m real tasks o w1,
  w_cancelled w1 = true -> benign_trace (cont m real tasks o w1) ->
  exists c' v, cont m real tasks o w1 = c' ++ [Return v] /\
    count_dials c' = 0%nat /\ (count_tasks c' <= 1)%nat /\ (count_cleanups c' <= 1)%nat /\
    match o with IConn _ _ => v = RNil \/ v = RCleanupErr | _ => c' = [] /\ v = final o end.
Proof.
  intros m real tasks o w1 Hc. unfold cont. destruct o as [k kind | e | | ].
  2-4: intros _; eexists [], _; cbn; repeat split; lia.
  remember (hd default_task tasks) as te eqn:Ete.
  destruct (round k kind te w1) as [[ev2 w2] ro] eqn:Er.
  apply round_spec in Er. destruct Er as (evc & ok & -> & Hi & Hc2 & ->).
  rewrite Hc, orb_true_r, !andb_false_r in *. cbn [app]. intro Hb.
  assert (Hr : t_res te = None \/ t_res te = Some ECanceled) by (apply (Hb k); left; reflexivity).
  pose proof (inert_dials _ Hi) as Hd. destruct (calm_counts _ (inert_calm _ Hi)) as [Ht Hcl].
  assert (Hcnt : forall r, count_dials (Task k r :: evc ++ [Cleanup k ok]) = 0%nat /\
                      (count_tasks (Task k r :: evc ++ [Cleanup k ok]) <= 1)%nat /\
                      (count_cleanups (Task k r :: evc ++ [Cleanup k ok]) <= 1)%nat).
  { intro r. cnt. lia. }
  destruct ok; [destruct Hr as [E|E]; rewrite E in *; cbn [round_result] |]. 
  - exists (Task k None :: evc ++ [Cleanup k true]), RNil. split; [reflexivity|].
    destruct (Hcnt None) as (H1 & H2 & H3). auto.
  - exists (Task k (Some ECanceled) :: evc ++ [Cleanup k true]), RNil. split.
    + destruct tasks as [|te' ts]; [reflexivity|].
      rewrite loop_not_recoverable by reflexivity. reflexivity.
    + destruct (Hcnt (Some ECanceled)) as (H1 & H2 & H3). auto.
  - cbn [round_result]. exists (Task k (t_res te) :: evc ++ [Cleanup k false]), RCleanupErr.
    split; [reflexivity|].
    destruct (Hcnt (t_res te)) as (H1 & H2 & H3). auto.
Qed.

Lemma cont_after_gen : forall m real tasks o w1 q,
  w_cancelled w1 = true -> calm q -> benign_trace (q ++ cont m real tasks o w1) ->
  count_dials (q ++ cont m real tasks o w1) = count_dials q /\
  (count_tasks (q ++ cont m real tasks o w1) <= 1)%nat /\
  (count_cleanups (q ++ cont m real tasks o w1) <= 1)%nat /\
  exists pre' v, q ++ cont m real tasks o w1 = pre' ++ [Return v] /\
    match o with
    | IConn _ _ => v = RNil \/ v = RCleanupErr
    | _ => v = final o /\ count_tasks (q ++ cont m real tasks o w1) = 0%nat
    end.
Proof.
  intros m real tasks o w1 q Hc Hq Hb. apply benign_app_r in Hb.
  destruct (cont_cancelled_benign _ _ _ _ _ Hc Hb) as (c' & v & -> & Hd & Ht & Hcl & Ho).
  destruct (calm_counts _ Hq) as [Hqt Hqc]. cnt.
  split; [lia|]. split; [lia|]. split; [lia|].
  exists (q ++ c'), v. split; [apply app_assoc|].
  destruct o as [k kind | e | | ]; try exact Ho; destruct Ho as [-> ->]; split; try reflexivity; cnt; lia.
Qed.

(* what may follow the cancellation mark (when it is not the very first event of the run) *)
Definition after_ok (post : list event) : Prop :=
  quiet post /\
  (benign_trace post ->
     (count_dials post <= 1)%nat /\ (count_tasks post <= 1)%nat /\ (count_cleanups post <= 1)%nat /\
     exists pre' v, post = pre' ++ [Return v] /\
       (v = RNil \/ v = RCleanupErr \/ (count_dials post = 0%nat /\ count_tasks post = 0%nat))).

Lemma after_ok_return : forall v, after_ok [Return v].
Proof.
  intro v. split; [reflexivity|]. intros _. cbn. repeat split; try lia.
  exists [], v. split; [reflexivity|]. right; right; split; reflexivity.
Qed.

Lemma cont_after : forall m real tasks o w1 q,
  w_cancelled w1 = true -> calm q -> (count_dials q <= 1)%nat ->
  (count_dials q = 0%nat \/ o = ICanceled \/ exists k kind, o = IConn k kind) ->
  after_ok (q ++ cont m real tasks o w1).
Proof.
  intros m real tasks o w1 q Hc Hq Hd Ho. split.
  - pose proof (cont_cancelled_quiet m real tasks o w1 Hc). fb.
  - intro Hb. destruct (cont_after_gen _ _ _ _ _ _ Hc Hq Hb) as (H1 & H2 & H3 & pre' & v & E & Hv).
    split; [lia|]. split; [exact H2|]. split; [exact H3|]. exists pre', v. split; [exact E|].
    destruct o as [k kind | e | | ].
    + destruct Hv; auto.
    + destruct Ho as [Ho|[Ho|(k & kind & Ho)]]; try discriminate. right; right. split; [lia|tauto].
    + left. tauto.
    + destruct Ho as [Ho|[Ho|(k & kind & Ho)]]; try discriminate. right; right. split; [lia|tauto].
Qed.

Lemma loop_cancelled_some : forall m real tasks e w,
  w_cancelled w = true -> after_ok (loop m real tasks (Some e) w).
Proof.
  intros m real tasks e w Hc. rewrite loop_unfold.
  destruct (init m real (Some e) w) as [[ev w1] o] eqn:Ei.
  apply init_cancelled_some in Ei; [|exact Hc]. destruct Ei as (Hq & Hd & Hc1 & Ho).
  apply cont_after; assumption.
Qed.

Lemma loop_cancelled_none : forall m real tasks w,
  w_cancelled w = true -> benign_trace (loop m real tasks None w) ->
  (count_dials (loop m real tasks None w) <= 2)%nat /\
  (count_tasks (loop m real tasks None w) <= 1)%nat /\
  (count_cleanups (loop m real tasks None w) <= 1)%nat /\
  exists pre' v, loop m real tasks None w = pre' ++ [Return v] /\
    (v = RNil \/ v = RCleanupErr \/
     exists e, v = RWrap e /\ lit_recoverable e = false /\
               count_tasks (loop m real tasks None w) = 0%nat /\
               In (DialAttempt (Some e)) (loop m real tasks None w)).
Proof.
  intros m real tasks w Hc. rewrite loop_unfold.
  destruct (init m real None w) as [[ev w1] o] eqn:Ei.
  apply init_cancelled_none in Ei; [|exact Hc]. destruct Ei as (Hq & Hd & Hc1 & Ho).
  intro Hb. destruct (cont_after_gen _ _ _ _ _ _ Hc1 Hq Hb) as (H1 & H2 & H3 & pre' & v & E & Hv).
  split; [lia|]. split; [exact H2|]. split; [exact H3|]. exists pre', v. split; [exact E|].
  destruct Ho as [->|[(k & kind & ->)|(e & -> & El & Hin)]].
  - left; tauto.
  - destruct Hv; auto.
  - destruct Hv as [-> Ht]. destruct e; try discriminate El; cbn [final is_canceled]; auto;
      right; right; eexists; (split; [reflexivity|]); (split; [reflexivity|]); (split; [exact Ht|]);
      apply in_or_app; left; exact Hin.
Qed.

(* ---- from a context that is not cancelled *)
Local Ltac lst := repeat (cbn [app]; rewrite <- app_assoc); cbn [app]; reflexivity.

Lemma retry_fresh : forall m real n i delay w ev w' o,
  w_cancelled w = false -> 0 <= i -> retry m real n i delay w = (ev, w', o) ->
  (nc ev /\ w_cancelled w' = false) \/
  (exists p q, ev = p ++ Cancel :: q /\ nc p /\ w_cancelled w' = true /\ inert q).
Proof.
  intros m real n; induction n as [|n IH]; intros i delay w ev w' o Hc Hi H.
  - cbn in H; inversion H; subst. left; split; [reflexivity|exact Hc].
  - rewrite retry_unfold in H. cbv zeta in H. rewrite Hc in H.
    assert (Hgo : forall w0 ev w' o, w_cancelled w0 = false ->
      (let '(ev, w1, o) := do_dial m real w0 in
       match o with
       | DConn k kind => ([Wait delay] ++ ev, w1, IConn k kind)
       | DFail _ =>
           let '(ev2, w2, o2) := retry m real n (i + 1) (backoff i) w1 in
           ([Wait delay] ++ ev ++ ev2, w2, o2)
       end) = (ev, w', o) ->
      (nc ev /\ w_cancelled w' = false) \/
      (exists p q, ev = p ++ Cancel :: q /\ nc p /\ w_cancelled w' = true /\ inert q)).
    { clear H. intros w0 ev0 w0' o0 Hc0 H.
      destruct (do_dial m real w0) as [[evd w1] od] eqn:Edl.
      apply do_dial_spec in Edl. destruct Edl as (body & c & -> & Hb & Hc1).
      rewrite Hc0 in *. rewrite orb_false_r in Hc1. destruct c; cbn [andb negb] in H.
      - (* cancelled while this dial is in progress *)
        destruct od as [k kind | e].
        + inversion H; subst. right. exists ([Wait delay] ++ body ++ [DialAttempt None]), [].
          split; [cbn [dres]; lst|]. split; [fb|]. split; [exact Hc1|reflexivity].
        + destruct n as [|n].
          * cbn [retry] in H. inversion H; subst. right.
            exists ([Wait delay] ++ body ++ [DialAttempt (Some e)]), [].
            split; [cbn [dres]; lst|]. split; [fb|]. split; [exact Hc1|reflexivity].
          * rewrite (wait_when_cancelled m real n (i + 1) (backoff i) w1 Hc1 (backoff_pos i Hi)) in H.
            inversion H; subst. right.
            exists ([Wait delay] ++ body ++ [DialAttempt (Some e)]), [WaitCut (backoff i) 0].
            split; [cbn [dres]; lst|]. split; [fb|]. split; [exact Hc1|reflexivity].
      - destruct od as [k kind | e].
        + inversion H; subst. left. split; [fb|exact Hc1].
        + destruct (retry m real n (i + 1) (backoff i) w1) as [[ev2 w2] o2] eqn:Er.
          apply IH in Er; [|exact Hc1|lia]. inversion H; subst.
          destruct Er as [[Hn Hw]|(p & q & -> & Hp & Hw & Hq)].
          * left. split; [fb|exact Hw].
          * right. exists ([Wait delay] ++ (body ++ [DialAttempt (Some e)]) ++ p), q.
            split; [cbn [dres]; lst|]. split; [fb|]. split; assumption. }
    destruct (0 <? delay).
    + unfold pop_wait in H. destruct (hd false (w_waits w)).
      * inversion H; subst. right. exists [WaitCut delay cut_offset], [].
        split; [reflexivity|]. split; [reflexivity|]. split; reflexivity.
      * eapply Hgo; [|exact H]. exact Hc.
    + eapply Hgo; [|exact H]. exact Hc.
Qed.

Lemma init_fresh : forall m real cause w ev w' o,
  w_cancelled w = false -> init m real cause w = (ev, w', o) ->
  (nc ev /\ w_cancelled w' = false) \/
  (exists p q, ev = p ++ Cancel :: q /\ nc p /\ w_cancelled w' = true /\ calm q /\
     (count_dials q <= 1)%nat /\
     (count_dials q = 0%nat \/ o = ICanceled \/ exists k kind, o = IConn k kind)).
Proof.
  intros m real cause w ev w' o Hc; unfold init.
  change (Z.to_nat dialAttempts) with (S (S 48)). change dialLoopStart with 0.
  destruct cause as [e|].
  - destruct (recoverable e).
    + intro H. apply retry_fresh in H; [|exact Hc|lia].
      destruct H as [H|(p & q & -> & Hp & Hw & Hq)]; [left; exact H|].
      right. exists p, q. split; [reflexivity|]. split; [exact Hp|]. split; [exact Hw|].
      split; [fb|]. rewrite (inert_dials _ Hq). split; [lia|]. left; reflexivity.
    + intro H; inversion H; subst. left. split; [reflexivity|exact Hc].
  - destruct (do_dial m real w) as [[evd w1] od] eqn:Edl.
    apply do_dial_spec in Edl. destruct Edl as (body & c & -> & Hb & Hc1).
    rewrite Hc in *. rewrite orb_false_r in Hc1. destruct c; cbn [andb negb].
    + (* cancelled while the first dial is in progress *)
      destruct od as [k kind | e].
      * intro H; inversion H; subst. right. exists (body ++ [DialAttempt None]), [].
        split; [cbn [dres]; lst|]. split; [fb|]. split; [exact Hc1|]. split; [reflexivity|].
        split; [cbn; lia|]. left; reflexivity.
      * destruct (recoverable e).
        -- destruct (retry m real (S (S 48)) 0 0 w1) as [[ev2 w2] o2] eqn:Er.
           apply retry_cancelled_calm in Er; [|exact Hc1|lia]. destruct Er as (H1 & H2 & H3 & H4).
           intro H; inversion H; subst. right. exists (body ++ [DialAttempt (Some e)]), ev2.
           split; [cbn [dres]; lst|]. split; [fb|]. split; [exact H3|]. split; [exact H1|].
           split; [exact H2|]. right; exact H4.
        -- intro H; inversion H; subst. right. exists (body ++ [DialAttempt (Some e)]), [].
           split; [cbn [dres]; lst|]. split; [fb|]. split; [exact Hc1|]. split; [reflexivity|].
           split; [cbn; lia|]. left; reflexivity.
    + destruct od as [k kind | e].
      * intro H; inversion H; subst. left. split; [fb|exact Hc1].
      * destruct (recoverable e).
        -- destruct (retry m real (S (S 48)) 0 0 w1) as [[ev2 w2] o2] eqn:Er.
           apply retry_fresh in Er; [|exact Hc1|lia]. intro H; inversion H; subst.
           destruct Er as [[Hn Hw]|(p & q & -> & Hp & Hw & Hq)].
           ++ left. split; [fb|exact Hw].
           ++ right. exists ((body ++ [DialAttempt (Some e)]) ++ p), q.
              split; [cbn [dres]; lst|]. split; [fb|]. split; [exact Hw|].
              split; [fb|]. rewrite (inert_dials _ Hq). split; [lia|]. left; reflexivity.
        -- intro H; inversion H; subst. left. split; [fb|exact Hc1].
Qed.

(* a run, or a part of one, that starts with the context not cancelled: no mark, or exactly one
   and after_ok what follows it *)
Definition fresh_ok (tr : list event) : Prop :=
  nc tr \/ exists p q, tr = p ++ Cancel :: q /\ nc p /\ after_ok q.

Lemma fresh_ok_prefix : forall a b, nc a -> fresh_ok b -> fresh_ok (a ++ b).
Proof.
  intros a b Ha [Hb | (p & q & -> & Hp & Hq)]; [left; fb|].
  right. exists (a ++ p), q. split; [apply app_assoc|]. split; [fb|exact Hq].
Qed.

(* cancelled while the task runs: the mark, then the same as from a cancelled context *)
Lemma round_pre_cancel : forall k kind te w,
  t_cancel te = true -> w_cancelled w = false ->
  round k kind te w =
    let '(ev, w', ro) := round k kind te (set_cancelled w) in (Cancel :: ev, w', ro).
Proof.
  intros k kind te w Ht Hc. unfold round. rewrite Ht. cbn [cancel_if].
  change (set_cancelled (set_cancelled w)) with (set_cancelled w).
  destruct (do_cleanup k kind te (set_cancelled w)) as [[evc w2] ok].
  unfold mark at 1 3. rewrite Hc. reflexivity.
Qed.

Lemma cont_pre_cancel : forall m real tasks k kind w,
  t_cancel (hd default_task tasks) = true -> w_cancelled w = false ->
  cont m real tasks (IConn k kind) w = Cancel :: cont m real tasks (IConn k kind) (set_cancelled w).
Proof.
  intros m real tasks k kind w Ht Hc. unfold cont. rewrite (round_pre_cancel _ _ _ _ Ht Hc).
  destruct (round k kind (hd default_task tasks) (set_cancelled w)) as [[ev w'] ro]. reflexivity.
Qed.

Lemma cont_fresh : forall m real tasks o w1,
  (forall te ts, tasks = te :: ts ->
     forall e w2, w_cancelled w2 = false -> fresh_ok (loop m real ts (Some e) w2)) ->
  w_cancelled w1 = false -> fresh_ok (cont m real tasks o w1).
Proof.
  intros m real tasks o w1 IH Hc. destruct o as [k kind | e | | ]; try (left; reflexivity).
  destruct (t_cancel (hd default_task tasks)) eqn:Ht.
  - rewrite (cont_pre_cancel _ _ _ _ _ _ Ht Hc). right.
    exists [], ([] ++ cont m real tasks (IConn k kind) (set_cancelled w1)).
    split; [reflexivity|]. split; [reflexivity|].
    apply cont_after; [reflexivity|reflexivity|cbn; lia|left; reflexivity].
  - unfold cont. destruct (round k kind (hd default_task tasks) w1) as [[ev2 w2] ro] eqn:Er.
    apply round_spec in Er. destruct Er as (evc & ok & -> & Hi & Hc2 & _).
    rewrite Ht, Hc in *. cbn [andb orb negb app] in *. rewrite orb_false_r in Hc2. rewrite andb_true_r.
    destruct (t_cancel_done (hd default_task tasks)).
    + (* cancelled while done() runs *)
      right. exists (Task k (t_res (hd default_task tasks)) :: evc ++ [Cleanup k ok]).
      eexists. split; [lst|]. split; [fb|].
      destruct ro as [v | e]; [apply after_ok_return|].
      destruct tasks as [|te ts]; [apply after_ok_return|]. apply loop_cancelled_some. exact Hc2.
    + match goal with |- fresh_ok (?x :: ?a ++ ?r) => change (fresh_ok ((x :: a) ++ r)) end.
      apply fresh_ok_prefix; [fb|]. destruct ro as [v | e]; [left; reflexivity|].
      destruct tasks as [|te ts]; [left; reflexivity|]. apply (IH te ts eq_refl). exact Hc2.
Qed.

Lemma loop_fresh : forall m real tasks cause w,
  w_cancelled w = false -> fresh_ok (loop m real tasks cause w).
Proof.
  intros m real tasks; induction tasks as [|te ts IH]; intros cause w Hc; rewrite loop_unfold;
    destruct (init m real cause w) as [[ev w1] o] eqn:Ei;
    apply init_fresh in Ei; try exact Hc;
    (destruct Ei as [[Hn Hc1]|(p & q & -> & Hp & Hc1 & Hq & Hd & Ho)];
     [ apply fresh_ok_prefix; [exact Hn|]; apply cont_fresh; [|exact Hc1];
       intros te' ts' E; inversion E; subst; intros e w2; apply IH
     | right; eexists p, _; split; [rewrite <- app_assoc; reflexivity|]; split; [exact Hp|];
       apply cont_after; assumption ]).
Qed.

(* ---- the theorem *)
Lemma cancel_split_unique : forall a b a' b',
  a ++ Cancel :: b = a' ++ Cancel :: b' -> nc a -> nc b -> a' = a /\ b' = b.
Proof.
  induction a as [|x a IH]; intros b a' b' E Ha Hb.
  - destruct a' as [|y a']; cbn in E; inversion E; subst; [split; reflexivity|].
    exfalso. apply (nc_not_in _ Hb). apply in_or_app; right; left; reflexivity.
  - cbn in Ha. apply andb_true_iff in Ha. destruct Ha as [Hx Ha].
    destruct a' as [|y a']; cbn in E; inversion E; subst; [discriminate Hx|].
    destruct (IH _ _ _ H1 Ha Hb) as [-> ->]. split; reflexivity.
Qed.

Theorem cancel_full : forall sc pre post, dial_loop sc = pre ++ Cancel :: post ->
  ~ In Cancel pre /\ ~ In Cancel post /\ no_pos_wait post /\
  (benign_trace post ->
     (count_dials post <= (if Nat.eqb (count_dials pre) 0 then 2 else 1))%nat /\
     (count_tasks post <= 1)%nat /\ (count_cleanups post <= 1)%nat /\
     exists pre' v, post = pre' ++ [Return v] /\
       (v = RNil \/ v = RCleanupErr \/
        (count_dials post = 0%nat /\ count_tasks post = 0%nat) \/
        (exists e, v = RWrap e /\ lit_recoverable e = false /\ count_dials pre = 0%nat /\
                   count_tasks post = 0%nat /\ In (DialAttempt (Some e)) post))).
Proof.
  intros sc pre post; unfold dial_loop. destruct (sc_pre sc) eqn:Ep.
  - (* the context is cancelled before Dial is called *)
    assert (Hc : w_cancelled (init_world sc) = true) by exact Ep.
    pose proof (loop_cancelled_quiet (sc_mode sc) (sc_real sc) (sc_tasks sc) None _ Hc) as Hq.
    pose proof (loop_cancelled_none (sc_mode sc) (sc_real sc) (sc_tasks sc) _ Hc) as Hb.
    intro E. change ([Cancel] ++ ?l) with ([] ++ Cancel :: l) in E.
    apply cancel_split_unique in E; [|reflexivity|fb]. destruct E as [-> ->].
    split; [intros []|]. split; [apply nc_not_in; fb|]. split; [apply quiet_no_pos_wait; exact Hq|].
    intro Hbn. destruct (Hb Hbn) as (H1 & H2 & H3 & pre' & v & E & Hv).
    split; [exact H1|]. split; [exact H2|]. split; [exact H3|]. exists pre', v. split; [exact E|].
    destruct Hv as [Hv|[Hv|(e & Hv & El & Ht & Hin)]]; auto.
    right; right; right. exists e. auto.
  - assert (Hc : w_cancelled (init_world sc) = false) by exact Ep.
    pose proof (loop_fresh (sc_mode sc) (sc_real sc) (sc_tasks sc) None _ Hc) as Hf.
    cbn [app]. intro E. destruct Hf as [Hn|(p & q & E' & Hp & Hq & Hb)].
    + exfalso. apply (nc_not_in _ Hn). rewrite E. apply in_or_app; right; left; reflexivity.
    + rewrite E' in E. apply cancel_split_unique in E; [|exact Hp|fb]. destruct E as [-> ->].
      split; [apply nc_not_in; exact Hp|]. split; [apply nc_not_in; fb|].
      split; [apply quiet_no_pos_wait; exact Hq|].
      intro Hbn. destruct (Hb Hbn) as (H1 & H2 & H3 & pre' & v & E & Hv).
      split; [destruct (Nat.eqb (count_dials p) 0); lia|]. split; [exact H2|]. split; [exact H3|].
      exists pre', v. split; [exact E|]. tauto.
Qed.
