(* Lemmas about Model/Dialer.v (properties C10 -- dialer clauses -- and C11). *)
From Coq Require Import Lia ZifyBool.
From CR Require Import Model.Dialer gen.ExtDialer.
Local Open Scope Z_scope.

Lemma ext_constants :
  dialAttempts = 50 /\ dialMaxDelay = 3000000000 /\ dialStep = 250000000 /\
  dialStepOffset = 1 /\ dialLoopStart = 0 /\ serveAttempts = 40.
Proof. repeat split; reflexivity. Qed.
