(* Lemmas about Model/Dialer.v (properties C10 -- dialer clauses -- and C11). *)
From Coq Require Import Lia ZifyBool.
From CR Require Import Model.Dialer.
From CR Require Import gen.ExtDialer.
Local Open Scope Z_scope.

Lemma ext_constants :
  dialAttempts = 50 /\ dialMaxDelay = 3000000000 /\ dialStep = 250000000 /\
  dialStepOffset = 1 /\ dialLoopStart = 0 /\ serveAttempts = 40.
Proof. repeat split; reflexivity. Qed.

(* ------------------------------------------------------------------ projections of a trace *)

(* the back-off skeleton: waits and dial attempts *)
Definition is_skel (e : event) : bool :=
  match e with Wait _ | WaitCut _ _ | DialAttempt _ => true | _ => false end.
Definition skel (l : list event) : list event := filter is_skel l.

Lemma skel_app : forall a b, skel (a ++ b) = skel a ++ skel b.
Proof. intros; apply filter_app. Qed.

Definition dres (o : dial_out) : option err :=
  match o with DConn _ _ => None | DFail e => Some e end.

Lemma skel_mark : forall c w, skel (mark c w) = [].
Proof. intros; unfold mark; destruct (c && negb (w_cancelled w)); reflexivity. Qed.

Lemma skel_cons_dial : forall r l, skel (DialAttempt r :: l) = DialAttempt r :: skel l.
Proof. reflexivity. Qed.

Lemma skel_cons_wait : forall d l, skel (Wait d :: l) = Wait d :: skel l.
Proof. reflexivity. Qed.

Lemma do_real_skel : forall m s w, skel (fst (fst (do_real m s w))) = [].
Proof.
  intros m [lk ck op g st lv cl] w; unfold do_real; cbn.
  destruct lk; [reflexivity|]. destruct ck; [reflexivity|]. destruct op; [reflexivity|].
  destruct m; [|reflexivity]. destruct g; try reflexivity. destruct st; reflexivity.
Qed.

Lemma do_dial_skel : forall m real w ev w' o,
  do_dial m real w = (ev, w', o) -> skel ev = [DialAttempt (dres o)].
Proof.
  intros m real w ev w' o; unfold do_dial.
  destruct (hd (default_dial real) (w_dials w)) as [r c | s c].
  - destruct r; intro H; inversion H; subst; cbn [skel filter is_skel app];
      fold (skel (mark c (set_dials w (tl (w_dials w))))); rewrite skel_mark; reflexivity.
  - pose proof (do_real_skel m s (set_dials w (tl (w_dials w)))) as Hs.
    destruct (do_real m s (set_dials w (tl (w_dials w)))) as [[ev1 w1] o1]; cbn [fst] in Hs.
    intro H; inversion H; subst. rewrite skel_app, Hs. cbn [app]. rewrite skel_cons_dial, skel_mark. destruct o; reflexivity.
Qed.

(* ------------------------------------------------------------------ back-off *)

(* the documented back-off: the wait before attempt j of a re-initialisation *)
Definition lit_delay (j : nat) : Z := Z.min (Z.of_nat j * 250000000) 3000000000.

Lemma backoff_lit : forall j, backoff (Z.of_nat j) = lit_delay (S j).
Proof.
  intro j; unfold backoff, lit_delay, dialStepOffset, dialStep, dialMaxDelay.
  destruct (3000000000 <? (Z.of_nat j + 1) * 250000000) eqn:E; lia.
Qed.

Lemma lit_delay_pos : forall j, 0 < lit_delay (S j).
Proof. intro j; unfold lit_delay; lia. Qed.

Lemma lit_delay_0 : lit_delay 0 = 0.
Proof. reflexivity. Qed.

(* Wait(d0) Dial(r0) Wait(d1) Dial(r1) ... with the documented delays, starting at attempt j *)
Fixpoint bskel (j : nat) (rs : list (option err)) : list event :=
  match rs with
  | [] => []
  | r :: rs' => Wait (lit_delay j) :: DialAttempt r :: bskel (S j) rs'
  end.

Definition failed (r : option err) : Prop := r <> None.

Definition retry_post (n j : nat) (ev : list event) (o : init_out) : Prop :=
  exists rs tail, skel ev = bskel j rs ++ tail /\ (length rs <= n)%nat /\
    match o with
    | IConn _ _ => tail = [] /\ exists rs0, rs = rs0 ++ [None] /\ Forall failed rs0
    | ITimeout => tail = [] /\ length rs = n /\ Forall failed rs
    | ICanceled => Forall failed rs /\ (length rs < n)%nat /\
                   exists e, tail = [WaitCut (lit_delay (j + length rs)) e]
    | IErr _ => False
    end.

Lemma retry_unfold : forall m real n' i delay w,
  retry m real (S n') i delay w =
    let go (pre : list event) (w0 : world) :=
      let '(ev, w1, o) := do_dial m real w0 in
      match o with
      | DConn k kind => (pre ++ ev, w1, IConn k kind)
      | DFail _ =>
          let '(ev2, w2, o2) := retry m real n' (i + 1) (backoff i) w1 in
          (pre ++ ev ++ ev2, w2, o2)
      end in
    if w_cancelled w then
      if delay <=? 0 then
        let (b, w0) := pop_bit w in
        if b then go [Wait delay] w0 else ([WaitCut delay 0], w0, ICanceled)
      else ([WaitCut delay 0], w, ICanceled)
    else if 0 <? delay then
      let (c, w0) := pop_wait w in
      if c then ([WaitCut delay cut_offset; Cancel], set_cancelled w0, ICanceled)
      else go [Wait delay] w0
    else go [Wait delay] w.
Proof. reflexivity. Qed.

Lemma retry_shape : forall m real n j w ev w' o,
  retry m real n (Z.of_nat j) (lit_delay j) w = (ev, w', o) -> retry_post n j ev o.
Proof.
  intros m real n; induction n as [|n IH]; intros j w ev w' o H.
  - cbn in H; inversion H; subst. exists [], []; cbn; repeat split; auto.
  - rewrite retry_unfold in H.
    (* the three ways of leaving the select *)
    assert (Hcut : forall e, retry_post (S n) j [WaitCut (lit_delay j) e] ICanceled).
    { intro e; exists [], [WaitCut (lit_delay j) e]; cbn; repeat split; auto; try lia.
      exists e; rewrite Nat.add_0_r; reflexivity. }
    assert (Hgo : forall w0 ev w' o,
      (let '(ev, w1, o) := do_dial m real w0 in
       match o with
       | DConn k kind => ([Wait (lit_delay j)] ++ ev, w1, IConn k kind)
       | DFail _ =>
           let '(ev2, w2, o2) := retry m real n (Z.of_nat j + 1) (backoff (Z.of_nat j)) w1 in
           ([Wait (lit_delay j)] ++ ev ++ ev2, w2, o2)
       end) = (ev, w', o) -> retry_post (S n) j ev o).
    { clear H; intros w0 ev0 w0' o0 H.
      destruct (do_dial m real w0) as [[evd w1] od] eqn:Ed.
      apply do_dial_skel in Ed.
      destruct od as [k kind | e].
      - inversion H; subst. exists [None], []; split.
        + cbn [app]; rewrite skel_cons_wait, Ed; reflexivity.
        + cbn; repeat split; try lia. exists []; split; [reflexivity | constructor].
      - replace (Z.of_nat j + 1) with (Z.of_nat (S j)) in H by lia.
        rewrite backoff_lit in H.
        destruct (retry m real n (Z.of_nat (S j)) (lit_delay (S j)) w1) as [[ev2 w2] o2] eqn:Er.
        apply IH in Er. inversion H; subst.
        destruct Er as (rs & tail & Hs & Hl & Ho).
        exists (Some e :: rs), tail; split.
        + cbn [app]; rewrite skel_cons_wait, skel_app, Ed, Hs; reflexivity.
        + assert (Hf : failed (Some e)) by discriminate.
          cbn [length]; split; [lia|].
          destruct o0 as [k kind | e' | | ]; cbv beta iota in Ho |- *; [ | contradiction | | ].
          * destruct Ho as (Ht & rs0 & Hr & Hf0). subst tail rs. split; [reflexivity|].
            exists (Some e :: rs0); split; [reflexivity | constructor; assumption].
          * destruct Ho as (Hf0 & Hlt & e0 & Ht). subst tail. split; [constructor; assumption|]. split; [cbn [length]; lia|].
            exists e0. replace (j + S (length rs))%nat with (S j + length rs)%nat by lia. reflexivity.
          * destruct Ho as (Ht & Hn & Hf0). subst tail. split; [reflexivity|]. split; [cbn [length]; lia|].
            constructor; assumption. }
    cbv zeta in H.
    destruct (w_cancelled w).
    + destruct (lit_delay j <=? 0).
      * unfold pop_bit in H. destruct (hd false (w_bits w)).
        -- eapply Hgo; exact H.
        -- inversion H; subst; apply Hcut.
      * inversion H; subst; apply Hcut.
    + destruct (0 <? lit_delay j).
      * unfold pop_wait in H. destruct (hd false (w_waits w)).
        -- inversion H; subst.
           destruct (Hcut cut_offset) as (rs & tail & Hs & Hl & Ho).
           exists rs, tail; split; auto.
        -- eapply Hgo; exact H.
      * eapply Hgo; exact H.
Qed.

(* ------------------------------------------------------------------ Dialer.init *)

Definition attempts_nat : nat := Z.to_nat dialAttempts.
Lemma attempts_50 : attempts_nat = 50%nat.
Proof. reflexivity. Qed.

(* the documented classification of a cause *)
Definition lit_recoverable (e : err) : bool :=
  match e with ELinkNotReady | ELinkChange | ESyscall => true | _ => false end.
Lemma recoverable_lit : forall e, recoverable e = lit_recoverable e.
Proof. destruct e; reflexivity. Qed.

(* what one call of init does, for a given cause (None = first initialisation) *)
Definition init_post (cause : option err) (ev : list event) (o : init_out) : Prop :=
  match cause with
  | Some e =>
      if lit_recoverable e then retry_post 50 0 ev o
      else ev = [] /\ o = IErr e
  | None =>
      exists ev0 ev1 r, ev = ev0 ++ ev1 /\ skel ev0 = [DialAttempt r] /\
        match r with
        | None => ev1 = [] /\ exists k kind, o = IConn k kind
        | Some e =>
            if lit_recoverable e then retry_post 50 0 ev1 o
            else ev1 = [] /\ o = IErr e
        end
  end.

Lemma init_shape : forall m real cause w ev w' o,
  init m real cause w = (ev, w', o) -> init_post cause ev o.
Proof.
  intros m real cause w ev w' o; unfold init, init_post.
  destruct cause as [e|].
  - rewrite recoverable_lit. destruct (lit_recoverable e).
    + intro H. change (Z.to_nat dialAttempts) with 50%nat in H.
      change dialLoopStart with (Z.of_nat 0) in H. change 0 with (lit_delay 0) in H.
      eapply retry_shape; exact H.
    + intro H; inversion H; auto.
  - destruct (do_dial m real w) as [[ev0 w1] od] eqn:Ed. pose proof (do_dial_skel _ _ _ _ _ _ Ed) as Hs.
    destruct od as [k kind | e].
    + intro H; inversion H; subst. exists ev, [], None. rewrite app_nil_r. repeat split; auto. eauto.
    + rewrite recoverable_lit. destruct (lit_recoverable e) eqn:El.
      * destruct (retry m real (Z.to_nat dialAttempts) dialLoopStart 0 w1) as [[ev2 w2] o2] eqn:Er.
        intro H; inversion H; subst.
        exists ev0, ev2, (Some e). rewrite El. repeat split; auto.
        change (Z.to_nat dialAttempts) with 50%nat in Er.
        change dialLoopStart with (Z.of_nat 0) in Er. change 0 with (lit_delay 0) in Er.
        eapply retry_shape; exact Er.
      * intro H; inversion H; subst. exists ev, [], (Some e). rewrite app_nil_r, El. repeat split; auto.
Qed.

(* ------------------------------------------------------------------ Dial as a sequence of chunks *)

Inductive chunk :=
| CInit (cause : option err) (evs : list event) (o : init_out)   (* one call of Dialer.init *)
| CRound (k : N) (te : task_ev) (evs : list event) (ro : round_out) (* fn, then done(), on connection k *)
| CRet (v : ret).

Definition chunk_events (c : chunk) : list event :=
  match c with CInit _ evs _ => evs | CRound _ _ evs _ => evs | CRet v => [Return v] end.

Fixpoint chunks (m : mode) (real : bool) (tasks : list task_ev) (cause : option err) (w : world)
  : list chunk :=
  let '(ev, w1, o) := init m real cause w in
  CInit cause ev o ::
  match o with
  | IConn k kind =>
      let te := hd default_task tasks in
      let '(ev2, w2, ro) := round k kind te w1 in
      CRound k te ev2 ro ::
      match ro with
      | RDone v => [CRet v]
      | RAgain e =>
          match tasks with
          | [] => [CRet RNil]
          | _ :: tl => chunks m real tl (Some e) w2
          end
      end
  | _ => [CRet (final o)]
  end.

Definition dial_chunks (sc : script) : list chunk :=
  chunks (sc_mode sc) (sc_real sc) (sc_tasks sc) None (init_world sc).

Lemma chunks_flat : forall m real tasks cause w,
  flat_map chunk_events (chunks m real tasks cause w) = loop m real tasks cause w.
Proof.
  intros m real tasks; induction tasks as [|te tl IH]; intros cause w.
  - cbn [chunks loop]. destruct (init m real cause w) as [[ev w1] o].
    destruct o; cbn [flat_map chunk_events app]; try reflexivity.
    cbn [hd]. destruct (round k kind default_task w1) as [[ev2 w2] ro].
    destruct ro; cbn [flat_map chunk_events app]; rewrite ?app_nil_r; reflexivity.
  - cbn [chunks loop]. destruct (init m real cause w) as [[ev w1] o].
    destruct o; cbn [flat_map chunk_events app]; try reflexivity.
    cbn [hd]. destruct (round k kind te w1) as [[ev2 w2] ro].
    destruct ro; cbn [flat_map chunk_events app]; rewrite ?app_nil_r; try reflexivity.
    rewrite IH; reflexivity.
Qed.

Theorem dial_loop_chunks : forall sc,
  dial_loop sc = (if sc_pre sc then [Cancel] else []) ++ flat_map chunk_events (dial_chunks sc).
Proof. intro sc; unfold dial_loop, dial_chunks; rewrite chunks_flat; reflexivity. Qed.

(* every CInit chunk is one call of init *)
Lemma chunks_init : forall m real tasks cause w c evs o,
  In (CInit c evs o) (chunks m real tasks cause w) ->
  exists w0 w1, init m real c w0 = (evs, w1, o).
Proof.
  intros m real tasks; induction tasks as [|te tl IH]; intros cause w c evs o;
    cbn [chunks]; destruct (init m real cause w) as [[ev w1] o1] eqn:Ei.
  - destruct o1; cbn [In].
    2-4: intros [H|[H|[]]]; try discriminate; inversion H; subst; eauto.
    cbn [hd]. destruct (round k kind default_task w1) as [[ev2 w2] ro].
    destruct ro; cbn [In]; intros [H|[H|[H|[]]]]; try discriminate; inversion H; subst; eauto.
  - destruct o1; cbn [In].
    2-4: intros [H|[H|[]]]; try discriminate; inversion H; subst; eauto.
    cbn [hd]. destruct (round k kind te w1) as [[ev2 w2] ro].
    destruct ro; cbn [In].
    + intros [H|[H|[H|[]]]]; try discriminate; inversion H; subst; eauto.
    + intros [H|[H|H]]; try discriminate; [inversion H; subst; eauto|]. eapply IH; exact H.
Qed.

Theorem chunks_init_post : forall sc cause evs o,
  In (CInit cause evs o) (dial_chunks sc) -> init_post cause evs o.
Proof.
  intros sc cause evs o H. apply chunks_init in H. destruct H as (w0 & w1 & H).
  eapply init_shape; exact H.
Qed.

(* ------------------------------------------------------------------ policy: the grammar of chunks *)

(* life-cycle events: everything but the cancellation mark and the sub-steps of dial()/done() *)
Definition is_life (e : event) : bool :=
  match e with
  | Wait _ | WaitCut _ _ | DialAttempt _ | Task _ _ | Cleanup _ _ | Return _ => true
  | _ => false
  end.
Definition life (l : list event) : list event := filter is_life l.

Lemma life_app : forall a b, life (a ++ b) = life a ++ life b.
Proof. intros; apply filter_app. Qed.
Lemma life_mark : forall c w, life (mark c w) = [].
Proof. intros; unfold mark; destruct (c && negb (w_cancelled w)); reflexivity. Qed.

Lemma do_cleanup_life : forall k kind te w, life (fst (fst (do_cleanup k kind te w))) = [].
Proof.
  intros k kind te w; unfold do_cleanup. destruct kind as [|[prev|]]; try reflexivity.
  destruct (t_restore te); reflexivity.
Qed.

Definition round_result (r : option err) (ok : bool) : round_out :=
  if ok then match r with None => RDone RNil | Some e => RAgain e end else RDone RCleanupErr.

Lemma round_life : forall k kind te w ev w' ro,
  round k kind te w = (ev, w', ro) ->
  exists ok, life ev = [Task k (t_res te); Cleanup k ok] /\ ro = round_result (t_res te) ok.
Proof.
  intros k kind te w ev w' ro; unfold round.
  pose proof (do_cleanup_life k kind te (cancel_if (t_cancel te) w)) as Hc.
  destruct (do_cleanup k kind te (cancel_if (t_cancel te) w)) as [[evc w2] ok]; cbn [fst] in Hc.
  intro H; inversion H; subst. exists ok; split; [|reflexivity].
  rewrite life_app, life_mark. cbn [app]. change (life (Task k (t_res te) :: ?l)) with (Task k (t_res te) :: life l).
  rewrite life_app, Hc. cbn [app]. change (life (Cleanup k ok :: ?l)) with (Cleanup k ok :: life l).
  rewrite life_mark. reflexivity.
Qed.

(* Dial: init; then either return, or fn + done() on the connection and, per the result, return or
   re-initialise with that result as the cause *)
Fixpoint policy_ok (cause : option err) (l : list chunk) : Prop :=
  match l with
  | CInit c evs o :: rest =>
      c = cause /\
      match o with
      | IConn k _ =>
          match rest with
          | CRound k' te evs2 ro :: rest' =>
              k' = k /\
              (exists ok, life evs2 = [Task k (t_res te); Cleanup k ok] /\ ro = round_result (t_res te) ok) /\
              match ro with
              | RDone v => rest' = [CRet v]
              | RAgain e => policy_ok (Some e) rest'
              end
          | _ => False
          end
      | IErr e => rest = [CRet (if is_canceled e then RNil else RWrap e)]
      | ICanceled => rest = [CRet RNil]
      | ITimeout => rest = [CRet RTimeout]
      end
  | _ => False
  end.

Lemma chunks_policy : forall m real tasks cause w, policy_ok cause (chunks m real tasks cause w).
Proof.
  intros m real tasks; induction tasks as [|te tl IH]; intros cause w;
    cbn [chunks]; destruct (init m real cause w) as [[ev w1] o] eqn:Ei; cbn [policy_ok]; split; auto.
  - destruct o; try reflexivity. cbn [hd].
    destruct (round k kind default_task w1) as [[ev2 w2] ro] eqn:Er.
    pose proof (round_life _ _ _ _ _ _ _ Er) as (ok & Hl & Hr).
    split; auto. split; [exists ok; auto|].
    destruct ro; auto. destruct ok; cbn in Hr; discriminate.
  - destruct o; try reflexivity. cbn [hd].
    destruct (round k kind te w1) as [[ev2 w2] ro] eqn:Er.
    pose proof (round_life _ _ _ _ _ _ _ Er) as (ok & Hl & Hr).
    split; auto. split; [exists ok; auto|].
    destruct ro; auto.
Qed.

(* ------------------------------------------------------------------ cancellation *)

Definition count_dials (l : list event) : nat :=
  length (filter (fun e => match e with DialAttempt _ => true | _ => false end) l).
Definition count_tasks (l : list event) : nat :=
  length (filter (fun e => match e with Task _ _ => true | _ => false end) l).
Definition count_cleanups (l : list event) : nat :=
  length (filter (fun e => match e with Cleanup _ _ => true | _ => false end) l).
(* no back-off timer of positive length ever elapses *)
Definition no_pos_wait (l : list event) : Prop := forall d, In (Wait d) l -> d <= 0.

Lemma do_dial_cancelled : forall m real w ev w' o,
  do_dial m real w = (ev, w', o) -> w_cancelled w = true -> w_cancelled w' = true.
Proof.
  intros m real w ev w' o; unfold do_dial.
  destruct (hd (default_dial real) (w_dials w)) as [r c | s c].
  - destruct r; intro H; inversion H; subst; intro Hc; destruct c; cbn; auto.
  - destruct (do_real m s (set_dials w (tl (w_dials w)))) as [[ev1 w1] o1] eqn:Er.
    assert (w_cancelled w1 = w_cancelled w).
    { revert Er; unfold do_real; destruct s as [lk ck op g st lv cl]; cbn.
      destruct lk; [intro H; inversion H; reflexivity|]. destruct ck; [intro H; inversion H; reflexivity|].
      destruct op; [intro H; inversion H; reflexivity|].
      destruct m; [|intro H; inversion H; reflexivity].
      destruct g; try (intro H; inversion H; reflexivity). destruct st; intro H; inversion H; reflexivity. }
    intro H'; inversion H'; subst. intro Hc. destruct c; cbn; congruence.
Qed.

Lemma count_dials_skel : forall l, count_dials l = count_dials (skel l).
Proof.
  induction l as [|e l IH]; [reflexivity|]. destruct e; cbn in *; auto.
Qed.

Lemma no_pos_wait_skel : forall l, no_pos_wait (skel l) -> no_pos_wait l.
Proof.
  intros l H d Hin. apply H. unfold skel. apply filter_In. split; auto.
Qed.

(* from a cancelled context a re-initialisation makes at most one dial attempt (the select race
   with the 0 timer), never sits out a back-off, and ends cancelled or connected *)
Lemma retry_cancelled : forall m real n w ev w' o,
  w_cancelled w = true ->
  retry m real (S (S n)) 0 0 w = (ev, w', o) ->
  (count_dials ev <= 1)%nat /\ no_pos_wait ev /\ w_cancelled w' = true /\
  (o = ICanceled \/ exists k kind, o = IConn k kind).
Proof.
  intros m real n w ev w' o Hc H. rewrite retry_unfold in H. cbv zeta in H. rewrite Hc in H.
  change (0 <=? 0) with true in H. cbv iota in H. unfold pop_bit in H.
  destruct (hd false (w_bits w)).
  - destruct (do_dial m real (set_bits w (tl (w_bits w)))) as [[evd w1] od] eqn:Ed.
    pose proof (do_dial_skel _ _ _ _ _ _ Ed) as Hs.
    pose proof (do_dial_cancelled _ _ _ _ _ _ Ed Hc) as Hc1.
    destruct od as [k kind | e].
    + inversion H; subst. rewrite count_dials_skel. repeat split; auto.
      * cbn [app]; rewrite skel_cons_wait, Hs; cbn; lia.
      * apply no_pos_wait_skel. cbn [app]; rewrite skel_cons_wait, Hs. intros d [Hd|[Hd|[]]]; inversion Hd; lia.
      * right; eauto.
    + rewrite retry_unfold in H. cbv zeta in H. rewrite Hc1 in H.
      assert (Hb : backoff 0 <=? 0 = false) by reflexivity. rewrite Hb in H.
      inversion H; subst. rewrite count_dials_skel. repeat split; auto.
      * cbn [app]; rewrite skel_cons_wait, skel_app, Hs; cbn; lia.
      * apply no_pos_wait_skel. cbn [app]; rewrite skel_cons_wait, skel_app, Hs.
        intros d [Hd|[Hd|[Hd|[]]]]; inversion Hd; lia.
  - inversion H; subst. split; [cbn; lia|]. split; [intros d [Hd|[]]; inversion Hd|].
    split; [cbn; exact Hc|]. left; reflexivity.
Qed.

(* ------------------------------------------------------------------ statements used by Properties/C10dial.v *)

Lemma init_backoff : forall cause evs o, init_post cause evs o ->
  exists first rs tail,
    skel evs = first ++ bskel 0 rs ++ tail /\ (length rs <= 50)%nat /\
    (first = [] \/ (cause = None /\ exists r, first = [DialAttempt r])) /\
    (tail = [] \/ (exists e, tail = [WaitCut (lit_delay (length rs)) e]) /\ (length rs < 50)%nat) /\
    (o = ITimeout -> length rs = 50%nat /\ Forall failed rs /\ tail = []) /\
    (forall k kind, o = IConn k kind -> tail = [] /\ (rs = [] \/ exists rs0, rs = rs0 ++ [None] /\ Forall failed rs0)).
Proof.
  assert (Hr : forall ev o, retry_post 50 0 ev o ->
    exists rs tail, skel ev = bskel 0 rs ++ tail /\ (length rs <= 50)%nat /\
      (tail = [] \/ (exists e, tail = [WaitCut (lit_delay (length rs)) e]) /\ (length rs < 50)%nat) /\
      (o = ITimeout -> length rs = 50%nat /\ Forall failed rs /\ tail = []) /\
      (forall k kind, o = IConn k kind -> tail = [] /\ (rs = [] \/ exists rs0, rs = rs0 ++ [None] /\ Forall failed rs0))).
  { intros ev o (rs & tail & Hs & Hl & Ho). exists rs, tail. split; auto. split; auto.
    destruct o as [k kind | e | | ].
    - destruct Ho as (-> & rs0 & -> & Hf). split; auto. split; [discriminate|]. intros; split; auto. right; eauto.
    - contradiction.
    - destruct Ho as (Hf & Hlt & e & ->). split; [right; split; eauto|]. split; [discriminate|]. discriminate.
    - destruct Ho as (-> & Hn & Hf). split; auto. split; [auto|discriminate]. }
  intros cause evs o H. unfold init_post in H. destruct cause as [e|].
  - destruct (lit_recoverable e).
    + destruct (Hr _ _ H) as (rs & tail & Hs & Hl & Ht & Hto & Hc). exists [], rs, tail. cbn [app]. refine (conj Hs (conj Hl (conj (or_introl eq_refl) (conj Ht (conj Hto Hc))))).
    + destruct H as (-> & ->). exists [], [], []. cbn. repeat split; auto; try lia; try discriminate.
  - destruct H as (ev0 & ev1 & r & -> & Hs0 & H). rewrite skel_app, Hs0.
    destruct r as [e|].
    + destruct (lit_recoverable e).
      * destruct (Hr _ _ H) as (rs & tail & Hs & Hl & Ht & Hto & Hc). exists [DialAttempt (Some e)], rs, tail.
        rewrite Hs. refine (conj eq_refl (conj Hl (conj (or_intror (conj eq_refl (ex_intro _ _ eq_refl))) (conj Ht (conj Hto Hc))))).
      * destruct H as (-> & ->). exists [DialAttempt (Some e)], [], []. cbn. repeat split; auto; try lia; try discriminate.
        right; split; eauto.
    + destruct H as (-> & k & kind & ->). exists [DialAttempt None], [], []. cbn. repeat split; auto; try lia; try discriminate.
      right; split; eauto.
Qed.

Lemma init_policy : forall e evs o, init_post (Some e) evs o ->
  if lit_recoverable e
  then (exists tl, skel evs = Wait 0 :: tl \/ exists d, skel evs = WaitCut 0 d :: tl) /\ (forall e', o <> IErr e')
  else evs = [] /\ o = IErr e.
Proof.
  intros e evs o H; unfold init_post in H. destruct (lit_recoverable e); [|exact H].
  destruct H as (rs & tail & Hs & Hl & Ho). split.
  - destruct rs as [|r rs].
    + destruct o as [k kind | e' | | ]; try contradiction.
      * destruct Ho as (_ & rs0 & Hr & _). destruct rs0; discriminate.
      * destruct Ho as (_ & _ & d & ->). exists []. right. exists d. exact Hs.
      * destruct Ho as (_ & Hn & _). discriminate.
    + exists (DialAttempt r :: bskel 1 rs ++ tail). left. exact Hs.
  - intros e' ->. exact Ho.
Qed.

Lemma init_cancelled : forall m real e w ev w' o,
  w_cancelled w = true -> lit_recoverable e = true -> init m real (Some e) w = (ev, w', o) ->
  (count_dials ev <= 1)%nat /\ no_pos_wait ev /\ w_cancelled w' = true /\
  (o = ICanceled \/ exists k kind, o = IConn k kind).
Proof.
  intros m real e w ev w' o Hc He; unfold init. rewrite recoverable_lit, He.
  change (Z.to_nat dialAttempts) with (S (S 48)). change dialLoopStart with 0.
  apply retry_cancelled; exact Hc.
Qed.

(* a cancellation that arrives during a back-off wait ends the re-initialisation at once *)
Lemma wait_cancelled : forall m real n i delay w,
  w_cancelled w = false -> 0 < delay -> hd false (w_waits w) = true ->
  exists w', retry m real (S n) i delay w = ([WaitCut delay cut_offset; Cancel], w', ICanceled) /\ w_cancelled w' = true.
Proof.
  intros m real n i delay w Hc Hd Hw. rewrite retry_unfold. cbv zeta. rewrite Hc.
  assert (H : 0 <? delay = true) by lia. rewrite H. unfold pop_wait. rewrite Hw.
  eexists; split; reflexivity.
Qed.

(* with the context cancelled, a back-off wait of positive length returns at once *)
Lemma wait_when_cancelled : forall m real n i delay w,
  w_cancelled w = true -> 0 < delay ->
  retry m real (S n) i delay w = ([WaitCut delay 0], w, ICanceled).
Proof.
  intros m real n i delay w Hc Hd. rewrite retry_unfold. cbv zeta. rewrite Hc.
  assert (H : delay <=? 0 = false) by lia. rewrite H. reflexivity.
Qed.
