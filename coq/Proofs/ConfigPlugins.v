(* C02 -- route / RDNSS / DNSSL / PREF64 stanzas, the overlap loops, parsePlugins. *)
From Coq Require Import Lia ZifyBool Btauto.
From CR Require Import Model.Config.
From CR Require Import Model.ConfigSpec.
From CR Require Import Proofs.Config.
Local Open Scope Z_scope.

Lemma parse_preference_spec t : spec_res (parse_preference t) (pref_ok_b t) (pref_value t).
Proof. destruct t; cbn; auto. Qed.

Lemma parse_route_spec r : spec_res (parse_route r) (route_ok_b r) (route_default r).
Proof.
  unfold parse_route, route_ok_b, route_default, route_cidr, route_lifetime_v.
  rewrite !parse_duration_eq by (unfold_units; lia).
  pose proof (parse_ip_prefix_spec (rr_prefix r)) as Hc.
  destruct (parse_ip_prefix (rr_prefix r)) as [o|e]; cbn [bind].
  2: { cbn in Hc. rewrite Hc. reflexivity. }
  destruct Hc as [Hc ->]. rewrite Hc. cbn [andb].
  change (0%N, 0%N) with wild_route. rewrite cidr_opt_of.
  destruct (cidr_of (rr_prefix r) wild_route) as [a b].
  unfold reject_if, in_range_b, is_unspecified, wild_route, pair_eqb. cbn [fst snd].
  pose proof (parse_preference_spec (rr_pref r)) as Hp.
  destruct (parse_preference (rr_pref r)) as [prf|]; cbn in Hp.
  2: { rewrite Hp. case_ifs; cbn [bind]; rewrite ?andb_false_r; reflexivity. }
  destruct Hp as [-> ->].
  destruct (lifetime_value (rr_lifetime r) (24 * hour)) as [lt|]; cbn [with_value_b value_or bind].
  2: { case_ifs; fin. }
  destruct (rr_deprecated r); repeat (case_if; cbn [bind]); fin.
Qed.

(* ---------------------------------------------------------------- "unique, and not seen before" *)

Fixpoint fresh_p {A} (eqb : A -> A -> bool) (mem : A -> bool) (ks : list A) : bool :=
  match ks with
  | [] => true
  | k :: t => negb (mem k) && fresh_p eqb (fun x => mem x || eqb k x) t
  end.

Lemma fresh_p_ext {A} (eqb : A -> A -> bool) m1 m2 ks :
  (forall x, m1 x = m2 x) -> fresh_p eqb m1 ks = fresh_p eqb m2 ks.
Proof.
  revert m1 m2. induction ks as [|k t IH]; intros m1 m2 H; cbn; [reflexivity|].
  rewrite H. f_equal. apply IH. intros x. rewrite H. reflexivity.
Qed.

Lemma forallb_notmem_or {A} (eqb : A -> A -> bool) (mem : A -> bool) k t :
  (forall x y, eqb x y = eqb y x) ->
  forallb (fun x => negb (mem x || eqb k x)) t =
  forallb (fun x => negb (mem x)) t && negb (existsb (eqb k) t).
Proof.
  intros S. induction t as [|y t IH]; cbn; [reflexivity|]. rewrite IH. btauto.
Qed.

Lemma fresh_p_nodup {A} (eqb : A -> A -> bool) mem ks :
  (forall x y, eqb x y = eqb y x) ->
  fresh_p eqb mem ks = nodup_b eqb ks && forallb (fun k => negb (mem k)) ks.
Proof.
  intros S. revert mem. induction ks as [|k t IH]; intros mem; cbn; [reflexivity|].
  rewrite IH, forallb_notmem_or by exact S. btauto.
Qed.

Lemma fresh_p_empty {A} (eqb : A -> A -> bool) ks :
  (forall x y, eqb x y = eqb y x) -> fresh_p eqb (fun _ => false) ks = nodup_b eqb ks.
Proof.
  intros S. rewrite fresh_p_nodup by exact S.
  replace (forallb (fun _ : A => negb false) ks) with true; [btauto|].
  induction ks; cbn; auto.
Qed.

Lemma fresh_p_app {A} (eqb : A -> A -> bool) mem a b :
  fresh_p eqb mem (a ++ b) =
  fresh_p eqb mem a && fresh_p eqb (fun x => mem x || existsb (fun k => eqb k x) a) b.
Proof.
  revert mem. induction a as [|k a IH]; intros mem; cbn.
  - apply fresh_p_ext. intros x. btauto.
  - rewrite IH. rewrite <- andb_assoc. f_equal. f_equal. apply fresh_p_ext. intros x. btauto.
Qed.

Lemma Neqb_sym (x y : N) : N.eqb x y = N.eqb y x.
Proof. apply N.eqb_sym. Qed.
Lemma skey_eqb_sym (x y : skey) : skey_eqb x y = skey_eqb y x.
Proof. unfold skey_eqb. rewrite (N.eqb_sym (fst x)), (N.eqb_sym (snd x)). reflexivity. Qed.

(* ---------------------------------------------------------------- DNSSL *)

Lemma has_dup_fresh l seen :
  has_dup l seen = negb (fresh_p N.eqb (fun x => existsb (N.eqb x) seen) l).
Proof.
  revert seen. induction l as [|x t IH]; intros seen; cbn; [reflexivity|].
  destruct (existsb (N.eqb x) seen); cbn; [reflexivity|].
  rewrite IH. f_equal. apply fresh_p_ext. intros y. cbn. rewrite (N.eqb_sym y x). btauto.
Qed.

Lemma parse_dnssl_spec mx d : 0 <= 3 * mx <= infinity ->
  spec_res (parse_dnssl mx d) (dnssl_ok_b mx d) (dnssl_default mx d).
Proof.
  intros Hm. unfold parse_dnssl, dnssl_ok_b, dnssl_default, dnssl_lifetime_v.
  rewrite parse_duration_eq by exact Hm.
  destruct (lifetime_value (rn_lifetime d) (3 * mx)) as [lt|]; cbn [with_value_b value_or bind]; [|reflexivity].
  destruct (in_range_b 0 lt infinity); cbn [bind]; [|reflexivity].
  rewrite has_dup_fresh. cbn [existsb]. rewrite fresh_p_empty by apply Neqb_sym.
  unfold reject_if. destruct (rn_names d) as [|n ns]; cbn [bind negb andb]; [reflexivity|].
  destruct (nodup_b N.eqb (n :: ns)); cbn; auto.
Qed.

(* ---------------------------------------------------------------- RDNSS *)

Definition server_ok_b (s : atext) : bool := is_some (server_key s).
Definition nonwild (k : skey) : bool := negb (skey_eqb wild_server k).

Lemma spec_res_ext {A} (r : result A) ok v ok' v' :
  spec_res r ok v -> ok = ok' -> v = v' -> spec_res r ok' v'.
Proof. intros H -> ->. exact H. Qed.

Lemma wild_eqb_key a z : skey_eqb wild_server (a, z) = N.eqb a 0 && N.eqb z 0.
Proof. unfold skey_eqb, wild_server. cbn [fst snd]. rewrite (N.eqb_sym 0 a), (N.eqb_sym 0 z). reflexivity. Qed.

Lemma rdnss_servers_spec l : forall auto set,
  forallb nonwild set = true ->
  spec_res (rdnss_servers l auto set)
    (forallb server_ok_b l &&
     fresh_p skey_eqb (fun k => existsb (skey_eqb k) set || (auto && skey_eqb wild_server k)) (server_keys l))
    (auto || existsb (skey_eqb wild_server) (server_keys l), set ++ filter nonwild (server_keys l)).
Proof.
  induction l as [|s t IH]; intros auto set Hset.
  - cbn. rewrite app_nil_r, orb_false_r. auto.
  - destruct s as [|v4 a z]; [reflexivity|].
    cbn [rdnss_servers]. unfold server_keys, server_ok_b in *. cbn [forallb flat_map server_key].
    destruct v4; [reflexivity|]. cbn [orb].
    destruct (is_4in6 a) eqn:E4; [reflexivity|].
    destruct (N.ltb 0 z) eqn:Ez; [reflexivity|].
    cbn [is_some app andb fresh_p existsb filter].
    replace (nonwild (a, z)) with (negb (skey_eqb wild_server (a, z))) by reflexivity. rewrite !wild_eqb_key.
    destruct (N.eqb a 0 && N.eqb z 0) eqn:Ew; cbn [negb].
    + assert (a = 0%N /\ z = 0%N) as [-> ->] by lia.
      assert (Hw : existsb (skey_eqb (0%N, 0%N)) set = false).
      { clear -Hset. induction set as [|y set IHs]; cbn in *; [reflexivity|].
        apply andb_true_iff in Hset as [H1 H2]. rewrite (IHs H2), orb_false_r.
        unfold nonwild in H1. change (0%N, 0%N) with wild_server. destruct (skey_eqb wild_server y); [discriminate|reflexivity]. }
      rewrite Hw. destruct auto; cbn [orb andb negb].
      * rewrite andb_false_r. reflexivity.
      * eapply spec_res_ext; [apply (IH true set Hset) | | ].
        -- f_equal. apply fresh_p_ext. intros x. change (0%N, 0%N) with wild_server. btauto.
        -- reflexivity.
    + rewrite andb_false_r, orb_false_r.
      destruct (existsb (skey_eqb (a, z)) set) eqn:Es; cbn [negb andb]; [rewrite andb_false_r; reflexivity|].
      eapply spec_res_ext; [apply (IH auto (set ++ [(a, z)])) | | ].
      * rewrite forallb_app, Hset. cbn. unfold nonwild. rewrite wild_eqb_key, Ew. reflexivity.
      * f_equal. apply fresh_p_ext. intros x. rewrite existsb_app. cbn [existsb].
        rewrite (skey_eqb_sym x (a, z)). btauto.
      * rewrite <- app_assoc. cbn [orb]. reflexivity.
Qed.

Lemma parse_rdnss_spec mx d : 0 <= 3 * mx <= infinity ->
  spec_res (parse_rdnss mx d) (rdnss_ok_b mx d) (rdnss_default mx d).
Proof.
  intros Hm. unfold parse_rdnss, rdnss_ok_b, rdnss_default, rdnss_lifetime_v.
  rewrite parse_duration_eq by exact Hm.
  destruct (lifetime_value (rd_lifetime d) (3 * mx)) as [lt|]; cbn [with_value_b value_or bind]; [|reflexivity].
  destruct (in_range_b 0 lt infinity); cbn [bind]; [|reflexivity].
  destruct (rd_servers d) as [|s t] eqn:Es; [cbn; auto|]. rewrite <- Es. clear Es.
  pose proof (rdnss_servers_spec (rd_servers d) false [] eq_refl) as H.
  assert (Hf : fresh_p skey_eqb (fun k => existsb (skey_eqb k) [] || (false && skey_eqb wild_server k))
                 (server_keys (rd_servers d)) = nodup_b skey_eqb (server_keys (rd_servers d))).
  { rewrite <- (fresh_p_empty skey_eqb) by apply skey_eqb_sym. apply fresh_p_ext. intros x. reflexivity. }
  rewrite Hf in H. clear Hf. cbn [andb].
  destruct (rdnss_servers (rd_servers d) false []) as [r|e]; cbn [bind]; cbn [spec_res] in H.
  - destruct H as [H ->]. cbn [fst snd orb app]. split; [exact H|reflexivity].
  - exact H.
Qed.

(* ---------------------------------------------------------------- the overlap loops *)

Lemma overlaps_sym a ab b bb : overlaps a ab b bb = overlaps b bb a ab.
Proof. unfold overlaps. rewrite (N.min_comm ab bb). apply N.eqb_sym. Qed.

Lemma overlap_chk_sym skip p q : overlap_chk skip p q = overlap_chk skip q p.
Proof. unfold overlap_chk. rewrite (overlaps_sym (fst p)). btauto. Qed.

Lemma existsb_ext {A} (f g : A -> bool) l : (forall x, f x = g x) -> existsb f l = existsb g l.
Proof. intros H. induction l; cbn; [reflexivity|]. rewrite H, IHl. reflexivity. Qed.

Lemma overlap_from_eq skip l : forall before,
  overlap_from skip before l =
  existsb (fun x => existsb (overlap_chk skip x) before) l ||
  negb (pairwise_b (fun p q => negb (overlap_chk skip p q)) l).
Proof.
  induction l as [|x t IH]; intros before; cbn; [reflexivity|].
  rewrite IH, existsb_app.
  rewrite (existsb_ext (fun y => existsb (overlap_chk skip y) (before ++ [x]))
                       (fun y => existsb (overlap_chk skip y) before || overlap_chk skip x y)).
  2: { intros y. rewrite existsb_app. cbn. rewrite (overlap_chk_sym skip y x). btauto. }
  assert (E1 : forall l0, existsb (fun y => existsb (overlap_chk skip y) before || overlap_chk skip x y) l0 =
               existsb (fun y => existsb (overlap_chk skip y) before) l0 || existsb (overlap_chk skip x) l0).
  { induction l0; cbn; [reflexivity|]. rewrite IHl0. btauto. }
  assert (E2 : forall l0, forallb (fun q => negb (overlap_chk skip x q)) l0 = negb (existsb (overlap_chk skip x) l0)).
  { induction l0; cbn; [reflexivity|]. rewrite IHl0. btauto. }
  rewrite E1, E2. btauto.
Qed.

Lemma pairwise_skip skip l :
  pairwise_b (fun p q => negb (overlap_chk skip p q)) l =
  pairwise_b no_overlap_b (filter (fun p => negb (skip p)) l).
Proof.
  induction l as [|x t IH]; cbn; [reflexivity|]. rewrite IH. unfold overlap_chk at 1.
  destruct (skip x); cbn.
  - replace (forallb (fun _ => true) t) with true; [reflexivity|]. clear. induction t; cbn; auto.
  - f_equal. clear. induction t as [|y t IH]; cbn; [reflexivity|].
    rewrite IH. destruct (skip y); cbn; [reflexivity|]. reflexivity.
Qed.

Lemma overlap_found_eq skip l :
  overlap_found skip l = negb (pairwise_b no_overlap_b (filter (fun p => negb (skip p)) l)).
Proof.
  unfold overlap_found. rewrite overlap_from_eq, pairwise_skip.
  replace (existsb (fun x => existsb (overlap_chk skip x) []) l) with false; [reflexivity|].
  induction l; cbn; auto.
Qed.

Lemma filter_true {A} (l : list A) : filter (fun _ => true) l = l.
Proof. induction l; cbn; congruence. Qed.

(* ---------------------------------------------------------------- PREF64 *)

Lemma default_pref64_eq : default_pref64 = well_known_pref64.
Proof. vm_compute. reflexivity. Qed.

Lemma parse_pref64_spec mx p : 0 <= mx ->
  spec_res (parse_pref64 mx p) (pref64_ok_b p) (pref64_default mx p).
Proof.
  intros Hm. unfold parse_pref64, pref64_ok_b, pref64_default, pref64_cidr.
  rewrite (new_pref64_lifetime_eq mx Hm), default_pref64_eq.
  assert (L : forall b, pref64_len_ok b = existsb (N.eqb b) nat64_lengths).
  { intros b. unfold pref64_len_ok, nat64_lengths. cbn. btauto. }
  destruct (r6_prefix p) as [| | |v4 a b] eqn:Ec; cbn [bind cidr_of canonical_v6_b andb fst snd].
  1,2: unfold well_known_pref64; cbn [bind fst snd pref64_len_ok N.eqb Pos.eqb orb existsb nat64_lengths].
  - split; reflexivity.
  - split; reflexivity.
  - cbn. reflexivity.
  - pose proof (parse_ip_prefix_spec (CPfx v4 a b)) as H.
    destruct (parse_ip_prefix (CPfx v4 a b)) as [o|e]; cbn [bind]; cbn [spec_res cidr_opt] in H.
    + destruct H as [H ->]. change (canonical_v6_b (CPfx v4 a b)) with (negb v4 && negb (is_4in6 a) && (mask a b =? a)%N) in H.
      rewrite H, L. cbn [andb]. destruct (existsb (N.eqb b) nat64_lengths); cbn; auto.
    + change (canonical_v6_b (CPfx v4 a b)) with (negb v4 && negb (is_4in6 a) && (mask a b =? a)%N) in H.
      rewrite H. reflexivity.
Qed.

(* ---------------------------------------------------------------- parsePlugins *)

Definition plugins_ok_b (st : raw_iface) (mx : Z) : bool :=
  forallb prefix_ok_b (ri_prefixes st) &&
  pairwise_b no_overlap_b (map prefix_cidr (ri_prefixes st)) &&
  forallb route_ok_b (ri_routes st) &&
  pairwise_b no_overlap_b (filter not_wild_route (map route_cidr (ri_routes st))) &&
  forallb (rdnss_ok_b mx) (ri_rdnss st) &&
  forallb (dnssl_ok_b mx) (ri_dnssl st) &&
  in_range_b 0 (ri_mtu st) 65536 &&
  captive_ok_b (ri_captive st) &&
  forallb pref64_ok_b (ri_pref64 st).

Lemma prefix_overlap_eq ps :
  overlap_found (fun _ => false) (map plugin_prefix (map prefix_default ps)) =
  negb (pairwise_b no_overlap_b (map prefix_cidr ps)).
Proof.
  rewrite overlap_found_eq. cbn [negb]. rewrite filter_true, map_map. do 2 f_equal.
  apply map_ext. intros p. unfold prefix_default. cbn. destruct (prefix_cidr p); reflexivity.
Qed.

Lemma route_overlap_eq rs :
  overlap_found is_auto_route (map plugin_prefix (map route_default rs)) =
  negb (pairwise_b no_overlap_b (filter not_wild_route (map route_cidr rs))).
Proof.
  rewrite overlap_found_eq, map_map. do 2 f_equal.
  replace (map (fun x => plugin_prefix (route_default x)) rs) with (map route_cidr rs).
  - apply filter_ext. intros p. reflexivity.
  - apply map_ext. intros r. unfold route_default. cbn. destruct (route_cidr r); reflexivity.
Qed.

Ltac step H :=
  match type of H with
  | spec_res ?r _ _ =>
      destruct r; cbn [bind spec_res] in H |- *;
      [ destruct H as [H ->]; rewrite H; cbn [andb]
      | rewrite H; cbn [andb]; rewrite ?andb_false_r; reflexivity ]
  end.

Lemma parse_plugins_spec st mx : 4 * sec <= mx <= 1800 * sec ->
  spec_res (parse_plugins st mx) (plugins_ok_b st mx) (plugins_default st mx).
Proof.
  intros Hm.
  assert (H3 : 0 <= 3 * mx <= infinity) by (unfold_units; lia).
  assert (H0 : 0 <= mx) by (unfold_units; lia).
  unfold parse_plugins, plugins_ok_b, plugins_default.
  pose proof (mapM_spec parse_prefix _ _ (ri_prefixes st) parse_prefix_spec) as H. step H.
  rewrite prefix_overlap_eq. unfold reject_if.
  destruct (pairwise_b no_overlap_b (map prefix_cidr (ri_prefixes st))); cbn [negb bind andb]; [|reflexivity].
  pose proof (mapM_spec parse_route _ _ (ri_routes st) parse_route_spec) as H'. step H'.
  rewrite route_overlap_eq.
  destruct (pairwise_b no_overlap_b (filter not_wild_route (map route_cidr (ri_routes st)))); cbn [negb bind andb]; [|reflexivity].
  pose proof (mapM_spec (parse_rdnss mx) _ _ (ri_rdnss st) (fun d => parse_rdnss_spec mx d H3)) as H1. step H1.
  pose proof (mapM_spec (parse_dnssl mx) _ _ (ri_dnssl st) (fun d => parse_dnssl_spec mx d H3)) as H2. step H2.
  unfold in_range_b.
  destruct ((ri_mtu st <? 0) || (65536 <? ri_mtu st)) eqn:Em; cbn [bind].
  { replace ((0 <=? ri_mtu st) && (ri_mtu st <=? 65536)) with false by lia. reflexivity. }
  replace ((0 <=? ri_mtu st) && (ri_mtu st <=? 65536)) with true by lia. cbn [andb].
  pose proof (mapM_spec (parse_pref64 mx) _ _ (ri_pref64 st) (fun p => parse_pref64_spec mx p H0)) as H4.
  destruct (ri_captive st) as [| |u]; cbn [bind captive_ok_b andb]; [ | reflexivity | ].
  - step H4. auto.
  - destruct (N.eqb u 0); cbn [bind negb andb]; [reflexivity|]. step H4. auto.
Qed.
