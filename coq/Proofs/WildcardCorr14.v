(* The C14 specification checker (Corr/C14.v [holds]) accepts the model's output on EVERY input whose
   addresses are 128-bit numbers. *)
From CR Require Import Model.Wildcard.
From CR Require Import Corr.C14.
From CR Require Import Proofs.WildcardSort.
From CR Require Import Proofs.Wildcard.
From CR Require Import Proofs.WildcardCorr13.
From CR Require Import Proofs.WildcardRDNSS.
From Coq Require Import Lia ZifyBool Sorted.
Local Open Scope N_scope.

Lemma s4_private_eq v : s4_private v = v4_private v.
Proof.
  unfold s4_private, v4_private, within. rewrite !N.shiftr_div_pow2.
  change (2 ^ 24) with 16777216. change (2 ^ 20) with 1048576. change (2 ^ 16) with 65536.
  rewrite !div_eq_range by discriminate. lia.
Qed.

Lemma s4_link_local_eq v : s4_link_local v = v4_link_local v.
Proof.
  unfold s4_link_local, v4_link_local, within. rewrite !N.shiftr_div_pow2.
  change (2 ^ 16) with 65536. rewrite !div_eq_range by discriminate. lia.
Qed.

Lemma s4_global_eq v : v < 4294967296 -> s4_global v = v4_global_unicast v.
Proof.
  intros Hv. unfold s4_global, v4_global_unicast. rewrite s4_link_local_eq.
  unfold within. rewrite !N.shiftr_div_pow2.
  change (2 ^ 24) with 16777216. change (2 ^ 28) with 268435456.
  rewrite !div_eq_range by discriminate. lia.
Qed.

Lemma is_4in6_range a : is_4in6 a = within a_mapped (a_mapped + 4294967295) a.
Proof.
  unfold is_4in6, within, a_mapped. rewrite N.shiftr_div_pow2. change (2 ^ 32) with 4294967296.
  rewrite div_eq_range by discriminate. lia.
Qed.

Lemma v4_of_mapped a : is_4in6 a = true -> v4_of a = a - a_mapped /\ v4_of a < 4294967296.
Proof.
  unfold is_4in6, v4_of, a_mapped. rewrite N.shiftr_div_pow2. change 4294967295 with (N.ones 32).
  rewrite N.land_ones. change (2 ^ 32) with 4294967296. intros H. apply N.eqb_eq in H.
  pose proof (N.div_mod a 4294967296 ltac:(discriminate)).
  pose proof (N.mod_lt a 4294967296 ltac:(discriminate)).
  rewrite H in *. set (m := a mod 4294967296) in *. clearbody m. lia.
Qed.

Lemma spec_class_eq a : a < 2 ^ 128 -> spec_class a = class a.
Proof.
  intros Ha. unfold spec_class, class, go_private, go_global_unicast, go_link_local.
  rewrite <- is_4in6_range. destruct (is_4in6 a) eqn:E4.
  - destruct (v4_of_mapped a E4) as [Hv Hlt]. rewrite <- Hv.
    rewrite s4_private_eq, s4_global_eq, s4_link_local_eq by exact Hlt. reflexivity.
  - assert (Hn : within a_mapped (a_mapped + 4294967295) a = false) by (rewrite <- is_4in6_range; exact E4).
    unfold is_private, is_global_unicast, is_unspecified, is_loopback, is_multicast, is_link_local.
    rewrite !N.shiftr_div_pow2.
    change (2 ^ 121) with 2658455991569831745807614120560689152.
    change (2 ^ 120) with 1329227995784915872903807060280344576.
    change (2 ^ 118) with 332306998946228968225951765070086144.
    change (2 ^ 128) with 340282366920938463463374607431768211456 in Ha.
    rewrite !div_eq_range by discriminate.
    unfold a_fc00, a_fe00, a_fe80, a_fec0, a_ff00.
    destruct ((126 * 2658455991569831745807614120560689152 <=? a) && (a <? (126 + 1) * 2658455991569831745807614120560689152)) eqn:E1.
    + replace ((334965454937798799971759379190646833152 <=? a) && (a <? 337623910929368631717566993311207522304)) with true by lia. reflexivity.
    + replace ((334965454937798799971759379190646833152 <=? a) && (a <? 337623910929368631717566993311207522304)) with false by lia.
      destruct ((338288524927261089654018896841347694592 <=? a) && (a <? 338620831926207318622244848606417780736)) eqn:E2.
      * replace ((1018 * 332306998946228968225951765070086144 <=? a) && (a <? (1018 + 1) * 332306998946228968225951765070086144)) with true by lia.
        rewrite !andb_false_r. reflexivity.
      * replace ((1018 * 332306998946228968225951765070086144 <=? a) && (a <? (1018 + 1) * 332306998946228968225951765070086144)) with false by lia.
        cbn [negb]. rewrite !andb_true_r.
        destruct ((a =? 0) || (a =? 1) || (338953138925153547590470800371487866880 <=? a)) eqn:E3.
        -- replace (negb (a =? 0) && negb (a =? 1) && negb ((255 * 1329227995784915872903807060280344576 <=? a) && (a <? (255 + 1) * 1329227995784915872903807060280344576))) with false by lia. reflexivity.
        -- replace (negb (a =? 0) && negb (a =? 1) && negb ((255 * 1329227995784915872903807060280344576 <=? a) && (a <? (255 + 1) * 1329227995784915872903807060280344576))) with true by lia. reflexivity.
Qed.

Lemma spec_eui64_eq a : spec_eui64 a = is_eui64 a.
Proof.
  unfold spec_eui64, is_eui64, byte.
  change 255 with (N.ones 8). rewrite !N.land_ones, !N.shiftr_div_pow2.
  change (8 * (15 - 11)) with 32. change (8 * (15 - 12)) with 24.
  change (2 ^ 32) with (16777216 * 256). change (2 ^ 24) with 16777216. change (2 ^ 8) with 256.
  change (N.ones 8) with 255.
  rewrite <- N.div_div by discriminate.
  set (q := a / 16777216).
  pose proof (N.div_mod q 256 ltac:(discriminate)).
  pose proof (N.mod_lt q 256 ltac:(discriminate)).
  pose proof (N.div_mod (q / 256) 256 ltac:(discriminate)).
  pose proof (N.mod_lt (q / 256) 256 ltac:(discriminate)).
  pose proof (N.div_mod q 65536 ltac:(discriminate)).
  pose proof (N.mod_lt q 65536 ltac:(discriminate)).
  pose proof (N.div_div q 256 256 ltac:(discriminate) ltac:(discriminate)) as Hdd. change (256 * 256) with 65536 in Hdd.
  lia.
Qed.

Lemma spec_stable_eq e : spec_stable e = is_stable e.
Proof. unfold spec_stable, is_stable. rewrite spec_eui64_eq. reflexivity. Qed.

Lemma spec_eligible_eq e : spec_eligible e = rdnss_ok e.
Proof.
  unfold spec_eligible, rdnss_ok, rdnss_skip.
  destruct (ip_v4 e), (ip_deprecated e), (ip_temporary e), (ip_tentative e); reflexivity.
Qed.

Lemma class_lt4 a : class a < 4.
Proof. unfold class. destruct (go_private a), (go_global_unicast a), (go_link_local a); reflexivity. Qed.

(* the single-number key orders entries exactly like the lexicographic rank *)
Lemma spec_key_le e e' :
  ip_addr e < 2 ^ 128 -> ip_addr e' < 2 ^ 128 ->
  ((spec_key e <=? spec_key e') = true <-> rank_le (rank e) (rank e')).
Proof.
  intros Ha Ha'. unfold spec_key. rewrite !spec_stable_eq, !spec_class_eq by assumption.
  unfold rank, rank_le, rank_lt.
  pose proof (class_lt4 (ip_addr e)) as Hc. pose proof (class_lt4 (ip_addr e')) as Hc'.
  set (c := class (ip_addr e)) in *. set (c' := class (ip_addr e')) in *.
  set (a := ip_addr e) in *. set (a' := ip_addr e') in *. clearbody c c' a a'.
  change (2 ^ 128) with 340282366920938463463374607431768211456 in *.
  rewrite N.leb_le.
  destruct (is_stable e), (is_stable e'); split.
  all: try (intros H; assert (D : c < c' \/ (c = c' /\ a < a') \/ (c = c' /\ a = a')) by lia;
            destruct D as [D|[D|[D1 D2]]]; [left; lia | left; lia | right; subst; reflexivity]).
  all: try (intros [H|H]; [lia | inversion H; lia]).
  all: try (intros _; left; lia).
  all: try lia.
Qed.

Lemma list_eqb_refl l : list_eqb N.eqb l l = true.
Proof. induction l as [|x tl IH]; cbn [list_eqb]; [reflexivity | rewrite N.eqb_refl, IH; reflexivity]. Qed.

Lemma holds_apply_model auto servers lifetime addrs :
  (forall l, addrs = Some l -> Forall (fun e => ip_addr e < 2 ^ 128) l) ->
  holds_apply_on (Ok (auto, servers)) lifetime addrs (rdnss_Apply auto lifetime servers addrs) = true.
Proof.
  intros Hdom. unfold holds_apply_on.
  destruct auto.
  2:{ cbn [rdnss_Apply]. rewrite Z.eqb_refl, list_eqb_refl. reflexivity. }
  destruct addrs as [l|]; [|reflexivity].
  specialize (Hdom l eq_refl). rewrite Forall_forall in Hdom.
  unfold rdnss_Apply. destruct (rdnss_current (Some l)) as [s|e] eqn:Ec.
  - apply rdnss_current_ok in Ec. destruct Ec as [r [Hs [Hin [Hok Hall]]]].
    assert (HrE : In r (filter spec_eligible l)).
    { apply filter_In. split; [exact Hin | rewrite spec_eligible_eq; exact Hok]. }
    destruct (filter spec_eligible l) as [|e0 E'] eqn:EE; [destruct HrE|].
    rewrite Z.eqb_refl, list_eqb_refl. cbn [andb].
    apply existsb_exists. exists r. split; [exact HrE|].
    apply andb_true_iff. split; [apply N.eqb_eq, Hs|].
    apply forallb_forall. intros k Hk. apply in_map_iff in Hk. destruct Hk as [e' [<- He']].
    rewrite <- EE in He'. apply filter_In in He'. destruct He' as [Hin' Hok'].
    apply spec_key_le; [apply Hdom, Hin | apply Hdom, Hin'|].
    apply Hall; [exact Hin' | rewrite <- spec_eligible_eq; exact Hok'].
  - assert (Hnone : is_ok (rdnss_current (Some l)) = false) by (rewrite Ec; reflexivity).
    rewrite rdnss_current_err in Hnone.
    assert (EE : filter spec_eligible l = []).
    { destruct (filter spec_eligible l) as [|e0 E'] eqn:EE; [reflexivity|].
      assert (H0 : In e0 (filter spec_eligible l)) by (rewrite EE; left; reflexivity).
      apply filter_In in H0. destruct H0 as [Hin Hok]. rewrite spec_eligible_eq, (Hnone e0 Hin) in Hok. discriminate. }
    rewrite EE. reflexivity.
Qed.

(* ---- the parse part *)

Lemma raw_addrs_same l : Forall raw_v6 l -> Corr.C14.raw_addrs l = Proofs.WildcardRDNSS.raw_addrs l.
Proof.
  induction 1 as [|r tl Hr Ht IH]; [reflexivity|].
  unfold Corr.C14.raw_addrs, Proofs.WildcardRDNSS.raw_addrs in *. cbn [flat_map]. rewrite IH.
  destruct r; try contradiction. reflexivity.
Qed.

Lemma in_raw_addrs x l : In x (Proofs.WildcardRDNSS.raw_addrs l) <-> In (RS6 x) l.
Proof.
  unfold Proofs.WildcardRDNSS.raw_addrs. rewrite in_flat_map. split.
  - intros [r [Hin Hx]]. destruct r as [| | |a]; [destruct Hx | destruct Hx | destruct Hx |]. destruct Hx as [<-|[]]. exact Hin.
  - intros Hin. exists (RS6 x). split; [exact Hin | left; reflexivity].
Qed.

Lemma has_dup_false l : has_dup l = false -> NoDup l.
Proof.
  induction l as [|x tl IH]; cbn [has_dup]; [constructor|].
  rewrite orb_false_iff. intros [Hm Hd]. constructor; [|apply IH, Hd].
  intros Hin. apply memN_In in Hin. congruence.
Qed.

Lemma raw_bad_false l : existsb raw_bad l = false -> existsb raw_zoned l = false -> Forall raw_v6 l.
Proof.
  induction l as [|r tl IH]; cbn [existsb]; [constructor|].
  rewrite !orb_false_iff. intros [Hr Ht] [Hz Hzt]. constructor; [|apply IH; assumption].
  destruct r; try discriminate. exact I.
Qed.

Lemma raw_v6_not_bad l : Forall raw_v6 l -> existsb raw_bad l = false.
Proof.
  induction 1 as [|r tl Hr Ht IH]; [reflexivity|]. cbn [existsb]. rewrite IH.
  destruct r; try contradiction. reflexivity.
Qed.

Lemma strictly_ascending_sorted14 l : StronglySorted N.lt l -> strictly_ascending l = true.
Proof.
  induction 1 as [|x tl Hs IH Hall]; [reflexivity|].
  destruct tl as [|y tl']; [reflexivity|].
  change (strictly_ascending (x :: y :: tl')) with ((x <? y) && strictly_ascending (y :: tl')).
  rewrite IH, andb_true_r. apply N.ltb_lt. inversion Hall; assumption.
Qed.

Lemma holds_again_model auto servers lifetime addrs k :
  (forall l, addrs = Some l -> Forall (fun e => ip_addr e < 2 ^ 128) l) ->
  forallb (holds_apply_on (Ok (auto, servers)) lifetime addrs)
          (repeat (rdnss_Apply auto lifetime servers addrs) k) = true.
Proof.
  intros Hdom. apply forallb_forall. intros x Hx. apply repeat_spec in Hx. subst x.
  apply holds_apply_model, Hdom.
Qed.

Lemma holds_parse_model raw lifetime addrs obs again :
  holds_parse (mkCase (Some raw) (parse_rdnss raw) lifetime addrs obs again) = true.
Proof.
  unfold holds_parse. cbn [c_raw c_parsed].
  destruct (parse_rdnss raw) as [[auto servers]|e] eqn:Ep.
  - destruct (parse_rdnss_spec _ _ _ Ep) as [Hs [Hin [Hauto Hall]]].
    rewrite (raw_addrs_same raw Hall).
    rewrite !andb_true_iff. repeat split.
    + apply negb_true_iff, raw_v6_not_bad, Hall.
    + apply eqb_true_iff.
      destruct raw as [|r tl]; [apply Hauto; left; reflexivity|].
      apply eq_true_iff_eq. rewrite Hauto, memN_In, in_raw_addrs. split; [intros [H|H]; [discriminate | exact H] | intros H; right; exact H].
    + apply strictly_ascending_sorted14, Hs.
    + apply forallb_forall. intros s Hs'. apply Hin in Hs'. destruct Hs' as [H1 H2].
      apply andb_true_iff. split; [apply negb_true_iff, N.eqb_neq, H2|].
      apply memN_In, in_raw_addrs, H1.
    + apply forallb_forall. intros a Ha. apply in_raw_addrs in Ha.
      destruct (N.eqb_spec a 0) as [E|E]; [reflexivity|]. cbn [orb]. apply memN_In, Hin. split; assumption.
  - destruct (existsb raw_bad raw) eqn:Eb; [reflexivity|]. cbn [orb].
    destruct (existsb raw_zoned raw) eqn:Ez; [apply orb_true_r|]. rewrite orb_false_r.
    destruct (has_dup (Corr.C14.raw_addrs raw)) eqn:Ed; [reflexivity|]. exfalso.
    pose proof (raw_bad_false raw Eb Ez) as Hall.
    assert (Hok : is_ok (parse_rdnss raw) = true).
    { apply parse_rdnss_accepts. split; [exact Hall|]. rewrite <- (raw_addrs_same raw Hall). apply has_dup_false, Ed. }
    rewrite Ep in Hok. discriminate.
Qed.

(* config driver cases: the stanza's server list is parsed, then the plugin applied *)
Definition config_obs (raw : list raw_server) (lifetime : Z) (addrs : option (list sysip)) : result (list opt) :=
  match parse_rdnss raw with
  | Ok (auto, servers) => rdnss_Apply auto lifetime servers addrs
  | Err e => Err e
  end.

(* [k] further applications of the same plugin value *)
Theorem C14_checker_accepts_model_config : forall raw lifetime addrs k,
  (forall l, addrs = Some l -> Forall (fun e => ip_addr e < 2 ^ 128) l) ->
  holds (mkCase (Some raw) (parse_rdnss raw) lifetime addrs
           (config_obs raw lifetime addrs) (repeat (config_obs raw lifetime addrs) k)) = true.
Proof.
  intros raw lt addrs k Hdom. unfold holds, holds_apply, holds_again, config_obs. rewrite holds_parse_model.
  cbn [andb c_parsed c_lifetime c_addrs c_obs c_again].
  destruct (parse_rdnss raw) as [[auto servers]|e].
  - rewrite holds_apply_model by exact Hdom. apply holds_again_model, Hdom.
  - cbn [holds_apply_on andb]. apply forallb_forall. intros x _. reflexivity.
Qed.

(* plugin driver cases: the plugin value is given directly *)
Theorem C14_checker_accepts_model_plugin : forall auto servers lifetime addrs k,
  (forall l, addrs = Some l -> Forall (fun e => ip_addr e < 2 ^ 128) l) ->
  holds (mkCase None (Ok (auto, servers)) lifetime addrs (rdnss_Apply auto lifetime servers addrs)
                (repeat (rdnss_Apply auto lifetime servers addrs) k)) = true.
Proof.
  intros auto servers lt addrs k Hdom. unfold holds, holds_apply, holds_again.
  cbn [c_parsed c_lifetime c_addrs c_obs c_again holds_parse c_raw andb].
  rewrite holds_apply_model by exact Hdom. apply holds_again_model, Hdom.
Qed.
