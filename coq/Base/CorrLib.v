(* Glue used by every generated cases file: evaluate the three per-case checkers and report
   only the cases that are not (agree, holds, not-known). *)
From Coq Require Export List ZArith NArith Bool.
Export ListNotations.

Inductive result := R (id : N) (agree holds : bool) (known : N).

Definition run_cases {C : Type} (agree holds : C -> bool) (known : C -> N)
  (cs : list (N * C)) : list result :=
  flat_map (fun ic : N * C =>
    let (i, c) := ic in
    let a := agree c in let h := holds c in let k := known c in
    if (a && h && N.eqb k 0)%bool then [] else [R i a h k]) cs.
