(* IPv6 address arithmetic mirroring the net/netip predicates CoreRAD relies on.
   An address is an N below 2^128; a prefix is (address, bits) with bits <= 128. *)
From Coq Require Export NArith List Bool.
Export ListNotations.
Local Open Scope N_scope.

Definition two128 : N := 2 ^ 128.
(* netip.Prefix.Masked: keep the top [bits] bits *)
Definition mask (a bits : N) : N :=
  let sh := 128 - bits in N.shiftl (N.shiftr a sh) sh.
(* netip.Prefix.Contains(ip) for same-family IPv6 *)
Definition contains (pa pbits ip : N) : bool := N.eqb (mask ip pbits) (mask pa pbits).
(* netip.Prefix.Overlaps *)
Definition overlaps (a abits b bbits : N) : bool :=
  let m := N.min abits bbits in N.eqb (mask a m) (mask b m).

Definition is_unspecified (a : N) : bool := N.eqb a 0.
(* fe80::/10 *)
Definition is_link_local (a : N) : bool := N.eqb (N.shiftr a 118) 1018.      (* 0xfe80 >> 6 = 0x3fa *)
(* fc00::/7 *)
Definition is_private (a : N) : bool := N.eqb (N.shiftr a 121) 126.          (* 0xfc >> 1 = 0x7e *)
(* ff00::/8 *)
Definition is_multicast (a : N) : bool := N.eqb (N.shiftr a 120) 255.
Definition is_loopback (a : N) : bool := N.eqb a 1.
(* netip.Addr.IsGlobalUnicast for IPv6 (non-4in6): not unspecified, loopback, multicast, link-local unicast.
   (The IPv4 broadcast exclusion only concerns Is4 addresses.) *)
Definition is_global_unicast (a : N) : bool :=
  negb (is_unspecified a) && negb (is_loopback a) && negb (is_multicast a) && negb (is_link_local a).
(* byte i (0 = most significant) of the 16-byte form *)
Definition byte (a i : N) : N := N.land (N.shiftr a (8 * (15 - i))) 255.
Definition is_eui64 (a : N) : bool := N.eqb (byte a 11) 255 && N.eqb (byte a 12) 254.
Definition all_nodes : N := 338963523518870617245727861364146307073.       (* ff02::1 *)
