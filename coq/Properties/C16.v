(* C16 -- Deprecated prefixes and routes count down to zero at a fixed deadline.
   Statements only; each is closed by [exact] of a lemma proved in Proofs/Lifetimes.v. *)
From CR Require Import Model.Lifetimes Proofs.Lifetimes.
(* the wiring in main() the model takes for granted (one State, one Metrics, epoch = start, Serve error fatal): Properties/Main.v *)
From CR Require Properties.Main.
(* a scheduled RA is built when its timer fires, by the call that writes it (extracted): C16_on_the_wire: fresh_sources in Properties/Fresh.v *)
From CR Require Properties.Fresh.
(* the code computes instants and durations on one clock (extracted): one_clock in Properties/Clock.v *)
From CR Require Properties.Clock.
Local Open Scope Z_scope.

(* the advertised lifetime at clock reading [now] is the time remaining to epoch + L, clamped at 0 *)
Theorem C16_value : forall epoch L now, remaining epoch L now = Z.max 0 (epoch + L - now).
Proof. exact remaining_spec. Qed.

Theorem C16_nonneg : forall epoch L now, 0 <= remaining epoch L now.
Proof. exact remaining_nonneg. Qed.

Theorem C16_zero_after : forall epoch L now, epoch + L <= now -> remaining epoch L now = 0.
Proof. exact remaining_zero_after. Qed.

Theorem C16_mono : forall epoch L now now', now <= now' -> remaining epoch L now' <= remaining epoch L now.
Proof. exact remaining_mono. Qed.

(* ... hence along every non-decreasing sequence of clock readings (any length) *)
Theorem C16_never_increases : forall epoch L nows,
  nondecreasing nows -> nonincreasing (map (remaining epoch L) nows).
Proof. exact remaining_sequence. Qed.

(* a prefix's preferred lifetime never exceeds its valid lifetime at any instant, deprecated or not
   (the parser guarantees preferred <= valid: Proofs/Config, C02) *)
Theorem C16_pref_le_valid : forall dep epoch valid preferred now, preferred <= valid ->
  snd (prefix_lifetimes dep epoch valid preferred now) <= fst (prefix_lifetimes dep epoch valid preferred now).
Proof. exact prefix_pref_le_valid. Qed.

(* non-deprecated prefixes and routes always advertise the configured constants *)
Theorem C16_const_prefix : forall epoch valid preferred now,
  prefix_lifetimes false epoch valid preferred now = (valid, preferred).
Proof. reflexivity. Qed.
Theorem C16_const_route : forall epoch L now, route_lifetime false epoch L now = L.
Proof. reflexivity. Qed.
Theorem C16_route_deprecated : forall epoch L now,
  route_lifetime true epoch L now = Z.max 0 (epoch + L - now).
Proof. exact remaining_spec. Qed.
Theorem C16_prefix_deprecated : forall epoch valid preferred now,
  prefix_lifetimes true epoch valid preferred now =
  (Z.max 0 (epoch + valid - now), Z.max 0 (epoch + preferred - now)).
Proof. intros. unfold prefix_lifetimes. rewrite !remaining_spec. reflexivity. Qed.

(* non-vacuity: a concrete countdown crossing both deadlines *)
Example C16_example :
  map (fun now => prefix_lifetimes true 1000 500 200 now) [900; 1000; 1199; 1200; 1201; 1499; 1500; 9000]
  = [(600, 300); (500, 200); (301, 1); (300, 0); (299, 0); (1, 0); (0, 0); (0, 0)].
Proof. reflexivity. Qed.

Print Assumptions C16_value.
Print Assumptions C16_nonneg.
Print Assumptions C16_zero_after.
Print Assumptions C16_mono.
Print Assumptions C16_never_increases.
Print Assumptions C16_pref_le_valid.
Print Assumptions C16_const_prefix.
Print Assumptions C16_const_route.
Print Assumptions C16_route_deprecated.
Print Assumptions C16_prefix_deprecated.
