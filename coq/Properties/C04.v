(* C04 -- A non-forwarding interface never advertises itself as a default router.
   Statements only; proofs in Proofs/Forwarding.v.

   Model (Model/Forwarding.v): events [SetFwd i b] (the environment flips interface i's forwarding sysctl) and
   [Gen i p] (an RA is generated for interface i on path p in {Initial, Periodic, Solicited, Final, Verify, Scrape,
   Api}; ScrapeIdle is the metrics scrape visiting an interface that does not advertise: no RA is generated).  The machine's state is the environment's flag map only -- the daemon holds no copy.  [cfg i] is the RA
   built from interface i's configuration and plugins; its lifetime field is the configured default lifetime.
   [flag_at f0 before i] is the flag of i after the events [before]: its last flip, else the initial value.
   [GenFail i p]: a generation attempt on path p whose State read fails (the failure is an input, like the flag). *)
From CR Require Import Model.Forwarding.
(* the wiring in main() the model takes for granted (one State, one Metrics, epoch = start, Serve error fatal): Properties/Main.v *)
From CR Require Properties.Main.
From CR Require Import Proofs.Forwarding.
Local Open Scope Z_scope.

(* For arbitrary event lists over any number of interfaces: the k-th event, if it generates an RA, reads the flag in
   force at that moment (exactly one State read) and
   - the router lifetime is the configured one (0 on the final path) when forwarding, 0 otherwise;
   - the rest of the RA is the configured RA;
   - InterfaceNotForwarding is reported iff not forwarding and the configured lifetime is > 0, as a log line on the
     advertiser paths, as the gauge sample on the scrape path (the debug API renders the zero lifetime only);
   - the scrape reports the flag itself. *)
Theorem C04_generation : forall cfg evs f0 k i p,
  0 <= ra_lifetime (cfg i) ->
  nth_error evs k = Some (Gen i p) ->
  let fwd := flag_at f0 (firstn k evs) i in
  let configured := path_lifetime p (ra_lifetime (cfg i)) in
  exists o, nth_error (run cfg f0 evs) k = Some (Some o) /\
    o_iface o = i /\ o_path o = p /\
    ra_lifetime (o_ra o) = (if fwd then configured else 0) /\
    o_ra o = set_lifetime (cfg i) (ra_lifetime (o_ra o)) /\
    o_misconf o = negb fwd && (0 <? configured) /\
    o_logged o = (match path_surface p with SLog => o_misconf o | _ => false end) /\
    o_gauge o = (match path_surface p with SGauge => Some (o_misconf o) | _ => None end) /\
    o_fwd_gauge o = (match p with Scrape | ScrapeIdle => Some fwd | _ => None end) /\
    o_reads o = 1%N.
Proof. exact run_nth_props. Qed.

(* which paths surface the misconfiguration how, and what each path is configured with *)
Theorem C04_paths :
  (forall p, In p [Initial; Periodic; Solicited; Final; Verify] -> path_surface p = SLog) /\
  path_surface Scrape = SGauge /\ path_surface ScrapeIdle = SGauge /\ path_surface Api = SNone /\
  (forall l, path_lifetime Final l = 0) /\ (forall l, path_lifetime ScrapeIdle l = 0) /\
  (forall p l, p <> Final -> p <> ScrapeIdle -> path_lifetime p l = l).
Proof.
  repeat split.
  - intros p H. cbn in H. intuition subst; reflexivity.
  - intros p l H H'. destruct p; try reflexivity; contradiction.
Qed.

(* "tracks forwarding changes between consecutive RAs": the flag in force is the last flip of that interface *)
Theorem C04_flag_tracks : forall f0 l i,
  flag_at f0 [] i = f0 i /\
  (forall b, flag_at f0 (l ++ [SetFwd i b]) i = b) /\
  (forall j b, i <> j -> flag_at f0 (l ++ [SetFwd j b]) i = flag_at f0 l i) /\
  (forall j p, flag_at f0 (l ++ [Gen j p]) i = flag_at f0 l i) /\
  (forall j p, flag_at f0 (l ++ [GenFail j p]) i = flag_at f0 l i).
Proof.
  intros. split; [reflexivity|]. split; [intro; apply flag_at_snoc_set_same|].
  split; [intros; apply flag_at_snoc_set_other; assumption |].
  split; [intros; apply flag_at_snoc_gen | intros; apply flag_at_snoc_genfail].
Qed.

(* fail closed: a generation whose State read fails (permission denied or any other error) yields NO RA -- nothing
   is sent, compared, exported or rendered -- on every path, whether the flag is on or off; in particular never an
   RA with the configured lifetime.  Later generations read the flag again (C04_generation quantifies over event
   lists containing GenFail events). *)
Theorem C04_read_failure : forall cfg evs f0 k i p,
  nth_error evs k = Some (GenFail i p) -> nth_error (run cfg f0 evs) k = Some None.
Proof. exact run_nth_fail. Qed.

(* RFC 4861 6.2.5 in one line: not forwarding -> router lifetime 0, whatever the configuration and the path *)
Corollary C04_never_default_router : forall cfg evs f0 k i p o,
  0 <= ra_lifetime (cfg i) -> nth_error evs k = Some (Gen i p) ->
  flag_at f0 (firstn k evs) i = false ->
  nth_error (run cfg f0 evs) k = Some (Some o) -> ra_lifetime (o_ra o) = 0.
Proof.
  intros cfg evs f0 k i p o Hl Hn Hf Ho.
  destruct (run_nth_props cfg evs f0 k i p Hl Hn) as [o' [Ho' [_ [_ [H _]]]]].
  rewrite Ho in Ho'. inversion Ho'; subst o'. rewrite H, Hf. reflexivity.
Qed.

(* forwarding enabled: the configured lifetime is sent and nothing is reported, on any path *)
Corollary C04_forwarding_silent : forall cfg evs f0 k i p o,
  0 <= ra_lifetime (cfg i) -> nth_error evs k = Some (Gen i p) ->
  flag_at f0 (firstn k evs) i = true ->
  nth_error (run cfg f0 evs) k = Some (Some o) ->
  ra_lifetime (o_ra o) = path_lifetime p (ra_lifetime (cfg i)) /\ o_misconf o = false /\ o_logged o = false /\
  o_gauge o <> Some true.
Proof.
  intros cfg evs f0 k i p o Hl Hn Hf Ho.
  destruct (run_nth_props cfg evs f0 k i p Hl Hn) as [o' [Ho' [_ [_ [H1 [_ [H2 [H3 [H4 _]]]]]]]]].
  rewrite Ho in Ho'. inversion Ho'; subst o'. rewrite Hf in *. cbn [negb andb] in H2.
  rewrite H2 in *. repeat split; try assumption.
  - rewrite H3. destruct (path_surface p); reflexivity.
  - rewrite H4. destruct (path_surface p); discriminate.
Qed.

(* reading decision: with default_lifetime = 0 (and on the final path) nothing is overridden, nothing reported *)
Corollary C04_zero_lifetime_silent : forall cfg evs f0 k i p o,
  nth_error evs k = Some (Gen i p) -> (ra_lifetime (cfg i) = 0 \/ p = Final \/ p = ScrapeIdle) ->
  nth_error (run cfg f0 evs) k = Some (Some o) ->
  ra_lifetime (o_ra o) = 0 /\ o_misconf o = false /\ o_logged o = false /\ o_gauge o <> Some true.
Proof.
  intros cfg evs f0 k i p o Hn Hz Ho.
  rewrite (run_nth cfg evs f0 k i p Hn) in Ho. inversion Ho; subst o. clear Ho.
  assert (Hc : path_lifetime p (ra_lifetime (cfg i)) = 0) by (destruct Hz as [->|[->| ->]]; [destruct p| |]; reflexivity).
  destruct (gen_surface i p (cfg i) (flag_at f0 (firstn k evs) i)) as [H3 [H4 _]].
  rewrite H3, H4, gen_misconf, gen_ra, Hc. cbn [set_lifetime ra_lifetime Z.ltb Z.compare andb].
  rewrite andb_false_r. repeat split; destruct (path_surface p); try reflexivity; discriminate.
Qed.

(* a monitoring or unused interface in a multi-interface configuration: the scrape reports its own forwarding flag
   (the last flip of THAT interface) and never a misconfiguration -- whatever its stanza says, whatever the flags,
   configurations and generations of the interfaces listed before it *)
Corollary C04_idle_interface : forall cfg evs f0 k i o,
  nth_error evs k = Some (Gen i ScrapeIdle) ->
  nth_error (run cfg f0 evs) k = Some (Some o) ->
  o_misconf o = false /\ o_logged o = false /\ o_gauge o = Some false /\
  o_fwd_gauge o = Some (flag_at f0 (firstn k evs) i) /\ o_reads o = 1%N.
Proof.
  intros cfg evs f0 k i o Hn Ho.
  rewrite (run_nth cfg evs f0 k i ScrapeIdle Hn) in Ho. inversion Ho; subst o. clear Ho.
  destruct (gen_surface i ScrapeIdle (cfg i) (flag_at f0 (firstn k evs) i)) as [H3 [H4 H5]].
  rewrite H3, H4, H5, gen_misconf, gen_reads. cbn [path_lifetime path_surface Z.ltb Z.compare].
  rewrite andb_false_r. repeat split.
Qed.

(* per-interface independence: flips and generations of other interfaces never change an output of B *)
Theorem C04_independence : forall cfg B evs evs' f f',
  f B = f' B -> filter (concerns B) evs = filter (concerns B) evs' ->
  outs_of B (run cfg f evs) = outs_of B (run cfg f' evs').
Proof. exact independence. Qed.

(* non-vacuity: two interfaces, flips in between, every path *)
Definition ex_cfg (i : N) : ra :=
  mkRA 64 false false Medium (if N.eqb i 1 then 1800 * sec else 0) 0 0 [OMTU 1500].
Definition ex_events : list event :=
  [Gen 1 Initial; SetFwd 1 false; Gen 1 Periodic; Gen 1 Scrape; Gen 1 Api; Gen 2 Scrape; SetFwd 2 false; Gen 2 Solicited;
   GenFail 2 Periodic; GenFail 1 Scrape; SetFwd 1 true; GenFail 1 Solicited; Gen 1 Verify; Gen 1 Final].
Example C04_example :
  map (option_map (fun o => (ra_lifetime (o_ra o), o_misconf o, o_logged o, o_gauge o, o_fwd_gauge o)))
      (run ex_cfg (fun _ => true) ex_events) =
  [ Some (1800 * sec, false, false, None, None); None;
    Some (0, true, true, None, None); Some (0, true, false, Some true, Some false); Some (0, true, false, None, None);
    Some (0, false, false, Some false, Some true); None; Some (0, false, false, None, None);
    None; None; None; None; Some (1800 * sec, false, false, None, None); Some (0, false, false, None, None) ].
Proof. vm_compute. reflexivity. Qed.

(* an unused interface 3 (its stanza would yield a 1800 s lifetime) listed after the advertising, non-forwarding
   interface 1: the scrape reports interface 1 and is silent about interface 3, whose gauge follows its own flag *)
Example C04_idle_example :
  map (option_map (fun o => (o_misconf o, o_gauge o, o_fwd_gauge o)))
      (run (fun _ => ex_cfg 1) (fun _ => true)
           [SetFwd 1 false; Gen 1 Scrape; Gen 3 ScrapeIdle; SetFwd 3 false; Gen 1 Scrape; Gen 3 ScrapeIdle]) =
  [ None; Some (true, Some true, Some false); Some (false, Some false, Some true);
    None; Some (true, Some true, Some false); Some (false, Some false, Some false) ].
Proof. vm_compute. reflexivity. Qed.

Print Assumptions C04_generation.
Print Assumptions C04_paths.
Print Assumptions C04_flag_tracks.
Print Assumptions C04_read_failure.
Print Assumptions C04_never_default_router.
Print Assumptions C04_forwarding_silent.
Print Assumptions C04_zero_lifetime_silent.
Print Assumptions C04_idle_interface.
Print Assumptions C04_independence.
Print Assumptions C04_idle_example.
