(* C17 / C07 -- "always answerable": the plugin lock can never hang a scrape, a debug API request
   or an RA build.  Model/RWLock.v is Go's sync.RWMutex (new readers wait as soon as a writer is
   waiting) under the discipline the source is read to follow on every run (gen/ExtLock.v): no
   function that holds plugin.prepareMu reaches a function that acquires it again.  Statements
   only; proofs in Proofs/RWLock.v. *)
From CR Require Import Model.RWLock Proofs.RWLock gen.ExtLock.

Theorem C17_lock_discipline : prepare_lock_reentrant = false.
Proof. exact extracted_not_reentrant. Qed.

(* any number of readers (scrapes, API requests, RA builds on every interface) and writers
   (Prepare at every (re)initialisation), any interleaving: every reachable state has a thread
   that can move, unless all have finished *)
Theorem C17_lock_no_deadlock : forall s is_ s',
  (forall t, In t s -> t_pc t = R0 \/ t_pc t = W0) ->
  run prepare_lock_reentrant s is_ = Some s' -> stuck prepare_lock_reentrant s' = false.
Proof. exact no_deadlock. Qed.

(* ... and every execution is finite: with progress, every scrape / build / Prepare completes *)
Theorem C17_lock_terminates : forall s is_ s',
  run prepare_lock_reentrant s is_ = Some s' -> length is_ + measure s' <= measure s.
Proof. intros s is_ s'. exact (run_bounded false is_ s s'). Qed.

(* with a read lock taken again by its holder (seeded three times by independent reviewers as a
   "fix" for String()) one reader and one Prepare deadlock *)
Theorem C17_lock_reentrant_deadlock :
  exists s', run true [mkT R0 1; mkT W0 1] [0; 1] = Some s' /\ stuck true s' = true.
Proof. exact reentrant_deadlock. Qed.

Example C17_lock_example :
  exists s', run false [mkT R0 2; mkT W0 1; mkT R0 1] [0; 1; 0; 1; 1; 2; 2; 0; 0] = Some s' /\ done s' = true.
Proof. eexists. split; vm_compute; reflexivity. Qed.

Print Assumptions C17_lock_discipline.
Print Assumptions C17_lock_no_deadlock.
Print Assumptions C17_lock_terminates.
Print Assumptions C17_lock_reentrant_deadlock.
