(* C19 -- Link-state subscribers get exactly what they asked for; the watcher never blocks.
   Statements only; proofs are in Proofs/Watcher.v.  Vocabulary (Proofs/WatcherSpec.v):
     relevant iface mask h  = the changes of history h on iface that intersect mask, in order;
     arrivals i iface mask h = the same changes, each with the number of changes waiting in
                               subscriber i's buffer when it arrived;
     kept l                  = those that arrived while fewer than 8 were waiting;
     received s              = what the subscriber has taken out ++ what is still buffered.
   Histories are arbitrary lists of Subscribe / WatchStart / Notify / Drain / EndWatch events
   (any number of subscribers, interfaces, changes; any interleaving of these atomic steps). *)
From Coq Require Import String.
From CR Require Import Model.Watcher.
From CR Require Import Proofs.WatcherSpec.
From CR Require Import Proofs.Watcher.
(* behind the watch seam: one rtnetlink group, own namespace, no socket option (extracted) *)
From CR Require Properties.SeamNetlink.
From Coq Require Import List Lia.
Import ListNotations.
Local Open Scope nat_scope.

(* The subscriber created by [Subscribe iface mask] after any history [pre]: whatever happens
   afterwards ([post]), what it receives is exactly the in-order sequence of the changes on its
   interface that intersect its mask, minus those that arrived while its buffer held 8. *)
Theorem C19_iff : forall pre iface mask post outs0 st0 outs st,
  run init pre = (outs0, Some st0) ->
  run st0 (Subscribe iface mask :: post) = (outs, Some st) ->
  exists s, nth_error (subs st) (length (subs st0)) = Some s /\
    s_iface s = iface /\ s_mask s = mask /\
    received s = kept (arrivals (length (subs st0)) iface mask post).
Proof.
  intros pre iface mask post outs0 st0 outs st H0 H.
  destruct (subscribe_then st0 iface mask post outs st H) as [s [A [B [C [D _]]]]].
  - eapply run_bounded; [| exact H0]. constructor.
  - eauto.
Qed.

(* ... where the arriving changes are exactly the relevant ones, in order of occurrence ... *)
Theorem C19_arrivals : forall i iface mask post,
  map fst (arrivals i iface mask post) = relevant iface mask post.
Proof. exact arrivals_are_relevant. Qed.

(* ... so: nothing spurious, nothing duplicated, nothing reordered *)
Theorem C19_in_order : forall i iface mask post,
  subseq (kept (arrivals i iface mask post)) (relevant iface mask post).
Proof. intros. rewrite <- (arrivals_are_relevant i). apply kept_subseq. Qed.

(* a change c on the right interface is relevant iff it intersects the mask *)
Theorem C19_relevant_iff : forall iface mask changed c,
  In c (rel_changes iface mask changed) <->
  exists cs, In (iface, cs) changed /\ In c cs /\ N.land mask c <> 0%N.
Proof.
  intros iface mask changed c. unfold rel_changes. rewrite in_flat_map. split.
  - intros [[i cs] [Hin Hc]]. cbn [fst snd] in Hc. destruct (N.eqb_spec iface i); [| contradiction].
    subst. apply filter_In in Hc. destruct Hc as [Hc Hm]. exists cs. repeat split; auto.
    intro Z. rewrite Z in Hm. discriminate.
  - intros [cs [Hin [Hc Hm]]]. exists (iface, cs). split; auto. cbn [fst snd]. rewrite N.eqb_refl.
    apply filter_In. split; auto. destruct (N.eqb_spec (N.land mask c) 0); [contradiction | reflexivity].
Qed.

(* nothing is lost when the buffer never holds 8 at an arrival ... *)
Theorem C19_exact_when_drained : forall i iface mask post,
  (forall p, In p (arrivals i iface mask post) -> snd p < 8) ->
  kept (arrivals i iface mask post) = relevant iface mask post.
Proof. intros. rewrite kept_all by assumption. apply arrivals_are_relevant. Qed.

(* ... in particular when no more than 8 relevant changes occur at all, drained or not *)
Theorem C19_exact_upto_8 : forall i iface mask post,
  length (relevant iface mask post) <= 8 ->
  kept (arrivals i iface mask post) = relevant iface mask post.
Proof.
  intros i iface mask post H. apply C19_exact_when_drained. intros p Hp.
  unfold arrivals in Hp. eapply annotate_bound; [| exact Hp].
  rewrite count_arr_relevant. cbn. exact H.
Qed.

(* the buffer never holds more than 8 changes, in any reachable state *)
Theorem C19_bounded : forall evs outs st,
  run init evs = (outs, Some st) -> Forall (fun s => length (s_queue s) <= 8) (subs st).
Proof. intros evs outs st H. eapply run_bounded; [| exact H]. constructor. Qed.

(* notify is a total function of the state (Model.Watcher.notify : ... -> option (list sub),
   computed by structural recursion: it cannot wait), and on every history the API can produce
   (notify called only by the hook of the running watch) it never fails either: no send on a
   closed channel, no second close *)
Theorem C19_never_blocks : forall evs, valid evs = true ->
  exists outs st, run init evs = (outs, Some st).
Proof. exact never_panics. Qed.

(* the hazard outside those histories is real in the model: a notify after the end panics *)
Theorem C19_send_after_close_panics : forall failed,
  snd (run init [Subscribe 1 2; WatchStart; EndWatch failed; Notify [(1%N, [2%N])]]) = None.
Proof. intros f. exact (proj2 (notify_after_close_panics f)). Qed.

(* end of watch -- whether the watch function returned nil (context cancelled) or an error
   ([failed]: no rtnetlink socket, a receive error, an unsupported OS): every subscription made
   before it is closed, by exactly one close(); a subscription made after it is never closed (its
   reader would wait forever); and Watch returns what the watch function returned *)
Theorem C19_close : forall pre post failed,
  valid (pre ++ EndWatch failed :: post) = true ->
  exists outs st, run init (pre ++ EndWatch failed :: post) = (outs, Some st) /\
    (forall i s, nth_error (subs st) i = Some s ->
      if Nat.ltb i (count_subscribe pre)
      then s_closed s = true /\ s_closes s = 1
      else s_closed s = false /\ s_closes s = 0) /\
    In (OEnd failed) outs.
Proof.
  intros pre post f V. destruct (close_lemma pre post f init) as [outs [st [R [C I]]]]; auto; [constructor |].
  exists outs, st. split; [exact R | split; [exact C | exact I]].
Qed.

(* without an end of watch nothing is closed *)
Theorem C19_open_until_end : forall evs,
  valid evs = true -> (forall e failed, In e evs -> e <> EndWatch failed) ->
  exists outs st, run init evs = (outs, Some st) /\
    Forall (fun s => s_closed s = false /\ s_closes s = 0) (subs st).
Proof.
  intros evs V N. destruct (no_end_lemma evs init) as [outs [st [R [O _]]]]; auto; [constructor |].
  eauto.
Qed.

(* Watch called while or after a watch ran: "multiple calls" panic, watcher state untouched *)
Theorem C19_watch_twice : forall st, watching st = true ->
  step st WatchStart = Some (st, [OWatch true]).
Proof. exact watch_twice_panics. Qed.

(* single events, exhaustively: 127 masks x 7 link states x {same, other} interface (finite;
   checked by computation).  One subscriber with [mask] on interface 1; one change [c] on
   interface [ifc]; it is received iff the interface matches and mask & c <> 0; after the end the
   channel is seen closed. *)
Theorem C19_single_event : forall mask c ifc failed,
  (1 <= mask <= 127)%N -> In c [1; 2; 4; 8; 16; 32; 64]%N -> In ifc [1%N; 2%N] ->
  fst (run init [Subscribe 1 mask; WatchStart; Notify [(ifc, [c])]; Drain 0 9; EndWatch failed; Drain 0 9]) =
  [OWatch false;
   ODrain (if N.eqb ifc 1 && negb (N.eqb (N.land mask c) 0) then [c] else []) false;
   OEnd failed;
   ODrain [] true].
Proof. exact single_event. Qed.

(* ties to the source (regenerated on every run) *)
Theorem C19_bits :
  change_bits = [("LinkUp", 1%Z); ("LinkDown", 2%Z); ("LinkTesting", 4%Z); ("LinkUnknown", 8%Z);
                 ("LinkDormant", 16%Z); ("LinkNotPresent", 32%Z); ("LinkLowerLayerDown", 64%Z);
                 ("LinkAny", 127%Z)]%string
  /\ link_states = [1; 2; 4; 8; 16; 32; 64]%N /\ LinkAny = 127%N.
Proof. split; [exact change_bits_literal | split; [exact link_states_literal | exact (proj2 link_any_is_union)]]. Qed.

(* the model's events are atomic steps: Subscribe and the closing of the channels run under the watcher's write lock
   from their first statement to their return, notify under its read lock (extracted) *)
Theorem C19_events_atomic : subscribe_atomic = true /\ notify_atomic = true /\ close_atomic = true.
Proof. repeat split; reflexivity. Qed.

Theorem C19_capacity : chan_cap = 8.
Proof. exact chan_cap_8. Qed.

(* RFC 2863 ifOperStatus (0 unknown, 1 notPresent, 2 down, 3 lowerLayerDown, 4 testing, 5 dormant,
   6 up) -> Change; every other value is ignored *)
Theorem C19_operstate : forall code,
  oper_state_change code =
  match code with
  | 0 => Some 8 | 1 => Some 32 | 2 => Some 2 | 3 => Some 64 | 4 => Some 4 | 5 => Some 16 | 6 => Some 1
  | _ => None
  end%N.
Proof. exact oper_state_change_spec. Qed.

(* non-vacuity: two subscribers, a burst of ten changes; the slow one loses the 9th and 10th
   relevant change, the LinkDown-only one gets its two; the watch function then FAILS: both are
   closed at the end all the same and Watch reports the failure *)
Example C19_example :
  let h := [Subscribe 1 127; Subscribe 1 2; WatchStart;
            Notify [(1, [1; 2; 4; 8; 16; 32; 64; 1; 2; 4]); (2, [2])]%N;
            EndWatch true; Drain 0 20; Drain 1 20] in
  valid h = true /\
  fst (run init h) = [OWatch false; OEnd true; ODrain [1; 2; 4; 8; 16; 32; 64; 1]%N true; ODrain [2; 2]%N true] /\
  arrivals 0 1 127 (skipn 1 h) =
    [(1%N, 0); (2%N, 1); (4%N, 2); (8%N, 3); (16%N, 4); (32%N, 5); (64%N, 6); (1%N, 7); (2%N, 8); (4%N, 8)].
Proof. repeat split; reflexivity. Qed.

Print Assumptions C19_iff.
Print Assumptions C19_arrivals.
Print Assumptions C19_in_order.
Print Assumptions C19_relevant_iff.
Print Assumptions C19_exact_when_drained.
Print Assumptions C19_exact_upto_8.
Print Assumptions C19_bounded.
Print Assumptions C19_never_blocks.
Print Assumptions C19_send_after_close_panics.
Print Assumptions C19_close.
Print Assumptions C19_open_until_end.
Print Assumptions C19_watch_twice.
Print Assumptions C19_single_event.
Print Assumptions C19_bits.
Print Assumptions C19_capacity.
Print Assumptions C19_operstate.
Print Assumptions C19_events_atomic.
