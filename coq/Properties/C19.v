From CR Require Import Model.Watcher Proofs.Watcher.
