From CR Require Import Model.Build Proofs.Build.
