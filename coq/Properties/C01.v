(* C01 -- every RA carries exactly what the configuration calls for.
   Statements only; proofs are in Proofs/Build.v.  [build] is the model of
   Interface.RouterAdvertisement + the Apply methods (Model/Build.v); [expected_ra] is the specification
   written from the property text (Spec/BuildSpec.v).  The input is the parsed configuration (the parser is
   property C02) and any system state. *)
From CR Require Import Model.Build Spec.BuildSpec Proofs.Build gen.ExtPlugins.
(* every consumer builds the RA at the moment of use, from sources that ask the system at every call (extracted): fresh_sources in Properties/Fresh.v *)
From CR Require Properties.Fresh.
From Coq Require Import Sorted String.
Local Close Scope string_scope.
Local Open Scope Z_scope.

(* header fields copied, options = for each stanza in order exactly its options with its own values,
   nothing else; RA generation fails exactly when the first unavailable wildcard source is met.
   Equality of results: order, values, "nothing else" and the failure cases are all in it. *)
Theorem C01_exact : forall c s, build c s = expected_ra c s.
Proof. exact build_exact. Qed.

(* parsePlugins appends the plugin kinds in the documented order (extracted from the source) ... *)
Theorem C01_parser_order :
  plugin_order = ["Prefix"; "Route"; "RDNSS"; "DNSSL"; "MTU"; "LLA"; "CaptivePortal"; "PREF64"]%string.
Proof. exact plugin_order_documented. Qed.

(* ... hence, for a plugin list grouped by kind the way parsePlugins builds it, the option kinds of the RA
   are non-decreasing in the order prefixes, routes, RDNSS, DNSSL, MTU, source link-layer address, captive
   portal, PREF64 ([opt_rank] = 0..7 in that order), whatever the system state and the stanza counts *)
Theorem C01_kind_order : forall c s r,
  sorted_by (rank_in plugin_order) (if_plugins c) -> build c s = Ok r ->
  StronglySorted N.le (map opt_rank (ra_opts r)).
Proof. exact build_kind_order. Qed.

(* each Apply method constructs one kind of option (extracted from plugin.go) *)
Theorem C01_apply_options :
  apply_options =
  [("CaptivePortal", ["CaptivePortal"]); ("DNSSL", ["DNSSearchList"]); ("LLA", ["LinkLayerAddress"]);
   ("MTU", ["MTU"]); ("PREF64", ["PREF64"]); ("Prefix", ["PrefixInformation"]);
   ("RDNSS", ["RecursiveDNSServer"]); ("Route", ["RouteInformation"])]%string.
Proof. exact apply_options_documented. Qed.

Theorem C01_header : forall c s r, build c s = Ok r ->
  ra_hop r = if_hop c /\ ra_managed r = if_managed c /\ ra_other r = if_other c /\ ra_pref r = if_pref c /\
  ra_reachable r = if_reachable c /\ ra_retrans r = if_retrans c /\
  ra_lifetime r = (if s_fwd s then if_lifetime c else Z.min 0 (if_lifetime c)).
Proof. exact build_header. Qed.

(* router lifetime zeroed iff not forwarding and configured > 0; nothing else depends on forwarding *)
Theorem C01_forwarding : forall c s r, build c (with_fwd s true) = Ok r ->
  ra_lifetime r = if_lifetime c /\
  build c (with_fwd s false) = Ok (if 0 <? if_lifetime c then with_lifetime r 0 else r).
Proof. exact build_forwarding. Qed.

(* Apply is state-passing and hands back the same plugin; a build hands back the same configuration *)
Theorem C01_state_unchanged : forall p s r p' r', apply_plugin_st p s r = Ok (p', r') -> p' = p.
Proof. exact apply_plugin_st_same. Qed.
Theorem C01_config_unchanged : forall c s,
  build_st c s = match build c s with Err e => Err e | Ok r => Ok (c, r) end.
Proof. exact build_st_spec. Qed.

(* any number of rebuilds from the same configuration and system state: all RAs identical, configuration intact *)
Theorem C01_deterministic : forall n c s c' rs, rebuild n c s = Ok (c', rs) ->
  c' = c /\ List.length rs = n /\ forall r, In r rs -> build c s = Ok r.
Proof. exact rebuild_spec. Qed.
Theorem C01_repeat : forall n c s r, build c s = Ok r -> rebuild n c s = Ok (c, repeat r n).
Proof. exact rebuild_total. Qed.

(* PREF64 lifetime = 3 x MaxRtrAdvInterval rounded up to a multiple of 8 s, capped at 65528 s
   (the constants 65528 s, 8 s and 3 are extracted from NewPREF64) *)
Theorem C01_pref64_lifetime : forall max, 0 <= max ->
  new_pref64_lifetime max = Z.min (65528 * sec) (8 * sec * cdiv (3 * max) (8 * sec)).
Proof. exact new_pref64_lifetime_spec. Qed.

(* ---- non-vacuity *)
Definition ex_sys : sys :=
  mkSys (Some [mkIP false 42540766411282592856904265327123268393%N 64 false false false false false true;      (* 2001:db8::...:1 *)
               mkIP false 338288524927261089654018896841347694593%N 64 false false false false false false;    (* fe80::1 *)
               mkIP true 167772161%N 24 false false false false false false])                                 (* 10.0.0.1 *)
        (Some [mkRoute false 42540766411282592856903984951653826560%N 48;                                      (* 2001:db8::/48 *)
               mkRoute false 42540766411282592856903984951653826560%N 64])                                    (* covered *)
        (Some [2; 0; 94; 0; 0; 1]%N) (1700000010 * sec) (1700000000 * sec) true.

(* the reference.toml shape: every stanza kind, wildcards, a deprecated prefix *)
Definition ex_iface : iface :=
  mkIface 1%N false true false (198 * sec) (600 * sec) false true 0 0 64%N (1800 * sec) false Medium
    [PPrefix true 0%N 64%N true true (86400 * sec) (14400 * sec) false;
     PPrefix false 42540766411282592875350729025363378176%N 64%N true false (100 * sec) (50 * sec) true;   (* 2001:db8:0:1::/64 *)
     PRoute true 0%N 0%N High (86400 * sec) false;
     PRDNSS true (1800 * sec) [42540766411282592856903984951653826643%N];
     PDNSSL (1800 * sec) [65547%N];
     PMTU 1500; PLLA; PCaptive 131094%N;
     PPref64 false 524413980667603649783483181312245760%N 96%N (1800 * sec)].

Example C01_example :
  build ex_iface ex_sys =
  Ok (mkRA 64%N false true Medium (1800 * sec) 0 0
       [OPrefix 64%N true true (86400 * sec) (14400 * sec) 42540766411282592856903984951653826560%N;
        OPrefix 64%N true false (90 * sec) (40 * sec) 42540766411282592875350729025363378176%N;
        ORoute 48%N High (86400 * sec) 42540766411282592856903984951653826560%N;
        ORDNSS (1800 * sec) [42540766411282592856904265327123268393%N; 42540766411282592856903984951653826643%N];
        ODNSSL (1800 * sec) [65547%N];
        OMTU 1500%N; OSLLA [2; 0; 94; 0; 0; 1]%N; OCaptive 131094%N;
        OPref64 false 524413980667603649783483181312245760%N 96%N (1800 * sec)]).
Proof. vm_compute. reflexivity. Qed.

Example C01_example_sorted : sorted_by (rank_in plugin_order) (if_plugins ex_iface).
Proof.
  unfold sorted_by. vm_compute.
  repeat (constructor; [|repeat (constructor; try (intro H; discriminate H))]). constructor.
Qed.

(* no stanzas at all: header only; not forwarding: lifetime zeroed *)
Example C01_example_empty :
  build (mkIface 1%N false true false (198 * sec) (600 * sec) true false (30 * sec) ms 255%N (1800 * sec) false High [])
        (with_fwd ex_sys false)
  = Ok (mkRA 255%N true false High 0 (30 * sec) ms []).
Proof. reflexivity. Qed.

(* a wildcard stanza whose OS source fails: no RA *)
Example C01_example_fail :
  build ex_iface (mkSys None (s_routes ex_sys) None 0 0 true) = Err E_ADDRS.
Proof. reflexivity. Qed.

Example C01_pref64_examples :
  map new_pref64_lifetime [4 * sec; 5900 * ms; 600 * sec; 1800 * sec; 30000 * sec]
  = [16 * sec; 24 * sec; 1800 * sec; 5400 * sec; 65528 * sec].
Proof. reflexivity. Qed.

(* ---- composition with C02: every interface of every configuration the parser model accepts has
   its plugins grouped by kind in the extracted append order, so the hypothesis of C01_kind_order is a
   consequence of acceptance: every RA built from an accepted configuration carries its options in the
   documented order prefixes, routes, RDNSS, DNSSL, MTU, SLLA, captive portal, PREF64 *)
From CR Require Model.Config Proofs.Bridge.
Theorem C01_accepted_order : forall raw c i s r,
  Config.parse raw = Ok c -> In i (fst c) -> build i s = Ok r ->
  StronglySorted N.le (map opt_rank (ra_opts r)).
Proof.
  intros raw c i s r P Hin Hb.
  pose proof (Bridge.parse_sorted raw c P) as Hs. rewrite Forall_forall in Hs.
  exact (build_kind_order i s r (Hs i Hin) Hb).
Qed.

Print Assumptions C01_exact.
Print Assumptions C01_parser_order.
Print Assumptions C01_kind_order.
Print Assumptions C01_apply_options.
Print Assumptions C01_header.
Print Assumptions C01_forwarding.
Print Assumptions C01_state_unchanged.
Print Assumptions C01_config_unchanged.
Print Assumptions C01_deterministic.
Print Assumptions C01_repeat.
Print Assumptions C01_pref64_lifetime.
Print Assumptions C01_accepted_order.
