(* C09 -- Invalid NDP messages are ignored and can never disrupt service.
   A script is the sequence of Conn.ReadFrom outcomes the listener sees (any length); hop limits
   and message types are arbitrary N.  [listen 0 s] = what Listen does from a fresh receiveRetry. *)
From CR Require Import Model.Listener Proofs.Listener.
Local Open Scope Z_scope.

(* while the listener runs, exactly the hop-limit-255 messages are delivered, in order, and exactly
   the others are counted invalid; nothing with another hop limit is ever delivered *)
Theorem C09_filter : forall s, out (listen 0 s) = Pending ->
  delivered (listen 0 s) = valid_msgs s /\ invalid (listen 0 s) = badhop_types s.
Proof. intros s. exact (listen_filter s 0). Qed.

Theorem C09_never_delivered : forall s, exists tl, valid_msgs s = delivered (listen 0 s) ++ tl.
Proof. intros s. exact (listen_prefix s 0). Qed.

(* NO number or pattern of bad-hop-limit messages stops the listener: a valid message after them is
   delivered and the listener continues exactly as if they had not been sent (for every length of
   [bads], in particular beyond the receive retry budget of 5) *)
Theorem C09_no_disrupt : forall bads ty src rest, Forall is_badhop bads ->
  exists tl, delivered (listen 0 (bads ++ RdMsg ty 255 src :: rest)) = (ty, src) :: tl /\
             out (listen 0 (bads ++ RdMsg ty 255 src :: rest)) = out (listen 0 rest).
Proof. intros. apply no_disrupt. assumption. Qed.

Theorem C09_transparent : forall bads rest, Forall is_badhop bads -> bads <> [] ->
  delivered (listen 0 (bads ++ rest)) = delivered (listen 0 rest) /\
  out (listen 0 (bads ++ rest)) = out (listen 0 rest) /\
  waits (listen 0 (bads ++ rest)) = waits (listen 0 rest) /\
  invalid (listen 0 (bads ++ rest)) = badhop_types bads ++ invalid (listen 0 rest).
Proof. intros bads rest Hf Hn. exact (listen_badhops bads Hf Hn 0 rest). Qed.

(* on an advertising interface only a router solicitation from a specified source causes a unicast
   transmission; a message of another type is counted (received + invalid) and otherwise ignored *)
Theorem C09_only_rs : forall r d, In d (adv_unicast_targets r) -> In (tRS, d) (delivered r) /\ d <> 0%N.
Proof. exact adv_targets_only_rs. Qed.

Theorem C09_other_types_ignored : forall ty src, ty <> tRS -> ty <> tRA ->
  adv_handle (ty, src) = AIgnoreInvalid ty.
Proof.
  intros ty src H1 H2. unfold adv_handle.
  destruct (N.eqb_spec ty tRS); [contradiction|]. destruct (N.eqb_spec ty tRA); [contradiction|]. reflexivity.
Qed.

(* non-vacuity: 7 bad-hop-limit solicitations (more than the retry budget) then a valid one *)
Example C09_example :
  let s := repeat (RdMsg tRS 64 5) 7 ++ [RdMsg tRS 255 9; RdMsg tNS 255 9] in
  delivered (listen 0 s) = [(tRS, 9%N); (tNS, 9%N)] /\ out (listen 0 s) = Pending /\
  length (invalid (listen 0 s)) = 7%nat /\ adv_unicast_targets (listen 0 s) = [9%N] /\ adv_invalid (listen 0 s) = repeat tRS 7 ++ [tNS].
Proof. repeat split; reflexivity. Qed.

Print Assumptions C09_filter.
Print Assumptions C09_never_delivered.
Print Assumptions C09_no_disrupt.
Print Assumptions C09_transparent.
Print Assumptions C09_only_rs.
Print Assumptions C09_other_types_ignored.
