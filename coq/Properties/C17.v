(* C17 -- Metrics and the debug API are always answerable and mirror the current RA.
   Statements only; each is closed by [exact] of a lemma proved in Proofs/Metrics.v or Proofs/Api.v.

   Vocabulary (Model/Metrics.v, Model/Api.v): an interface at the instant of a scrape / request is an [ifin]: its
   flags, the answers of the two State reads (None = failed) and the RA as built from configuration and plugins
   (Err = a plugin could not be applied: not prepared yet, or its source failed).  [sent_ra i] is the RA the
   interface would send now (router lifetime 0 when it does not forward: C04), [iface_spec i] the samples a scrape
   must contain for it: the four interface gauges, the misconfiguration gauge iff the lifetime was overridden, and
   per option of [sent_ra i]: prefix -> autonomous / on-link / valid / preferred, route, RDNSS, DNSSL -> lifetime
   (values in seconds * 10^9). *)
From Coq Require Import Permutation.
From CR Require Import Model.Api.
(* the wiring in main() the model takes for granted (one State, one Metrics, epoch = start, Serve error fatal): Properties/Main.v *)
From CR Require Properties.Main.
From CR Require Import Proofs.Metrics.
From CR Require Import Proofs.Api.
(* the plugin lock can never hang an RA build / scrape / API request: C17_lock_discipline (extracted),
   C17_lock_no_deadlock, C17_lock_terminates, C17_lock_reentrant_deadlock are stated in Properties/C17lock.v *)
From CR Require Properties.C17lock.
Local Open Scope Z_scope.

(* A successful scrape is, up to order, exactly the specified samples: one per prefix (x4) / route / RDNSS / DNSSL
   option of the current RA, the four gauges per interface, the misconfiguration gauge. *)
Theorem C17_mirror : forall ifs l, scrape ifs = Done l -> Permutation l (flat_map iface_spec ifs).
Proof. exact scrape_mirror. Qed.

(* It succeeds exactly when everything it reports can be read; otherwise it is an error (Failed), e.g. for an
   interface whose plugins are not prepared yet. *)
Theorem C17_scrape_answerable : forall ifs, (exists l, scrape ifs = Done l) <-> forallb readable ifs = true.
Proof. exact scrape_done_iff. Qed.

(* Through the back ends: whenever the pedantic registry's Gather succeeds it is the mirror; and when everything is
   readable and no two samples share a series, both Gather and Memory return exactly the scrape. *)
Theorem C17_gather_mirror : forall ifs l,
  prom_gather (scrape ifs) = GOk l -> Permutation l (flat_map iface_spec ifs) /\ has_dup l = false.
Proof. exact gather_ok_mirror. Qed.

Theorem C17_backends_mirror_partial : forall ifs,
  forallb readable ifs = true ->
  exists l, scrape ifs = Done l /\ Permutation l (flat_map iface_spec ifs) /\
            (has_dup l = false -> prom_gather (scrape ifs) = GOk l /\ mem_series (scrape ifs) = MOk l).
Proof. exact backends_when_no_duplicates. Qed.

(* The full statement "everything readable -> Gather succeeds" does NOT hold (known finding
   duplicate_series_labels): two RDNSS stanzas with the same servers and different lifetimes. *)
Definition dup_witness : list ifin :=
  [mkIf 1 true false (Some true) (Some true)
        (Ok (mkRA 64 false false Medium (1800 * sec) 0 0 [ORDNSS (600 * sec) [1%N]; ORDNSS (1200 * sec) [1%N]]))].
Theorem C17_gather_always_refuted :
  exists ifs, forallb readable ifs = true /\ prom_gather (scrape ifs) = GErr.
Proof. exists dup_witness. split; vm_compute; reflexivity. Qed.

(* The JSON body: one entry per configured interface in order; an advertising interface carries the rendering of
   the RA it would send now, [render_spec]: the header fields (lifetime in whole seconds, timers in ms) and, per
   kind, the list of that kind's options with their values. *)
Theorem C17_api_mirror : forall ifs l, api ifs = ABody l -> l = map iface_body ifs.
Proof. exact api_mirror. Qed.

Theorem C17_api_render : forall r j, api_render r = Rendered j -> j = render_spec r.
Proof. exact api_render_spec. Qed.

(* "covers every option kind": every option of the RA has an entry with its values (for the scalar JSON fields
   MTU / source link-layer address / captive portal: the last option of that kind). *)
Theorem C17_api_covers : forall r j l1 o l2,
  api_render r = Rendered j -> ra_opts r = l1 ++ o :: l2 -> no_later_same_kind o l2 = true ->
  covered o (j_opts j).
Proof. exact api_covers. Qed.

(* Every ndp option type constructed by plugin.go's Apply methods has a case in crhttp.packOptions -- computed on
   the tables regenerated from the source at every run (an option kind added to plugin.go only breaks this). *)
Theorem C17_option_kinds_covered : incl ExtMetrics.plugin_option_kinds ExtMetrics.packOptions_cases.
Proof. exact kinds_covered. Qed.

(* Never a panic: for every list of interfaces, every State failure and every RA made of options CoreRAD can
   produce, the scrape (and both back ends) and the API return a value or an error. *)
Theorem C17_total : forall ifs,
  (forall i r, In i ifs -> i_build i = Ok r -> Forall (fun o => producible o = true) (ra_opts r)) ->
  scrape ifs <> Panic /\ prom_gather (scrape ifs) <> GPanic /\ mem_series (scrape ifs) <> MPanic /\
  api ifs <> APanic.
Proof.
  intros ifs H. split; [apply scrape_no_panic|]. destruct (backends_no_panic ifs) as [A B].
  repeat split; try assumption. apply api_no_panic. exact H.
Qed.

(* ... and Panic is a real outcome of the model: an option kind without a case panics the API (not vacuous). *)
Example C17_panic_reachable :
  api [mkIf 1 true false (Some true) (Some true) (Ok (mkRA 64 false false Medium 0 0 0 [OOther 99]))] = APanic.
Proof. vm_compute. reflexivity. Qed.

(* /metrics is served iff debug.prometheus, /debug/pprof/ iff debug.pprof; the banner and the interfaces API
   always; nothing else. *)
Theorem C17_gating : forall prom pprof,
  serves RMetrics prom pprof = prom /\ serves RPprof prom pprof = pprof /\
  serves RRoot prom pprof = true /\ serves RInterfaces prom pprof = true /\ serves RUnknown prom pprof = false.
Proof. exact gating. Qed.

(* non-vacuity: a forwarding and a non-forwarding interface, every option kind *)
Definition example_ra : ra :=
  mkRA 64 true false High (1800 * sec) (30 * sec) (1500 * ms)
       [OPrefix 64 true false (86400 * sec) (14400 * sec) 42540766411282592856903984951653826560%N;
        ORoute 48 Low (600 * sec) 42540766411282592856903984951653826560%N;
        ORDNSS (1200 * sec) [1%N; 2%N]; ODNSSL (1200 * sec) [7%N]; OMTU 1500; OSLLA [222; 173; 190; 239; 222; 173]%N;
        OCaptive 5; OPref64 false 524413980667603649783483181312245760%N 96 (1800 * sec)].
Definition example_ifs : list ifin :=
  [mkIf 1 true false (Some false) (Some true) (Ok example_ra);
   mkIf 2 true false (Some true) (Some false) (Ok example_ra);
   mkIf 3 false true (Some true) (Some false) (Err 0)].

Example C17_example_readable : forallb readable example_ifs = true.
Proof. reflexivity. Qed.
Example C17_example_scrape :
  exists l, scrape example_ifs = Done l /\ length l = 27%nat /\ has_dup l = false /\
            In (metric_name MMisconf, [lbl_if 2; ("details"%string, LStr "interface_not_forwarding")], sec) l /\
            In (metric_name MPfxValid, [lbl_if 1; ("prefix"%string, LCidr 42540766411282592856903984951653826560%N 64)], 86400 * sec) l.
Proof. eexists. split; [vm_compute; reflexivity|]. split; [reflexivity|]. split; [vm_compute; reflexivity|]. split; vm_compute; tauto. Qed.
Example C17_example_api :
  exists a b c, api example_ifs = ABody [a; b; c] /\
    option_map j_lifetime_s (ji_ra a) = Some 1800 /\ option_map j_lifetime_s (ji_ra b) = Some 0 /\ ji_ra c = None /\
    option_map (fun j => jo_mtu (j_opts j)) (ji_ra a) = Some 1500.
Proof. do 3 eexists. split; [vm_compute; reflexivity|]. repeat split. Qed.
Example C17_example_producible : Forall (fun o => producible o = true) (ra_opts example_ra).
Proof. repeat constructor. Qed.

Print Assumptions C17_mirror.
Print Assumptions C17_scrape_answerable.
Print Assumptions C17_gather_mirror.
Print Assumptions C17_backends_mirror_partial.
Print Assumptions C17_gather_always_refuted.
Print Assumptions C17_api_mirror.
Print Assumptions C17_api_render.
Print Assumptions C17_api_covers.
Print Assumptions C17_option_kinds_covered.
Print Assumptions C17_total.
Print Assumptions C17_gating.
