(* placeholder, replaced below *)
From CR Require Import Model.Api.
Example C17_placeholder : serves RRoot true true = true. Proof. reflexivity. Qed.
Print Assumptions C17_placeholder.
