(* The wiring in cmd/corerad/main.go that the models take for granted: ONE system state read by the advertisers,
   the metrics collector and the debug API; ONE metrics value; the epoch of deprecated lifetimes is the start of the
   daemon; an error of Serve ends the process with a non-zero status; the signals of corerad.Signals() reach Serve
   through a buffered channel.  Read off the source on every run (gen/ExtMain.v); in the cone of C04, C16, C17
   and C20.  The end-to-end driver (TestVerifE2E) exercises the same wiring from outside.  Statements only. *)
From Coq Require Import Bool.
From CR Require Import gen.ExtMain.

Theorem main_wiring :
  main_one_state = true /\ main_one_metrics = true /\ main_epoch_is_start = true /\
  main_serve_error_fatal = true /\ main_signals = true.
Proof. repeat split; reflexivity. Qed.

(* what an observer (scrape, API request) is shown of a sysctl: the live value when it shares the advertisers'
   State, whatever an intermediate view retained otherwise *)
Definition observed (shared : bool) (live retained : bool) : bool := if shared then live else retained.

Theorem C04_observers_read_live_state : forall live retained, observed main_one_state live retained = live.
Proof. reflexivity. Qed.

Theorem C04_separate_view_refuted : exists live retained, observed false live retained <> live.
Proof. exists false, true. discriminate. Qed.

Print Assumptions main_wiring.
Print Assumptions C04_observers_read_live_state.
Print Assumptions C04_separate_view_refuted.
