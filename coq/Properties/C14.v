(* C14 -- Wildcard RDNSS :: picks the best eligible interface address, deterministically.
   Statements only; each is closed by a lemma of Proofs/WildcardRDNSS.v.
   [rdnss_current (Some l)] is RDNSS.current on the address list l, [better] is betterRDNSS,
   [rdnss_Apply] is RDNSS.Apply, [parse_rdnss] the server-list part of parseRDNSS. *)
From CR Require Import Model.Wildcard.
(* Prepare binds Addrs to a function that asks rtnetlink at every call; NewAddresser is the rtnetlink addresser (extracted): fresh_sources in Properties/Fresh.v *)
From CR Require Properties.Fresh.
From CR Require Import Proofs.WildcardSort.
From CR Require Import Proofs.Wildcard.
From CR Require Import Proofs.WildcardRDNSS.
From CR Require Corr.C14.
From CR Require Import Proofs.WildcardCorr14.
From Coq Require Import Permutation Sorted Lia.
Local Open Scope N_scope.

(* an address the property calls eligible: IPv6, not deprecated, temporary or tentative *)
Definition eligible (a : sysip) : Prop :=
  ip_v4 a = false /\ ip_deprecated a = false /\ ip_temporary a = false /\ ip_tentative a = false.

Lemma eligible_ok a : eligible a <-> rdnss_ok a = true.
Proof. symmetry. apply rdnss_ok_iff. Qed.

(* ---- the documented ranking: stable-flagged or EUI-64 first, then unique-local, global unicast,
   link-local, anything else; ties to the numerically lowest address *)
Theorem C14_rank_meaning : forall x y,
  rank_lt (rank x) (rank y) <->
  (is_stable x = true /\ is_stable y = false) \/
  (is_stable x = is_stable y /\
   (class (ip_addr x) < class (ip_addr y) \/
    (class (ip_addr x) = class (ip_addr y) /\ ip_addr x < ip_addr y))).
Proof.
  intros x y. unfold rank, rank_lt. destruct (is_stable x), (is_stable y).
  - split.
    + intros [H|[_ H]]; [lia|]. right. split; [reflexivity | exact H].
    + intros [[_ H]|[_ H]]; [discriminate|]. right. split; [reflexivity | exact H].
  - split; [intros _; left; split; reflexivity | intros _; left; lia].
  - split; [intros [H|[H _]]; lia | intros [[H _]|[H _]]; discriminate].
  - split.
    + intros [H|[_ H]]; [lia|]. right. split; [reflexivity | exact H].
    + intros [[H _]|[_ H]]; [discriminate|]. right. split; [reflexivity | exact H].
Qed.

Theorem C14_stable_meaning : forall a,
  is_stable a = true <->
  ip_forever a = true \/ ip_mngtmp a = true \/ ip_stablepriv a = true \/ is_eui64 (ip_addr a) = true.
Proof. intros a. unfold is_stable. cbn [orb]. rewrite !orb_true_iff. tauto. Qed.

Theorem C14_class_meaning : forall a,
  (class a = 0 <-> go_private a = true) /\
  (class a = 1 <-> go_private a = false /\ go_global_unicast a = true) /\
  (class a = 2 <-> go_private a = false /\ go_global_unicast a = false /\ go_link_local a = true) /\
  (class a = 3 <-> go_private a = false /\ go_global_unicast a = false /\ go_link_local a = false).
Proof.
  intros a. unfold class.
  destruct (go_private a), (go_global_unicast a), (go_link_local a);
    repeat split; try reflexivity; try discriminate;
    try (intros [? ?]; discriminate); try (intros [? [? ?]]; discriminate).
Qed.

(* the ranking is a strict total order -- proved, not assumed *)
Theorem C14_rank_order :
  (forall x, ~ rank_lt x x) /\
  (forall x y z, rank_lt x y -> rank_lt y z -> rank_lt x z) /\
  (forall x y, rank_lt x y \/ x = y \/ rank_lt y x).
Proof. split; [exact rank_lt_irrefl | split; [exact rank_lt_trans | exact rank_lt_total]]. Qed.

(* entries of equal rank carry the same address *)
Theorem C14_rank_addr : forall e e', rank e = rank e' -> ip_addr e = ip_addr e'.
Proof. exact rank_eq_addr. Qed.

(* betterRDNSS returns the rank-smaller entry (the incumbent unless the newcomer is strictly better) *)
Theorem C14_better : forall best cur,
  (rank_lt (rank cur) (rank best) -> better (Some best) cur = cur) /\
  (~ rank_lt (rank cur) (rank best) -> better (Some best) cur = best).
Proof.
  intros b c. rewrite better_spec. destruct (rank_ltb (rank c) (rank b)) eqn:E.
  - split; [reflexivity|]. intros H. exfalso. apply H, rank_ltb_lt, E.
  - split; [|reflexivity]. intros H. apply rank_ltb_lt in H. congruence.
Qed.

(* the wildcard server is the address of an eligible listed entry of minimal rank -- and conversely *)
Theorem C14_best : forall l s,
  rdnss_current (Some l) = Ok s <->
  exists r, ip_addr r = s /\ In r l /\ eligible r /\
            forall b, In b l -> eligible b -> rank_le (rank r) (rank b).
Proof.
  intros l s. rewrite rdnss_current_ok.
  split; intros [r [Hs [Hin [Hok Hall]]]]; exists r; (split; [exact Hs|split; [exact Hin|split]]).
  - apply eligible_ok, Hok.
  - intros b Hb He. apply Hall; [exact Hb | apply eligible_ok, He].
  - apply eligible_ok, Hok.
  - intros b Hb He. apply Hall; [exact Hb | apply eligible_ok, He].
Qed.

(* independent of the order and multiplicity in which addresses are listed *)
Theorem C14_set : forall l l', (forall a, In a l <-> In a l') -> rdnss_current (Some l) = rdnss_current (Some l').
Proof. exact rdnss_current_set_ext. Qed.

Theorem C14_perm : forall l l', Permutation l l' -> rdnss_current (Some l) = rdnss_current (Some l').
Proof.
  intros l l' Hp. apply rdnss_current_set_ext. intros a.
  split; apply Permutation_in; [exact Hp | apply Permutation_sym, Hp].
Qed.

Theorem C14_dup : forall a l, In a l -> rdnss_current (Some (a :: l)) = rdnss_current (Some l).
Proof.
  intros a l Hin. apply rdnss_current_set_ext. intros b. cbn [In]. split; [intros [<-|H]; assumption | right; assumption].
Qed.

(* no eligible address (or no listing at all) fails RA generation instead of advertising an unusable server *)
Theorem C14_none : forall lifetime servers l,
  is_ok (rdnss_Apply true lifetime servers (Some l)) = false <-> (forall a, In a l -> ~ eligible a).
Proof.
  intros lt servers l.
  assert (E : is_ok (rdnss_Apply true lt servers (Some l)) = is_ok (rdnss_current (Some l))).
  { unfold rdnss_Apply. destruct (rdnss_current (Some l)); reflexivity. }
  rewrite E, rdnss_current_err. split; intros H a Ha.
  - rewrite eligible_ok, (H a Ha). discriminate.
  - specialize (H a Ha). rewrite eligible_ok in H. destruct (rdnss_ok a); [exfalso; apply H; reflexivity | reflexivity].
Qed.

Theorem C14_error : forall lifetime servers,
  is_ok (rdnss_Apply true lifetime servers None) = false.
Proof. reflexivity. Qed.

(* the option: the wildcard server first, then exactly the static servers, with the stanza's lifetime *)
Theorem C14_static : forall lifetime servers addrs opts,
  rdnss_Apply true lifetime servers addrs = Ok opts <->
  exists s, rdnss_current addrs = Ok s /\ opts = [ORDNSS lifetime (s :: servers)].
Proof. exact rdnss_Apply_auto. Qed.

(* ... and the static servers an accepted configuration yields are strictly ascending (hence without
   duplicates), exactly the non-:: servers written; the wildcard is on iff :: was written or no server was *)
Theorem C14_static_sorted : forall raw auto servers,
  parse_rdnss raw = Ok (auto, servers) ->
  StronglySorted N.lt servers
  /\ (forall x, In x servers <-> In (RS6 x) raw /\ x <> 0)
  /\ (auto = true <-> raw = [] \/ In (RS6 0) raw)
  /\ Forall raw_v6 raw.
Proof. exact parse_rdnss_spec. Qed.

(* a server list is accepted exactly when every entry is an IPv6 address without a zone ([raw_v6]: an
   [RS6] atom) and no address (:: included) is written twice *)
Theorem C14_static_accepts : forall raw,
  is_ok (parse_rdnss raw) = true <-> Forall raw_v6 raw /\ NoDup (raw_addrs raw).
Proof. exact parse_rdnss_accepts. Qed.

(* Go's map iteration order does not matter for the sorted server list *)
Theorem C14_static_map_order : forall raw auto set set',
  parse_servers false [] raw = Ok (auto, set) -> Permutation set set' ->
  isort (fun x => x) set' = isort (fun x => x) set.
Proof. exact parse_rdnss_map_order. Qed.

(* the specification checker that is evaluated on the implementation's observed output (Corr.C14.holds)
   accepts the model's output on every input whose addresses are 128-bit numbers *)
Theorem C14_checker_accepts_model_plugin : forall auto servers lifetime addrs k,
  (forall l, addrs = Some l -> Forall (fun e => ip_addr e < 2 ^ 128) l) ->
  Corr.C14.holds (Corr.C14.mkCase None (Ok (auto, servers)) lifetime addrs
                    (rdnss_Apply auto lifetime servers addrs)
                    (repeat (rdnss_Apply auto lifetime servers addrs) k)) = true.
Proof. exact Proofs.WildcardCorr14.C14_checker_accepts_model_plugin. Qed.

(* the same plugin value applied 1 + k times (every RA of the advertiser's life): the model is a function
   of the parsed stanza and the address list, so every application yields the same option *)
Theorem C14_checker_accepts_model_config : forall raw lifetime addrs k,
  (forall l, addrs = Some l -> Forall (fun e => ip_addr e < 2 ^ 128) l) ->
  let obs := match parse_rdnss raw with
             | Ok (auto, servers) => rdnss_Apply auto lifetime servers addrs
             | Err e => Err e
             end in
  Corr.C14.holds (Corr.C14.mkCase (Some raw) (parse_rdnss raw) lifetime addrs obs (repeat obs k)) = true.
Proof. exact Proofs.WildcardCorr14.C14_checker_accepts_model_config. Qed.

(* non-vacuity *)
Definition ex_addrs : list sysip :=
  [ mkIP false 0x20010db8000000000000000000000001 64 false false false false false false;   (* GUA, not stable *)
    mkIP false 0xfe800000000000000000000000000001 64 false false true false false false;    (* link-local, stable privacy *)
    mkIP false 0xfd000000000000000000000000000002 64 false false false false false true;    (* ULA, valid forever *)
    mkIP false 0xfd000000000000000000000000000001 64 false false false false false false;   (* ULA, not stable *)
    mkIP false 0xfd000000000000000000000000000000 64 true false false false false true;     (* ULA, forever, deprecated *)
    mkIP false 0x20010db800000000021122fffe334455 64 false false false false false false;   (* GUA, EUI-64 *)
    mkIP true 3221225985 24 false false false false false true ].                           (* 192.0.2.1/24 *)

Example C14_example :
  rdnss_current (Some ex_addrs) = Ok 0xfd000000000000000000000000000002
  /\ rdnss_current (Some (rev ex_addrs)) = Ok 0xfd000000000000000000000000000002
  /\ rdnss_Apply true 3600000000000%Z [0x20010db8000000000000000000000053] (Some ex_addrs)
     = Ok [ORDNSS 3600000000000%Z [0xfd000000000000000000000000000002; 0x20010db8000000000000000000000053]]
  /\ is_ok (rdnss_Apply true 0%Z [] (Some [mkIP true 3221225985 24 false false false false false true])) = false
  /\ parse_rdnss [RS6 0x20010db8000000000000000000000002; RS6 0; RS6 0x20010db8000000000000000000000001]
     = Ok (true, [0x20010db8000000000000000000000001; 0x20010db8000000000000000000000002])
  /\ (exists a, In a ex_addrs /\ eligible a).
Proof.
  repeat split; try (vm_compute; reflexivity).
  eexists. split; [left; reflexivity|]. repeat split.
Qed.

(* the checker is not vacuous about repeated applications: a second RA in which the wildcard server is
   duplicated and the last static server lost (in-place insertion into a shared slice) is rejected *)
Example C14_repeat_rejected :
  let raw := [RS6 0; RS6 0x20010db8000000000000000000000002; RS6 0xfe800000000000000000000000000001] in
  let first := rdnss_Apply true 3600000000000%Z
                 [0x20010db8000000000000000000000002; 0xfe800000000000000000000000000001] (Some ex_addrs) in
  Corr.C14.holds (Corr.C14.mkCase (Some raw) (parse_rdnss raw) 3600000000000%Z (Some ex_addrs) first [first]) = true
  /\ Corr.C14.holds (Corr.C14.mkCase (Some raw) (parse_rdnss raw) 3600000000000%Z (Some ex_addrs) first
       [Ok [ORDNSS 3600000000000%Z [0xfd000000000000000000000000000002; 0xfd000000000000000000000000000002;
                                     0x20010db8000000000000000000000002]]]) = false.
Proof. split; vm_compute; reflexivity. Qed.

Print Assumptions C14_rank_meaning.
Print Assumptions C14_stable_meaning.
Print Assumptions C14_class_meaning.
Print Assumptions C14_rank_order.
Print Assumptions C14_rank_addr.
Print Assumptions C14_better.
Print Assumptions C14_best.
Print Assumptions C14_set.
Print Assumptions C14_perm.
Print Assumptions C14_dup.
Print Assumptions C14_none.
Print Assumptions C14_error.
Print Assumptions C14_static.
Print Assumptions C14_static_sorted.
Print Assumptions C14_static_accepts.
Print Assumptions C14_static_map_order.
Print Assumptions C14_checker_accepts_model_plugin.
Print Assumptions C14_checker_accepts_model_config.
Print Assumptions C14_example.
Print Assumptions C14_repeat_rejected.
