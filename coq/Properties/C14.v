From CR Require Import Model.Wildcard.
