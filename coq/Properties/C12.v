(* C12 -- Other routers' RAs: exactly the RFC 4861 6.2.7 inconsistencies are reported.
   Statements only; each is closed by a lemma of Proofs/Verify.v / Proofs/VerifySpec.v.
   [verify ours theirs] is the model of verifyRAs (Model/Verify.v); [count p l] the number of
   occurrences of the label set p = (field, details) in l.  Durations are Z nanoseconds; "differ"
   for durations always means: differ in what the wire carries (whole seconds for lifetimes,
   whole milliseconds for the reachable time / retransmit timer, truncated). *)
From Coq Require Import Lia.
From CR Require Import Model.Verify.
(* handle() verifies against an RA built for that reception (extracted): fresh_sources in Properties/Fresh.v *)
From CR Require Properties.Fresh.
From CR Require Import Model.VerifySpec.
From CR Require Import Proofs.Verify.
From CR Require Import Proofs.VerifySpec.
Local Open Scope Z_scope.

(* ---- the characterisation, for every label set at once: the multiset of reports is the
   declarative one of Model/VerifySpec.v (expected_count), whatever the two RAs are *)
Theorem C12_characterisation : forall ours theirs p,
  count p (verify ours theirs) = expected_count ours theirs p.
Proof. exact verify_count. Qed.

(* ---- ... spelled out field by field, with the documented literals *)
Theorem C12_hop_limit : forall a b,
  count (FHopLimit, None) (verify a b) = if (ra_hop a =? ra_hop b)%N then 0%nat else 1%nat.
Proof. intros. rewrite verify_count. cbn. destruct (ra_hop a =? ra_hop b)%N; reflexivity. Qed.

Theorem C12_managed : forall a b,
  count (FManaged, None) (verify a b) = if Bool.eqb (ra_managed a) (ra_managed b) then 0%nat else 1%nat.
Proof. intros. rewrite verify_count. cbn. destruct (ra_managed a), (ra_managed b); reflexivity. Qed.

Theorem C12_other : forall a b,
  count (FOther, None) (verify a b) = if Bool.eqb (ra_other a) (ra_other b) then 0%nat else 1%nat.
Proof. intros. rewrite verify_count. cbn. destruct (ra_other a), (ra_other b); reflexivity. Qed.

(* reachable time / retransmit timer: only when both are non-zero (in whole milliseconds) and different *)
Theorem C12_reachable : forall a b,
  let ua := Z.quot (ra_reachable a) 1000000 in let ub := Z.quot (ra_reachable b) 1000000 in
  count (FReachable, None) (verify a b) =
  if negb (ua =? 0) && negb (ub =? 0) && negb (ua =? ub) then 1%nat else 0%nat.
Proof. intros. rewrite verify_count. reflexivity. Qed.

Theorem C12_retransmit : forall a b,
  let ua := Z.quot (ra_retrans a) 1000000 in let ub := Z.quot (ra_retrans b) 1000000 in
  count (FRetrans, None) (verify a b) =
  if negb (ua =? 0) && negb (ub =? 0) && negb (ua =? ub) then 1%nat else 0%nat.
Proof. intros. rewrite verify_count. reflexivity. Qed.

(* MTU / captive portal: iff both carry such an option and the first ones differ in value *)
Theorem C12_mtu : forall a b,
  count (FMTU, None) (verify a b) =
  match hd_error (mtu_opts a), hd_error (mtu_opts b) with
  | Some x, Some y => if (x =? y)%N then 0%nat else 1%nat
  | _, _ => 0%nat
  end.
Proof.
  intros. rewrite verify_count. cbn. unfold firsts_differ.
  destruct (hd_error (mtu_opts a)), (hd_error (mtu_opts b)); try reflexivity. destruct (n =? n0)%N; reflexivity.
Qed.

Theorem C12_captive_portal : forall a b,
  count (FCaptive, None) (verify a b) =
  match hd_error (captive_opts a), hd_error (captive_opts b) with
  | Some x, Some y => if (x =? y)%N then 0%nat else 1%nat
  | _, _ => 0%nat
  end.
Proof.
  intros. rewrite verify_count. cbn. unfold firsts_differ.
  destruct (hd_error (captive_opts a)), (hd_error (captive_opts b)); try reflexivity. destruct (n =? n0)%N; reflexivity.
Qed.

(* one prefix_information_preferred_lifetime (resp. _valid_lifetime) report, labelled with the
   (prefix, length) pair, per pair of prefix options (one of ours, one of theirs) for that
   (prefix, length) whose preferred (resp. valid) lifetimes differ in whole seconds *)
Theorem C12_prefix_preferred : forall a b k,
  count (FPrefixPreferred, Some k) (verify a b) =
  length (filter (fun xy : ((N * N) * (dur * dur)) * ((N * N) * (dur * dur)) =>
                    let (x, y) := xy in
                    key_eqb (fst x) k && key_eqb (fst y) k &&
                    negb (Z.quot (fst (snd x)) 1000000000 =? Z.quot (fst (snd y)) 1000000000))
                 (list_prod (prefix_opts a) (prefix_opts b))).
Proof.
  intros. rewrite verify_count. cbn [expected_count]. unfold count_pairs. f_equal.
  apply filter_ext. intros [x y]. reflexivity.
Qed.

Theorem C12_prefix_valid : forall a b k,
  count (FPrefixValid, Some k) (verify a b) =
  length (filter (fun xy : ((N * N) * (dur * dur)) * ((N * N) * (dur * dur)) =>
                    let (x, y) := xy in
                    key_eqb (fst x) k && key_eqb (fst y) k &&
                    negb (Z.quot (snd (snd x)) 1000000000 =? Z.quot (snd (snd y)) 1000000000))
                 (list_prod (prefix_opts a) (prefix_opts b))).
Proof.
  intros. rewrite verify_count. cbn [expected_count]. unfold count_pairs. f_equal.
  apply filter_ext. intros [x y]. reflexivity.
Qed.

(* one route_information_lifetime report per pair of route options for the same route with
   equal preference and different lifetime *)
Theorem C12_route : forall a b k,
  count (FRouteLifetime, Some k) (verify a b) =
  length (filter (fun xy : ((N * N) * (pref * dur)) * ((N * N) * (pref * dur)) =>
                    let (x, y) := xy in
                    key_eqb (fst x) k && key_eqb (fst y) k && pref_eqb (fst (snd x)) (fst (snd y)) &&
                    negb (Z.quot (snd (snd x)) 1000000000 =? Z.quot (snd (snd y)) 1000000000))
                 (list_prod (route_opts a) (route_opts b))).
Proof.
  intros. rewrite verify_count. cbn [expected_count]. unfold count_pairs. f_equal.
  apply filter_ext. intros [x y]. reflexivity.
Qed.

(* RDNSS (DNSSL alike): nothing if either side has none; one rdnss_count if the numbers of
   options differ; otherwise, index by index, one rdnss_lifetime and / or one rdnss_servers *)
Theorem C12_rdnss : forall a b,
  let A := rdnss_opts a in let B := rdnss_opts b in
  (A = [] \/ B = [] ->
     count (FRdnssCount, None) (verify a b) = 0%nat /\ count (FRdnssLifetime, None) (verify a b) = 0%nat /\
     count (FRdnssServers, None) (verify a b) = 0%nat) /\
  (A <> [] -> B <> [] -> length A <> length B ->
     count (FRdnssCount, None) (verify a b) = 1%nat /\ count (FRdnssLifetime, None) (verify a b) = 0%nat /\
     count (FRdnssServers, None) (verify a b) = 0%nat) /\
  (A <> [] -> length A = length B ->
     count (FRdnssCount, None) (verify a b) = 0%nat /\
     count (FRdnssLifetime, None) (verify a b) =
       length (filter (fun xy : (dur * list N) * (dur * list N) =>
                 negb (Z.quot (fst (fst xy)) 1000000000 =? Z.quot (fst (snd xy)) 1000000000)) (combine A B)) /\
     count (FRdnssServers, None) (verify a b) =
       length (filter (fun xy : (dur * list N) * (dur * list N) =>
                 negb (list_eqb N.eqb (snd (fst xy)) (snd (snd xy)))) (combine A B))).
Proof.
  intros a b A B. rewrite !verify_count. cbn [expected_count]. fold A B.
  unfold dns_count_differs, dns_index_count, dns_comparable. repeat split.
  - destruct H as [-> | ->]; cbn; [reflexivity | now rewrite andb_false_r].
  - destruct H as [-> | ->]; [reflexivity|]. destruct A; reflexivity.
  - destruct H as [-> | ->]; [reflexivity|]. destruct A; reflexivity.
  - destruct A; [contradiction|]. destruct B; [contradiction|]. apply Nat.eqb_neq in H1. now rewrite H1.
  - destruct A; [contradiction|]. destruct B; [contradiction|]. apply Nat.eqb_neq in H1. now rewrite H1.
  - destruct A; [contradiction|]. destruct B; [contradiction|]. apply Nat.eqb_neq in H1. now rewrite H1.
  - rewrite H0, Nat.eqb_refl. cbn. now rewrite andb_false_r.
  - destruct A; [contradiction|]. destruct B; [discriminate|]. rewrite H0, Nat.eqb_refl. reflexivity.
  - destruct A; [contradiction|]. destruct B; [discriminate|]. rewrite H0, Nat.eqb_refl. reflexivity.
Qed.

Theorem C12_dnssl : forall a b,
  let A := dnssl_opts a in let B := dnssl_opts b in
  (A = [] \/ B = [] ->
     count (FDnsslCount, None) (verify a b) = 0%nat /\ count (FDnsslLifetime, None) (verify a b) = 0%nat /\
     count (FDnsslNames, None) (verify a b) = 0%nat) /\
  (A <> [] -> B <> [] -> length A <> length B ->
     count (FDnsslCount, None) (verify a b) = 1%nat /\ count (FDnsslLifetime, None) (verify a b) = 0%nat /\
     count (FDnsslNames, None) (verify a b) = 0%nat) /\
  (A <> [] -> length A = length B ->
     count (FDnsslCount, None) (verify a b) = 0%nat /\
     count (FDnsslLifetime, None) (verify a b) =
       length (filter (fun xy : (dur * list N) * (dur * list N) =>
                 negb (Z.quot (fst (fst xy)) 1000000000 =? Z.quot (fst (snd xy)) 1000000000)) (combine A B)) /\
     count (FDnsslNames, None) (verify a b) =
       length (filter (fun xy : (dur * list N) * (dur * list N) =>
                 negb (list_eqb N.eqb (snd (fst xy)) (snd (snd xy)))) (combine A B))).
Proof.
  intros a b A B. rewrite !verify_count. cbn [expected_count]. fold A B.
  unfold dns_count_differs, dns_index_count, dns_comparable. repeat split.
  - destruct H as [-> | ->]; cbn; [reflexivity | now rewrite andb_false_r].
  - destruct H as [-> | ->]; [reflexivity|]. destruct A; reflexivity.
  - destruct H as [-> | ->]; [reflexivity|]. destruct A; reflexivity.
  - destruct A; [contradiction|]. destruct B; [contradiction|]. apply Nat.eqb_neq in H1. now rewrite H1.
  - destruct A; [contradiction|]. destruct B; [contradiction|]. apply Nat.eqb_neq in H1. now rewrite H1.
  - destruct A; [contradiction|]. destruct B; [contradiction|]. apply Nat.eqb_neq in H1. now rewrite H1.
  - rewrite H0, Nat.eqb_refl. cbn. now rewrite andb_false_r.
  - destruct A; [contradiction|]. destruct B; [discriminate|]. rewrite H0, Nat.eqb_refl. reflexivity.
  - destruct A; [contradiction|]. destruct B; [discriminate|]. rewrite H0, Nat.eqb_refl. reflexivity.
Qed.

(* ---- nothing else: every reported problem carries one of the label sets above, for a reason *)
Theorem C12_nothing_else : forall a b p,
  In p (verify a b) -> In p (candidates a b) /\ (1 <= expected_count a b p)%nat.
Proof. exact nothing_else. Qed.

Theorem C12_no_other_label : forall a b d k,
  count (FUnknown, d) (verify a b) = 0%nat /\
  count (FHopLimit, Some k) (verify a b) = 0%nat /\ count (FManaged, Some k) (verify a b) = 0%nat /\
  count (FOther, Some k) (verify a b) = 0%nat /\ count (FReachable, Some k) (verify a b) = 0%nat /\
  count (FRetrans, Some k) (verify a b) = 0%nat /\ count (FMTU, Some k) (verify a b) = 0%nat /\
  count (FCaptive, Some k) (verify a b) = 0%nat /\
  count (FPrefixPreferred, None) (verify a b) = 0%nat /\ count (FPrefixValid, None) (verify a b) = 0%nat /\
  count (FRouteLifetime, None) (verify a b) = 0%nat.
Proof. intros. rewrite !verify_count. destruct d; cbn; repeat split; reflexivity. Qed.

(* ---- a field / option kind absent on either side contributes nothing *)
Theorem C12_absent_mtu : forall a b d,
  mtu_opts a = [] \/ mtu_opts b = [] -> count (FMTU, d) (verify a b) = 0%nat.
Proof. exact absent_mtu. Qed.
Theorem C12_absent_captive_portal : forall a b d,
  captive_opts a = [] \/ captive_opts b = [] -> count (FCaptive, d) (verify a b) = 0%nat.
Proof. exact absent_captive. Qed.
Theorem C12_absent_prefixes : forall a b d, prefix_opts a = [] \/ prefix_opts b = [] ->
  count (FPrefixPreferred, d) (verify a b) = 0%nat /\ count (FPrefixValid, d) (verify a b) = 0%nat.
Proof. exact absent_prefixes. Qed.
Theorem C12_absent_prefix : forall a b k,
  ~ In k (map fst (prefix_opts a)) \/ ~ In k (map fst (prefix_opts b)) ->
  count (FPrefixPreferred, Some k) (verify a b) = 0%nat /\ count (FPrefixValid, Some k) (verify a b) = 0%nat.
Proof. exact absent_prefix_key. Qed.
Theorem C12_absent_routes : forall a b d, route_opts a = [] \/ route_opts b = [] ->
  count (FRouteLifetime, d) (verify a b) = 0%nat.
Proof. exact absent_routes. Qed.
Theorem C12_absent_route : forall a b k,
  ~ In k (map fst (route_opts a)) \/ ~ In k (map fst (route_opts b)) ->
  count (FRouteLifetime, Some k) (verify a b) = 0%nat.
Proof. exact absent_route_key. Qed.
Theorem C12_absent_rdnss : forall a b d, rdnss_opts a = [] \/ rdnss_opts b = [] ->
  count (FRdnssCount, d) (verify a b) = 0%nat /\ count (FRdnssLifetime, d) (verify a b) = 0%nat /\
  count (FRdnssServers, d) (verify a b) = 0%nat.
Proof. exact absent_rdnss. Qed.
Theorem C12_absent_dnssl : forall a b d, dnssl_opts a = [] \/ dnssl_opts b = [] ->
  count (FDnsslCount, d) (verify a b) = 0%nat /\ count (FDnsslLifetime, d) (verify a b) = 0%nat /\
  count (FDnsslNames, d) (verify a b) = 0%nat.
Proof. exact absent_dnssl. Qed.
(* a timer of less than a millisecond is 0 on the wire = unspecified *)
Theorem C12_absent_timers : forall a b d,
  (Z.quot (ra_reachable a) 1000000 = 0 \/ Z.quot (ra_reachable b) 1000000 = 0 ->
     count (FReachable, d) (verify a b) = 0%nat) /\
  (Z.quot (ra_retrans a) 1000000 = 0 \/ Z.quot (ra_retrans b) 1000000 = 0 ->
     count (FRetrans, d) (verify a b) = 0%nat).
Proof. exact absent_timers. Qed.

(* ---- Advertiser.handle: every problem is counted once under {interface, details, field} and
   logged once (after one heading line); the hook fires (once) iff there is at least one; the RA
   branch never fails when the own RA can be built, and reports nothing when it cannot *)
Theorem C12_hook : forall ours theirs,
  (h_hook (handle_ra (Ok ours) theirs) = 1%N <-> verify ours theirs <> []) /\
  (h_hook (handle_ra (Ok ours) theirs) = 0%N <-> verify ours theirs = []).
Proof.
  intros. split; [apply handle_hook_iff|]. rewrite handle_hook.
  destruct (verify ours theirs); cbn; split; intro H; try reflexivity; discriminate.
Qed.
Theorem C12_counted_once : forall ours theirs p,
  count p (h_counted (handle_ra (Ok ours) theirs)) = expected_count ours theirs p.
Proof. intros. rewrite handle_counted. apply verify_count. Qed.
Theorem C12_logged_once : forall ours theirs,
  h_logged (handle_ra (Ok ours) theirs) =
  (if is_nil (verify ours theirs) then 0 else 1 + N.of_nat (length (verify ours theirs)))%N.
Proof. intros. rewrite handle_logged. destruct (is_nil (verify ours theirs)); [reflexivity | lia]. Qed.
Theorem C12_handle_total : forall ours theirs, h_failed (handle_ra (Ok ours) theirs) = false.
Proof. exact handle_never_fails. Qed.
Theorem C12_handle_build_error : forall code theirs,
  handle_ra (Err code) theirs = mkHandleOut [] 0 0 true.
Proof. exact handle_build_error. Qed.

(* ---- CoreRAD's own RA produces no report, neither as it is nor after a wire round trip
   (wire_ra: every duration truncated to the unit of its field) -- for EVERY RA that does not
   contradict itself, whatever its durations (sub-unit values included); and a self-contradicting
   RA (two options for one prefix with different lifetimes) is always reported, so the
   hypothesis cannot be dropped *)
Theorem C12_self : forall a, verify a a = [] <-> self_consistent a = true.
Proof. exact verify_self_iff. Qed.
Theorem C12_self_wire : forall a, verify a (wire_ra a) = [] <-> self_consistent a = true.
Proof. exact verify_self_wire_iff. Qed.

(* the report depends only on the wire images of both RAs *)
Theorem C12_wire_invariant : forall a b,
  verify a (wire_ra b) = verify a b /\ verify (wire_ra a) b = verify a b.
Proof. intros. split; [apply verify_wire_r | apply verify_wire_l]. Qed.

(* ---- the checker run on the implementation's reports decides the characterisation *)
Theorem C12_checker_sound : forall a b reported,
  reports_ok a b reported = true <-> (forall p, count p reported = expected_count a b p).
Proof. exact reports_ok_spec. Qed.

(* ---- non-vacuity *)
Definition ex_ours : ra :=
  mkRA 64 true false Medium (1800 * sec) (1 * sec + 500 * us) (2500 * us)
    [OMTU 1500; OPrefix 64 true true (180 * sec + 500 * ms) (90 * sec + 500 * ms) 1;
     ORoute 48 Medium (100 * sec) 7; ORDNSS (30 * sec) [10; 11]%N; ODNSSL (30 * sec) [20%N];
     OCaptive 5; OOther 200].
Definition ex_theirs : ra :=
  mkRA 255 true true High 0 (2 * sec) 0
    [OOther 14; OPrefix 64 true true (180 * sec) (60 * sec) 1; OPrefix 64 true true (180 * sec) (60 * sec) 2;
     ORoute 48 Medium (200 * sec) 7; ORoute 48 High (300 * sec) 7; ORDNSS (30 * sec) [11; 10]%N;
     ODNSSL (30 * sec) [20%N]; ODNSSL (30 * sec) [21%N]; OMTU 1280; OMTU 1500].

Example C12_example :
  verify ex_ours ex_theirs =
  [(FHopLimit, None); (FOther, None); (FReachable, None); (FMTU, None);
   (FPrefixPreferred, Some (1%N, 64%N)); (FRouteLifetime, Some (7%N, 48%N));
   (FRdnssServers, None); (FDnsslCount, None)].
Proof. vm_compute. reflexivity. Qed.

(* the own RA has sub-unit durations, is self-consistent, and is silent against its wire image *)
Example C12_example_self :
  self_consistent ex_ours = true /\ wire_ra ex_ours <> ex_ours /\ verify ex_ours (wire_ra ex_ours) = [].
Proof. split; [vm_compute; reflexivity | split; [discriminate | vm_compute; reflexivity]]. Qed.

(* the hypothesis of C12_self is necessary: an RA with two different lifetimes for one prefix *)
Example C12_self_needs_consistency :
  let a := mkRA 64 false false Medium 0 0 0
             [OPrefix 64 true true (100 * sec) (50 * sec) 1; OPrefix 64 true true (200 * sec) (50 * sec) 1] in
  self_consistent a = false /\
  verify a a = [(FPrefixValid, Some (1%N, 64%N)); (FPrefixValid, Some (1%N, 64%N))].
Proof. split; vm_compute; reflexivity. Qed.

(* outside the model's wire image: when the codec REWRITES a domain name (ndp decodes punycode to
   Unicode and drops a trailing dot; names are opaque tokens here), the own RA is reported against
   its own wire image -- the candidate finding recorded by the driver's codec-unstable-name stream *)
Definition rewrite_names (g : N -> N) (a : ra) : ra :=
  mkRA (ra_hop a) (ra_managed a) (ra_other a) (ra_pref a) (ra_lifetime a) (ra_reachable a) (ra_retrans a)
       (map (fun o => match o with ODNSSL t s => ODNSSL t (map g s) | o => o end) (ra_opts a)).
Example C12_self_wire_rewritten_name_refuted :
  exists a g, self_consistent a = true /\ verify a (rewrite_names g (wire_ra a)) = [(FDnsslNames, None)].
Proof.
  exists (mkRA 64 false false Medium 0 0 0 [ODNSSL (30 * sec) [20%N]]), (fun n => (n + 1)%N).
  split; vm_compute; reflexivity.
Qed.

Example C12_example_hook :
  h_hook (handle_ra (Ok ex_ours) ex_theirs) = 1%N /\ h_logged (handle_ra (Ok ex_ours) ex_theirs) = 9%N /\
  h_hook (handle_ra (Ok ex_ours) (wire_ra ex_ours)) = 0%N.
Proof. split; [vm_compute; reflexivity | split; vm_compute; reflexivity]. Qed.

Print Assumptions C12_characterisation.
Print Assumptions C12_hop_limit.
Print Assumptions C12_managed.
Print Assumptions C12_other.
Print Assumptions C12_reachable.
Print Assumptions C12_retransmit.
Print Assumptions C12_mtu.
Print Assumptions C12_captive_portal.
Print Assumptions C12_prefix_preferred.
Print Assumptions C12_prefix_valid.
Print Assumptions C12_route.
Print Assumptions C12_rdnss.
Print Assumptions C12_dnssl.
Print Assumptions C12_nothing_else.
Print Assumptions C12_no_other_label.
Print Assumptions C12_absent_mtu.
Print Assumptions C12_absent_captive_portal.
Print Assumptions C12_absent_prefixes.
Print Assumptions C12_absent_prefix.
Print Assumptions C12_absent_routes.
Print Assumptions C12_absent_route.
Print Assumptions C12_absent_rdnss.
Print Assumptions C12_absent_dnssl.
Print Assumptions C12_absent_timers.
Print Assumptions C12_hook.
Print Assumptions C12_counted_once.
Print Assumptions C12_logged_once.
Print Assumptions C12_handle_total.
Print Assumptions C12_handle_build_error.
Print Assumptions C12_self.
Print Assumptions C12_self_wire.
Print Assumptions C12_wire_invariant.
Print Assumptions C12_checker_sound.
