(* C12 -- placeholder, filled in below. *)
From CR Require Import Model.Verify Model.VerifySpec.
Example C12_placeholder : verify (mkRA 64 false false Medium 0%Z 0%Z 0%Z []) (mkRA 64 false false Medium 0%Z 0%Z 0%Z []) = [].
Proof. reflexivity. Qed.
