(* The lines behind the seams (this file: watcher_one_group_one_namespace).  The drivers script interface lookups, connections and the rtnetlink socket; the
   few real lines behind those seams only run against the operating system.  goextract lists them from every
   non-test Go file under internal/ and cmd/ (gen/ExtSeams.v); each theorem below states the assumption a model
   makes about them and sits in the cone of the properties whose models make it.  They are stated as filters, not
   as pinned lists, so that unrelated additions elsewhere in the daemon do not disturb them.

   - dialer_looks_up_by_name (C10, C11): Model/Dialer.v and Model/Link.v find the interface BY NAME at every
     (re-)dial -- that is why a link deleted and re-created under its name (with a new index) comes back.  The only
     lookup in dialer.go / conn.go is lookupInterface's net.InterfaceByName.
   - no_write_deadline (C08, C06): Model/Shutdown.v, Model/Workers.v and Model/Sched.v let a write take as long
     as it takes; the only deadlines armed anywhere are read deadlines (the "wake the reader now" idiom).
   - watcher_one_group_one_namespace (C19): Model/Watcher.v receives the link messages of one multicast group of
     the daemon's own namespace: the watcher's socket is netlink.Config{Groups: RTMGRP_LINK} with no option set. *)
From Coq Require Import List String Bool ZArith.
From CR Require Import gen.ExtSeams Proofs.SeamLib.
Import ListNotations.
Open Scope string_scope.

Theorem watcher_one_group_one_namespace :
  filter (in_file "internal/netstate/watcher_linux.go") seam_sockopts
  = ["internal/netstate/watcher_linux.go:osWatch:netlink.Config{Groups: unix.RTMGRP_LINK}"].
Proof. vm_compute. reflexivity. Qed.

(* ... and every batch the socket delivered is handed to notify by the receive loop itself (Model/Watcher.v: one
   notify per batch, in order, none dropped before the per-subscriber buffers): no queue, goroutine or non-blocking
   hand-over between Receive and notify. *)
Theorem watcher_delivers_every_batch : oswatch_notify_direct = true.
Proof. reflexivity. Qed.

Theorem seams_scanned : (0 < seam_files_scanned)%Z.
Proof. reflexivity. Qed.

Print Assumptions watcher_one_group_one_namespace.
Print Assumptions watcher_delivers_every_batch.
