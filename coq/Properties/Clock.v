(* One clock.  In the models an instant is an integer on a single time line; the Go code gets the same
   from time.Now(), whose monotonic reading makes Sub / After / Before immune to steps of the wall clock
   -- as long as nothing strips that reading (UTC, Local, In, Round(0), Truncate, AddDate ...) from a time
   value on the way.  goextract scans every function of the files that schedule transmissions, compute
   deprecated lifetimes, parse the epoch, time-stamp received messages and back off (gen/ExtClock.v);
   this lemma is in the cone of the properties whose theorems speak about instants and durations
   (C03, C05, C06, C07, C16, C18): a change that loses the monotonic reading breaks it on the next run. *)
From Coq Require Import List String ZArith.
From CR Require Import gen.ExtClock.
Import ListNotations.

Theorem one_clock : clock_strips = [] /\ clock_funcs_found = 16%Z.
Proof. split; reflexivity. Qed.

Print Assumptions one_clock.
