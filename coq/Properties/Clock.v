(* One clock.  In the models an instant is an integer on a single time line; the Go code gets the same
   from time.Now(), whose monotonic reading makes Sub / After / Before immune to steps of the wall clock
   -- as long as nothing strips that reading (UTC, Local, In, Round(0), Truncate, AddDate ...) from a time
   value on the way.  goextract scans every function of the files that schedule transmissions, compute
   deprecated lifetimes, parse the epoch, time-stamp received messages and back off (gen/ExtClock.v);
   the same scan lists every place where the WALL-clock reading of an instant is taken (Unix, UnixNano, ...,
   or an instant made by time.Unix / time.Date / time.Parse inside a function): the six the code has are
   gauge values float64(t.Unix()) and PRNG seeds rand.NewSource(t.UnixNano()); a reading that flows anywhere
   else (e.g. epoch.UnixNano() - now.UnixNano(): wall-clock arithmetic without any stripping call) is listed
   in clock_wall_reads.  This lemma is in the cone of the properties whose theorems speak about instants and durations
   (C03, C05, C06, C07, C16, C18): a change that loses the monotonic reading breaks it on the next run. *)
From Coq Require Import List String ZArith.
From CR Require Import gen.ExtClock.
Import ListNotations.

Theorem one_clock :
  clock_strips = [] /\ clock_wall_reads = [] /\ clock_wall_sinks = 6%Z /\ clock_funcs_found = 16%Z.
Proof. repeat split; reflexivity. Qed.

Print Assumptions one_clock.
