(* C11 -- connections cleaned up exactly once; IPv6 autoconf always restored.  Statements only;
   proofs in Proofs/DialerC11.v.

   real_script sc: every DialFunc call of the script is the real Dialer.dial (run through its
   sub-steps lookup / check / open / get autoconf / set false against scripted OS answers); the
   script is otherwise arbitrary: initial sysctl value, mode, outcomes of every sub-step, task
   results, leave / close / restore answers, cancellation points, select races.

   c11_ok (Model/DialerSpec.v) is the acceptor written from the property text; it is the same
   function that Corr/C11.v evaluates on the call log observed on the real code.  It accepts a
   log iff
     - a connection is opened only when none is open and autoconf has been put back (ids fresh),
       is closed only when it is the open one, is open while the task runs, and nothing is open
       or pending at a failed dial attempt, after a clean-up and at Return            (once)
     - in Advertise mode, when a connection is handed out / while the task runs the sysctl is
       false unless switching it off was denied; whenever nothing is held (failed dial, after
       clean-up, Return) the sysctl equals its initial value unless a set/restore call failed
                                                                                       (autoconf)
     - every Restore writes the value read by the GetAuto of the same dial, and happens exactly
       once for every dial that (tried to) switch autoconf off                          (restore value)
     - Cleanup reports an error iff the restore answer was neither ok, permission nor not-exist
                                                                                       (tolerated)
     - in Monitor mode no GetAuto / SetAuto / Restore occurs at all. *)
From CR Require Import Model.Dialer.
From CR Require Import Model.DialerSpec.
From CR Require Import Proofs.DialerC11.
(* behind the lookup seam: the Dialer finds its interface by name at every (re-)dial (extracted) *)
From CR Require Properties.SeamLookup.
Local Open Scope Z_scope.

Theorem C11_monitor_accepts : forall sc, real_script sc ->
  c11_ok (sc_mode sc) (sc_autoconf0 sc) (dial_loop sc) = true.
Proof. exact c11_accepts. Qed.

(* cleaned = opened, in the same order, and each connection is cleaned before the next is opened *)
Theorem C11_once : forall sc, real_script sc ->
  opens (dial_loop sc) = closes (dial_loop sc) /\
  (forall pre k post, dial_loop sc = pre ++ OpenConn k :: post -> opens pre = closes pre).
Proof. exact once_model. Qed.

(* any log the acceptor accepts has that property (so it is also checked on the observed logs) *)
Theorem C11_once_of_accepted : forall m a0 l s s', crun m a0 s l = Some s' ->
  held s ++ opens l = closes l ++ held s'.
Proof. exact crun_held. Qed.

Theorem C11_tolerated : forall k prev te w,
  snd (do_cleanup k (KReal (Some prev)) te w) = match t_restore te with SOther => false | _ => true end.
Proof. exact cleanup_tolerated. Qed.

Theorem C11_restore_value : forall k prev te w,
  exists r, In (Restore prev r) (fst (fst (do_cleanup k (KReal (Some prev)) te w))).
Proof. exact cleanup_restores_read_value. Qed.

Theorem C11_monitor_never_touches_sysctl : forall a0 l s s',
  crun Monitor a0 s l = Some s' -> forallb (fun e => negb (touches_sysctl e)) l = true.
Proof. exact monitor_no_sysctl. Qed.

Corollary C11_monitor_mode : forall sc, real_script sc -> sc_mode sc = Monitor ->
  forallb (fun e => negb (touches_sysctl e)) (dial_loop sc) = true.
Proof.
  intros sc H Hm. destruct (c11_run sc H) as (s' & w' & Hs & _). rewrite Hm in Hs.
  eapply monitor_no_sysctl; exact Hs.
Qed.

(* non-vacuity: autoconf = true; dial, task ends with a link change, restore denied; the re-dial
   reads the already-disabled value and "restores" false: the host is left with autoconf off.
   This is inside the property's proviso (a restore call failed), and the acceptor accepts it. *)
Example C11_example_denied_restore :
  let sc := mkScript Advertise true true false [] 
     [mkTask false (Some ELinkChange) true true true SPerm false; mkTask false None true true true SOk false] [] [] in
  real_script sc /\
  filter touches_sysctl (dial_loop sc) =
    [GetAuto (Some true); SetAuto false SOk; Restore true SPerm; GetAuto (Some false); SetAuto false SOk; Restore false SOk] /\
  sysctl_after true (dial_loop sc) = false /\
  c11_ok Advertise true (dial_loop sc) = true.
Proof. vm_compute. repeat split; try reflexivity. constructor. Qed.

Example C11_example_restored :
  let sc := mkScript Advertise true true false
     [DReal all_ok_steps false; DReal (mkSteps None None None SOther SOk true true) false]
     [mkTask false (Some ESyscall) true true true SOk false; mkTask true (Some ECanceled) true false false SOk false] [] [] in
  opens (dial_loop sc) = [0; 1; 2]%N /\ closes (dial_loop sc) = [0; 1; 2]%N /\
  sysctl_after true (dial_loop sc) = true.
Proof. vm_compute. repeat split; reflexivity. Qed.

Print Assumptions C11_monitor_accepts.
Print Assumptions C11_once.
Print Assumptions C11_once_of_accepted.
Print Assumptions C11_tolerated.
Print Assumptions C11_restore_value.
Print Assumptions C11_monitor_never_touches_sysctl.
Print Assumptions C11_monitor_mode.
