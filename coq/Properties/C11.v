(* C11 -- statements only. *)
From CR Require Import Model.Dialer Model.DialerSpec Proofs.Dialer gen.ExtDialer.
Local Open Scope Z_scope.

Theorem C11_constants : dialAttempts = 50.
Proof. reflexivity. Qed.
Print Assumptions C11_constants.
