(* The lines behind the seams (this file: no_write_deadline).  The drivers script interface lookups, connections and the rtnetlink socket; the
   few real lines behind those seams only run against the operating system.  goextract lists them from every
   non-test Go file under internal/ and cmd/ (gen/ExtSeams.v); each theorem below states the assumption a model
   makes about them and sits in the cone of the properties whose models make it.  They are stated as filters, not
   as pinned lists, so that unrelated additions elsewhere in the daemon do not disturb them.

   - dialer_looks_up_by_name (C10, C11): Model/Dialer.v and Model/Link.v find the interface BY NAME at every
     (re-)dial -- that is why a link deleted and re-created under its name (with a new index) comes back.  The only
     lookup in dialer.go / conn.go is lookupInterface's net.InterfaceByName.
   - no_write_deadline (C08, C06): Model/Shutdown.v, Model/Workers.v and Model/Sched.v let a write take as long
     as it takes; the only deadlines armed anywhere are read deadlines (the "wake the reader now" idiom).
   - watcher_one_group_one_namespace (C19): Model/Watcher.v receives the link messages of one multicast group of
     the daemon's own namespace: the watcher's socket is netlink.Config{Groups: RTMGRP_LINK} with no option set. *)
From Coq Require Import List String Bool ZArith.
From CR Require Import gen.ExtSeams Proofs.SeamLib.
Import ListNotations.
Open Scope string_scope.

Theorem no_write_deadline :
  filter (fun e => negb (ends_with ":SetReadDeadline" e)) seam_deadlines = [] /\ seam_deadlines <> [].
Proof. split; [vm_compute; reflexivity | discriminate]. Qed.

Theorem seams_scanned : (0 < seam_files_scanned)%Z.
Proof. reflexivity. Qed.

Print Assumptions no_write_deadline.
