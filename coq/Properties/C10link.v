(* C10 -- "link not ready" (internal/system/conn.go: lookupInterface, checkInterface).
   Statements only; proofs in Proofs/Link.v.

   The property makes a failed dial recoverable when its cause is "link not ready".  These theorems
   say what that means for EVERY state of an interface (any flags, any list of addresses of any
   kind and length): the readiness check passes exactly when the interface is up and owns an IPv6
   link-local unicast address -- a 16-byte address of a net.IPNet in fe80::/10 (RFC 4291 2.4);
   IPv4 addresses, whichever way package net encodes them, never count -- and an interface that
   is missing, down, or without such an address makes Dialer.dial fail with the recoverable class
   before any connection is opened. *)
From CR Require Import Base.IP Model.Dialer Model.Link Proofs.Link.
Local Open Scope N_scope.

Theorem C10_link_ready : forall up l,
  check_interface up (AList l) = (None, true) <->
  (up = true /\ exists a, In a l /\ la_ipnet a = true /\ la_len a = 16 /\ la_ip a / 2 ^ 118 = 1018).
Proof. exact check_ready. Qed.

Theorem C10_link_not_ready : forall up l,
  ~ (up = true /\ exists a, In a l /\ la_ipnet a = true /\ la_len a = 16 /\ la_ip a / 2 ^ 118 = 1018) ->
  fst (check_interface up (AList l)) = Some ELinkNotReady.
Proof. exact check_not_ready. Qed.

(* every outcome of the check: nil only for a ready interface; otherwise link-not-ready, or the
   error of the address query with its class intact (it was wrapped with %w) *)
Theorem C10_link_check_total : forall up r,
  match fst (check_interface up r) with
  | None => exists l, r = AList l /\ ready up l
  | Some e => e = ELinkNotReady \/ (up = true /\ r = AErr e)
  end.
Proof. exact check_total. Qed.

Theorem C10_link_down_not_asked : forall r, check_interface false r = (Some ELinkNotReady, false).
Proof. exact down_not_asked. Qed.

Theorem C10_link_lookup : forall r,
  lookup_interface r =
  match r with
  | None => None
  | Some e => if le_operr e && le_route e && le_ipnet e && le_text e then Some ELinkNotReady else Some EOpaque
  end.
Proof. exact lookup_spec. Qed.

(* composition with the model of Dialer.dial (Model/Dialer.v): the attempt fails with the
   recoverable class, opens nothing, changes nothing *)
Theorem C10_link_dial : forall m i rest w, not_ready i ->
  exists evs, do_real m (link_steps i rest) w = (evs, w, DFail ELinkNotReady) /\
              (forall k, ~ In (OpenConn k) evs) /\ recoverable ELinkNotReady = true.
Proof. exact not_ready_dial. Qed.

Theorem C10_link_dial_ready : forall i rest l,
  if_lookup i = None -> if_addrs i = AList l -> ready (if_up i) l ->
  s_lookup (link_steps i rest) = None /\ s_check (link_steps i rest) = None.
Proof. exact ready_dial_passes. Qed.

(* the defect repaired by /repo 21ddb53, as a theorem about the old condition: an interface whose
   only address is 169.254.7.9 was reported ready *)
Theorem C10_link_legacy_refuted :
  fst (check_interface_legacy true (AList v4ll_only)) = None /\ ~ ready true v4ll_only.
Proof. exact legacy_refuted. Qed.

(* the forwarding / autoconf sysctl reads true exactly for the file content "1\n" *)
Theorem C04_sysctl_bool : forall c, sysctl_bool c = true <-> c = [49; 10].
Proof. exact sysctl_bool_spec. Qed.

(* non-vacuity *)
Example C10_link_ready_ex : ready true [mkLA true 4 2851995905; mkLA true 16 338288524927261089654018896841347694593].
Proof. split; [reflexivity|]. eexists; split; [right; left; reflexivity|]. repeat split. Qed.
Example C10_link_not_ready_ex : not_ready (mkIf None true (AList v4ll_only)).
Proof. right; left. split; [reflexivity|]. exists v4ll_only; split; [reflexivity|]. exact (proj2 legacy_refuted). Qed.

Print Assumptions C10_link_ready.
Print Assumptions C10_link_not_ready.
Print Assumptions C10_link_check_total.
Print Assumptions C10_link_down_not_asked.
Print Assumptions C10_link_lookup.
Print Assumptions C10_link_dial.
Print Assumptions C10_link_dial_ready.
Print Assumptions C10_link_legacy_refuted.
Print Assumptions C04_sysctl_bool.
