(* C02 -- placeholder, theorems follow *)
From CR Require Import Model.Config Model.ConfigSpec.
Example C02_placeholder : Accepts_b (mkRC [] (mkRDbg 0 false false false)) = false.
Proof. reflexivity. Qed.
Print Assumptions C02_placeholder.
