(* C02 -- A configuration is accepted iff the documented constraints hold; defaults are exact.
   Statements only; each is closed by a lemma of Proofs/Config*.v.

   parse     (Model/Config.v)     the parser on lexed atoms, in the code's order of checks
   Accepts   (Model/ConfigSpec.v) the documented constraints, clause by clause (property text,
                                  reference.toml); Accepts_b its boolean form
   defaults  (Model/ConfigSpec.v) every documented default
   cfg_wf    (Model/ConfigWf.v)   the ranges the RA builder / encoder rely on

   Outside the model (and therefore not covered by these theorems): TOML decoding by go-toml
   (unknown keys, wrong types, syntax) and "never panics" of the real parser -- both are only
   tested by the driver (C02 is partial in that clause). *)
From CR Require Import Model.Config.
From CR Require Import Model.ConfigSpec.
From CR Require Import Model.ConfigWf.
From CR Require Import Proofs.Config.
From CR Require Import Proofs.ConfigPlugins.
From CR Require Import Proofs.ConfigIface.
From CR Require Import Proofs.ConfigSpec.
From CR Require Import Proofs.ConfigWf.
From CR Require gen.ExtConfig.
Local Open Scope Z_scope.

(* accepted exactly when the documented constraints hold -- for every lexed document, of any size *)
Theorem C02_iff : forall raw, (exists c, parse raw = Ok c) <-> Accepts raw.
Proof.
  intros raw. rewrite <- Accepts_b_iff. split.
  - intros [c H]. apply parse_ok_iff in H. tauto.
  - intros H. exists (defaults raw). apply parse_ok_iff. auto.
Qed.

(* on acceptance every value is the written one or its documented default *)
Theorem C02_defaults : forall raw c, parse raw = Ok c -> c = defaults raw.
Proof. intros raw c H. apply parse_ok_iff in H. tauto. Qed.

(* the boolean checker evaluated on the implementation's results is the specification *)
Theorem C02_checker : forall raw, Accepts_b raw = true <-> Accepts raw.
Proof. exact Accepts_b_iff. Qed.

(* rejection is an error value, never a missing result (the model is total; says nothing on go-toml) *)
Theorem C02_total : forall raw, ~ Accepts raw -> exists e, parse raw = Err e.
Proof.
  intros raw H. pose proof (parse_spec raw) as S.
  apply (spec_res_false _ _ _ S). destruct (Accepts_b raw) eqn:E; [|reflexivity].
  exfalso. apply H. apply Accepts_b_iff. exact E.
Qed.

(* every accepted interface is well formed: 4s <= max <= 1800s, min <= max, lifetimes within their
   wire fields and > 0 where documented, preferred <= valid, deprecated -> finite, hop <= 255,
   mtu <= 65536, prefixes masked IPv6, PREF64 length in {96,64,56,48,40,32}, monitor interfaces
   without advertising settings.  lex_wfb: what netip.ParsePrefix / ParseAddr guarantee
   (address < 2^128, length <= 128); the correspondence evaluates it on every case. *)
Theorem C02_cfg_wf : forall raw c, lex_wfb raw = true -> parse raw = Ok c -> Forall cfg_wf (fst c).
Proof.
  intros raw c W H. apply parse_ok_iff in H as [A ->]. apply accepts_wf; [exact W|].
  apply Accepts_b_iff. exact A.
Qed.

Theorem C02_cfg_wfb : forall i, cfg_wfb i = true <-> cfg_wf i.
Proof. exact cfg_wfb_iff. Qed.

(* two documented literals made explicit: the computed min_interval and the derived lifetimes *)
Theorem C02_default_intervals : forall st name i,
  ri_monitor st = false -> ri_max st = DAbsent -> ri_min st = DAbsent -> ri_lifetime st = DAbsent ->
  ri_hop st = None -> parse_interface st name = Ok i ->
  if_max i = 600 * sec /\ if_min i = 198 * sec /\ if_lifetime i = 1800 * sec /\ if_hop i = 64%N.
Proof.
  intros st name i Hm H1 H2 H3 H4 H. pose proof (parse_interface_spec st name) as S.
  rewrite H in S. destruct S as [_ ->]. unfold iface_default. rewrite Hm.
  cbn [if_max if_min if_lifetime if_hop]. unfold max_interval_v, default_lifetime_v, hop_v.
  rewrite H1, H2, H3, H4. vm_compute. auto.
Qed.

(* the literals read from the *current source tree* by goextract (gen/ExtConfig.v, regenerated on
   every check) are the documented ones used by the model and the specification: default
   max_interval 600 s, hop limit 64, prefix lifetimes 24 h / 4 h, route lifetime 24 h,
   64:ff9b::/96, the six NAT64 lengths, 8191 * 8 s.  A source edit of any of them breaks this proof. *)
Theorem C02_extracted_literals :
  ExtConfig.cfg_default_max_interval = 600 * sec /\
  ExtConfig.cfg_default_hop_limit = 64 /\
  ExtConfig.cfg_default_valid_lifetime = 24 * hour /\
  ExtConfig.cfg_default_preferred_lifetime = 4 * hour /\
  ExtConfig.cfg_default_route_lifetime = 24 * hour /\
  (ExtConfig.cfg_default_pref64_addr, Z.to_N ExtConfig.cfg_default_pref64_bits) = default_pref64 /\
  default_pref64 = well_known_pref64 /\
  map Z.to_N ExtConfig.cfg_pref64_lengths = nat64_lengths /\
  nat64_lengths = pref64_lengths /\
  ExtConfig.cfg_max_pref64_lifetime = max_pref64_lifetime /\
  max_pref64_lifetime = 65528 * sec.
Proof. vm_compute. repeat split; reflexivity. Qed.

(* ---------------------------------------------------------------- non-vacuity *)

(* the shape of reference.toml: eth0 advertising with ::/64 + 2001:db8::/64, ::/0 +
   2001:db8:ffff::/64, RDNSS ::, one DNSSL name, the well-known PREF64 prefix; debug address *)
Definition ex_reference : raw_config :=
  mkRC [mkRI 1 [] false true false (DDur (600 * sec)) DAuto false false (DDur 0) (DDur 0) (Some 64) DAuto
          false PrMedium
          [mkRP (CPfx false 0 64) (Some true) (Some true) DAuto DAuto false;
           mkRP (CPfx false 42540766411282592856903984951653826560 64) None None DAbsent DAbsent false]
          [mkRR (CPfx false 0 0) PrEmpty DAbsent false;
           mkRR (CPfx false 42540766490509546445348707916023070720 64) PrMedium DAuto false]
          [mkRD DAuto [AAddr false 0 0]] [mkRN DAuto [7%N]] [mkR6 (CPfx false 524413980667603649783483181312245760 96)]
          0 (Some true) UEmpty;
        mkRI 2 [] true false false DAbsent DAbsent false false DAbsent DAbsent None DAbsent false PrEmpty
          [] [] [] [] [] 0 None UEmpty]
       (mkRDbg 9 true false false).

Example C02_example_reference :
  parse ex_reference =
  Ok ([mkIface 1 false true false (198 * sec) (600 * sec) false false 0 0 64 (1800 * sec) false Medium
         [PPrefix true 0 64 true true (24 * hour) (4 * hour) false;
          PPrefix false 42540766411282592856903984951653826560 64 true true (24 * hour) (4 * hour) false;
          PRoute true 0 0 Medium (24 * hour) false;
          PRoute false 42540766490509546445348707916023070720 64 Medium (24 * hour) false;
          PRDNSS true (1800 * sec) []; PDNSSL (1800 * sec) [7%N]; PLLA;
          PPref64 false 524413980667603649783483181312245760 96 (1800 * sec)];
       mkIface 2 true false false 0 0 false false 0 0 0 0 false Medium []],
      mkDbg 9 false false).
Proof. vm_compute. reflexivity. Qed.

Example C02_example_accepts : Accepts ex_reference.
Proof. apply C02_iff. eexists. exact C02_example_reference. Qed.

Example C02_example_wf : Forall cfg_wf (fst (defaults ex_reference)).
Proof. apply accepts_wf; [vm_compute; reflexivity | exact C02_example_accepts]. Qed.

(* boundaries: max_interval = 4s is accepted, one nanosecond less is not; the smallest interval
   for which the computed min_interval is used is 9s (2s: 0.33 * 9s truncated) *)
Definition ex_max (t : dtext) : raw_config :=
  mkRC [mkRI 1 [] false true false t DAbsent false false DAbsent DAbsent None DAbsent false PrEmpty
          [] [] [] [] [] 0 None UEmpty] (mkRDbg 0 false false false).
Example C02_example_max_4s : exists c, parse (ex_max (DDur (4 * sec))) = Ok c /\
  map if_min (fst c) = [4 * sec] /\ map if_lifetime (fst c) = [12 * sec].
Proof. eexists. split; [vm_compute; reflexivity | vm_compute; auto]. Qed.
Example C02_example_max_below : ~ Accepts (ex_max (DDur (4 * sec - 1))).
Proof. rewrite <- Accepts_b_iff. vm_compute. discriminate. Qed.
Example C02_example_max_9s : exists c, parse (ex_max (DDur (9 * sec))) = Ok c /\ map if_min (fst c) = [2 * sec].
Proof. eexists. split; [vm_compute; reflexivity | vm_compute; auto]. Qed.
Example C02_example_max_auto_rejected : ~ Accepts (ex_max DAuto).
Proof. rewrite <- Accepts_b_iff. vm_compute. discriminate. Qed.

Print Assumptions C02_iff.
Print Assumptions C02_defaults.
Print Assumptions C02_checker.
Print Assumptions C02_total.
Print Assumptions C02_cfg_wf.
Print Assumptions C02_cfg_wfb.
Print Assumptions C02_default_intervals.
Print Assumptions C02_extracted_literals.
Print Assumptions C02_example_reference.
Print Assumptions C02_example_accepts.
Print Assumptions C02_example_wf.
