(* C08 -- On termination exactly one zero-lifetime RA is sent, last; on reload none.
   A trace is the sequence of observable events of one Advertiser.Run: LBegin/LEnd of every
   Conn.WriteTo (final = zero router lifetime to all-nodes), LCancel, LReturn.  [accepts w tr]:
   tr is a complete run of the stop-sequence LTS (Model/Shutdown.v), w = terminating and not
   unicast-only.  The statements hold for EVERY accepted trace: any number of pending / in-flight
   transmissions, any stop instant, any interleaving of their begins and ends, any latency. *)
From CR Require Import Model.Shutdown Proofs.Shutdown.
Local Open Scope N_scope.

(* terminating: the trace is  pre ++ [final begin; final end; return nil]  where pre holds only
   ordinary transmissions and the cancellation, and every ordinary transmission has completed
   within pre: exactly one final RA, begun after everything else ended, the last packet, and Run
   returns success right after it *)
Theorem C08_term : forall tr, accepts true tr = true ->
  exists pre s, tr = pre ++ [LBegin s true; LEnd s; LReturn true] /\
    Forall normal pre /\ In LCancel pre /\ flight [] pre = Some [].
Proof.
  intros tr H. destruct (accepts_shape true tr H) as (pre & Hn & Hc & Hf & s & ->).
  exists pre, s. auto.
Qed.

(* reloading (or unicast-only): no final RA at all; Run returns success once nothing is in flight *)
Theorem C08_reload : forall tr, accepts false tr = true ->
  exists pre, tr = pre ++ [LReturn true] /\
    Forall normal pre /\ In LCancel pre /\ flight [] pre = Some [] /\ filter is_final tr = [].
Proof.
  intros tr H. destruct (accepts_shape false tr H) as (pre & Hn & Hc & Hf & ->).
  exists pre. repeat split; auto. rewrite filter_app, (normal_not_final pre Hn). reflexivity.
Qed.

Theorem C08_one_final : forall w tr, accepts w tr = true ->
  length (filter is_final tr) = if w then 1%nat else 0%nat.
Proof. exact accepts_finals. Qed.

(* nothing is transmitted (no event at all) after Run has returned *)
Theorem C08_quiet : forall w fl tr st, run w (Returned, fl) tr = Some st -> tr = [].
Proof. exact run_returned. Qed.

(* possibility of return (no deadlock in the model): whatever is in flight at the cancellation, the
   run can complete.  _partial: this is reachability, not fairness -- that every maximal execution of
   the real goroutines does return is checked on the implementation only (the driver bounds the
   virtual time between the last gate release and Run returning by 0). *)
Theorem C08_returns_partial : forall w fl, exists tr, run w (Cancelled, fl) tr = Some (Returned, []).
Proof. exact can_return. Qed.

(* non-vacuity: a unicast answer in flight at the cancellation, completed before the final RA *)
Example C08_example :
  accepts true [LBegin 0 false; LEnd 0; LBegin 1 false; LCancel; LBegin 2 false; LEnd 1; LEnd 2; LBegin 3 true; LEnd 3; LReturn true] = true /\
  accepts true [LBegin 0 false; LCancel; LBegin 1 true; LEnd 0; LEnd 1; LReturn true] = false /\  (* the repaired defect: overtaken final RA *)
  accepts false [LCancel; LReturn true] = true /\
  accepts false [LCancel; LBegin 0 true; LEnd 0; LReturn true] = false.
Proof. repeat split; reflexivity. Qed.

Print Assumptions C08_term.
Print Assumptions C08_reload.
Print Assumptions C08_one_final.
Print Assumptions C08_quiet.
Print Assumptions C08_returns_partial.
