(* C08 -- On termination exactly one zero-lifetime RA is sent, last; on reload none.
   A trace is the sequence of observable events of one Advertiser.Run: LBegin/LEnd of every
   Conn.WriteTo (final = zero router lifetime to all-nodes), LCancel, LReturn.  [accepts w tr]:
   tr is a complete run of the stop-sequence LTS (Model/Shutdown.v), w = terminating and not
   unicast-only.  The statements hold for EVERY accepted trace: any number of pending / in-flight
   transmissions, any stop instant, any interleaving of their begins and ends, any latency. *)
From CR Require Import Model.Shutdown Proofs.Shutdown.
(* send workers against the scheduler's stop: the step relation is chosen by the extracted shape of start() / stop(): Properties/Workers.v *)
From CR Require Properties.Workers.
From CR Require Import Model.Group Model.RunOrder Proofs.Group Proofs.RunOrder gen.ExtGroup.
(* behind the connection seam: no write deadline is armed anywhere (extracted) *)
From CR Require Properties.SeamDeadline.
Local Open Scope N_scope.

(* terminating: the trace is  pre ++ [final begin; final end; return nil]  where pre holds only
   ordinary transmissions and the cancellation, and every ordinary transmission has completed
   within pre: exactly one final RA, begun after everything else ended, the last packet, and Run
   returns success right after it *)
Theorem C08_term : forall tr, accepts true tr = true ->
  exists pre s, tr = pre ++ [LBegin s true; LEnd s; LReturn true] /\
    Forall normal pre /\ In LCancel pre /\ flight [] pre = Some [].
Proof.
  intros tr H. destruct (accepts_shape true tr H) as (pre & Hn & Hc & Hf & s & ->).
  exists pre, s. auto.
Qed.

(* reloading (or unicast-only): no final RA at all; Run returns success once nothing is in flight *)
Theorem C08_reload : forall tr, accepts false tr = true ->
  exists pre, tr = pre ++ [LReturn true] /\
    Forall normal pre /\ In LCancel pre /\ flight [] pre = Some [] /\ filter is_final tr = [].
Proof.
  intros tr H. destruct (accepts_shape false tr H) as (pre & Hn & Hc & Hf & ->).
  exists pre. repeat split; auto. rewrite filter_app, (normal_not_final pre Hn). reflexivity.
Qed.

Theorem C08_one_final : forall w tr, accepts w tr = true ->
  length (filter is_final tr) = if w then 1%nat else 0%nat.
Proof. exact accepts_finals. Qed.

(* nothing is transmitted (no event at all) after Run has returned *)
Theorem C08_quiet : forall w fl tr st, run w (Returned, fl) tr = Some st -> tr = [].
Proof. exact run_returned. Qed.

(* possibility of return (no deadlock in the model): whatever is in flight at the cancellation, the
   run can complete.  _partial: this is reachability, not fairness -- that every maximal execution of
   the real goroutines does return is checked on the implementation only (the driver bounds the
   virtual time between the last gate release and Run returning by 0). *)
Theorem C08_returns_partial : forall w fl, exists tr, run w (Cancelled, fl) tr = Some (Returned, []).
Proof. exact can_return. Qed.

(* ---- the same clause on the model of the code (not only on accepted traces): Advertiser.Run
   around the goroutine group of Model/Group.v, with the guards and the two orderings of Run read
   from the source on every run (gen/ExtGroup.v).  In every reachable state -- any interleaving,
   arrivals, failures, link events -- in which the final RA is being transmitted or Run has
   returned: the cancellation has happened, every member of the group has returned, no worker is
   inside WriteTo or about to report, none can start, the listener has returned, and no step
   changes that.  The final RA is alone on the wire and last. *)
Theorem C08_orderings : extracted_order = mkO true true /\ extracted = mkG true true true true true true.
Proof. split; [exact extracted_order_true|exact extracted_all_true]. Qed.

Theorem C08_final_alone : forall r, rreach (mkO true true) (mkG true true true true true true) r -> ph r <> PGroup ->
  gc (grp r) = true /\ all_done (grp r) = true /\ kw (grp r) = 0%nat /\ ke (grp r) = 0%nat /\
  stopped (grp r) = true /\ L (grp r) = Ldone /\
  forall r', In r' (rsteps (mkO true true) (mkG true true true true true true) r) -> kw (grp r') = 0%nat.
Proof.
  intros r Hr Hp. split; [exact (final_after_cancel r Hr Hp)|]. exact (final_alone r Hr Hp).
Qed.

(* ... and Run does return: once the context is cancelled, every execution from every reachable
   state -- any interleaving, arrivals, failures -- is finite (bounded by the group's measure plus
   the two steps of Run itself: begin and end of the final RA) and can never stop before Run has
   returned, because until then some goroutine can always move.  (Fairness -- an enabled goroutine
   is eventually scheduled -- is the Go runtime's; the bound holds for every scheduling.) *)
Theorem C08_returns : forall r, rreach (mkO true true) (mkG true true true true true true) r -> gc (grp r) = true ->
  (forall l, rpath r l -> length l <= measure (grp r) + 2)%nat /\
  (ph r <> PReturned -> rsteps (mkO true true) (mkG true true true true true true) r <> []).
Proof. exact run_returns. Qed.

(* non-vacuity of the two theorems above: a run in which a solicitation is being answered when a link event
   cancels the group; the transmission completes, every member returns, the final RA is sent, Run returns *)
Example C08_example_run :
  exists r, rrun (mkO true true) (mkG true true true true true true) rinit [1; 1; 1; 0; 0; 4; 1; 0; 0; 1; 0; 0; 0; 0; 0; 0]%nat = Some r /\
            ph r = PReturned /\ gc (grp r) = true /\ all_done (grp r) = true.
Proof. eexists. split; [vm_compute; reflexivity|]. repeat split. Qed.

(* what each piece is needed for: with the scheduler not waiting for its workers (the repaired
   defect 224e990), or with either ordering of Run missing, a state is reachable in which the final
   RA is in flight together with another transmission *)
Theorem C08_legacy_overtaken :
  (exists r, rreach (mkO true true) (mkG true true true false true true) r /\ ph r = PFinal /\ (0 < kw (grp r))%nat) /\
  (exists r, rreach (mkO false true) (mkG true true true true true true) r /\ ph r = PFinal /\ (0 < kw (grp r))%nat) /\
  (exists r, rreach (mkO true false) (mkG true true true true true true) r /\ ph r = PFinal /\ (0 < kw (grp r))%nat).
Proof.
  split; [exact (overtaken_reach _ _ _ legacy_no_wait_overtaken)|].
  split; [exact (overtaken_reach _ _ _ order_needed_wait)|exact (overtaken_reach _ _ _ order_needed_after)].
Qed.

(* non-vacuity: a unicast answer in flight at the cancellation, completed before the final RA *)
Example C08_example :
  accepts true [LBegin 0 false; LEnd 0; LBegin 1 false; LCancel; LBegin 2 false; LEnd 1; LEnd 2; LBegin 3 true; LEnd 3; LReturn true] = true /\
  accepts true [LBegin 0 false; LCancel; LBegin 1 true; LEnd 0; LEnd 1; LReturn true] = false /\  (* the repaired defect: overtaken final RA *)
  accepts false [LCancel; LReturn true] = true /\
  accepts false [LCancel; LBegin 0 true; LEnd 0; LReturn true] = false.
Proof. repeat split; reflexivity. Qed.

Print Assumptions C08_term.
Print Assumptions C08_reload.
Print Assumptions C08_one_final.
Print Assumptions C08_quiet.
Print Assumptions C08_returns_partial.
Print Assumptions C08_orderings.
Print Assumptions C08_final_alone.
Print Assumptions C08_returns.
Print Assumptions C08_legacy_overtaken.
