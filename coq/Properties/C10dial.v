(* C10 -- dialer clauses.  Statements only. *)
From CR Require Import Model.Dialer Proofs.Dialer gen.ExtDialer.
Local Open Scope Z_scope.

Theorem C10_constants :
  dialAttempts = 50 /\ dialMaxDelay = 3000000000 /\ dialStep = 250000000 /\
  dialStepOffset = 1 /\ dialLoopStart = 0 /\ serveAttempts = 40.
Proof. exact ext_constants. Qed.
Print Assumptions C10_constants.
