(* C10 -- dialer clauses (Dialer.Dial / Dialer.init).  Statements only; proofs in Proofs/Dialer.v.

   Vocabulary (Model/Dialer.v, Proofs/Dialer.v):
     dial_loop sc        the trace of Dial on fault script sc (any script: scripted or real dials,
                         any outcomes, any cancellation points, any resolution of the select races)
     dial_chunks sc      the same trace cut at the calls of Dialer.init / fn+done / return
                         (dial_loop_chunks: flattening the chunks gives back the trace)
     CInit cause evs o   one call of init: cause = None (first initialisation) or the task error
                         that caused the re-initialisation; evs its events; o its outcome
     skel evs            the waits and dial attempts among evs
     bskel 0 rs          Wait(d0) Dial(r0) Wait(d1) Dial(r1) ... with d_j = lit_delay j *)
From CR Require Import Model.Dialer.
From CR Require Import Proofs.Dialer.
From CR Require Import gen.ExtDialer.
Local Open Scope Z_scope.

(* the constants the model takes from the source are the documented ones *)
Theorem C10_constants :
  dialAttempts = 50 /\ dialMaxDelay = 3000000000 /\ dialStep = 250000000 /\
  dialStepOffset = 1 /\ dialLoopStart = 0 /\ serveAttempts = 40.
Proof. exact ext_constants. Qed.

Theorem C10_delay_literal : forall j, lit_delay j = Z.min (Z.of_nat j * 250000000) 3000000000.
Proof. reflexivity. Qed.

Example C10_delays :
  map lit_delay [0; 1; 2; 3; 11; 12; 13; 49]%nat =
  [0; 250000000; 500000000; 750000000; 2750000000; 3000000000; 3000000000; 3000000000].
Proof. reflexivity. Qed.

Theorem C10_trace_is_chunks : forall sc,
  dial_loop sc = (if sc_pre sc then [Cancel] else []) ++ flat_map chunk_events (dial_chunks sc).
Proof. exact dial_loop_chunks. Qed.

(* Back-off: in every (re-)initialisation of every run, the waits are 0, 250 ms, 500 ms, ...
   capped at 3 s, each followed by one dial attempt; at most 50 attempts; the only other things
   that can appear are the very first dial (first initialisation only) and a final wait cut short
   by cancellation. *)
Theorem C10_backoff : forall sc cause evs o,
  In (CInit cause evs o) (dial_chunks sc) ->
  exists first rs tail,
    skel evs = first ++ bskel 0 rs ++ tail /\ (length rs <= 50)%nat /\
    (first = [] \/ (cause = None /\ exists r, first = [DialAttempt r])) /\
    (tail = [] \/ (exists e, tail = [WaitCut (Z.min (Z.of_nat (length rs) * 250000000) 3000000000) e]) /\ (length rs < 50)%nat) /\
    (o = ITimeout -> length rs = 50%nat /\ Forall failed rs /\ tail = []) /\
    (forall k kind, o = IConn k kind -> tail = [] /\ (rs = [] \/ exists rs0, rs = rs0 ++ [None] /\ Forall failed rs0)).
Proof. intros sc cause evs o H. apply init_backoff. eapply chunks_init_post; exact H. Qed.

(* Attempts: inside one (re-)initialisation every failed dial attempt is retried whatever its
   class; the initialisation gives up ("timed out", reported as an error) exactly when 50 attempts
   in a row have failed; it never returns the error of an attempt (IErr only for the cause). *)
Theorem C10_attempts : forall sc cause evs o,
  In (CInit cause evs o) (dial_chunks sc) -> init_post cause evs o.
Proof. exact chunks_init_post. Qed.

Theorem C10_timeout_is_error : final ITimeout = RTimeout /\ norm_ret RTimeout = RWrap EOpaque.
Proof. split; reflexivity. Qed.

(* Policy.  (1) the run is: init; then return, or fn + done() on the connection obtained -- the
   connection is cleaned up (Cleanup k) right after the task and before anything else -- and then
   return (nil task result / failed clean-up) or re-initialise with the task error as the cause.
   (2) a cause -- the first dial's error is treated the same way, see init_post -- leads to a
   re-dial (the back-off loop is entered: first wait 0) iff it is link-not-ready / link-change / a
   non-permission syscall error; otherwise init does nothing and the run returns an error wrapping
   it (nil when it is context.Canceled). *)
Theorem C10_policy : forall sc,
  policy_ok None (dial_chunks sc) /\
  (forall e evs o, In (CInit (Some e) evs o) (dial_chunks sc) ->
     if lit_recoverable e
     then (exists tl, skel evs = Wait 0 :: tl \/ exists d, skel evs = WaitCut 0 d :: tl) /\ (forall e', o <> IErr e')
     else evs = [] /\ o = IErr e).
Proof.
  intro sc; split.
  - apply chunks_policy.
  - intros e evs o H. apply init_policy. eapply chunks_init_post; exact H.
Qed.

Theorem C10_policy_classes :
  map lit_recoverable [ELinkNotReady; ELinkChange; ESyscall; EPerm; ERetries; EOther; ECanceled; EOpaque] =
  [true; true; true; false; false; false; false; false] /\
  (forall e, recoverable e = lit_recoverable e) /\
  (forall e, final (IErr e) = if is_canceled e then RNil else RWrap e).
Proof. split; [reflexivity|]. split; [exact recoverable_lit | reflexivity]. Qed.

(* Cancellation.  The cancellation mark is unique; after it no back-off wait of positive length
   completes; and if the tasks that finish after it return nil / context.Canceled then at most one
   more dial attempt is made (two when the context was cancelled before the very first dial: that
   dial is made unconditionally and, when it fails with a recoverable error, one more can slip
   through the select race against the 0-delay timer), at most one more task runs and one more
   clean-up, the run ends with a Return, and the value returned is nil unless a clean-up failed, or
   the value was already decided when the cancellation arrived (nothing is dialled or run after it),
   or the very first dial -- made although the context was already cancelled -- failed with a
   non-recoverable error, which is reported. *)
Definition benign (l : list event) : Prop := forall k r, In (Task k r) l -> r = None \/ r = Some ECanceled.

Theorem C10_cancel : forall sc pre post, dial_loop sc = pre ++ Cancel :: post ->
  ~ In Cancel pre /\ ~ In Cancel post /\ no_pos_wait post /\
  (benign post ->
     (count_dials post <= (if Nat.eqb (count_dials pre) 0 then 2 else 1))%nat /\
     (count_tasks post <= 1)%nat /\ (count_cleanups post <= 1)%nat /\
     exists pre' v, post = pre' ++ [Return v] /\
       (v = RNil \/ v = RCleanupErr \/
        (count_dials post = 0%nat /\ count_tasks post = 0%nat) \/
        (exists e, v = RWrap e /\ lit_recoverable e = false /\ count_dials pre = 0%nat /\
                   count_tasks post = 0%nat /\ In (DialAttempt (Some e)) post))).
Proof. exact cancel_full. Qed.

(* the two-dials case: the context is cancelled before Dial is called, the first dial fails with a
   recoverable error, the select race lets one more dial through *)
Example C10_example_cancel_two_dials :
  dial_loop (mkScript Advertise false true true [DScripted (Some ELinkNotReady) false] [] [] [true]) =
  [Cancel; DialAttempt (Some ELinkNotReady); Wait 0; DialAttempt None; Task 0 None; Cleanup 0 true; Return RNil].
Proof. vm_compute. reflexivity. Qed.

(* state-based form: from any state in which the context is cancelled,
   - a re-initialisation makes at most one more dial attempt (the select race against the 0 timer),
     never sits out a back-off, and ends cancelled (-> Dial returns nil) or with a connection;
   - a back-off wait of positive length returns at once;
   - a cancellation arriving during a back-off wait ends the initialisation at that instant. *)
Theorem C10_cancel_partial :
  (forall m real e w ev w' o,
     w_cancelled w = true -> lit_recoverable e = true -> init m real (Some e) w = (ev, w', o) ->
     (count_dials ev <= 1)%nat /\ no_pos_wait ev /\ w_cancelled w' = true /\
     (o = ICanceled \/ exists k kind, o = IConn k kind)) /\
  (forall m real n i delay w, w_cancelled w = true -> 0 < delay ->
     retry m real (S n) i delay w = ([WaitCut delay 0], w, ICanceled)) /\
  (forall m real n i delay w, w_cancelled w = false -> 0 < delay -> hd false (w_waits w) = true ->
     exists w', retry m real (S n) i delay w = ([WaitCut delay cut_offset; Cancel], w', ICanceled) /\
                w_cancelled w' = true) /\
  final ICanceled = RNil /\ final (IErr ECanceled) = RNil.
Proof.
  split; [exact init_cancelled|]. split; [exact wait_when_cancelled|]. split; [exact wait_cancelled|].
  split; reflexivity.
Qed.

(* non-vacuity: a first dial failing with a syscall error, 50 failing attempts, time out after 130.5 s;
   and a run with a link change, a re-dial after two failures, then a permission error *)
Example C10_example_timeout :
  let sc := mkScript Advertise false true false (repeat (DScripted (Some ESyscall) false) 60) [] [] [] in
  let tl := timeline 0 (dial_loop sc) in
  length (filter (fun te => match snd te with DialAttempt _ => true | _ => false end) tl) = 51%nat /\
  last tl (0, Cancel) = (130500000000, Return RTimeout).
Proof. vm_compute. split; reflexivity. Qed.

Example C10_example_policy :
  timeline 0 (dial_loop (mkScript Advertise false true false
     [DScripted None false; DScripted (Some EOther) false; DScripted (Some EPerm) false; DScripted None false]
     [mkTask false (Some ELinkChange) true true true SOk false; mkTask false (Some EPerm) true true true SOk false] [] []))
  = [(0, DialAttempt None); (0, Task 0%N (Some ELinkChange)); (0, Cleanup 0%N true);
     (0, DialAttempt (Some EOther)); (250000000, DialAttempt (Some EPerm)); (750000000, DialAttempt None);
     (750000000, Task 1%N (Some EPerm)); (750000000, Cleanup 1%N true); (750000000, Return (RWrap EPerm))].
Proof. vm_compute. reflexivity. Qed.

Print Assumptions C10_constants.
Print Assumptions C10_delay_literal.
Print Assumptions C10_trace_is_chunks.
Print Assumptions C10_backoff.
Print Assumptions C10_attempts.
Print Assumptions C10_timeout_is_error.
Print Assumptions C10_policy.
Print Assumptions C10_policy_classes.
Print Assumptions C10_cancel_partial.
Print Assumptions C10_cancel.
