From CR Require Import Model.Server Proofs.Server.
