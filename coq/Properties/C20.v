(* C20 -- Server supervision: one task per interface, fail together, stop on signal.
   Statements only; proofs are in Proofs/Server.v.
   [reach n tr st]: tr is a trace of the Serve transition system with n tasks (Model.Server),
   from the initial state to st.  Traces are arbitrary: any task behaviour, any signal arrivals,
   any interleaving of the labelled steps. *)
From Coq Require Import String.
From CR Require Import Model.Server.
(* the wiring in main() the model takes for granted (one State, one Metrics, epoch = start, Serve error fatal): Properties/Main.v *)
From CR Require Properties.Main.
From CR Require Import Proofs.Server.
From Coq Require Import List Lia.
Import ListNotations.
Local Open Scope nat_scope.

(* ---- BuildTasks: one advertiser per advertising interface, one monitor per monitoring (not
   advertising) interface, none otherwise, in configuration order; then the debug HTTP task iff an
   address is configured; then the link watcher *)
Theorem C20_tasks : forall c,
  build_tasks true c =
  map (fun i => if ic_advertise i then TAdvertiser (ic_name i) else TMonitor (ic_name i))
      (filter (fun i => ic_advertise i || ic_monitor i) (c_ifaces c))
  ++ (if c_debug c then [THTTP] else []) ++ [TWatcher].
Proof. exact build_tasks_shape. Qed.

Theorem C20_tasks_advertiser : forall c n,
  In (TAdvertiser n) (build_tasks true c) <->
  exists i, In i (c_ifaces c) /\ ic_name i = n /\ ic_advertise i = true.
Proof.
  intros c n. rewrite build_tasks_shape, in_app_iff, <- in_iface_part_adv. split; auto.
  intros [H | H]; auto. exfalso. apply in_app_or in H. destruct (c_debug c); cbn in H; intuition discriminate.
Qed.

Theorem C20_tasks_monitor : forall c n,
  In (TMonitor n) (build_tasks true c) <->
  exists i, In i (c_ifaces c) /\ ic_name i = n /\ ic_advertise i = false /\ ic_monitor i = true.
Proof.
  intros c n. rewrite build_tasks_shape, in_app_iff, <- in_iface_part_mon. split; auto.
  intros [H | H]; auto. exfalso. apply in_app_or in H. destruct (c_debug c); cbn in H; intuition discriminate.
Qed.

Theorem C20_tasks_count : forall c,
  length (build_tasks true c) =
  length (filter (fun i => ic_advertise i || ic_monitor i) (c_ifaces c)) + (if c_debug c then 1 else 0) + 1.
Proof.
  intros c. rewrite C20_tasks, !app_length, map_length. destruct (c_debug c); cbn [length]; lia.
Qed.

(* every interface that gets a task subscribes to LinkDown on its own name, nothing else does *)
Theorem C20_subscriptions : forall c,
  build_subscriptions true c =
  map ic_name (filter (fun i => ic_advertise i || ic_monitor i) (c_ifaces c)).
Proof. reflexivity. Qed.

(* ---- Serve *)

(* Serve returns error e only if e is the FIRST task failure of the run, and only after every one
   of the n tasks has returned *)
Theorem C20_first_error : forall n pre e post st,
  reach n (pre ++ LServe (Some e) :: post) st ->
  (exists p1 i p2, pre = p1 ++ LRet i (Some e) :: p2 /\ no_failure p1) /\
  (forall j, j < n -> exists r, In (LRet j r) pre).
Proof. exact first_error_thm. Qed.

(* from the first failure on, the shared context is cancelled: whatever the other tasks do after
   it, they do under a cancelled context *)
Theorem C20_failure_cancels : forall n tr st,
  reach n tr st -> (exists j e, In (LRet j (Some e)) tr) -> cancelled st = true.
Proof. exact cancelled_after_failure. Qed.

(* without a task failure Serve returns nil, only after the signal task took a signal and after
   every task has returned *)
Theorem C20_signal : forall n pre r post st,
  reach n (pre ++ LServe r :: post) st -> no_failure pre ->
  r = None /\ (exists s, In (LTake s) pre) /\ (forall j, j < n -> exists r', In (LRet j r') pre).
Proof. exact signal_thm. Qed.

(* a task failure always wins: if any task failed before Serve returns, Serve returns an error *)
Theorem C20_error_wins : forall n pre r post st j e,
  reach n (pre ++ LServe r :: post) st -> In (LRet j (Some e)) pre -> r <> None.
Proof.
  intros n pre r post st j e R I. destruct (reach_split _ _ _ _ R) as [sa [Ra Rb]].
  cbn [run] in Rb. destruct (step sa (LServe r)) as [s1|] eqn:S; [| discriminate].
  destruct (step_serve_guard _ _ _ S) as [_ [_ [_ G]]]. subst r.
  pose proof (inv_first_err _ _ _ Ra) as F. destruct (first_err sa); [discriminate |].
  exfalso. exact (F j e I).
Qed.

(* whenever a task observes the cancellation and no task has failed (so the cancellation was
   caused by a signal), what it reads from terminate() is isTerminal of the signal taken: the flag
   was recorded before anyone could see the cancellation.  Rests on the extracted source order of
   signalTask.Run (set before cancel), checked by computation on the regenerated list. *)
Theorem C20_term_before_cancel : forall n pre i b post st,
  reach n (pre ++ LSee i b :: post) st -> no_failure pre ->
  exists s, In (LTake s) pre /\ b = is_terminal s.
Proof. exact term_before_cancel_thm. Qed.

Theorem C20_order : forall k,
  mem "cancel" (firstn k signal_run_order) = true -> mem "set" (firstn k signal_run_order) = true.
Proof. exact order_prefix. Qed.

(* terminate means: anything but SIGHUP (from the extracted body of isTerminal) *)
Theorem C20_is_terminal : forall s, is_terminal s = true <-> s <> SIGHUP.
Proof. exact is_terminal_spec. Qed.

Theorem C20_signals : handled_signals = [Some SIGINT; Some SIGTERM; Some SIGHUP].
Proof. exact (proj2 signals_literal). Qed.

(* the model's Serve waits for every task's Run itself and announces readiness only from the goroutine that has waited
   for every task's ready event; nobody else announces it (extracted: gen/ExtServer.v) *)
Theorem C20_serve_shape :
  serve_runs_tasks_directly = true /\ ready_after_all_tasks = true /\ main_announces_ready = 0%Z.
Proof. repeat split; reflexivity. Qed.

(* the overall READY notification is preceded by every task's ready event *)
Theorem C20_ready : forall n pre post st,
  reach n (pre ++ LNotifyReady :: post) st -> forall j, j < n -> In (LReady j) pre.
Proof. exact ready_thm. Qed.

(* partial liveness: task behaviour is unconstrained in the model, so "Serve eventually returns" is
   only provable as progress.  A running task can always return; and once every task has returned
   a pending signal drives the signal task through all its calls (including cancel) and Serve
   returns nil.  Not proved: termination under a fairness assumption for tasks that return only
   after observing the cancellation. *)
Theorem C20_signal_progress_partial : forall st s,
  pending st = Some s -> sigtask st = SWait -> served st = None -> first_err st = None ->
  forallb is_returned (tasks st) = true ->
  exists st', run st (LTake s :: repeat LAct 5 ++ [LServe None]) = Some st' /\
              served st' = Some None /\ cancelled st' = true.
Proof. exact signal_completes. Qed.

(* liveness proper.  Leave aside the two labels that can repeat for ever without changing anything
   that matters here (a further signal delivered to the full channel, a task looking at the
   cancellation again).  Then (1) every execution is finite: at most 3 steps per task, the signal
   task's select and its calls in source order, the two announcements -- serve_measure --, whatever
   the tasks do; and (2) once the context is cancelled (a signal was acted upon, or a task failed)
   the system is never stuck before Serve has returned: a task that has not returned can return, the
   signal task can finish, and then eg.Wait() returns.  Together: after a signal or a fatal error
   Serve returns, provided every task eventually returns once it can (the tasks' own guarantee:
   C08 / C10 for the advertisers and monitors). *)
Theorem C20_serve_bounded : forall tr st st',
  all_quiet tr = true -> run st tr = Some st' -> length tr + serve_measure st' <= serve_measure st.
Proof. exact quiet_run_bounded. Qed.

Theorem C20_serve_progress : forall st, cancelled st = true -> served st = None ->
  exists l st', quiet_label l = true /\ step st l = Some st'.
Proof. exact serve_progress. Qed.

Theorem C20_task_can_return : forall st i t r,
  nth_error (tasks st) i = Some t -> t_status t = Running -> exists st', step st (LRet i r) = Some st'.
Proof. exact task_can_return. Qed.

(* ---- serve(): at most 40 listen attempts; giving up means exactly 40 were made *)
Theorem C20_http_attempts : forall delay cancel_at oracle,
  length (snd (serve delay cancel_at oracle)) <= 40 /\
  (fst (serve delay cancel_at oracle) = SRTimeout -> length (snd (serve delay cancel_at oracle)) = 40).
Proof. intros. unfold serve. rewrite serve_attempts_40. apply serve_loop_calls. Qed.

(* non-vacuity.  (1) SIGHUP, two tasks: both read terminate() = false, Serve returns nil.
   (2) task 1 fails while a SIGTERM is pending: the error wins, task 0 may read either value. *)
Example C20_example_signal :
  exists st, reach 2 [LStart 0; LStart 1; LReady 0; LReady 1; LNotifyReady; LSig SIGHUP; LTake SIGHUP;
                      LAct; LAct; LAct; LAct; LSee 0 false; LSee 1 false; LAct; LRet 1 None; LRet 0 None;
                      LServe None] st /\ served st = Some None.
Proof. eexists. split; [unfold reach; vm_compute; reflexivity | vm_compute; reflexivity]. Qed.

Example C20_example_error :
  exists st, reach 2 [LStart 0; LStart 1; LSig SIGTERM; LRet 1 (Some 9%N); LSee 0 false; LTake SIGTERM; LAct;
                      LRet 0 None; LAct; LAct; LAct; LAct; LServe (Some 9%N)] st /\ served st = Some (Some 9%N).
Proof. eexists. split; [unfold reach; vm_compute; reflexivity | vm_compute; reflexivity]. Qed.

Example C20_example_tasks :
  build_tasks true (mkCfg [mkIf 1 false true; mkIf 2 true false; mkIf 3 false false; mkIf 4 true true] true)
  = [TMonitor 1; TAdvertiser 2; TAdvertiser 4; THTTP; TWatcher].
Proof. reflexivity. Qed.

Print Assumptions C20_tasks.
Print Assumptions C20_tasks_advertiser.
Print Assumptions C20_tasks_monitor.
Print Assumptions C20_tasks_count.
Print Assumptions C20_subscriptions.
Print Assumptions C20_first_error.
Print Assumptions C20_failure_cancels.
Print Assumptions C20_signal.
Print Assumptions C20_error_wins.
Print Assumptions C20_term_before_cancel.
Print Assumptions C20_order.
Print Assumptions C20_is_terminal.
Print Assumptions C20_signals.
Print Assumptions C20_ready.
Print Assumptions C20_signal_progress_partial.
Print Assumptions C20_task_can_return.
Print Assumptions C20_serve_bounded.
Print Assumptions C20_serve_progress.
Print Assumptions C20_http_attempts.
Print Assumptions C20_serve_shape.
