(* C18 -- Monitor metrics describe every received message exactly.
   Statements only; each is closed by a lemma of Proofs/Monitor.v.
   [monitor_handle iface host now msg] is the model of Monitor.handle (the list of metricslite
   operations, in call order); [monitor_receive] adds the listener (zone stripped);
   [monitor_run iface hist s] the series after a history of receptions.  [now] is the receipt time
   in ns since the UNIX epoch and may be ANY integer (also negative = before 1970): Unix() is the
   floor.  Assumed about the real clock: now and now + lifetime are representable time.Time
   values and the resulting second fits float64 exactly (|s| < 2^53). *)
From CR Require Import Model.Monitor.
(* the code computes instants and durations on one clock (extracted): one_clock in Properties/Clock.v *)
From CR Require Properties.Clock.
From CR Require Import Proofs.Monitor.
Local Open Scope Z_scope.

(* ---- every message, of every type: exactly one Add, of 1, on
   received_total{interface, host, message type} (and nothing else touches that counter) *)
Theorem C18_count : forall iface host now msg,
  filter is_add (monitor_handle iface host now msg) =
    [MAdd MReceived (mkLabels iface host None (Some (msg_type msg))) 1] /\
  filter (fun op => metric_eqb (op_metric op) MReceived) (monitor_handle iface host now msg) =
    [MAdd MReceived (mkLabels iface host None (Some (msg_type msg))) 1].
Proof. intros. split; [apply handle_adds | apply handle_received_ops]. Qed.

(* ---- RS / NS / NA ...: nothing but the count *)
Theorem C18_other_messages : forall iface host now ty,
  monitor_handle iface host now (MsgOther ty) = [MAdd MReceived (mkLabels iface host None (Some ty)) 1].
Proof. exact handle_other. Qed.

(* ---- a router advertisement: the count, the two flag gauges, the default-route expiry
   floor((now + router lifetime) / 1 s) iff the lifetime is non-zero, then for each prefix
   information option, in order, the four gauges labelled by the (prefix, length) pair exactly as
   received (cidr = the pair itself for lengths 0..128) *)
Theorem C18_router_advertisement : forall iface host now r,
  monitor_handle iface host now (MsgRA r) =
  MAdd MReceived (mkLabels iface host None (Some 134%N)) 1 ::
  MSet MFlagManaged (mkLabels iface host None None) (if ra_managed r then 1 else 0) ::
  MSet MFlagOther (mkLabels iface host None None) (if ra_other r then 1 else 0) ::
  (if ra_lifetime r =? 0 then []
   else [MSet MDefaultRoute (mkLabels iface host None None) ((now + ra_lifetime r) / 1000000000)]) ++
  flat_map (fun o =>
     match o with
     | OPrefix len onlink autonomous valid preferred pfx =>
         let lb := mkLabels iface host (Some (cidr pfx len)) None in
         [ MSet MPrefixAutonomous lb (if autonomous then 1 else 0);
           MSet MPrefixOnLink lb (if onlink then 1 else 0);
           MSet MPrefixPreferred lb ((now + preferred) / 1000000000);
           MSet MPrefixValid lb ((now + valid) / 1000000000) ]
     | _ => []
     end) (ra_opts r).
Proof. exact handle_ra. Qed.

Theorem C18_prefix_label : forall pfx len, (len <= 128)%N -> cidr pfx len = PL pfx len.
Proof. intros. unfold cidr. apply N.leb_le in H. rewrite H. reflexivity. Qed.

(* the expiry gauges are the UNIX second that contains now + lifetime (floor, also before 1970) *)
Theorem C18_expiry_floor : forall now d,
  let s := (now + d) / 1000000000 in 1000000000 * s <= now + d < 1000000000 * (s + 1).
Proof. intros. pose proof (unix_of_floor now d) as [E H]. subst s. rewrite <- E. exact H. Qed.

(* ---- options other than prefix information (unknown ones included) contribute nothing *)
Theorem C18_other_options_ignored : forall iface host now r,
  monitor_handle iface host now (MsgRA r) =
  monitor_handle iface host now
    (MsgRA (mkRA (ra_hop r) (ra_managed r) (ra_other r) (ra_pref r) (ra_lifetime r) (ra_reachable r)
                 (ra_retrans r) (filter is_prefix_opt (ra_opts r)))).
Proof. exact handle_ignores_other_options. Qed.

(* ---- labels: the own interface, the sender without its zone *)
Theorem C18_labels : forall iface a z now msg op,
  In op (monitor_receive iface (a, z) now msg) ->
  l_iface (op_labels op) = iface /\ l_host (op_labels op) = (a, 0%N).
Proof.
  intros. split; [|eapply receive_no_zone; eassumption].
  unfold monitor_receive in H. apply handle_labels in H. tauto.
Qed.
Theorem C18_zone_irrelevant : forall iface a z z' now msg,
  monitor_receive iface (a, z) now msg = monitor_receive iface (a, z') now msg.
Proof. exact receive_zone_irrelevant. Qed.

(* ---- never fails: monitor_handle is a total function returning operations only (no error
   outcome exists in the model; the driver checks that the real handle neither panics nor
   stops the listener) -- stated as: it always performs the count *)
Theorem C18_total : forall iface host now msg, exists rest,
  monitor_handle iface host now msg = MAdd MReceived (mkLabels iface host None (Some (msg_type msg))) 1 :: rest.
Proof. intros. destruct msg; eexists; reflexivity. Qed.

(* ---- histories.  The series after a sequence of messages is the fold of all operations in
   order: Set overwrites, Add accumulates *)
Theorem C18_history : forall iface hist s k,
  lookup (monitor_run iface hist s) k = fold_left (op_effect k) (history_ops iface hist) (lookup s k).
Proof. exact monitor_run_ops. Qed.

Theorem C18_history_compositional : forall iface h1 h2 s,
  monitor_run iface (h1 ++ h2) s = monitor_run iface h2 (monitor_run iface h1 s).
Proof. exact monitor_run_app. Qed.

(* the counter after any history = the number of messages from that address (whatever the zone)
   of that type; absent when there was none *)
Theorem C18_history_counter : forall iface a ty hist,
  lookup (monitor_run iface hist []) (MReceived, mkLabels iface (a, 0%N) None (Some ty)) =
  let n := length (filter (fun rx => N.eqb (fst (rx_host rx)) a && N.eqb (msg_type (rx_msg rx)) ty) hist) in
  if Nat.eqb n 0 then None else Some (Z.of_nat n).
Proof. exact history_counter. Qed.

(* a gauge after any history = the value written by the last message that wrote it *)
Theorem C18_history_gauge : forall iface hist k,
  fst k <> MReceived ->
  lookup (monitor_run iface hist []) k =
  fold_left (fun acc rx => match written_by iface k rx with Some v => Some v | None => acc end) hist None.
Proof. exact history_gauge_last. Qed.

(* ... where a message writes: the flags, iff it is an RA from that router *)
Theorem C18_writes_flags : forall iface a rx,
  written_by iface (MFlagManaged, mkLabels iface (a, 0%N) None None) rx =
    match rx_msg rx with
    | MsgRA r => if N.eqb (fst (rx_host rx)) a then Some (if ra_managed r then 1 else 0) else None
    | MsgOther _ => None
    end /\
  written_by iface (MFlagOther, mkLabels iface (a, 0%N) None None) rx =
    match rx_msg rx with
    | MsgRA r => if N.eqb (fst (rx_host rx)) a then Some (if ra_other r then 1 else 0) else None
    | MsgOther _ => None
    end.
Proof. intros. split; [apply written_flag_managed | apply written_flag_other]. Qed.

(* ... the default-route expiry, iff it is an RA from that router with a non-zero lifetime (an RA
   with router lifetime 0 leaves an earlier expiry in place) *)
Theorem C18_writes_default_route : forall iface a rx,
  written_by iface (MDefaultRoute, mkLabels iface (a, 0%N) None None) rx =
  match rx_msg rx with
  | MsgRA r => if N.eqb (fst (rx_host rx)) a && negb (ra_lifetime r =? 0)
               then Some ((rx_now rx + ra_lifetime r) / 1000000000) else None
  | MsgOther _ => None
  end.
Proof. exact written_default_route. Qed.

(* ... a prefix gauge, iff it is an RA from that router with an option for that (prefix, length);
   the last such option of the RA decides *)
Theorem C18_writes_prefix : forall mt iface a pl rx,
  is_prefix_metric mt = true ->
  written_by iface (mt, mkLabels iface (a, 0%N) (Some pl) None) rx =
  match rx_msg rx with
  | MsgRA r => if N.eqb (fst (rx_host rx)) a
               then last_prefix_value (prefix_metric_value mt (rx_now rx)) pl (ra_opts r) else None
  | MsgOther _ => None
  end.
Proof. exact written_prefix_gauge. Qed.

(* ---- non-vacuity: two routers (one with a zone), an RA with a repeated and an unmasked prefix,
   an infinite lifetime, a zero router lifetime after a non-zero one, a receipt time before 1970 *)
Definition ex_ra1 : ra :=
  mkRA 64 true false Medium (1800 * sec) 0 0
    [OPrefix 64 true true (86400 * sec) (14400 * sec) 100; OOther 200; OMTU 1500;
     OPrefix 64 false true infinity 0 101; OPrefix 64 true false (10 * sec) (5 * sec) 100].
Definition ex_ra2 : ra := mkRA 64 false true Medium 0 0 0 [].
Definition ex_hist : list reception :=
  [ mkRx (1%N, 7%N) (1700000000 * sec + 999999999) (MsgRA ex_ra1);
    mkRx (2%N, 0%N) (-1) (MsgOther 133);
    mkRx (1%N, 0%N) (1700000100 * sec) (MsgRA ex_ra2);
    mkRx (1%N, 7%N) (1700000200 * sec) (MsgOther 135) ].

Example C18_example :
  let s := monitor_run 9 ex_hist [] in
  let r1 := mkLabels 9 (1%N, 0%N) None None in
  lookup s (MReceived, mkLabels 9 (1%N, 0%N) None (Some 134%N)) = Some 2 /\
  lookup s (MReceived, mkLabels 9 (1%N, 0%N) None (Some 135%N)) = Some 1 /\
  lookup s (MReceived, mkLabels 9 (2%N, 0%N) None (Some 133%N)) = Some 1 /\
  lookup s (MReceived, mkLabels 9 (1%N, 7%N) None (Some 134%N)) = None /\
  lookup s (MFlagManaged, r1) = Some 0 /\ lookup s (MFlagOther, r1) = Some 1 /\
  lookup s (MDefaultRoute, r1) = Some 1700001800 /\
  lookup s (MPrefixValid, mkLabels 9 (1%N, 0%N) (Some (PL 100 64)) None) = Some 1700000010 /\
  lookup s (MPrefixOnLink, mkLabels 9 (1%N, 0%N) (Some (PL 100 64)) None) = Some 1 /\
  lookup s (MPrefixValid, mkLabels 9 (1%N, 0%N) (Some (PL 101 64)) None) = Some 5994967295 /\
  lookup s (MPrefixPreferred, mkLabels 9 (1%N, 0%N) (Some (PL 101 64)) None) = Some 1700000000 /\
  length s = 14%nat.
Proof. vm_compute. repeat split; reflexivity. Qed.

Example C18_example_before_1970 :
  monitor_handle 9 (2%N, 0%N) (-1) (MsgRA (mkRA 0 false false Low (1 * sec) 0 0 [])) =
  [MAdd MReceived (mkLabels 9 (2%N, 0%N) None (Some 134%N)) 1;
   MSet MFlagManaged (mkLabels 9 (2%N, 0%N) None None) 0; MSet MFlagOther (mkLabels 9 (2%N, 0%N) None None) 0;
   MSet MDefaultRoute (mkLabels 9 (2%N, 0%N) None None) 0] /\
  monitor_handle 9 (2%N, 0%N) (-1000000001) (MsgRA (mkRA 0 false false Low (1 * sec) 0 0 [])) =
  [MAdd MReceived (mkLabels 9 (2%N, 0%N) None (Some 134%N)) 1;
   MSet MFlagManaged (mkLabels 9 (2%N, 0%N) None None) 0; MSet MFlagOther (mkLabels 9 (2%N, 0%N) None None) 0;
   MSet MDefaultRoute (mkLabels 9 (2%N, 0%N) None None) (-1)].
Proof. split; vm_compute; reflexivity. Qed.

Print Assumptions C18_count.
Print Assumptions C18_other_messages.
Print Assumptions C18_router_advertisement.
Print Assumptions C18_prefix_label.
Print Assumptions C18_expiry_floor.
Print Assumptions C18_other_options_ignored.
Print Assumptions C18_labels.
Print Assumptions C18_zone_irrelevant.
Print Assumptions C18_total.
Print Assumptions C18_history.
Print Assumptions C18_history_compositional.
Print Assumptions C18_history_counter.
Print Assumptions C18_history_gauge.
Print Assumptions C18_writes_flags.
Print Assumptions C18_writes_default_route.
Print Assumptions C18_writes_prefix.
