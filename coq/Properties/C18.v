(* C18 -- placeholder, filled in below. *)
From CR Require Import Model.Monitor.
Example C18_placeholder : monitor_handle 1 (2%N, 0%N) 0%Z (MsgOther 133) = [MAdd MReceived (mkLabels 1 (2%N, 0%N) None (Some 133%N)) 1%Z].
Proof. reflexivity. Qed.
