(* Send workers against the scheduler's stop (internal/corerad/advertise.go, type workers): in the cone of C08 and
   C10.  The step relation is chosen by what the source says (gen/ExtWorkers.v): start() tests `stopped` and counts
   the worker in one critical section, stop() sets the flag in that critical section before it waits.
   Statements only. *)
From CR Require Import gen.ExtWorkers Model.Workers Proofs.Workers.

Theorem workers_shape :
  workers_start_atomic = true /\ workers_stop_sets_then_waits = true /\ workers_done_is_done = true /\
  workers_zero_value = true.
Proof. repeat split; reflexivity. Qed.

Definition code_atomic : bool := workers_start_atomic && workers_stop_sets_then_waits && workers_done_is_done.

(* every execution of any length, any number of workers: once stop() has returned no transmission is in flight and
   none is between the test and the count *)
Theorem C08_workers_quiesced : forall ls s,
  wrun code_atomic winit ls = Some s -> phase s = 2 -> started s = 0 /\ checked s = 0.
Proof. exact quiesced. Qed.

(* ... and none starts afterwards: the only thing a timer callback can still do is be refused *)
Theorem C08_workers_nothing_starts : forall ls s l s',
  wrun code_atomic winit ls = Some s -> phase s = 2 -> wstep code_atomic s l = Some s' -> l = WRefuse /\ s' = s.
Proof. exact nothing_starts. Qed.

(* stop() returns: while it waits no worker is added, every counted worker can finish, and with none left Wait
   returns (a transmission that never finishes is the socket's business: C08_returns_partial) *)
Theorem C08_workers_stop_progress : forall ls s,
  wrun code_atomic winit ls = Some s -> phase s = 1 ->
  (started s = 0 /\ exists s', wstep code_atomic s WWait = Some s' /\ phase s' = 2) \/
  (0 < started s /\ exists s', wstep code_atomic s WDone = Some s' /\ started s' < started s /\ phase s' = 1).
Proof. exact stop_progress. Qed.

Theorem C08_workers_count_never_grows_while_waiting : forall ls s l s',
  wrun code_atomic winit ls = Some s -> 1 <= phase s -> wstep code_atomic s l = Some s' -> started s' <= started s.
Proof. exact waiting_count_never_grows. Qed.

(* what the extracted shape excludes: test and count in two steps *)
Theorem C08_workers_lockfree_refuted :
  exists s, wrun false winit [WCheck; WSet; WWait; WAdd] = Some s /\ phase s = 2 /\ started s = 1.
Proof. exact lockfree_overtaken. Qed.

(* non-vacuity: three workers, two in flight when stop() is called *)
Example C08_workers_example :
  option_map (fun s => (phase s, started s))
    (wrun code_atomic winit [WStart; WStart; WDone; WStart; WSet; WRefuse; WDone; WDone; WWait; WRefuse]) = Some (2, 0).
Proof. reflexivity. Qed.

Print Assumptions workers_shape.
Print Assumptions C08_workers_quiesced.
Print Assumptions C08_workers_nothing_starts.
Print Assumptions C08_workers_stop_progress.
Print Assumptions C08_workers_count_never_grows_while_waiting.
Print Assumptions C08_workers_lockfree_refuted.
