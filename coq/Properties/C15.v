(* C15 -- Wildcard route ::/0 expands to the maximal, non-overlapping loopback routes.
   Statements only; each is closed by a lemma of Proofs/Wildcard.v.
   [route_list l] is the list of (address, length) prefixes Route.current returns for the route dump l
   (code as repaired by a252649); [route_Apply true ...] are the options Route.Apply appends. *)
From CR Require Import Model.Wildcard.
(* Prepare binds Routes to the rtnetlink addresser's LoopbackRoutes (extracted): fresh_sources in Properties/Fresh.v *)
From CR Require Properties.Fresh.
From CR Require Import Proofs.WildcardSort.
From CR Require Import Proofs.Wildcard.
From CR Require Corr.C15.
From CR Require Import Proofs.WildcardCorr15.
From Coq Require Import Permutation Sorted Lia.
Local Open Scope N_scope.

(* route q strictly contains the prefix a/b: an IPv6 route, strictly shorter, whose network holds a *)
Definition inside (q : sysroute) (a b : N) : Prop :=
  rt_v4 q = false /\ rt_bits q < b /\ contains (rt_addr q) (rt_bits q) a = true.

(* exactly the IPv6 routes that are not /128 host routes and not contained in a different, shorter route *)
Theorem C15_mem : forall l a b,
  In (a, b) (route_list l) <->
  exists r, In r l /\ rt_v4 r = false /\ rt_addr r = a /\ rt_bits r = b /\ b <> 128 /\
            ~ exists q, In q l /\ inside q a b.
Proof.
  intros l a b. rewrite route_list_in. unfold inside. split.
  - intros [r [Hin [Hok Hp]]]. inversion Hp; subst. apply route_ok_iff in Hok.
    exists r. tauto.
  - intros [r [Hin [H4 [<- [<- [H128 Hn]]]]]]. exists r. split; [exact Hin|]. split; [|reflexivity].
    apply route_ok_iff. tauto.
Qed.

(* each once ... *)
Theorem C15_nodup : forall l, NoDup (route_list l).
Proof. exact route_list_nodup. Qed.

(* ... in strictly ascending address order (in particular no two results share an address) *)
Theorem C15_sorted : forall l, StronglySorted (fun x y => fst x < fst y) (route_list l).
Proof. exact route_list_sorted. Qed.

(* independent of the order and multiplicity of the dump *)
Theorem C15_set : forall l l', (forall r, In r l <-> In r l') -> route_list l = route_list l'.
Proof. exact route_list_set_ext. Qed.

Theorem C15_perm : forall l l', Permutation l l' -> route_list l = route_list l'.
Proof. exact route_list_perm. Qed.

Theorem C15_dup : forall r l, In r l -> route_list (r :: l) = route_list l.
Proof. exact route_list_dup. Qed.

(* the dump is canonical when no IPv6 route has address bits set below its length (the kernel refuses
   any other route) *)
Definition canonical (l : list sysroute) : bool :=
  forallb (fun r => rt_v4 r || (mask (rt_addr r) (rt_bits r) =? rt_addr r)) l.

(* no two different results overlap: the rule the configuration enforces for static routes
   (netip.Prefix.Overlaps = Base.IP.overlaps) *)
Theorem C15_no_overlap : forall l p q,
  canonical l = true -> In p (route_list l) -> In q (route_list l) -> p <> q ->
  overlaps (fst p) (snd p) (fst q) (snd q) = false.
Proof. exact route_list_no_overlap. Qed.

(* without canonicity the claim fails: two spellings of one /64 are both advertised *)
Theorem C15_no_overlap_needs_canonical :
  exists l p q, In p (route_list l) /\ In q (route_list l) /\ p <> q /\
                overlaps (fst p) (snd p) (fst q) (snd q) = true.
Proof.
  exists [mkRoute false 0x20010db8000000000000000000000001 64; mkRoute false 0x20010db8000000000000000000000002 64],
         (0x20010db8000000000000000000000001, 64), (0x20010db8000000000000000000000002, 64).
  vm_compute. repeat split; try tauto. discriminate.
Qed.

(* maximal: every IPv6 non-host route of the dump is one of, or lies inside, an advertised route *)
Theorem C15_cover : forall l r,
  (forall r, In r l -> rt_bits r <= 128) ->
  In r l -> rt_v4 r = false -> rt_bits r <> 128 ->
  exists p, In p (route_list l) /\ snd p <= rt_bits r /\ contains (fst p) (snd p) (rt_addr r) = true.
Proof. intros l r Hv. exact (route_list_cover l Hv (rt_bits r) r eq_refl). Qed.

(* every produced option carries the stanza's preference and (C16) lifetime; one option per route *)
Theorem C15_uniform : forall pfx pbits prf lifetime deprecated epoch now l,
  route_Apply true pfx pbits prf lifetime deprecated epoch now (Some l) =
  Ok (map (fun r => ORoute (snd r) prf (route_lifetime deprecated epoch lifetime now) (fst r)) (route_list l)).
Proof. intros. apply route_Apply_auto. Qed.

(* a failing route dump fails RA generation; a successful one never does *)
Theorem C15_error : forall pfx pbits prf lifetime deprecated epoch now routes,
  is_ok (route_Apply true pfx pbits prf lifetime deprecated epoch now routes) = false <-> routes = None.
Proof.
  intros. destruct routes as [l|]; cbn; split; try reflexivity; discriminate.
Qed.

(* the specification checker that is evaluated on the implementation's observed output (Corr.C15.holds)
   accepts the model's output on every input *)
Theorem C15_checker_accepts_model :
  forall prf lifetime deprecated epoch now routes,
  Corr.C15.holds (Corr.C15.mkCase prf lifetime deprecated epoch now routes
    (route_Apply true 0 0 prf lifetime deprecated epoch now routes)) = true.
Proof. exact Proofs.WildcardCorr15.C15_checker_accepts_model. Qed.

(* non-vacuity: the three lists on which the code failed before a252649, and a mixed dump *)
Definition db8 (bits : N) : sysroute := mkRoute false 0x20010db8000000000000000000000000 bits.
Definition ex_dump : list sysroute :=
  [ db8 64; db8 48; db8 128;                                        (* 2001:db8::/64 /48 /128 *)
    mkRoute false 0x20010db8000000010000000000000000 64;            (* 2001:db8:0:1::/64, inside the /48 *)
    mkRoute false 0x20010db9000000000000000000000000 64;            (* 2001:db9::/64 *)
    mkRoute false 0x20010db9000000000000000000000000 64;            (* ... dumped twice *)
    mkRoute true 167772160 8;                                       (* 10.0.0.0/8 *)
    mkRoute true 0 0;                                               (* 0.0.0.0/0: shorter than everything, other family *)
    mkRoute false 0xfd000000000000000000000000000000 8 ].           (* fd00::/8 *)

Example C15_example :
  route_list [db8 48; db8 64] = [(0x20010db8000000000000000000000000, 48)]
  /\ route_list [db8 64; db8 128] = [(0x20010db8000000000000000000000000, 64)]
  /\ route_list [db8 64; db8 64] = [(0x20010db8000000000000000000000000, 64)]
  /\ route_list ex_dump = [ (0x20010db8000000000000000000000000, 48); (0x20010db9000000000000000000000000, 64);
                            (0xfd000000000000000000000000000000, 8) ]
  /\ route_list (rev ex_dump) = route_list ex_dump
  /\ canonical ex_dump = true.
Proof. repeat split; vm_compute; reflexivity. Qed.

Print Assumptions C15_mem.
Print Assumptions C15_nodup.
Print Assumptions C15_sorted.
Print Assumptions C15_set.
Print Assumptions C15_perm.
Print Assumptions C15_dup.
Print Assumptions C15_no_overlap.
Print Assumptions C15_no_overlap_needs_canonical.
Print Assumptions C15_cover.
Print Assumptions C15_uniform.
Print Assumptions C15_error.
Print Assumptions C15_checker_accepts_model.
Print Assumptions C15_example.
