(* C07 -- Each valid RS is answered exactly once, to the right destination, in time.
   History as in C06; [ReqUni a r]: solicitation from the specified (non-multicast) source a whose
   random delay drew r, 0 <= r < 500 ms (part of [hist_ok]).  Statements hold for every history
   length and every draw; the run is one between (re)initialisation and stop (pending answers of
   a stopped interface are dropped: C08/C10). *)
From CR Require Import Model.Sched Proofs.Sched Base.IP.
(* the code computes instants and durations on one clock (extracted): one_clock in Properties/Clock.v *)
From CR Require Properties.Clock.
From Coq Require Import Lia.
(* the plugin lock can never hang an RA build / scrape / API request: C17_lock_discipline (extracted),
   C17_lock_no_deadlock, C17_lock_terminates, C17_lock_reentrant_deadlock are stated in Properties/C17lock.v *)
From CR Require Properties.C17lock.
Local Open Scope Z_scope.

(* the transmissions to a specified address are exactly one per solicitation from it, at t + r *)
Theorem C07_once : forall unicast_only a t0 h, is_multicast a = false ->
  uni_to a (run_sends unicast_only t0 h) = map (fun tr => fst tr + snd tr) (rs_times a h).
Proof. exact run_unicast. Qed.

(* ... each after a delay in [0, 500 ms) *)
Theorem C07_delay : forall a t0 h, hist_ok t0 h ->
  Forall (fun tr => 0 <= snd tr < 500 * ms) (rs_times a h).
Proof. intros a t0 h. exact (rs_times_delay a h t0). Qed.

(* every destination is all-nodes or the source of some solicitation *)
Theorem C07_dest : forall unicast_only t0 h s, In s (run_sends unicast_only t0 h) ->
  snd s = all_nodes \/ exists t r, In (t, ReqUni (snd s) r) h.
Proof. exact run_dest. Qed.

(* a solicitation from :: is served by an all-nodes RA within 3 s (C06) *)
Theorem C07_unspecified : forall t0 h t, hist_ok t0 h -> In (t, ReqMulti) h ->
  exists s, In s (multi_times (run_sends false t0 h)) /\ t <= s <= t + 3 * sec.
Proof. exact run_served. Qed.

(* unicast-only mode never transmits to a multicast destination at all *)
Theorem C07_unicast_only : forall t0 h s, In s (run_sends true t0 h) -> is_multicast (snd s) = false.
Proof. intros t0 h s. unfold run_sends. apply transmitted_unicast_only. Qed.

Example C07_example :
  let a := 338288524927261089654018896841347694594%N in   (* fe80::2 *)
  let h := [(1 * sec, ReqUni a (100 * ms)); (1 * sec + 5, ReqUni a 0); (2 * sec, ReqMulti)] in
  hist_ok 0 h /\ is_multicast a = false /\
  uni_to a (run_sends false 0 h) = [1100 * ms; 1 * sec + 5].
Proof. cbn zeta. split; [cbn; unfold sec, ms; repeat split; try reflexivity; lia|split; vm_compute; reflexivity]. Qed.

Print Assumptions C07_once.
Print Assumptions C07_delay.
Print Assumptions C07_dest.
Print Assumptions C07_unspecified.
Print Assumptions C07_unicast_only.
