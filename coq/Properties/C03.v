(* C03 -- an accepted configuration always yields a wire-encodable, meaning-preserving RA.
   Statements only; proofs are in Proofs/Wire.v.
     build          Model/Build.v   (RA construction, property C01)
     encode/decode  Model/Wire.v    (field-level model of mdlayher/ndp v1.1.0; wire_meaning = an RFC reader)
     cfg_ok         Model/CfgWfBuild.v: what config.Parse guarantees (durations in [0, infinity], router lifetime
                    <= 9000 s, timers <= 1 h, masked IPv6 prefixes, PREF64 prefix IPv6/masked/length in
                    {96,64,56,48,40,32} with lifetime = NewPREF64(max), mtu <= 65536, non-empty URI / lists)
   Assumptions of the property's quantifier: sizes_ok (option element counts within the 8-bit length),
   sys_wf (MAC absent or 6 bytes, OS routes masked), DNS names well-formed (names are opaque in the model).
   Explicit extra hypothesis: clock_ok (a deprecated lifetime epoch + L - now fits 32 bits of seconds; it
   holds whenever now >= epoch: C03_clock).
   The full statement is FALSE for ndp v1.1.0 on two input classes (known findings, C03_*_refuted); the
   theorem is proved for their complement [ndp_okb]. *)
From CR Require Import Model.Build Model.Wire Model.CfgWfBuild Proofs.Wire.
(* the code computes instants and durations on one clock (extracted): one_clock in Properties/Clock.v *)
From CR Require Properties.Clock.
Local Open Scope Z_scope.

(* every RA built from an accepted configuration is wire_ok ... *)
Theorem C03_wire_ok : forall c s r,
  cfg_ok c = true -> sizes_ok c = true -> sys_wf s -> clock_okb c s = true ->
  build c s = Ok r -> wire_ok r.
Proof. exact built_wire_ok. Qed.

(* ... where wire_ok means: every duration non-negative and inside its field (16-bit seconds, 32-bit
   milliseconds, 32-bit seconds, 13 bits of 8-second units), every PREF64 prefix IPv6, masked, of an
   admissible length (the remaining clauses -- masked prefixes, non-empty lists, 6-byte MAC, option sizes --
   are the boolean wire_okb itself) *)
Theorem C03_wire_ok_meaning : forall r, wire_ok r ->
  0 <= ra_lifetime r < 65536 * sec /\ 0 <= ra_reachable r < 4294967296 * ms /\
  0 <= ra_retrans r < 4294967296 * ms /\
  (forall o d, In o (ra_opts r) -> In d (opt_lifetimes o) -> 0 <= d < 4294967296 * sec) /\
  (forall v4 a bits t, In (OPref64 v4 a bits t) (ra_opts r) ->
     v4 = false /\ In bits [96; 64; 56; 48; 40; 32]%N /\ mask a bits = a /\
     0 <= t <= 65528 * sec /\ t mod (8 * sec) = 0).
Proof. exact wire_ok_ranges. Qed.

(* a wire_ok RA outside the two known-finding classes encodes, and reading the wire image back gives the RA
   truncated to seconds / milliseconds; ndp v1.1.0's own decoder agrees up to [ndp_view] *)
Theorem codec_roundtrip : forall r, wire_ok r -> ndp_okb r = true ->
  exists w, encode r = Ok w /\ wire_meaning w = Ok (trunc r) /\ decode w = Ok (ndp_view (trunc r)).
Proof. exact codec_roundtrip_lemma. Qed.

Theorem C03 : forall c s r,
  cfg_ok c = true -> sizes_ok c = true -> sys_wf s -> clock_okb c s = true ->
  build c s = Ok r -> ndp_okb r = true ->
  exists w, encode r = Ok w /\ wire_meaning w = Ok (trunc r) /\ decode w = Ok (ndp_view (trunc r)).
Proof. exact accepted_config_roundtrip. Qed.

(* [ndp_view] changes nothing but Route Information prefixes whose length is not a whole number of bytes *)
Theorem C03_ndp_view : forall o,
  match o with ORoute l _ _ a => (l mod 8 = 0)%N /\ mask a l = a | _ => True end -> ndp_view_opt o = o.
Proof. exact ndp_view_opt_id. Qed.

(* the clock hypothesis holds when the clock does not read earlier than the epoch *)
Theorem C03_clock : forall c s, cfg_ok c = true -> s_epoch s <= s_now s -> clock_okb c s = true.
Proof. exact clock_ok_after_epoch. Qed.

(* outside the known-finding classes: all lifetimes below 2^24 s (194 days) or whole seconds, and every
   option at most 248 bytes *)
Theorem C03_ndp_ok_sufficient : forall r,
  0 <= ra_lifetime r < 16777216 * sec ->
  (forall o d, In o (ra_opts r) -> In d (opt_lifetimes o) -> 0 <= d < 16777216 * sec \/ (0 <= d /\ d mod sec = 0)) ->
  (forall o, In o (ra_opts r) -> (opt_wire_len o <= 248)%N) ->
  ndp_okb r = true.
Proof. exact ndp_okb_sufficient. Qed.

(* ---- the full statement (no ndp_okb hypothesis) and its refutation *)
Definition C03_full_statement : Prop := forall c s r,
  cfg_ok c = true -> sizes_ok c = true -> sys_wf s -> clock_okb c s = true -> build c s = Ok r ->
  exists w, encode r = Ok w /\ wire_meaning w = Ok (trunc r).

(* known finding 1 (float_seconds_roundup): valid_lifetime = 4294967294.9999999 s is accepted, the RA is
   wire_ok and encodes, but the wire says 4294967295 s = infinity *)
Theorem C03_roundup_refuted :
  cfg_ok wit_roundup = true /\ sizes_ok wit_roundup = true /\ sys_wfb wit_sys = true /\
  clock_okb wit_roundup wit_sys = true /\
  exists r w, build wit_roundup wit_sys = Ok r /\ wire_okb r = true /\ encode r = Ok w /\
    wire_meaning w <> Ok (trunc r) /\
    exists rest, ra_opts r = [OPrefix 64%N true true (4294967294 * sec + 999999900) sec 42540766411282592856903984951653826560%N]
      /\ wire_meaning w = Ok (mkRA 64%N false false Medium (1800 * sec) 0 0
                               (OPrefix 64%N true true infinity sec 42540766411282592856903984951653826560%N :: rest)).
Proof. exact roundup_refuted. Qed.

(* known finding 2 (option_over_248_bytes): an RDNSS stanza with 16 servers is accepted, the RA is wire_ok
   (33 units fit the 8-bit length), but ndp v1.1.0 refuses to encode it *)
Theorem C03_oversize_refuted :
  cfg_ok wit_oversize = true /\ sizes_ok wit_oversize = true /\ sys_wfb wit_sys = true /\
  clock_okb wit_oversize wit_sys = true /\
  exists r, build wit_oversize wit_sys = Ok r /\ wire_okb r = true /\ encode r = Err E_ENC.
Proof. exact oversize_refuted. Qed.

Theorem C03_full_refuted : ~ C03_full_statement.
Proof.
  intros F. destruct oversize_refuted as (Hc & Hs & Hw & Hk & r & Hb & _ & He).
  destruct (F _ _ _ Hc Hs Hw Hk Hb) as (w & Hw' & _). rewrite He in Hw'. discriminate.
Qed.

(* ---- non-vacuity: the C01 reference-shaped configuration satisfies every hypothesis of C03 *)
Definition ex_sys : sys :=
  mkSys (Some [mkIP false 42540766411282592856904265327123268393%N 64 false false false false false true;
               mkIP false 338288524927261089654018896841347694593%N 64 false false false false false false])
        (Some [mkRoute false 42540766411282592856903984951653826560%N 48])
        (Some [2; 0; 94; 0; 0; 1]%N) (1700000010 * sec + 5) (1700000000 * sec) true.
Definition ex_iface : iface :=
  mkIface 1%N false true false (198 * sec) (600 * sec) false true (1500 * us) 0 64%N (1800 * sec) false Medium
    [PPrefix true 0%N 64%N true true (86400 * sec) (14400 * sec) false;
     PPrefix false 42540766411282592875350729025363378176%N 64%N true false (100 * sec) (50 * sec) true;
     PRoute true 0%N 0%N High (86400 * sec) false;
     PRoute false 42540766411282592856903984951653826560%N 60%N Low (1500 * ms) false;
     PRDNSS true (1800 * sec) [42540766411282592856903984951653826643%N];
     PDNSSL (1800 * sec) [65547%N];
     PMTU 1500; PLLA; PCaptive 131094%N;
     PPref64 false 524413980667603649783483181312245760%N 96%N (1800 * sec)].

Example C03_example_hyps :
  cfg_ok ex_iface = true /\ sizes_ok ex_iface = true /\ sys_wf ex_sys /\ clock_okb ex_iface ex_sys = true /\
  exists r, build ex_iface ex_sys = Ok r /\ ndp_okb r = true /\ trunc r <> r.
Proof.
  repeat (split; [vm_compute; reflexivity|]). eexists. split; [vm_compute; reflexivity|].
  split; [vm_compute; reflexivity|]. vm_compute. discriminate.
Qed.

(* ---- composition with C02: for EVERY configuration the parser model accepts (C02_iff: exactly the
   documented ones), every advertising interface of it satisfies what C03 needs -- so the hypotheses
   of C03_wire_ok / C03 are not an extra assumption but a consequence of acceptance.  Remaining
   hypotheses are the property's own quantifier assumptions (sizes_ok, sys_wf, clock_okb) and the
   token convention for URIs (captive_lens_ok: C03's tokens carry the byte length). *)
From CR Require Model.Config Model.ConfigWf Proofs.Bridge Properties.C02.
Theorem C03_accepted : forall raw c i s r,
  Config.lex_wfb raw = true -> Config.parse raw = Ok c -> In i (fst c) -> if_monitor i = false ->
  Bridge.captive_lens_ok i -> sizes_ok i = true -> sys_wf s -> clock_okb i s = true ->
  build i s = Ok r -> wire_ok r.
Proof.
  intros raw c i s r W P Hin Hm Hc Hs Hsys Hclk Hb.
  pose proof (C02.C02_cfg_wf raw c W P) as Hwf. rewrite Forall_forall in Hwf.
  exact (built_wire_ok i s r (Bridge.cfg_bridge i (Hwf i Hin) Hm Hc) Hs Hsys Hclk Hb).
Qed.

(* known finding 3 (lla_not_6_bytes): the reference-shaped configuration on an interface whose hardware address has 8
   bytes (IEEE 1394 / EUI-64; InfiniBand has 20): RA generation succeeds, the encoder refuses the RA *)
Definition ex_sys_eui64 : sys :=
  mkSys (s_addrs ex_sys) (s_routes ex_sys) (Some [1; 2; 3; 4; 5; 6; 7; 8]%N) (s_now ex_sys) (s_epoch ex_sys) (s_fwd ex_sys).
Theorem C03_lla_refuted :
  cfg_ok ex_iface = true /\ sizes_ok ex_iface = true /\ clock_okb ex_iface ex_sys_eui64 = true /\
  match build ex_iface ex_sys_eui64 with Ok r => encode r = Err E_ENC | Err _ => False end.
Proof. split; [|split; [|split]]; vm_compute; reflexivity. Qed.

Print Assumptions C03_wire_ok.
Print Assumptions C03_wire_ok_meaning.
Print Assumptions codec_roundtrip.
Print Assumptions C03.
Print Assumptions C03_ndp_view.
Print Assumptions C03_clock.
Print Assumptions C03_ndp_ok_sufficient.
Print Assumptions C03_roundup_refuted.
Print Assumptions C03_oversize_refuted.
Print Assumptions C03_full_refuted.
Print Assumptions C03_accepted.
Print Assumptions C03_lla_refuted.
