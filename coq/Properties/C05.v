(* C05 -- Unsolicited multicast RAs recur forever, waits within [Min,Max]RtrAdvInterval.
   [parse_min_interval e max = Some min] : (min,max) is a pair the configuration parser accepts
   (e = None: min_interval omitted or "auto"; e = Some d: explicit).  [r] is the value drawn by
   Int63n(max - min), any value of its range.  Literals: 3 advertisements, 16 s, 4 s..1800 s. *)
From CR Require Import Model.Delay Proofs.Delay.
(* the code computes instants and durations on one clock (extracted): one_clock in Properties/Clock.v *)
From CR Require Properties.Clock.
From Coq Require Import Lia.
Local Open Scope Z_scope.

(* choosing the wait never fails: the PRNG argument max-min is positive whenever it is used *)
Theorem C05_arg : forall e max min,
  4 * sec <= max <= 1800 * sec -> parse_min_interval e max = Some min -> min <> max -> 0 < max - min.
Proof. exact int63n_arg. Qed.

(* every wait: within [min,max] to one-second granularity from the 4th advertisement on; the first
   three additionally capped at 16 s; never below 2 s (hence positive, no spin).  2 s, not 3 s: the
   documented default 0.33*max truncated to a second is 2 s for 9 s <= max < 9.1 s. *)
Theorem C05_wait : forall e max min i r,
  4 * sec <= max <= 1800 * sec -> parse_min_interval e max = Some min ->
  (min = max \/ 0 <= r < max - min) ->
  let d := multicast_delay i min max r in
  (3 <= i -> min / sec * sec <= d <= (max + sec - 1) / sec * sec) /\
  (i < 3 -> d = Z.min (16 * sec) (multicast_delay 3 min max r) /\ d <= 16 * sec) /\
  2 * sec <= d /\
  Z.min (16 * sec) (min / sec * sec) <= d <= (max + sec - 1) / sec * sec.
Proof. exact delay_all. Qed.

(* the loop, for every run length: the n-th and (n+1)-th request are exactly the chosen wait apart,
   there is a request for every draw (it never stops by itself), and every wait is in bounds *)
Theorem C05_recur : forall e max min draws t0,
  4 * sec <= max <= 1800 * sec -> parse_min_interval e max = Some min ->
  Forall (fun r => min = max \/ 0 <= r < max - min) draws ->
  length (request_times 0 t0 min max draws) = S (length draws) /\
  diffs (request_times 0 t0 min max draws) = waits 0 min max draws /\
  waits_ok min max 0 (waits 0 min max draws).
Proof.
  intros e max min draws t0 Hm Hp Hf. split; [apply request_times_length|].
  split; [apply request_times_diffs|]. exact (waits_all e max min draws 0 Hm Hp Hf).
Qed.

(* an explicit min_interval below 3 s or above 0.75*max (whole seconds) is not accepted *)
Theorem C05_explicit_range : forall m max min, parse_min_interval (Some m) max = Some min ->
  min = m /\ 3 * sec <= m <= 3 * max / 4.
Proof.
  unfold parse_min_interval, trunc_dur. intros m max min H.
  destruct (Z.ltb_spec m (3 * sec)); cbn [orb] in H; [discriminate|].
  destruct (Z.ltb_spec (3 * max / 4 - (3 * max / 4) mod sec) m); [discriminate|].
  apply Some_inj in H. pose proof (Z.mod_pos_bound (3 * max / 4) sec ltac:(reflexivity)). lia.
Qed.

(* non-vacuity: the documented defaults, a 9 s corner, and min = max *)
Example C05_ex_default : parse_min_interval None (600 * sec) = Some (198 * sec)
  /\ multicast_delay 0 (198 * sec) (600 * sec) (300 * sec) = 16 * sec
  /\ multicast_delay 3 (198 * sec) (600 * sec) (300 * sec + 500000000) = 499 * sec.
Proof. repeat split; reflexivity. Qed.
Example C05_ex_9s : parse_min_interval None (9 * sec) = Some (2 * sec).
Proof. reflexivity. Qed.
Example C05_ex_static : parse_min_interval None (4 * sec + 500000000) = Some (4 * sec + 500000000)
  /\ multicast_delay 7 (4 * sec + 500000000) (4 * sec + 500000000) 0 = 5 * sec.
Proof. split; reflexivity. Qed.

(* ---- composition with C02: for every advertising interface of every configuration the parser model
   accepts, (MinInterval, MaxInterval) is a pair covered by the theorems above -- so they hold for every
   accepted configuration, not only for pairs built by hand *)
From CR Require Model.Config Proofs.Bridge.
Theorem C05_accepted : forall raw c i idx r,
  Config.parse raw = Ok c -> In i (fst c) -> if_monitor i = false ->
  (if_min i = if_max i \/ 0 <= r < if_max i - if_min i) ->
  (if_min i <> if_max i -> 0 < if_max i - if_min i) /\
  let d := multicast_delay idx (if_min i) (if_max i) r in
  (3 <= idx -> if_min i / sec * sec <= d <= (if_max i + sec - 1) / sec * sec) /\
  (idx < 3 -> d <= 16 * sec) /\ 2 * sec <= d.
Proof.
  intros raw c i idx r P Hin Hm Hr.
  pose proof (Bridge.parse_intervals raw c P) as Hi. rewrite Forall_forall in Hi.
  destruct (Hi i Hin) as [Hmon|[Hmax [e He]]]; [congruence|].
  split; [intros Hne; exact (int63n_arg e _ _ Hmax He Hne)|].
  destruct (delay_all e (if_max i) (if_min i) idx r Hmax He Hr) as (A & B & C & _).
  cbv zeta. repeat split; try (apply A; assumption); try (apply B; assumption); exact C.
Qed.

Print Assumptions C05_arg.
Print Assumptions C05_wait.
Print Assumptions C05_recur.
Print Assumptions C05_explicit_range.
Print Assumptions C05_accepted.
