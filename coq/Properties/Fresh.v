(* Fresh sources.  The models build "the RA CoreRAD would send" as a function of (configuration, system state,
   instant).  Which instant and which state the code uses is read off the source on every run (gen/ExtFresh.v):
   a scheduled RA is built inside its timer callback by send, which writes exactly the RA it built; handle()
   verifies another router's RA against an RA built for that reception; Prepare binds Addrs / Routes / TimeNow,
   unconditionally, to functions that ask rtnetlink / the clock at every call; NewAddresser is the rtnetlink
   addresser.  In the cone of C01, C12, C13, C14, C15 and C16.  Statements only. *)
From Coq Require Import List ZArith.
From CR Require Import gen.ExtFresh Model.Pipeline Proofs.Lifetimes Proofs.Pipeline.
Import ListNotations.
Local Open Scope Z_scope.

Theorem fresh_sources :
  send_builds_then_writes = true /\ sendworker_sends = true /\ timer_callback_sends = true /\
  handle_verifies_fresh = true /\ prepare_binds_live_sources = true /\ new_addresser_direct = true.
Proof. repeat split; reflexivity. Qed.

(* the transmission pipeline of the code *)
Definition code_pipeline : pipeline := mkPipeline send_builds_then_writes sendworker_sends timer_callback_sends.

Theorem code_pipeline_fresh : fresh code_pipeline.
Proof. repeat split; reflexivity. Qed.

(* C16 on the wire: "the lifetimes advertised at time t" are those of the instant at which the RA is handed to
   the socket, whenever it was requested *)
Theorem C16_on_the_wire : forall epoch L requested fired,
  wire_lifetime code_pipeline epoch L requested fired = Z.max 0 (epoch + L - fired).
Proof. intros. apply wire_at_write. exact code_pipeline_fresh. Qed.

Theorem C16_wire_zero_after : forall epoch L requested fired,
  epoch + L <= fired -> wire_lifetime code_pipeline epoch L requested fired = 0.
Proof. intros. apply wire_zero_after; [exact code_pipeline_fresh|assumption]. Qed.

(* along the RAs of one run in wire order (any number, whatever was requested when) no lifetime increases *)
Theorem C16_wire_never_increases : forall epoch L txs,
  nondecreasing (map snd txs) -> nonincreasing (wire_sequence code_pipeline epoch L txs).
Proof. intros. apply wire_never_increases; [exact code_pipeline_fresh|assumption]. Qed.

(* what the extracted facts exclude: a pipeline that builds at the request *)
Theorem C16_stale_not_zero_refuted : exists epoch L r f,
  r <= f /\ epoch + L <= f /\ wire_lifetime stale_pipeline epoch L r f <> 0.
Proof. exact stale_not_zero. Qed.

Theorem C16_stale_increases_refuted : exists epoch L txs,
  nondecreasing (map snd txs) /\ Forall (fun t => fst t <= snd t) txs /\
  ~ nonincreasing (wire_sequence stale_pipeline epoch L txs).
Proof. exact stale_increases. Qed.

(* non-vacuity: a solicited answer overtaking a rate-limited multicast RA, on the code's pipeline *)
Example C16_wire_example :
  wire_sequence code_pipeline 0 10000 [(100, 600); (0, 3000); (9000, 11000)] = [9400; 7000; 0].
Proof. reflexivity. Qed.

Print Assumptions fresh_sources.
Print Assumptions C16_on_the_wire.
Print Assumptions C16_wire_zero_after.
Print Assumptions C16_wire_never_increases.
Print Assumptions C16_stale_not_zero_refuted.
Print Assumptions C16_stale_increases_refuted.
