(* C06 -- Multicast RAs are rate limited to one per MIN_DELAY_BETWEEN_RAS (3 s).
   [h] is the history of requests taken from the request channel after (re)initialisation at t0
   (periodic ticks and solicitations from :: = ReqMulti, solicitations from a specified source =
   ReqUni), [hist_ok t0 h]: non-decreasing instants, not before t0; any length, any mixture.
   [run_sends false t0 h] = initial RA at t0 followed by what the scheduler transmits.  The final
   zero-lifetime RA is not produced by the scheduler (C08). *)
From CR Require Import Model.Sched Proofs.Sched.
(* the code computes instants and durations on one clock (extracted): one_clock in Properties/Clock.v *)
From CR Require Properties.Clock.
From Coq Require Import Lia.
Local Open Scope Z_scope.

(* all-nodes RAs are never less than 3 s apart, starting from the initial advertisement *)
Theorem C06_spacing : forall t0 h, hist_ok t0 h ->
  spaced (3 * sec) t0 (multi_times (run_sends false t0 h)).
Proof. exact run_spaced. Qed.

(* every multicast trigger is satisfied by an all-nodes RA no later than 3 s after it *)
Theorem C06_served : forall t0 h t, hist_ok t0 h -> In (t, ReqMulti) h ->
  exists s, In s (multi_times (run_sends false t0 h)) /\ t <= s <= t + 3 * sec.
Proof. exact run_served. Qed.

(* and nothing else: every all-nodes RA after the initial one answers some trigger of the last 3 s *)
Theorem C06_justified : forall t0 h s, hist_ok t0 h -> In s (multi_times (run_sends false t0 h)) ->
  s = t0 \/ exists t, In (t, ReqMulti) h /\ t <= s <= t + 3 * sec.
Proof. exact run_justified. Qed.

(* unicast solicitations never influence the multicast schedule: the scheduler state is untouched *)
Theorem C06_unicast_neutral : forall last t dst r, fst (sched_step last t (ReqUni dst r)) = last.
Proof. reflexivity. Qed.

(* non-vacuity + the regression of the repaired defect: ticks at 0 and 3 s, RS from :: at 3.1 s and 3.2 s *)
Example C06_example :
  hist_ok 0 [(0, ReqMulti); (3 * sec, ReqMulti); (3100 * ms, ReqMulti); (3200 * ms, ReqMulti); (10 * sec, ReqMulti)] /\
  multi_times (run_sends false 0 [(0, ReqMulti); (3 * sec, ReqMulti); (3100 * ms, ReqMulti); (3200 * ms, ReqMulti); (10 * sec, ReqMulti)])
  = [0; 3 * sec; 6 * sec; 10 * sec].
Proof. split; [cbn; unfold sec, ms; repeat split; lia || exact I|vm_compute; reflexivity]. Qed.

Print Assumptions C06_spacing.
Print Assumptions C06_served.
Print Assumptions C06_justified.
Print Assumptions C06_unicast_neutral.
