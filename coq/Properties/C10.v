(* C10 -- Failures tear the interface task down, recover per policy; never half-alive.
   Three parts: (a) teardown of the goroutine group (Model/Group.v), (b) the receive retry policy
   (Model/Listener.v), (c) the Dialer's re-establish / give-up policy and back-off
   (Properties/C10dial.v, Model/Dialer.v). *)
From Coq Require Import Lia.
From CR Require Import Model.Group Proofs.Group Model.Listener Proofs.Listener Model.Teardown gen.ExtGroup gen.ExtAdvertise.
From Coq Require Import List.
Import ListNotations.
(* send workers against the scheduler's stop: the step relation is chosen by the extracted shape of start() / stop(): Properties/Workers.v *)
From CR Require Properties.Workers.
(* (c): the dialer clauses C10_constants, C10_delay_literal, C10_trace_is_chunks, C10_backoff, C10_attempts,
   C10_timeout_is_error, C10_policy, C10_policy_classes, C10_cancel_partial, C10_cancel are stated in Properties/C10dial.v *)
From CR Require Properties.C10dial.
(* what "link not ready" means (conn.go): C10_link_ready, C10_link_not_ready, C10_link_check_total, C10_link_down_not_asked,
   C10_link_lookup, C10_link_dial, C10_link_dial_ready, C10_link_legacy_refuted are stated in Properties/C10link.v *)
From CR Require Properties.C10link.
(* behind the lookup seam: the Dialer finds its interface by name at every (re-)dial (extracted) *)
From CR Require Properties.SeamLookup.
Local Open Scope nat_scope.

(* ---- (a) teardown.  The guards of the LTS are read from the source on every run: every send on
   the request channel and on the error channel is a select case next to <-ctx.Done(), the scheduler
   waits for in-flight workers, Listen cancels before it waits.  The theorems below are about the
   LTS instantiated with exactly these guards. *)
Theorem C10_guards : extracted = mkG true true true true true true.
Proof. exact extracted_all_true. Qed.

(* Every state reachable from the start -- any interleaving of the scheduler, the multicast loop,
   the listener, its interrupt goroutine, the link watcher, the timers and send workers, any
   arrivals, failures and link events -- satisfies the invariant, and once the group's context is
   cancelled (a goroutine failed, a link event arrived, or the caller cancelled) EVERY continuation
   reaches the state in which every member has returned; until then some goroutine can always move
   by itself: no deadlock, no goroutine left behind that keeps the task half-alive. *)
Theorem C10_teardown : forall s, reach s -> gc s = true -> ends_done s.
Proof. intros s Hr Hg. apply teardown; [exact (reach_inv s Hr)|exact Hg]. Qed.

(* ... within a number of steps bounded by the state (no spinning) *)
Theorem C10_teardown_bounded : forall s l, reach s -> gc s = true -> path s l -> length l <= measure s.
Proof. intros s l Hr Hg Hp. exact (path_bounded l s Hp (reach_inv s Hr) Hg). Qed.

(* after the group has returned nothing is read or written on that connection any more and no
   send worker can start *)
Theorem C10_quiet_after_return : forall s, reach s -> all_done s = true ->
  kw s = 0 /\ ke s = 0 /\ stopped s = true /\ L s = Ldone /\
  forall s', In s' (steps (mkG true true true true true true) s) -> kw s' = 0 /\ all_done s' = true.
Proof. intros s Hr Hd. exact (done_quiet s (reach_inv s Hr) Hd). Qed.

(* a failing listener always gets to report its error (which cancels the group) *)
Theorem C10_listener_reports : forall s e, L s = Lexit1 e \/ (L s = Lexit2 e /\ lcancel s = true) ->
  steps_L (mkG true true true true true true) s ++ steps_I s <> [].
Proof. exact failing_listener_reports. Qed.

(* the two repaired defects are reachable deadlocks of the same LTS with the old guards *)
Theorem C10_legacy_listen_deadlock :
  exists s, reach_g (mkG true true true true false true) s /\ L s = Lexit2 true /\ I s = Iwait /\ gc s = false /\
            steps_L (mkG true true true true false true) s ++ steps_I s = [].
Proof. exact legacy_listen_deadlock. Qed.
Theorem C10_legacy_send_deadlock :
  exists s, reach_g (mkG false true true true true true) s /\ gc s = true /\ stuck (mkG false true true true true true) s.
Proof. exact legacy_send_deadlock. Qed.

Theorem C10_legacy_stop_before_cancel_deadlock :
  exists s, reach_g (mkG true true true true true false) s /\ gc s = false /\ S s = Sstop true /\ ke s = 1%nat /\
            steps_S (mkG true true true true true false) s = [] /\ steps_K (mkG true true true true true false) s = [].
Proof. exact legacy_stop_before_cancel_deadlock. Qed.

(* what a fault leads to: re-established for a link change or a non-permission system call error,
   ended with an error otherwise (the Dialer's classification: part (c)) *)
Theorem C10_reaction : forall f,
  react f = match f with
            | FReadSyscall | FWriteSyscall | FLink => Redial
            | FWatchClosed => Continue
            | _ => ReturnErr end.
Proof. destruct f; reflexivity. Qed.

(* the same policy for the FIRST transmission of a connection, the initial RA that Run sends before anything else
   starts: Run hands its error to the Dialer wrapped with %w (extracted), so the Dialer classifies it exactly like the
   error of a scheduled transmission; wrapped with %v (as the code did before fix cdd17fb) every failure is final *)
Definition initial_reaction (wrapped : bool) (f : fault) : reaction := if wrapped then react f else ReturnErr.

Theorem C10_initial_policy : forall f, In f [FWriteSyscall; FWritePerm; FWriteOther] ->
  initial_reaction initial_send_error_wrapped f = react f.
Proof. intros f _. reflexivity. Qed.

Theorem C10_initial_legacy_refuted :
  initial_reaction false FWriteSyscall = ReturnErr /\ react FWriteSyscall = Redial.
Proof. split; reflexivity. Qed.

(* ---- (b) receive retry: timeouts are retried with waits 0, 50, 100, 150 ms; the 5th consecutive
   one (after a 200 ms wait) is an error; any received message resets the count *)
Local Open Scope Z_scope.
Theorem C10_rx_retry : forall k rest, (k < 5)%nat ->
  waits (listen 0 (timeouts k ++ rest)) = backoffs 0 k ++ waits (listen (Z.of_nat k) rest) /\
  delivered (listen 0 (timeouts k ++ rest)) = delivered (listen (Z.of_nat k) rest) /\
  out (listen 0 (timeouts k ++ rest)) = out (listen (Z.of_nat k) rest).
Proof. intros k rest Hk. apply (listen_timeouts k 0 rest); lia. Qed.

Theorem C10_rx_exhausted : forall rest, out (listen 0 (timeouts 5 ++ rest)) = Exhausted /\
  waits (listen 0 (timeouts 5 ++ rest)) = [0; 50 * ms; 100 * ms; 150 * ms; 200 * ms] /\
  delivered (listen 0 (timeouts 5 ++ rest)) = [].
Proof. exact listen_exhausted. Qed.

Theorem C10_rx_reset : forall ty hop src rest i,
  out (listen i (RdMsg ty hop src :: rest)) = out (listen 0 rest) /\
  waits (listen i (RdMsg ty hop src :: rest)) = waits (listen 0 rest).
Proof. exact listen_reset. Qed.

Print Assumptions C10_guards.
Print Assumptions C10_teardown.
Print Assumptions C10_teardown_bounded.
Print Assumptions C10_quiet_after_return.
Print Assumptions C10_listener_reports.
Print Assumptions C10_legacy_listen_deadlock.
Print Assumptions C10_legacy_send_deadlock.
Print Assumptions C10_legacy_stop_before_cancel_deadlock.
Print Assumptions C10_reaction.
Print Assumptions C10_rx_retry.
Print Assumptions C10_rx_exhausted.
Print Assumptions C10_rx_reset.

Print Assumptions C10dial.C10_constants.
Print Assumptions C10dial.C10_delay_literal.
Print Assumptions C10dial.C10_trace_is_chunks.
Print Assumptions C10dial.C10_backoff.
Print Assumptions C10dial.C10_attempts.
Print Assumptions C10dial.C10_timeout_is_error.
Print Assumptions C10dial.C10_policy.
Print Assumptions C10dial.C10_policy_classes.
Print Assumptions C10dial.C10_cancel_partial.
Print Assumptions C10dial.C10_cancel.
Print Assumptions C10_initial_policy.
Print Assumptions C10_initial_legacy_refuted.
