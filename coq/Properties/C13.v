(* C13 -- Wildcard prefix ::/64 expands to exactly the interface's eligible /64 networks.
   Statements only; each is closed by a lemma of Proofs/Wildcard.v / Proofs/WildcardSort.v.
   [prefix_list 64 l] is the list of prefixes Prefix.current returns for the address list l;
   [prefix_Apply true _ 64 ...] are the options Prefix.Apply appends for the parser's ::/64 stanza. *)
From CR Require Import Model.Wildcard.
(* Prepare binds Addrs to a function that asks rtnetlink at every call; NewAddresser is the rtnetlink addresser (extracted): fresh_sources in Properties/Fresh.v *)
From CR Require Properties.Fresh.
From CR Require Import Proofs.WildcardSort.
From CR Require Import Proofs.Wildcard.
From CR Require Corr.C13.
From CR Require Import Proofs.WildcardCorr13.
From CR Require Import Model.Addresser.
From CR Require Corr.C13sys.
From CR Require Import Proofs.Addresser.
From Coq Require Import Permutation Sorted.
Local Open Scope N_scope.

(* an address the property calls eligible: IPv6, not link-local, a /64, neither temporary nor tentative *)
Definition eligible (a : sysip) : Prop :=
  ip_v4 a = false /\ go_link_local (ip_addr a) = false /\ ip_bits a = 64 /\
  ip_temporary a = false /\ ip_tentative a = false.

(* exactly the /64 networks of the eligible addresses *)
Theorem C13_mem : forall l p,
  In p (prefix_list 64 l) <-> exists a, In a l /\ eligible a /\ mask (ip_addr a) 64 = p.
Proof.
  intros l p. rewrite prefix_list_in. unfold eligible.
  split; intros [a [Hin [He Hm]]]; exists a; (split; [exact Hin|split; [|exact Hm]]); apply prefix_ok_iff, He.
Qed.

(* every advertised prefix is a /64 network (no host bits) *)
Theorem C13_network : forall l p, In p (prefix_list 64 l) -> mask p 64 = p.
Proof. exact (prefix_list_masked 64). Qed.

(* each once ... *)
Theorem C13_nodup : forall l, NoDup (prefix_list 64 l).
Proof. exact (prefix_list_nodup 64). Qed.

(* ... in strictly ascending address order *)
Theorem C13_sorted : forall l, StronglySorted N.lt (prefix_list 64 l).
Proof. exact (prefix_list_sorted 64). Qed.

(* independent of the order and multiplicity in which the addresses are listed:
   two lists with the same set of entries give the same result *)
Theorem C13_set : forall l l', (forall a, In a l <-> In a l') -> prefix_list 64 l = prefix_list 64 l'.
Proof. exact (prefix_list_set_ext 64). Qed.

Theorem C13_perm : forall l l', Permutation l l' -> prefix_list 64 l = prefix_list 64 l'.
Proof. exact (prefix_list_perm 64). Qed.

Theorem C13_dup : forall a l, In a l -> prefix_list 64 (a :: l) = prefix_list 64 l.
Proof. exact (prefix_list_dup 64). Qed.

(* every produced option carries the stanza's length, flags and (C16) lifetimes; one option per prefix *)
Theorem C13_uniform : forall pfx onlink autonomous valid preferred deprecated epoch now l,
  prefix_Apply true pfx 64 onlink autonomous valid preferred deprecated epoch now (Some l) =
  Ok (map (fun x => OPrefix 64 onlink autonomous
                      (fst (prefix_lifetimes deprecated epoch valid preferred now))
                      (snd (prefix_lifetimes deprecated epoch valid preferred now)) x)
          (prefix_list 64 l)).
Proof. intros. apply prefix_Apply_auto. Qed.

(* a failure to list addresses fails RA generation; a successful listing never does *)
Theorem C13_error : forall pfx onlink autonomous valid preferred deprecated epoch now addrs,
  is_ok (prefix_Apply true pfx 64 onlink autonomous valid preferred deprecated epoch now addrs) = false
  <-> addrs = None.
Proof.
  intros. destruct addrs as [l|]; cbn; split; try reflexivity; discriminate.
Qed.

(* the specification checker that is evaluated on the implementation's observed output (Corr.C13.holds,
   written from the property text with plain arithmetic) accepts the model's output on every input *)
Theorem C13_checker_accepts_model :
  forall bits onlink autonomous valid preferred deprecated epoch now addrs,
  Corr.C13.holds (Corr.C13.mkCase bits onlink autonomous valid preferred deprecated epoch now addrs
    (prefix_Apply true 0 bits onlink autonomous valid preferred deprecated epoch now addrs)) = true.
Proof. exact Proofs.WildcardCorr13.C13_checker_accepts_model. Qed.

(* the sort is the stable one of the code: entries with equal keys keep their order (irrelevant here since
   the keys are distinct, recorded to justify the model of slices.SortStableFunc) *)
Theorem C13_sort_stable : forall (k : N) (l : list N),
  filter (fun y => y =? k) (isort (fun x => x) l) = filter (fun y => y =? k) l.
Proof. intros. apply (isort_stable (fun x => x)). Qed.

(* non-vacuity: ULA + GUA hosts (two in one /64), a temporary, a tentative, a link-local, a /48, an IPv4 entry *)
Definition ex_addrs : list sysip :=
  [ mkIP false 0x20010db8000100000000000000000001 64 false false false false false false;   (* 2001:db8:1::1/64 *)
    mkIP false 0xfd000001000000000000000000000002 64 false false false false false true;    (* fd00:1::2/64 *)
    mkIP false 0x20010db8000100000000000000000005 64 false false false true false false;    (* temporary *)
    mkIP false 0x20010db8000200000000000000000001 64 false false false false true false;    (* tentative *)
    mkIP false 0xfe800000000000000000000000000001 64 false false false false false true;    (* fe80::1/64 *)
    mkIP false 0x20010db8000300000000000000000001 48 false false false false false false;   (* /48 *)
    mkIP true 3221225985 24 false false false false false false;                            (* 192.0.2.1/24 *)
    mkIP false 0x20010db80001000000000000000000ff 64 false false false false false false ]. (* 2001:db8:1::ff/64 *)

Example C13_example :
  prefix_list 64 ex_addrs = [0x20010db8000100000000000000000000; 0xfd000001000000000000000000000000]
  /\ prefix_list 64 (rev ex_addrs) = prefix_list 64 ex_addrs
  /\ (exists a, In a ex_addrs /\ eligible a).
Proof.
  split; [vm_compute; reflexivity|]. split; [vm_compute; reflexivity|].
  eexists. split; [left; reflexivity|]. repeat split.
Qed.

(* ---- the rtnetlink layer which a prepared plugin reads (system.NewAddresser().AddressesByIndex): the answer
   of the netlink request -- messages and whether it failed -- is an input *)

(* "a failure to list addresses fails RA generation rather than silently advertising nothing": a failed request
   is an error whatever messages came with it (none, as rtnetlink does, or a partial dump), the plugin's source
   then fails, and so does Apply *)
Theorem C13_listing_failure : forall msgs pfx onlink autonomous valid preferred deprecated epoch now,
  addresses_by_index msgs true = Err 1 /\
  addrs_source msgs true = None /\
  is_ok (prefix_Apply true pfx 64 onlink autonomous valid preferred deprecated epoch now (addrs_source msgs true)) = false.
Proof.
  intros. split; [apply addresses_failed|]. split; [apply addrs_source_none; reflexivity|].
  apply C13_error. apply addrs_source_none. reflexivity.
Qed.

(* the source fails ONLY when the request failed: an empty dump is an empty list (no prefixes), not an error *)
Theorem C13_listing_fails_iff : forall msgs failed, addrs_source msgs failed = None <-> failed = true.
Proof. exact addrs_source_none. Qed.

(* a successful request yields exactly the listed addresses, in order, one entry per message, IPv6, with the
   message's prefix length, and the flag bits mean what linux/if_addr.h says *)
Theorem C13_listing_exact : forall msgs,
  addresses_by_index msgs false = Ok (map decode_addr msgs) /\
  forall m, In m msgs ->
    let a := decode_addr m in
    ip_v4 a = false /\ ip_addr a = am_addr m /\ ip_bits a = am_plen m /\
    ip_temporary a = N.testbit (am_flags m) 0 /\ ip_deprecated a = N.testbit (am_flags m) 5 /\
    ip_tentative a = N.testbit (am_flags m) 6 /\ ip_mngtmp a = N.testbit (am_flags m) 8 /\
    ip_stablepriv a = N.testbit (am_flags m) 11 /\
    (ip_forever a = true <-> am_valid m = 4294967295).
Proof.
  intros msgs. split; [apply addresses_ok|]. intros m _. cbn.
  repeat split; try reflexivity.
  - exact (has_flag_bit (am_flags m) 0).
  - exact (has_flag_bit (am_flags m) 5).
  - exact (has_flag_bit (am_flags m) 6).
  - exact (has_flag_bit (am_flags m) 8).
  - exact (has_flag_bit (am_flags m) 11).
  - intro H. apply N.eqb_eq in H. exact H.
  - intro H. apply N.eqb_eq. exact H.
Qed.

(* the loopback route listing (C15's source) has the same shape *)
Theorem C13_route_listing : forall msgs,
  routes_by_index msgs true = Err 1 /\ routes_by_index msgs false = Ok (map decode_route msgs).
Proof. intros. split; [apply routes_failed | apply routes_ok]. Qed.

(* the checker evaluated on the real addresser's output accepts the model's output on every input *)
Theorem C13_sys_checker_accepts_model : forall msgs rmsgs failed,
  Corr.C13sys.holds (Corr.C13sys.CAddrs msgs failed (addresses_by_index msgs failed)) = true /\
  Corr.C13sys.holds (Corr.C13sys.CRoutes rmsgs failed (routes_by_index rmsgs failed)) = true.
Proof. intros. split; [apply checker_accepts_addresses | apply checker_accepts_routes]. Qed.

(* non-vacuity: a static GUA, a temporary+deprecated address, a stable-privacy tentative one; the same dump with
   a failing request; and what the checker says about "no addresses, no error" for a failed request *)
Example C13_sys_example :
  let msgs := [mkAM 0x20010db8000000000000000000000001 64 0x80 4294967295;      (* IFA_F_PERMANENT only *)
               mkAM 0x20010db80000000000000000000000aa 64 0x21 3600;
               mkAM 0xfd000000000000000000000000000001 64 0x940 86400] in
  addresses_by_index msgs false =
    Ok [mkIP false 0x20010db8000000000000000000000001 64 false false false false false true;
        mkIP false 0x20010db80000000000000000000000aa 64 true false false true false false;
        mkIP false 0xfd000000000000000000000000000001 64 false true true false true false] /\
  addresses_by_index msgs true = Err 1 /\
  addresses_by_index [] false = Ok [] /\
  Corr.C13sys.holds (Corr.C13sys.CAddrs [] true (Ok [])) = false /\
  Corr.C13sys.holds (Corr.C13sys.CAddrs msgs true (Ok [])) = false.
Proof. repeat split; vm_compute; reflexivity. Qed.

Print Assumptions C13_mem.
Print Assumptions C13_network.
Print Assumptions C13_nodup.
Print Assumptions C13_sorted.
Print Assumptions C13_set.
Print Assumptions C13_perm.
Print Assumptions C13_dup.
Print Assumptions C13_uniform.
Print Assumptions C13_error.
Print Assumptions C13_checker_accepts_model.
Print Assumptions C13_sort_stable.
Print Assumptions C13_example.
Print Assumptions C13_listing_failure.
Print Assumptions C13_listing_fails_iff.
Print Assumptions C13_listing_exact.
Print Assumptions C13_route_listing.
Print Assumptions C13_sys_checker_accepts_model.
Print Assumptions C13_sys_example.
