(* C06 correspondence: all-nodes transmissions of a run vs the scheduler model and the rate-limit spec. *)
From CR Require Import Model.Delay Base.IP.
From CR Require Export Model.Sched Corr.AdvRun.
Local Open Scope Z_scope.

Definition case := AdvRun.case.
Definition agree (c : case) : bool := agree_sends c.

(* specification, from the property text; literals: ff02::1, 3 s *)
Definition ff02_1 : N := 338963523518870617245727861364146307073%N.
Definition obs_multi (c : case) : list Z :=
  map fst (filter (fun s => (snd s =? ff02_1)%N) (sort_sends (c_obs c))).

Fixpoint spaced3 (l : list Z) : bool :=
  match l with
  | a :: ((b :: _) as tl) => (a + 3000000000 <=? b) && spaced3 tl
  | _ => true
  end.

Definition served (times : list Z) (t : Z) : bool :=
  existsb (fun s => (t <=? s) && (s <=? t + 3000000000)) times.

(* multicast triggers: the ticks of the multicast loop and the solicitations from :: *)
Definition triggers (c : case) : list Z :=
  map fst (filter (fun tq => match snd tq with ReqMulti => true | _ => false end) (history c)).

Definition holds (c : case) : bool :=
  let m := obs_multi c in
  if c_unicast_only c then match m with [] => true | _ => false end
  else
    spaced3 m &&
    match m with t :: _ => t =? c_t0 c | [] => false end &&
    forallb (fun t => (c_horizon c <=? t + 3000000000) || served m t) (triggers c) &&
    (* ... and nothing else: every all-nodes RA after the initial one answers some trigger of the last 3 s *)
    forallb (fun s => (s =? c_t0 c) || existsb (fun t => (t <=? s) && (s <=? t + 3000000000)) (triggers c)) m.

Definition known (c : case) : N := 0%N.
