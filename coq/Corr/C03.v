(* C03 correspondence: an accepted configuration (as config.Parse returned it), a system state, the RA
   that Interface.RouterAdvertisement built, whether ndp.MarshalMessage accepted it, what
   ndp.ParseMessage read back, and the prefix bytes of every Route Information option as emitted.
   [agree]: Model.Build / Model.Wire compute the same.  [holds]: the specification, from the property
   text: the accepted configuration satisfies the documented ranges ([cfg_ok]); the RA encodes; what
   comes back is the RA truncated to the wire units, field by field. *)
From CR Require Export Model.Build Model.Wire Model.CfgWfBuild.
Local Open Scope Z_scope.

Record case := mkCase {
  c_iface : iface;
  c_sys : sys;
  c_built : result ra;         (* Err 0: RA generation failed *)
  c_marshal_ok : bool;
  c_decoded : result ra;       (* Err 0: not decoded (marshal or parse failed) *)
  c_wire_routes : list N       (* per Route Information option: its prefix bytes, zero-extended to 128 bits *)
}.

Definition result_ra_eqb (a b : result ra) : bool :=
  match a, b with
  | Ok x, Ok y => ra_eqb x y
  | Err _, Err _ => true
  | _, _ => false
  end.

Definition wire_routes (w : wire_ra) : list N :=
  flat_map (fun o => match o with WRoute _ _ _ a => [a] | _ => [] end) (w_opts w).

Definition agree (c : case) : bool :=
  result_ra_eqb (build (c_iface c) (c_sys c)) (c_built c) &&
  match c_built c with
  | Err _ => true
  | Ok r =>
    match encode r with
    | Err _ => negb (c_marshal_ok c)
    | Ok w => c_marshal_ok c && result_ra_eqb (decode w) (c_decoded c)
              && list_eqb N.eqb (wire_routes w) (c_wire_routes c)
    end
  end.

(* ---------------------------------------------------------------- specification checker *)
(* [secs]: how a duration is expressed in whole seconds on the wire.  The property says truncation
   ([floor_secs]); [float_secs] is used only to recognise known-finding class 1. *)
Definition floor_secs (d : Z) : Z := d / sec.

Definition want_opt (secs : Z -> Z) (o : opt) : opt :=
  match o with
  | OPrefix l onl aut v p a => OPrefix l onl aut (secs v * sec) (secs p * sec) a
  | ORoute l prf t a => ORoute l prf (secs t * sec) (mask a (8 * (l / 8)))   (* whole bytes only: ndp v1.1.0's decoder *)
  | ORDNSS t s => ORDNSS (secs t * sec) s
  | ODNSSL t s => ODNSSL (secs t * sec) s
  | other => other
  end.
Definition want_ra (secs : Z -> Z) (r : ra) : ra :=
  mkRA (ra_hop r) (ra_managed r) (ra_other r) (ra_pref r) (secs (ra_lifetime r) * sec)
       (ra_reachable r / ms * ms) (ra_retrans r / ms * ms) (map (want_opt secs) (ra_opts r)).

Definition route_prefixes (r : ra) : list N :=
  flat_map (fun o => match o with ORoute _ _ _ a => [a] | _ => [] end) (ra_opts r).

(* every duration non-negative and within its field *)
Definition durations_in_range (r : ra) : bool :=
  (0 <=? ra_lifetime r) && (ra_lifetime r <? 65536 * sec)
  && (0 <=? ra_reachable r) && (ra_reachable r <? 4294967296 * ms)
  && (0 <=? ra_retrans r) && (ra_retrans r <? 4294967296 * ms)
  && forallb (fun o => forallb (fun d => (0 <=? d) && (d <? 4294967296 * sec)) (opt_lifetimes o)
                       && match o with
                          | OPref64 _ _ _ t => (0 <=? t) && (t <=? 65528 * sec) && (t mod (8 * sec) =? 0)
                          | _ => true end) (ra_opts r).

(* the hardware address of the interface is part of the system state the property quantifies over ("forall system
   states for which RA generation succeeds"): an address that is not 6 bytes long (InfiniBand: 20, IEEE 1394 / EUI-64: 8)
   is NOT excluded here -- see known class 3 *)
Definition sys_no_mac (s : sys) : sys := mkSys (s_addrs s) (s_routes s) None (s_now s) (s_epoch s) (s_fwd s).
Definition in_quantifier (c : case) : bool :=
  sizes_ok (c_iface c) && sys_wfb (sys_no_mac (c_sys c)) && clock_okb (c_iface c) (c_sys c).

Definition holds_with (secs : Z -> Z) (c : case) : bool :=
  cfg_ok (c_iface c) &&
  (negb (in_quantifier c) ||
   match c_built c with
   | Err _ => true                                  (* RA generation did not succeed: outside the quantifier *)
   | Ok r =>
     durations_in_range r && c_marshal_ok c &&
     match c_decoded c with
     | Err _ => false
     | Ok d => ra_eqb d (want_ra secs r) && list_eqb N.eqb (c_wire_routes c) (route_prefixes r)
     end
   end).

Definition holds : case -> bool := holds_with floor_secs.

(* known-finding classes (narrow: the class must be the whole explanation of the failure)
   1 float_seconds_roundup: some lifetime of the RA is >= 2^24 s with a fraction the binary64 conversion
     rounds up, and with that rounding allowed everything else holds;
   2 option_over_248_bytes: some option is longer than 31 units, the encoder refused the RA, and the
     configuration is otherwise fine;
   3 lla_not_6_bytes: the interface's hardware address is not 6 bytes long, the RA carries it as source link-layer
     address, the encoder refused the RA, and without that option the RA encodes. *)
Definition known (c : case) : N :=
  match c_built c with
  | Ok r =>
    if match s_mac (c_sys c) with Some mac => negb (Nat.eqb (length mac) 6) | None => false end
            && existsb (fun o => match o with OSLLA _ => true | _ => false end) (ra_opts r)
            && negb (c_marshal_ok c) && cfg_ok (c_iface c) && durations_in_range r
            && is_ok (encode (mkRA (ra_hop r) (ra_managed r) (ra_other r) (ra_pref r) (ra_lifetime r)
                                   (ra_reachable r) (ra_retrans r)
                                   (filter (fun o => match o with OSLLA _ => false | _ => negb (248 <? opt_wire_len o)%N end) (ra_opts r))))
    then 3%N (* (possibly together with class 2: both options are dropped before the encoder is asked again) *)
    else if ra_oversize r && negb (c_marshal_ok c) && cfg_ok (c_iface c) && durations_in_range r
       && is_ok (encode (mkRA (ra_hop r) (ra_managed r) (ra_other r) (ra_pref r) (ra_lifetime r)
                              (ra_reachable r) (ra_retrans r)
                              (filter (fun o => negb (248 <? opt_wire_len o)%N) (ra_opts r))))
    then 2%N
    else if ra_rounds_up r && holds_with float_secs c then 1%N
    else 0%N
  | Err _ => 0%N
  end.
