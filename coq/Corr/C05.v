(* C05 correspondence.  Two kinds of cases:
   - CDelay: one call of multicastDelay with an injected draw;
   - CLoop : the real multicast loop under virtual time: request instants with the draws reproduced
             from the (virtual-clock) PRNG seed. *)
From CR Require Import Model.Delay.
Local Open Scope Z_scope.

Inductive case :=
| CDelay (explicit : option Z) (max : Z) (min_impl : option Z) (i r : Z) (observed : Z)
    (* min_impl: what config.Parse produced for MinInterval (None = configuration rejected) *)
| CLoop (min max : Z) (t0 : Z) (draws : list Z) (observed : list Z) (expected_n : nat)
| CStall (min max : Z) (t0 : Z) (draws gaps : list Z) (observed : list Z) (expected_n : nat).
    (* the consumer is ready for the n-th request only gaps[n] after it took the previous one; observed = instants taken *)

Fixpoint zlist_eqb (a b : list Z) : bool :=
  match a, b with
  | [], [] => true
  | x :: a', y :: b' => (x =? y) && zlist_eqb a' b'
  | _, _ => false
  end.
Definition optz_eqb (a b : option Z) : bool :=
  match a, b with Some x, Some y => x =? y | None, None => true | _, _ => false end.

Definition agree (c : case) : bool :=
  match c with
  | CDelay e max mi i r obs =>
      optz_eqb (parse_min_interval e max) mi &&
      match mi with Some min => multicast_delay i min max r =? obs | None => true end
  | CLoop min max t0 draws obs _ => zlist_eqb (request_times 0 t0 min max draws) obs
  | CStall min max t0 draws gaps obs _ => zlist_eqb (taken_times 0 t0 t0 min max draws gaps) obs
  end.

(* specification, from the property text: literals 3, 16 s, one-second granularity *)
Definition floor_s (d : Z) := d / 1000000000 * 1000000000.
Definition ceil_s (d : Z) := (d + 999999999) / 1000000000 * 1000000000.
Definition wait_in_spec (min max i d : Z) : bool :=
  (0 <? d) && (floor_s min <=? d) && (d <=? ceil_s max) && (if i <? 3 then d <=? 16000000000 else true)
  || ((i <? 3) && (d =? 16000000000) && (16000000000 <=? ceil_s max)).

Fixpoint waits_in_spec (min max i : Z) (l : list Z) : bool :=
  match l with
  | a :: ((b :: _) as tl) => wait_in_spec min max i (b - a) && waits_in_spec min max (i + 1) tl
  | _ => true
  end.

(* with a slow consumer a wait is visible whenever the consumer was ready before the next request was
   offered (R_{n+1} > R_n + gap_{n+1}); then R_{n+1} - R_n is the wait the loop chose *)
Fixpoint stalled_waits_in_spec (min max i : Z) (l gaps : list Z) : bool :=
  match l with
  | a :: ((b :: _) as tl) =>
      let g := match gaps with x :: _ => x | [] => 0 end in
      (if a + g <? b then wait_in_spec min max i (b - a) else (b =? a + g)) &&
      stalled_waits_in_spec min max (i + 1) tl (List.tl gaps)
  | _ => true
  end.

Definition holds (c : case) : bool :=
  match c with
  | CDelay e max mi i r obs =>
      match mi with
      | Some min => wait_in_spec min max i obs
      | None => true
      end
  | CLoop min max t0 draws obs n =>
      (Nat.eqb (length obs) n) && waits_in_spec min max 0 obs &&
      match obs with t :: _ => t =? t0 | [] => false end
  | CStall min max t0 draws gaps obs n =>
      (Nat.eqb (length obs) n) && stalled_waits_in_spec min max 0 obs (List.tl gaps)
  end.

Definition known (c : case) : N := 0%N.
