(* C01 correspondence: a configuration as config.Parse returned it (converted field by field), a
   generated system state, and the RA (or the failure) Interface.RouterAdvertisement produced.
   [agree]: Model.Build.build gives the same result.  [holds]: the specification checker, written from
   the property text on the observed RA (it does not call [build]). *)
From CR Require Export Model.Build.
Local Open Scope Z_scope.

Record case := mkCase {
  c_iface : iface;
  c_sys : sys;
  c_obs : result ra          (* observed: the RA, or Err 0 when RA generation failed *)
}.

Definition result_ra_eqb (a b : result ra) : bool :=
  match a, b with
  | Ok x, Ok y => ra_eqb x y
  | Err _, Err _ => true       (* error strings / classes are not compared *)
  | _, _ => false
  end.

Definition agree (c : case) : bool := result_ra_eqb (build (c_iface c) (c_sys c)) (c_obs c).

(* ---------------------------------------------------------------- specification checker *)
(* documented option order: prefixes, routes, RDNSS, DNSSL, MTU, source link-layer address,
   captive portal, PREF64 *)
Definition opt_rank (o : opt) : N :=
  match o with
  | OPrefix _ _ _ _ _ _ => 0 | ORoute _ _ _ _ => 1 | ORDNSS _ _ => 2 | ODNSSL _ _ => 3
  | OMTU _ => 4 | OSLLA _ => 5 | OCaptive _ => 6 | OPref64 _ _ _ _ => 7 | OOther _ => 8
  end%N.
Definition stanza_rank (p : plugin) : N :=
  match p with
  | PPrefix _ _ _ _ _ _ _ _ => 0 | PRoute _ _ _ _ _ _ => 1 | PRDNSS _ _ _ => 2 | PDNSSL _ _ => 3
  | PMTU _ => 4 | PLLA => 5 | PCaptive _ => 6 | PPref64 _ _ _ _ => 7
  end%N.
Fixpoint nondecreasingN (l : list N) : bool :=
  match l with
  | x :: ((y :: _) as t) => (x <=? y)%N && nondecreasingN t
  | _ => true
  end.

(* a deprecated stanza advertises the time left to epoch + L, never below zero; otherwise L *)
Definition want_lifetime (dep : bool) (s : sys) (L : Z) : Z :=
  if dep then Z.max 0 (s_epoch s + L - s_now s) else L.

Definition to_option {A} (r : result A) : option A := match r with Ok a => Some a | Err _ => None end.

(* the options one stanza calls for (None: its system source is unavailable, no RA can be built).
   Wildcard expansion is delegated to the wildcard functions (properties C13-C15). *)
Definition want_opts (p : plugin) (s : sys) : option (list opt) :=
  match p with
  | PPrefix auto a bits onl aut valid preferred dep =>
    let v := want_lifetime dep s valid in
    let pr := want_lifetime dep s preferred in
    option_map (map (fun x : pfx => OPrefix (snd x) onl aut v pr (fst x)))
               (if auto then to_option (prefix_current bits s) else Some [(a, bits)])
  | PRoute auto a bits prf lt dep =>
    let l := want_lifetime dep s lt in
    option_map (map (fun x : pfx => ORoute (snd x) prf l (fst x)))
               (if auto then to_option (route_current s) else Some [(a, bits)])
  | PRDNSS auto lt servers =>
    if auto then option_map (fun a => [ORDNSS lt (a :: servers)]) (to_option (rdnss_current s))
    else Some [ORDNSS lt servers]
  | PDNSSL lt names => Some [ODNSSL lt names]
  | PMTU m => Some [OMTU (Z.to_N m)]
  | PLLA => Some (match s_mac s with Some mac => [OSLLA mac] | None => [] end)
  | PCaptive uri => Some [OCaptive uri]
  | PPref64 v4 a bits lt => Some [OPref64 v4 a bits lt]
  end.

Fixpoint want_all (ps : list plugin) (s : sys) : option (list opt) :=
  match ps with
  | [] => Some []
  | p :: t =>
    match want_opts p s, want_all t s with
    | Some a, Some b => Some (a ++ b)
    | _, _ => None
    end
  end.

(* PREF64 lifetime = 3 x MaxRtrAdvInterval rounded up to a multiple of 8 s, capped at 65528 s *)
Definition want_pref64_lifetime (max : Z) : Z :=
  Z.min (65528 * sec) (8 * sec * ((3 * max + 8 * sec - 1) / (8 * sec))).
Definition pref64_values_ok (c : iface) : bool :=
  forallb (fun p => match p with
                    | PPref64 _ _ _ lt => lt =? want_pref64_lifetime (if_max c)
                    | _ => true end) (if_plugins c).

Definition holds (c : case) : bool :=
  let i := c_iface c in
  let s := c_sys c in
  (* the parser's plugin list is grouped by kind in the documented order, PREF64 values as documented *)
  nondecreasingN (map stanza_rank (if_plugins i)) && pref64_values_ok i &&
  match c_obs c, want_all (if_plugins i) s with
  | Err _, None => true
  | Ok r, Some os =>
    N.eqb (ra_hop r) (if_hop i) && Bool.eqb (ra_managed r) (if_managed i)
    && Bool.eqb (ra_other r) (if_other i) && pref_eqb (ra_pref r) (if_pref i)
    && (ra_reachable r =? if_reachable i) && (ra_retrans r =? if_retrans i)
    (* router lifetime: as configured, except zero on a non-forwarding interface *)
    && (ra_lifetime r =? (if s_fwd s then if_lifetime i else Z.min 0 (if_lifetime i)))
    && list_eqb opt_eqb (ra_opts r) os
    && nondecreasingN (map opt_rank (ra_opts r))
  | _, _ => false
  end.

Definition known (c : case) : N := 0%N.
