(* C13, second case type: the rtnetlink layer the ::/64 wildcard reads in production
   (system.NewAddresser().AddressesByIndex, and routesByIndex for the loopback routes), driven with a
   scripted `execute` answer.
   [agree]: Model.Addresser computes the same.  [holds]: the property text -- "a failure to list addresses
   fails RA generation rather than silently advertising nothing": a failed request is an error, whatever
   messages came with it; otherwise exactly the listed addresses come back, in order, each with its own
   prefix length and the documented meaning of its flag bits (plain arithmetic on the flag word). *)
From CR Require Export Model.Addresser.
Local Open Scope N_scope.

Inductive case :=
| CAddrs (msgs : list addrmsg) (failed : bool) (obs : result (list sysip))
| CRoutes (msgs : list routemsg) (failed : bool) (obs : result (list osroute)).

Definition sysip_eqb (a b : sysip) : bool :=
  Bool.eqb (ip_v4 a) (ip_v4 b) && (ip_addr a =? ip_addr b) && (ip_bits a =? ip_bits b) &&
  Bool.eqb (ip_deprecated a) (ip_deprecated b) && Bool.eqb (ip_mngtmp a) (ip_mngtmp b) &&
  Bool.eqb (ip_stablepriv a) (ip_stablepriv b) && Bool.eqb (ip_temporary a) (ip_temporary b) &&
  Bool.eqb (ip_tentative a) (ip_tentative b) && Bool.eqb (ip_forever a) (ip_forever b).

Definition osroute_eqb (a b : osroute) : bool :=
  (or_dst a =? or_dst b) && (or_len a =? or_len b) && (or_index a =? or_index b) && (or_pref a =? or_pref b).

Definition res_eqb {A} (eqb : A -> A -> bool) (a b : result (list A)) : bool :=
  match a, b with
  | Ok x, Ok y => list_eqb eqb x y
  | Err _, Err _ => true
  | _, _ => false
  end.

Definition agree (c : case) : bool :=
  match c with
  | CAddrs msgs failed obs => res_eqb sysip_eqb (addresses_by_index msgs failed) obs
  | CRoutes msgs failed obs => res_eqb osroute_eqb (routes_by_index msgs failed) obs
  end.

(* ---- specification checker *)
(* bit k of the flag word, by division *)
Definition bit (f k : N) : bool := (f / 2 ^ k) mod 2 =? 1.

Definition addr_ok (m : addrmsg) (a : sysip) : bool :=
  negb (ip_v4 a) && (ip_addr a =? am_addr m) && (ip_bits a =? am_plen m) &&
  Bool.eqb (ip_temporary a) (bit (am_flags m) 0) &&        (* IFA_F_TEMPORARY      0x001 *)
  Bool.eqb (ip_deprecated a) (bit (am_flags m) 5) &&       (* IFA_F_DEPRECATED     0x020 *)
  Bool.eqb (ip_tentative a) (bit (am_flags m) 6) &&        (* IFA_F_TENTATIVE      0x040 *)
  Bool.eqb (ip_mngtmp a) (bit (am_flags m) 8) &&           (* IFA_F_MANAGETEMPADDR 0x100 *)
  Bool.eqb (ip_stablepriv a) (bit (am_flags m) 11) &&      (* IFA_F_STABLE_PRIVACY 0x800 *)
  Bool.eqb (ip_forever a) (am_valid m =? 4294967295).      (* valid lifetime "forever" *)

Definition route_ok (m : routemsg) (r : osroute) : bool :=
  (or_dst r =? rm_dst m) && (or_len r =? rm_len m) && (or_index r =? rm_oif m) &&
  (or_pref r =? match rm_pref m with Some p => p | None => 0 end).

Fixpoint all2 {A B} (f : A -> B -> bool) (l1 : list A) (l2 : list B) : bool :=
  match l1, l2 with
  | [], [] => true
  | x :: t1, y :: t2 => f x y && all2 f t1 t2
  | _, _ => false
  end.

Definition holds (c : case) : bool :=
  match c with
  | CAddrs msgs failed obs =>
      match obs with
      | Err _ => failed                       (* an error only when the request failed ... *)
      | Ok l => negb failed && all2 addr_ok msgs l   (* ... and always when it failed *)
      end
  | CRoutes msgs failed obs =>
      match obs with
      | Err _ => failed
      | Ok l => negb failed && all2 route_ok msgs l
      end
  end.

Definition known (c : case) : N := 0.
