(* C17 correspondence.  Three kinds of cases, all about one instant of one daemon (the production wiring of
   cmd/corerad/main.go): a scrape (Registry.Gather on the pedantic Prometheus registry + Metrics.Series on the
   Memory back end), a GET /_/api/interfaces, and the status of a set of routes.
   [agree] = the model's output equals the observed one; [holds] = the specification, written from the property
   text, accepts the observed one; [known] = 1 for the class duplicate_series_labels. *)
From CR Require Export Model.Api.
Local Open Scope Z_scope.

Inductive case :=
| CScrape (ifs : list ifin) (g : gather) (m : memory)
| CApi (ifs : list ifin) (a : api_out)
| CRoutes (prometheus pprof : bool) (obs : list (route * bool)).     (* route, served (status <> 404) *)

(* ---- constructors used by the generated case terms (typed applications elaborate faster than nested pairs) *)
Definition S (name : string) (labels : list (string * lval)) (v : Z) : sample := (name, labels, v).
Definition L (name : string) (v : lval) : string * lval := (name, v).
Definition s_corerad_interface_advertising := metric_name MAdvertising.
Definition s_corerad_interface_monitoring := metric_name MMonitoring.
Definition s_corerad_interface_autoconfiguration := metric_name MAutoconf.
Definition s_corerad_interface_forwarding := metric_name MForwarding.
Definition s_corerad_advertiser_misconfiguration := metric_name MMisconf.
Definition s_corerad_advertiser_dnssl_lifetime_seconds := metric_name MDnssl.
Definition s_corerad_advertiser_prefix_autonomous := metric_name MPfxAutonomous.
Definition s_corerad_advertiser_prefix_on_link := metric_name MPfxOnLink.
Definition s_corerad_advertiser_prefix_valid_seconds := metric_name MPfxValid.
Definition s_corerad_advertiser_prefix_preferred_seconds := metric_name MPfxPreferred.
Definition s_corerad_advertiser_rdnss_lifetime_seconds := metric_name MRdnss.
Definition s_corerad_advertiser_route_lifetime_seconds := metric_name MRoute.
Definition s_interface := "interface"%string.
Definition s_details := "details"%string.
Definition s_domains := "domains"%string.
Definition s_prefix := "prefix"%string.
Definition s_route := "route"%string.
Definition s_servers := "servers"%string.

(* ---- comparison helpers *)

Definition count_s (s : sample) (l : list sample) : nat := length (filter (sample_eqb s) l).
Definition perm_eqb (a b : list sample) : bool :=
  Nat.eqb (length a) (length b) && forallb (fun s => Nat.eqb (count_s s a) (count_s s b)) a.

Definition opt_b {A} (eqb : A -> A -> bool) (a b : option A) : bool :=
  match a, b with Some x, Some y => eqb x y | None, None => true | _, _ => false end.

Definition jprefix_eqb (a b : jprefix) :=
  N.eqb (jp_addr a) (jp_addr b) && N.eqb (jp_bits a) (jp_bits b) && Bool.eqb (jp_onlink a) (jp_onlink b) &&
  Bool.eqb (jp_auto a) (jp_auto b) && Z.eqb (jp_valid_s a) (jp_valid_s b) && Z.eqb (jp_pref_s a) (jp_pref_s b).
Definition jroute_eqb (a b : jroute) :=
  N.eqb (jr_addr a) (jr_addr b) && N.eqb (jr_bits a) (jr_bits b) && pref_eqb (jr_pref a) (jr_pref b) &&
  Z.eqb (jr_lifetime_s a) (jr_lifetime_s b).
Definition jrdnss_eqb (a b : jrdnss) := Z.eqb (jd_lifetime_s a) (jd_lifetime_s b) && list_eqb N.eqb (jd_servers a) (jd_servers b).
Definition jdnssl_eqb (a b : jdnssl) := Z.eqb (js_lifetime_s a) (js_lifetime_s b) && list_eqb N.eqb (js_names a) (js_names b).
Definition jpref64_eqb (a b : jpref64) :=
  Bool.eqb (j6_v4 a) (j6_v4 b) && N.eqb (j6_addr a) (j6_addr b) && N.eqb (j6_bits a) (j6_bits b) &&
  Z.eqb (j6_lifetime_s a) (j6_lifetime_s b).
Definition jopts_eqb (a b : jopts) :=
  list_eqb jdnssl_eqb (jo_dnssl a) (jo_dnssl b) && Z.eqb (jo_mtu a) (jo_mtu b) &&
  list_eqb jprefix_eqb (jo_prefixes a) (jo_prefixes b) && list_eqb jrdnss_eqb (jo_rdnss a) (jo_rdnss b) &&
  list_eqb jroute_eqb (jo_routes a) (jo_routes b) && opt_b (list_eqb N.eqb) (jo_slla a) (jo_slla b) &&
  opt_b N.eqb (jo_captive a) (jo_captive b) && list_eqb jpref64_eqb (jo_pref64 a) (jo_pref64 b).
Definition jra_eqb (a b : jra) :=
  Z.eqb (j_hop a) (j_hop b) && Bool.eqb (j_managed a) (j_managed b) && Bool.eqb (j_other a) (j_other b) &&
  pref_eqb (j_pref a) (j_pref b) && Z.eqb (j_lifetime_s a) (j_lifetime_s b) &&
  Z.eqb (j_reachable_ms a) (j_reachable_ms b) && Z.eqb (j_retrans_ms a) (j_retrans_ms b) &&
  jopts_eqb (j_opts a) (j_opts b).
Definition jiface_eqb (a b : jiface) :=
  N.eqb (ji_name a) (ji_name b) && Bool.eqb (ji_adv a) (ji_adv b) && opt_b jra_eqb (ji_ra a) (ji_ra b).

Definition gather_eqb (a b : gather) : bool :=
  match a, b with
  | GOk x, GOk y => perm_eqb x y
  | GErr, GErr | GPanic, GPanic => true
  | _, _ => false
  end.
Definition memory_eqb (a b : memory) : bool :=
  match a, b with
  | MOk x, MOk y | MErr x, MErr y => perm_eqb x y
  | MPanic, MPanic => true
  | _, _ => false
  end.
Definition api_out_eqb (a b : api_out) : bool :=
  match a, b with
  | ABody x, ABody y => list_eqb jiface_eqb x y
  | AError, AError | APanic, APanic => true
  | _, _ => false
  end.

(* ---- agree: model = implementation *)

Definition agree (c : case) : bool :=
  match c with
  | CScrape ifs g m => gather_eqb (prom_gather (scrape ifs)) g && memory_eqb (mem_series (scrape ifs)) m
  | CApi ifs a => api_out_eqb (api ifs) a
  | CRoutes prom pprof obs => forallb (fun o => Bool.eqb (serves (fst o) prom pprof) (snd o)) obs
  end.

(* ---- holds: the specification, from the property text.

   "what they report equals the RA that would be sent at that moment": the RA built from the configuration,
   with router lifetime 0 when the interface is not forwarding (C04).  "for an interface that has not been
   initialised yet, an error for that scrape or request is the acceptable alternative"; the same goes for a State
   read or an address / route source that fails (nothing can be mirrored then).  Never a panic. *)

Definition some_b {A} (o : option A) : bool := match o with Some _ => true | None => false end.
Definition get_b (o : option bool) : bool := match o with Some b => b | None => false end.

(* build error codes given by the driver: 1 = the interface was never initialised (plugins not prepared),
   2 = an injected failure of the address / route source; anything else is unexplained *)
Definition build_excused (i : ifin) : bool :=
  match i_build i with Err 1%N | Err 2%N => true | _ => false end.

(* the RA which would be sent now *)
Definition current_ra (i : ifin) : option ra :=
  if i_adv i then
    match i_build i with
    | Ok r => Some (if get_b (i_fwd i) then r
                    else mkRA (ra_hop r) (ra_managed r) (ra_other r) (ra_pref r) 0 (ra_reachable r) (ra_retrans r) (ra_opts r))
    | Err _ => None
    end
  else None.
Definition overridden (i : ifin) : bool :=
  i_adv i && negb (get_b (i_fwd i)) && match i_build i with Ok r => 0 <? ra_lifetime r | Err _ => false end.

Definition scrape_answerable (ifs : list ifin) : bool :=
  forallb (fun i => some_b (i_auto i) && some_b (i_fwd i) && (negb (i_adv i) || is_ok (i_build i))) ifs.
Definition scrape_excused (ifs : list ifin) : bool :=
  existsb (fun i => negb (some_b (i_auto i)) || negb (some_b (i_fwd i)) || (i_adv i && build_excused i)) ifs.

Definition expected_samples (ifs : list ifin) : list sample :=
  flat_map (fun i => spec_samples (i_name i) (i_adv i) (i_mon i) (get_b (i_auto i)) (get_b (i_fwd i))
                                  (current_ra i) (overridden i)) ifs.

Definition scrape_holds (ifs : list ifin) (ok : option (list sample)) (panicked : bool) : bool :=
  negb panicked &&
  match ok with
  | Some l => scrape_answerable ifs && perm_eqb l (expected_samples ifs)
  | None => scrape_excused ifs
  end.

(* JSON: every option kind CoreRAD can advertise, with its values; lifetimes in whole seconds *)
Definition spec_opts (os : list opt) : jopts :=
  mkJOpts
    (flat_map (fun o => match o with ODNSSL l names => [mkJDnssl (l / sec) names] | _ => [] end) os)
    (fold_left (fun acc o => match o with OMTU m => Z.of_N m | _ => acc end) os 0)
    (flat_map (fun o => match o with OPrefix bits ol au v p a => [mkJPrefix a bits ol au (v / sec) (p / sec)] | _ => [] end) os)
    (flat_map (fun o => match o with ORDNSS l servers => [mkJRdnss (l / sec) servers] | _ => [] end) os)
    (flat_map (fun o => match o with ORoute bits p l a => [mkJRoute a bits p (l / sec)] | _ => [] end) os)
    (fold_left (fun acc o => match o with OSLLA mac => Some mac | _ => acc end) os None)
    (fold_left (fun acc o => match o with OCaptive u => Some u | _ => acc end) os None)
    (flat_map (fun o => match o with OPref64 v4 a bits l => [mkJPref64 v4 a bits (l / sec)] | _ => [] end) os).

Definition spec_jra (r : ra) : jra :=
  mkJRA (Z.of_N (ra_hop r)) (ra_managed r) (ra_other r) (ra_pref r)
        (ra_lifetime r / sec) (ra_reachable r / ms) (ra_retrans r / ms) (spec_opts (ra_opts r)).

Definition api_answerable (ifs : list ifin) : bool :=
  forallb (fun i => negb (i_adv i) || (some_b (i_fwd i) && is_ok (i_build i))) ifs.
Definition api_excused (ifs : list ifin) : bool :=
  existsb (fun i => i_adv i && (negb (some_b (i_fwd i)) || build_excused i)) ifs.
Definition expected_body (ifs : list ifin) : list jiface :=
  map (fun i => mkJIface (i_name i) (i_adv i) (match current_ra i with Some r => Some (spec_jra r) | None => None end)) ifs.

Definition route_holds (prom pprof : bool) (o : route * bool) : bool :=
  match fst o with
  | RMetrics => Bool.eqb (snd o) prom          (* served iff debug.prometheus *)
  | RPprof => Bool.eqb (snd o) pprof           (* served iff debug.pprof *)
  | RRoot | RInterfaces => snd o               (* always answerable *)
  | RUnknown => negb (snd o)
  end.

Definition holds (c : case) : bool :=
  match c with
  | CScrape ifs g m =>
      scrape_holds ifs (match g with GOk l => Some l | _ => None end) (match g with GPanic => true | _ => false end) &&
      scrape_holds ifs (match m with MOk l => Some l | _ => None end) (match m with MPanic => true | _ => false end)
  | CApi ifs a =>
      match a with
      | APanic => false
      | AError => api_excused ifs
      | ABody l => api_answerable ifs && list_eqb jiface_eqb l (expected_body ifs)
      end
  | CRoutes prom pprof obs => forallb (route_holds prom pprof) obs
  end.

(* ---- known finding 1 = duplicate_series_labels: the scrape is answerable but what it must contain has two
   samples of the same series (same metric, same label values) -- two RDNSS / DNSSL stanzas with equal contents,
   a wildcard expanding to something which is also configured statically, two ::/0 route stanzas.  The pedantic
   registry fails the whole scrape; the Memory back end keeps only the later sample. *)
Definition known (c : case) : N :=
  match c with
  | CScrape ifs _ _ => if scrape_answerable ifs && has_dup (expected_samples ifs) then 1%N else 0%N
  | _ => 0%N
  end.
