(* C10 (teardown part): a fault injected into a running Advertiser / Monitor. *)
From CR Require Export Model.Teardown.
Local Open Scope Z_scope.

Inductive observed := ORedial | OReturnErr | OReturnNil | OContinue | OHang.

Record case := mkTd {
  c_monitor : bool;
  c_fault : fault;
  c_flood : Z;              (* solicitations queued at the fault instant *)
  c_outcome : observed;
  c_delay : Z;              (* virtual ns from the fault to the re-dial / return *)
  c_slack : Z;              (* latency the fake connection adds to a read in progress (slow-listener runs) *)
  c_io_after : Z;           (* ReadFrom + WriteTo calls on the old connection after the re-dial / return *)
  c_canary : bool;          (* after the reaction the task still serves (re-dialled / continued) or is fully stopped (returned) *)
  c_leak : bool             (* goroutines left blocked at the end *)
}.

Definition obs_eqb (o : observed) (r : reaction) : bool :=
  match o, r with ORedial, Redial | OReturnErr, ReturnErr | OContinue, Continue => true | _, _ => false end.

Definition agree (c : case) : bool :=
  obs_eqb (c_outcome c) (react (c_fault c)) && (react_delay (c_fault c) <=? c_delay c) && (c_delay c <=? react_delay (c_fault c) + c_slack c).

(* specification from the property text: recoverable causes (link change, non-permission system
   call error) -> re-established; otherwise ends with a reported error; promptly (within the
   receive back-off, 200 ms); everything of the old connection stops together; never half-alive *)
Definition recoverable (f : fault) : bool :=
  match f with FReadSyscall | FWriteSyscall | FLink => true | _ => false end.
Definition harmless (f : fault) : bool := match f with FWatchClosed => true | _ => false end.

Definition holds (c : case) : bool :=
  negb (c_leak c) && (c_io_after c =? 0) && c_canary c &&
  (0 <=? c_delay c) && (c_delay c <=? 200000000 + c_slack c) &&
  match c_outcome c with
  | ORedial => recoverable (c_fault c)
  | OReturnErr => negb (recoverable (c_fault c)) && negb (harmless (c_fault c))
  | OContinue => harmless (c_fault c)
  | OReturnNil | OHang => false
  end.

Definition known (c : case) : N := 0%N.
