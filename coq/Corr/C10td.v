(* C10 (teardown part): a fault injected into a running Advertiser / Monitor. *)
From CR Require Export Model.Teardown.
Local Open Scope Z_scope.

Inductive observed := ORedial | OReturnErr | OReturnNil | OContinue | OHang.

From CR Require Export Model.Listener.

Record tdcase := mkTd {
  c_monitor : bool;
  c_fault : fault;
  c_flood : Z;              (* solicitations queued at the fault instant *)
  c_outcome : observed;
  c_delay : Z;              (* virtual ns from the fault to the re-dial / return *)
  c_slack : Z;              (* latency the fake connection adds to a read in progress (slow-listener runs) *)
  c_io_after : Z;           (* ReadFrom + WriteTo calls on the old connection after the re-dial / return *)
  c_canary : bool;          (* after the reaction the task still serves (re-dialled / continued) or is fully stopped (returned) *)
  c_leak : bool             (* goroutines left blocked at the end *)
}.

Inductive case :=
| CTd (c : tdcase)
| CRx (script : list read) (gaps : list Z) (running : bool).  (* receive retry timing on a monitor *)

Fixpoint zl_eqb (a b : list Z) : bool :=
  match a, b with [], [] => true | x :: a', y :: b' => (x =? y) && zl_eqb a' b' | _, _ => false end.

Definition obs_eqb (o : observed) (r : reaction) : bool :=
  match o, r with ORedial, Redial | OReturnErr, ReturnErr | OContinue, Continue => true | _, _ => false end.

Definition agree_td (c : tdcase) : bool :=
  obs_eqb (c_outcome c) (react (c_fault c)) && (react_delay (c_fault c) <=? c_delay c) && (c_delay c <=? react_delay (c_fault c) + c_slack c).

(* specification from the property text: recoverable causes (link change, non-permission system
   call error) -> re-established; otherwise ends with a reported error; promptly (within the
   receive back-off, 200 ms); everything of the old connection stops together; never half-alive *)
Definition recoverable (f : fault) : bool :=
  match f with FReadSyscall | FWriteSyscall | FLink => true | _ => false end.
Definition harmless (f : fault) : bool := match f with FWatchClosed => true | _ => false end.

Definition holds_td (c : tdcase) : bool :=
  negb (c_leak c) && (c_io_after c =? 0) && c_canary c &&
  (0 <=? c_delay c) && (c_delay c <=? 200000000 + c_slack c) &&
  match c_outcome c with
  | ORedial => recoverable (c_fault c)
  | OReturnErr => negb (recoverable (c_fault c)) && negb (harmless (c_fault c))
  | OContinue => harmless (c_fault c)
  | OReturnNil | OHang => false
  end.

(* receive retry spec from the property text: the j-th consecutive timeout (j = 1..4) is followed by a
   wait of (j-1) x 50 ms and another read; the 5th ends the listener; a received message resets j *)
Fixpoint spec_gaps (j : nat) (script : list read) : list Z * bool :=
  match script with
  | [] => ([], true)
  | RdErr :: _ => ([], false)
  | RdTimeout :: rest =>
      if Nat.leb 4 j then ([], false)
      else let (g, b) := spec_gaps (S j) rest in (Z.of_nat j * 50000000 :: g, b)
  | RdMsg _ _ _ :: rest => let (g, b) := spec_gaps 0 rest in (0 :: g, b)
  end.

Definition agree (c : case) : bool :=
  match c with
  | CTd c => agree_td c
  | CRx script gaps running =>
      zl_eqb (read_gaps 0 script) gaps &&
      Bool.eqb running (match out (listen 0 script) with Pending => true | _ => false end)
  end.
Definition holds (c : case) : bool :=
  match c with
  | CTd c => holds_td c
  | CRx script gaps running => let (g, b) := spec_gaps 0 script in zl_eqb g gaps && Bool.eqb b running
  end.

Definition known (c : case) : N := 0%N.
