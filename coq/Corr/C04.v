(* C04 correspondence: one history of forwarding flips and RA generations over 1-3 advertising interfaces (separate
   advertisers sharing one State and one Metrics) and 0-2 monitoring / unused interfaces anywhere in the interface
   list, with what was observed at every generation (for an interface that does not advertise: at every visit of
   the metrics scrape, path ScrapeIdle). *)
From CR Require Export Model.Forwarding.
Local Open Scope Z_scope.

Record obs := mkObs {
  ob_ra : option ra;            (* the RA written to the socket / handed to OnInconsistentRA as `ours` *)
  ob_lifetime_s : option Z;     (* Api: router_lifetime_seconds *)
  ob_surfaced : option bool;    (* advertiser paths: the log line was written; Scrape: the gauge sample is present *)
  ob_fwd_gauge : option bool;   (* Scrape: corerad_interface_forwarding *)
  ob_reads : N                  (* State.IPv6Forwarding calls for this interface during this generation *)
}.

Record case := mkCase {
  c_cfg : list (N * ra);        (* per interface: the RA built from its configuration (RouterAdvertisement(true)) *)
  c_fwd0 : list (N * bool);     (* initial flags *)
  c_events : list event;
  c_obs : list (option obs)     (* parallel to c_events: None for SetFwd; for GenFail whatever the implementation
                                   produced during the attempt (nothing, if it fails closed) *)
}.

Definition empty_ra : ra := mkRA 0 false false Medium 0 0 0 [].
Definition cfg_of (c : case) : N -> ra := lookup empty_ra (c_cfg c).
Definition fwd0_of (c : case) : N -> bool := lookup false (c_fwd0 c).

Definition optb_eqb (a b : option bool) : bool :=
  match a, b with Some x, Some y => Bool.eqb x y | None, None => true | _, _ => false end.

(* ---- agree: the model's output for every event equals the observation *)
Definition agree_one (m : option out) (o : option obs) : bool :=
  match m, o with
  | None, None => true
  | Some m, Some o =>
      (match ob_ra o with Some r => ra_eqb r (o_ra m) | None => true end) &&
      (match ob_lifetime_s o with Some s => s =? Z.quot (ra_lifetime (o_ra m)) sec | None => true end) &&
      optb_eqb (ob_surfaced o)
               (match path_surface (o_path m) with SLog => Some (o_logged m) | SGauge => o_gauge m | SNone => None end) &&
      optb_eqb (ob_fwd_gauge o) (o_fwd_gauge m) &&
      N.eqb (ob_reads o) (o_reads m)
  | _, _ => false
  end.

Fixpoint all2 {A B} (f : A -> B -> bool) (l1 : list A) (l2 : list B) : bool :=
  match l1, l2 with
  | [], [] => true
  | x :: t1, y :: t2 => f x y && all2 f t1 t2
  | _, _ => false
  end.

(* an attempt that produced nothing: no RA written / compared, no API lifetime, no gauge, no misconfiguration line *)
Definition silent (o : obs) : bool :=
  match ob_ra o, ob_lifetime_s o, ob_fwd_gauge o with
  | None, None, None => match ob_surfaced o with Some true => false | _ => true end
  | _, _, _ => false
  end.

Fixpoint agree_from (evs : list event) (ms : list (option out)) (os : list (option obs)) : bool :=
  match evs, ms, os with
  | [], [], [] => true
  | GenFail _ _ :: te, None :: tm, Some o :: to =>
      (* the model generates nothing; the failing read itself is the one State call of the attempt *)
      silent o && N.eqb (ob_reads o) 1 && agree_from te tm to
  | GenFail _ _ :: _, _, _ => false
  | _ :: te, m :: tm, o :: to => agree_one m o && agree_from te tm to
  | _, _, _ => false
  end.

Definition agree (c : case) : bool :=
  agree_from (c_events c) (run (cfg_of c) (fwd0_of c) (c_events c)) (c_obs c).

(* ---- holds: the property text, checked on the observations.
   The checker keeps its own record of the flags (an association list updated at every flip). *)
Fixpoint flag_now (d : bool) (flags : list (N * bool)) (i : N) : bool :=
  match flags with
  | [] => d
  | (j, b) :: tl => if N.eqb i j then b else flag_now d tl i
  end.

Definition is_log_path (p : path) : bool :=
  match p with Initial | Periodic | Solicited | Final | Verify => true | _ => false end.

Definition holds_one (cfg : N -> ra) (fwd : bool) (i : N) (p : path) (o : obs) : bool :=
  let base := cfg i in
  (* nothing is configured to be advertised on the final path and for an interface that does not advertise *)
  let configured := match p with Final | ScrapeIdle => 0 | _ => ra_lifetime base end in
  let want := if fwd then configured else 0 in
  let misconfigured := negb fwd && (0 <? configured) in
  (* the RA: lifetime as required, everything else as configured *)
  (match ob_ra o with
   | Some r => (ra_lifetime r =? want) &&
               ra_eqb (mkRA (ra_hop r) (ra_managed r) (ra_other r) (ra_pref r) (ra_lifetime base) (ra_reachable r) (ra_retrans r) (ra_opts r)) base
   | None => negb (is_log_path p)              (* an advertiser path must show its RA *)
   end) &&
  (match ob_lifetime_s o with
   | Some s => s =? want / sec
   | None => match p with Api => false | _ => true end
   end) &&
  (* surfaced: log line on the advertiser paths, gauge on the scrape path, iff misconfigured *)
  (match p with
   | Api => true
   | _ => optb_eqb (ob_surfaced o) (Some misconfigured)
   end) &&
  (match p with Scrape | ScrapeIdle => optb_eqb (ob_fwd_gauge o) (Some fwd) | _ => true end) &&
  (* the live state is consulted for this very generation *)
  (1 <=? ob_reads o)%N.

Fixpoint holds_from (cfg : N -> ra) (flags : list (N * bool)) (evs : list event) (os : list (option obs)) : bool :=
  match evs, os with
  | [], [] => true
  | SetFwd i b :: te, None :: to => holds_from cfg ((i, b) :: flags) te to
  | Gen i p :: te, Some o :: to => holds_one cfg (flag_now false flags i) i p o && holds_from cfg flags te to
  (* the State read of this attempt failed: the daemon does not know whether the interface forwards, so it must
     not produce an RA at all (flag on or off): nothing sent / compared, no lifetime rendered, no gauge exported *)
  | GenFail i p :: te, Some o :: to =>
      match ob_ra o, ob_lifetime_s o, ob_fwd_gauge o with
      | None, None, None => true
      | _, _, _ => false
      end && holds_from cfg flags te to
  | _, _ => false
  end.

Definition holds (c : case) : bool := holds_from (cfg_of c) (c_fwd0 c) (c_events c) (c_obs c).

Definition known (c : case) : N := 0%N.
