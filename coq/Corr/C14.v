(* C14 correspondence: RDNSS.Apply with the :: wildcard and an injected address source, and
   parseRDNSS's server list (config.Parse on generated TOML). *)
From CR Require Export Model.Wildcard.
Local Open Scope N_scope.

Record case := mkCase {
  c_raw : option (list raw_server);    (* Some: the stanza's `servers` as written and lexed by netip.ParseAddr (config driver) *)
  c_parsed : result (bool * list N);   (* (Auto, Servers) of the plugin: as parsed (config driver) or as constructed; Err: rejected *)
  c_lifetime : Z;
  c_addrs : option (list sysip);       (* None: listing addresses failed / plugin not prepared *)
  c_obs : result (list opt);           (* Apply: Ok options / Err; ignored when the configuration was rejected *)
  c_again : list (result (list opt))   (* further Apply calls on the SAME plugin value, same address source: every RA after the first *)
}.

Definition parsed_eqb (a b : result (bool * list N)) : bool :=
  match a, b with
  | Ok (x, l), Ok (y, m) => Bool.eqb x y && list_eqb N.eqb l m
  | Err _, Err _ => true
  | _, _ => false
  end.

Definition agree (c : case) : bool :=
  (match c_raw c with Some raw => parsed_eqb (parse_rdnss raw) (c_parsed c) | None => true end)
  && (match c_parsed c with
      | Ok (auto, servers) =>
          forallb (res_opts_eqb (rdnss_Apply auto (c_lifetime c) servers (c_addrs c))) (c_obs c :: c_again c)
      | Err _ => true
      end).

(* ---- specification checker, written from the property text with numeric ranges on 128-bit numbers *)

Definition a_fc00 : N := 334965454937798799971759379190646833152.     (* fc00:: *)
Definition a_fe00 : N := 337623910929368631717566993311207522304.     (* fe00:: *)
Definition a_fe80 : N := 338288524927261089654018896841347694592.     (* fe80:: *)
Definition a_fec0 : N := 338620831926207318622244848606417780736.     (* fec0:: *)
Definition a_ff00 : N := 338953138925153547590470800371487866880.     (* ff00:: *)
Definition a_mapped : N := 281470681743360.                           (* ::ffff:0.0.0.0 *)
Definition within (lo hi a : N) : bool := (lo <=? a) && (a <=? hi).

(* IPv4 classes of the address embedded in an IPv4-mapped address (net/netip classifies those by it) *)
Definition s4_private (v : N) : bool :=
  within 167772160 184549375 v || within 2886729728 2887778303 v || within 3232235520 3232301055 v.
Definition s4_link_local (v : N) : bool := within 2851995648 2852061183 v.
Definition s4_global (v : N) : bool :=
  negb (v =? 0) && negb (v =? 4294967295) && negb (within 2130706432 2147483647 v)
  && negb (within 3758096384 4026531839 v) && negb (s4_link_local v).

(* 0 unique-local, 1 global unicast, 2 link-local, 3 anything else (loopback, multicast, unspecified) *)
Definition spec_class (a : N) : N :=
  if within a_mapped (a_mapped + 4294967295) a then
    let v := a - a_mapped in
    if s4_private v then 0 else if s4_global v then 1 else if s4_link_local v then 2 else 3
  else if (a_fc00 <=? a) && (a <? a_fe00) then 0
  else if (a_fe80 <=? a) && (a <? a_fec0) then 2
  else if (a =? 0) || (a =? 1) || (a_ff00 <=? a) then 3
  else 1.

(* ...ff:fe.. in bytes 11 and 12 *)
Definition spec_eui64 (a : N) : bool := (a / 16777216) mod 65536 =? 65534.
Definition spec_stable (e : sysip) : bool :=
  ip_forever e || ip_mngtmp e || ip_stablepriv e || spec_eui64 (ip_addr e).

(* the documented ranking as one number: stability, then class, then the address *)
Definition spec_key (e : sysip) : N :=
  ((if spec_stable e then 0 else 1) * 4 + spec_class (ip_addr e)) * 2 ^ 128 + ip_addr e.

Definition spec_eligible (e : sysip) : bool :=
  negb (ip_v4 e) && negb (ip_deprecated e) && negb (ip_temporary e) && negb (ip_tentative e).

Fixpoint strictly_ascending (l : list N) : bool :=
  match l with
  | x :: (y :: _) as tl => (x <? y) && strictly_ascending tl
  | _ => true
  end.

Definition raw_bad (r : raw_server) : bool := match r with RS6 _ | RSzone _ => false | _ => true end.
Definition raw_zoned (r : raw_server) : bool := match r with RSzone _ => true | _ => false end.
(* the 128-bit addresses written, with or without a zone (a zone does not reach the option) *)
Definition raw_addrs (l : list raw_server) : list N :=
  flat_map (fun r => match r with RS6 a | RSzone a => [a] | _ => [] end) l.
Fixpoint has_dup (l : list N) : bool :=
  match l with [] => false | x :: tl => memN x tl || has_dup tl end.

Definition holds_parse (c : case) : bool :=
  match c_raw c with
  | None => true
  | Some raw =>
      let bad := existsb raw_bad raw in
      let a6 := raw_addrs raw in
      match c_parsed c with
      | Err _ => bad || has_dup a6 || existsb raw_zoned raw   (* rejected only for a reason *)
      | Ok (auto, servers) =>
          negb bad
          && Bool.eqb auto (match raw with [] => true | _ => memN 0 a6 end)
          && strictly_ascending servers                  (* sorted, no duplicates *)
          && forallb (fun s => negb (s =? 0) && memN s a6) servers
          && forallb (fun a => (a =? 0) || memN a servers) a6
      end
  end.

(* one application of the plugin (as parsed: [parsed]) observed as [obs] *)
Definition holds_apply_on (parsed : result (bool * list N)) (lifetime : Z) (addrs : option (list sysip))
                          (obs : result (list opt)) : bool :=
  match parsed with
  | Err _ => true
  | Ok (false, servers) =>
      match obs with
      | Ok [ORDNSS t ss] => Z.eqb t lifetime && list_eqb N.eqb ss servers
      | _ => false
      end
  | Ok (true, servers) =>
      match addrs with
      | None => negb (is_ok obs)                          (* listing failed: RA generation fails *)
      | Some l =>
          let E := filter spec_eligible l in
          match E, obs with
          | [], Err _ => true                             (* no eligible address: error *)
          | [], Ok _ => false
          | _, Ok [ORDNSS t (s :: rest)] =>
              Z.eqb t lifetime && list_eqb N.eqb rest servers
              && (let ks := map spec_key E in
                  existsb (fun e => (ip_addr e =? s) && forallb (fun k => spec_key e <=? k) ks) E)
          | _, _ => false
          end
      end
  end.

Definition holds_apply (c : case) : bool :=
  holds_apply_on (c_parsed c) (c_lifetime c) (c_addrs c) (c_obs c).

(* every RA generated from the same configuration carries the same option: the static servers as
   parsed follow the wildcard server in the 2nd, 3rd ... application exactly as in the first *)
Definition holds_again (c : case) : bool :=
  forallb (holds_apply_on (c_parsed c) (c_lifetime c) (c_addrs c)) (c_again c).

Definition holds (c : case) : bool := holds_parse c && holds_apply c && holds_again c.

Definition known (c : case) : N := 0.
