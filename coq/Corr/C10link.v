(* C10 correspondence for internal/system/conn.go (checkInterface, isNoSuchInterface,
   lookupInterface) and the sysctl file reader of interface_linux.go. *)
From CR Require Export Base.IP Model.Dialer Model.Link.
Local Open Scope N_scope.

Inductive case :=
| CCheck (up : bool) (r : addrs_res) (obs : option err) (called : bool)
| CNoSuch (e : lookup_err) (obs : bool)
| CLookup (present empty_name : bool) (obs : option err)
| CSysctl (content : list N) (obs : bool).

Definition agree (c : case) : bool :=
  match c with
  | CCheck up r obs called =>
      let '(m, mc) := check_interface up r in oerr_eqb m obs && Bool.eqb mc called
  | CNoSuch e obs => Bool.eqb (is_no_such e) obs
  | CLookup present empty obs =>
      oerr_eqb obs (lookup_interface (if present then None else Some (if empty then by_name_invalid else by_name_missing)))
  | CSysctl content obs => Bool.eqb (sysctl_bool content) obs
  end.

(* specification checker, from the property text and RFC 4291 (not from the code): an interface is
   ready iff it is up and owns an address in fe80::/10; 16 bytes, carried by an IPNet *)
Definition spec_ll (a : laddr) : bool := la_ipnet a && N.eqb (la_len a) 16 && N.eqb (la_ip a / 2 ^ 118) 1018.

Definition holds (c : case) : bool :=
  match c with
  | CCheck up r obs _ =>
      if negb up then oerr_eqb obs (Some ELinkNotReady)
      else match r with
           | AList l => oerr_eqb obs (if existsb spec_ll l then None else Some ELinkNotReady)
           | AErr e => oerr_eqb obs (Some e)          (* the cause keeps its class *)
           end
  | CNoSuch _ _ => true
  | CLookup present empty obs =>
      if present then oerr_eqb obs None
      else if empty then match obs with None => false | Some _ => true end
      else oerr_eqb obs (Some ELinkNotReady)
  | CSysctl content obs => Bool.eqb obs (match content with [49; 10] => true | _ => false end)
  end.

Definition known (c : case) : N := 0.
