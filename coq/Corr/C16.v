(* C16 correspondence: the same plugin value evaluated along a sequence of clock readings. *)
From CR Require Import Model.Lifetimes.
Local Open Scope Z_scope.

Record case := mkCase {
  c_route : bool;            (* Route plugin (true) or Prefix plugin (false) *)
  c_deprecated : bool;
  c_epoch : Z; c_valid : Z; c_preferred : Z;     (* route: lifetime = c_valid, c_preferred unused *)
  c_obs : list (Z * (Z * Z)) (* clock reading, observed (valid | route lifetime, preferred) *)
}.

Definition model_at (c : case) (now : Z) : Z * Z :=
  if c_route c then (route_lifetime (c_deprecated c) (c_epoch c) (c_valid c) now, 0)
  else prefix_lifetimes (c_deprecated c) (c_epoch c) (c_valid c) (c_preferred c) now.

Definition pair_eqb (a b : Z * Z) : bool := (fst a =? fst b) && (snd a =? snd b).

Definition agree (c : case) : bool :=
  forallb (fun o => pair_eqb (model_at c (fst o)) (snd o)) (c_obs c).

(* specification checker, written from the property text (not from the code) *)
Definition expect (c : case) (L now : Z) : Z :=
  if c_deprecated c then Z.max 0 (c_epoch c + L - now) else L.

Fixpoint nonincreasing_for_sorted (l : list (Z * (Z * Z))) : bool :=
  match l with
  | (t1, (v1, p1)) :: ((t2, (v2, p2)) :: _) as tl =>
      (if t1 <=? t2 then (v2 <=? v1) && (p2 <=? p1) else true) && nonincreasing_for_sorted tl
  | _ => true
  end.

Definition holds (c : case) : bool :=
  forallb (fun o => let '(now, (v, p)) := o in
     (v =? expect c (c_valid c) now) &&
     (if c_route c then true else (p =? expect c (c_preferred c) now) && (p <=? v)) &&
     (0 <=? v) && (0 <=? p)) (c_obs c)
  && (if c_deprecated c then nonincreasing_for_sorted (c_obs c) else true).

Definition known (c : case) : N := 0%N.
