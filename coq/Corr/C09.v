(* C09 correspondence: a scripted ReadFrom sequence fed to the real Advertiser.Run / Monitor.Run. *)
From CR Require Export Model.Listener.
Local Open Scope Z_scope.

Record case := mkL9 {
  c_monitor : bool;                    (* Monitor (true) or Advertiser (false) *)
  c_script : list read;
  c_answers : list N;                  (* advertiser: destinations of unicast RAs observed, sorted *)
  c_invalid : list (N * Z);            (* messages_received_invalid_total by message type, sorted by type *)
  c_received : list (N * Z);           (* advertiser/monitor messages_received_total by type, sorted *)
  c_running : bool                     (* Run had not returned when the script was consumed *)
}.

Fixpoint ninsert (x : N) (l : list N) : list N :=
  match l with [] => [x] | y :: l' => if (x <=? y)%N then x :: l else y :: ninsert x l' end.
Definition nsort (l : list N) : list N := fold_right ninsert [] l.

Definition count_of (t : N) (l : list N) : Z := Z.of_nat (length (filter (N.eqb t) l)).
Definition types : list N := [133; 134; 135; 136]%N.
Definition tally (l : list N) : list (N * Z) :=
  filter (fun p => negb (snd p =? 0)) (map (fun t => (t, count_of t l)) types).

Definition pz_eqb (a b : N * Z) : bool := (fst a =? fst b)%N && (snd a =? snd b).

Definition agree (c : case) : bool :=
  let r := listen 0 (c_script c) in
  list_eqb pz_eqb (tally (map fst (delivered r))) (c_received c) &&
  (if c_monitor c then list_eqb pz_eqb (tally (invalid r)) (c_invalid c)
   else list_eqb pz_eqb (tally (adv_invalid r)) (c_invalid c) &&
        list_eqb N.eqb (nsort (adv_unicast_targets r)) (c_answers c)) &&
  Bool.eqb (match out r with Pending => true | _ => false end) (c_running c).

(* ---- specification from the property text (independent of the model's recursion):
   the listener stops at the first non-timeout read error or at the fifth consecutive timeout
   (timeouts separated by any received message do not add up) *)
Fixpoint live_prefix (i : nat) (s : list read) : list read * bool :=   (* (consumed prefix, still running) *)
  match s with
  | [] => ([], true)
  | RdErr :: _ => ([], false)
  | RdTimeout :: rest => if Nat.leb 4 i then ([], false) else let (p, b) := live_prefix (S i) rest in (RdTimeout :: p, b)
  | m :: rest => let (p, b) := live_prefix 0 rest in (m :: p, b)
  end.

Definition spec_valid (s : list read) : list (N * N) :=
  flat_map (fun r => match r with RdMsg ty hop src => if (hop =? 255)%N then [(ty, src)] else [] | _ => [] end) s.
Definition spec_badhop (s : list read) : list N :=
  flat_map (fun r => match r with RdMsg ty hop src => if (hop =? 255)%N then [] else [ty] | _ => [] end) s.

Definition holds (c : case) : bool :=
  let (p, running) := live_prefix 0 (c_script c) in
  let valid := spec_valid p in
  let other := filter (fun m => negb ((fst m =? 133)%N || (fst m =? 134)%N)) valid in
  Bool.eqb running (c_running c) &&
  list_eqb pz_eqb (tally (map fst valid)) (c_received c) &&
  (if c_monitor c then list_eqb pz_eqb (tally (spec_badhop p)) (c_invalid c)
   else
     list_eqb pz_eqb (tally (spec_badhop p ++ map fst other)) (c_invalid c) &&
     (* answers: exactly the valid router solicitations from specified sources *)
     list_eqb N.eqb
       (nsort (flat_map (fun m => if ((fst m =? 133)%N && negb (snd m =? 0)%N)%bool then [snd m] else []) valid))
       (c_answers c)).

Definition known (c : case) : N := 0%N.
