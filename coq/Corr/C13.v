(* C13 correspondence: Prefix.Apply with the ::/N wildcard and an injected address source. *)
From CR Require Export Model.Wildcard.
Local Open Scope N_scope.

Record case := mkCase {
  c_bits : N;                          (* p.Prefix.Bits(); 64 for every parser-produced wildcard *)
  c_onlink : bool; c_autonomous : bool;
  c_valid : Z; c_preferred : Z;
  c_deprecated : bool; c_epoch : Z; c_now : Z;
  (* c_now = the FIRST reading of the injected clock during this Apply; the driver lets the clock advance on
     later readings, all options must nevertheless describe this one instant *)
  c_addrs : option (list sysip);       (* None: listing addresses failed / plugin not prepared *)
  c_obs : result (list opt)            (* Ok: the options Apply appended; Err: Apply returned an error *)
}.

Definition agree (c : case) : bool :=
  res_opts_eqb
    (prefix_Apply true 0 (c_bits c) (c_onlink c) (c_autonomous c) (c_valid c) (c_preferred c)
       (c_deprecated c) (c_epoch c) (c_now c) (c_addrs c))
    (c_obs c).

(* ---- specification checker, written from the property text with plain arithmetic on 128-bit numbers *)

(* fe80::/10 as a numeric range; an IPv4-mapped address (::ffff:a.b.c.d) is classified by its IPv4 address
   (169.254.0.0/16) as net/netip does *)
Definition fe80 : N := 338288524927261089654018896841347694592.              (* fe80:: *)
Definition fec0 : N := 338620831926207318622244848606417780736.              (* fec0:: *)
Definition mapped_lo : N := 281470681743360.                                 (* ::ffff:0.0.0.0 *)
Definition mapped_ll_lo : N := 281473533739008.                              (* ::ffff:169.254.0.0 *)
Definition mapped_ll_hi : N := 281473533804543.                              (* ::ffff:169.254.255.255 *)
Definition spec_link_local (a : N) : bool :=
  ((fe80 <=? a) && (a <? fec0)) || ((mapped_ll_lo <=? a) && (a <=? mapped_ll_hi)).

(* the /bits network of an address: clear the low 128-bits bits *)
Definition spec_net (a bits : N) : N := let u := 2 ^ (128 - bits) in (a / u) * u.

Definition spec_eligible (bits : N) (a : sysip) : bool :=
  negb (ip_v4 a) && negb (spec_link_local (ip_addr a)) && (ip_bits a =? bits)
  && negb (ip_temporary a) && negb (ip_tentative a).

Fixpoint strictly_ascending (l : list N) : bool :=
  match l with
  | x :: (y :: _) as tl => (x <? y) && strictly_ascending tl
  | _ => true
  end.

Definition spec_lifetime (c : case) (L : Z) : Z :=
  if c_deprecated c then Z.max 0 (c_epoch c + L - c_now c) else L.

Definition opt_pfx (o : opt) : N := match o with OPrefix _ _ _ _ _ x => x | _ => 0 end.

Definition holds (c : case) : bool :=
  match c_addrs c, c_obs c with
  | None, Err _ => true                      (* listing failed: RA generation fails *)
  | None, Ok _ => false
  | Some _, Err _ => false
  | Some l, Ok os =>
      let ps := map opt_pfx os in
      (* every option is a prefix information option with the stanza's length, flags and lifetimes *)
      forallb (fun o => match o with
         | OPrefix len ol au v p _ =>
             (len =? c_bits c) && Bool.eqb ol (c_onlink c) && Bool.eqb au (c_autonomous c)
             && Z.eqb v (spec_lifetime c (c_valid c)) && Z.eqb p (spec_lifetime c (c_preferred c))
         | _ => false end) os
      (* each once, ascending *)
      && strictly_ascending ps
      (* exactly the networks of the eligible addresses *)
      && (let nets := map (fun a => spec_net (ip_addr a) (c_bits c)) (filter (spec_eligible (c_bits c)) l) in
          forallb (fun p => memN p nets) ps && forallb (fun p => memN p ps) nets)
  end.

Definition known (c : case) : N := 0.
