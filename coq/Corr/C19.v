(* C19 correspondence.
   CTrace: a script of Subscribe / Watch / notify / receive / end-of-watch operations performed on
   a real netstate.Watcher (watch hook injected), with what every Watch call and every receive
   burst observed.  COper / CProcess: operStateChange and process on rtnetlink values.
   [agree] replays the script on Model.Watcher; [holds] is the property text, checked
   subscriber by subscriber on the observed outputs with the documented literals. *)
From CR Require Export Model.Watcher.
Local Open Scope N_scope.

Inductive case :=
| CTrace (evs : list event) (obs : list out) (trouble : bool)
    (* trouble: the driver saw a panic it did not ask for, or notify / Watch did not return *)
| COper (code : N) (obs : option N)
| CProcess (msgs : list (option (N * N))) (obs : list (N * list N)).   (* observed map, keys ascending *)

Fixpoint nlist_eqb (a b : list N) : bool :=
  match a, b with
  | [], [] => true
  | x :: a', y :: b' => N.eqb x y && nlist_eqb a' b'
  | _, _ => false
  end.

Definition out_eqb (a b : out) : bool :=
  match a, b with
  | OWatch p, OWatch q => Bool.eqb p q
  | ODrain v c, ODrain v' c' => nlist_eqb v v' && Bool.eqb c c'
  | OEnd p, OEnd q => Bool.eqb p q
  | _, _ => false
  end.

Fixpoint outs_eqb (a b : list out) : bool :=
  match a, b with
  | [], [] => true
  | x :: a', y :: b' => out_eqb x y && outs_eqb a' b'
  | _, _ => false
  end.

Definition oN_eqb (a b : option N) : bool :=
  match a, b with
  | None, None => true
  | Some x, Some y => N.eqb x y
  | _, _ => false
  end.

Fixpoint assoc (k : N) (l : list (N * list N)) : option (list N) :=
  match l with
  | [] => None
  | (i, v) :: r => if N.eqb i k then Some v else assoc k r
  end.

Definition same_map (m obs : list (N * list N)) : bool :=
  Nat.eqb (length m) (length obs) &&
  forallb (fun kv => match assoc (fst kv) m with Some v => nlist_eqb v (snd kv) | None => false end) obs.

Definition agree (c : case) : bool :=
  match c with
  | CTrace evs obs trouble =>
      match run init evs with
      | (o, Some _) => outs_eqb o obs && negb trouble
      | (_, None) => false
      end
  | COper code obs => oN_eqb (oper_state_change code) obs
  | CProcess msgs obs => same_map (process msgs) obs
  end.

(* ------------------------------------------------------------------ specification checker *)

(* pair every Watch call, every receive burst and the end of the running watch (the first end-of-watch
   event after a Watch call: that Watch call returns) with what it observed *)
Fixpoint attach_from (w e : bool) (evs : list event) (obs : list out) : option (list (event * option out)) :=
  match evs with
  | [] => match obs with [] => Some [] | _ => None end
  | ev :: r =>
      let w' := match ev with WatchStart => true | _ => w end in
      let ends := match ev with EndWatch _ => w && negb e | _ => false end in
      let observed := match ev with WatchStart | Drain _ _ => true | _ => ends end in
      if observed then
        match obs with
        | [] => None
        | o :: obs' => match attach_from w' (e || ends) r obs' with Some l => Some ((ev, Some o) :: l) | None => None end
        end
      else match attach_from w' e r obs with Some l => Some ((ev, None) :: l) | None => None end
  end.
Definition attach := attach_from false false.

(* The subscriber created by the k-th Subscribe, as the property describes it:
   it is handed, in order, every change on its interface that intersects its mask, into 8 slots;
   what does not fit is dropped; its channel is closed when the watch that was running ends. *)
Record view := mkView {
  v_seen : nat;              (* Subscribe events so far *)
  v_active : bool; v_iface : N; v_mask : N;
  v_buf : list N; v_closed : bool;
  v_started : bool; v_ended : bool }.

Definition slots : nat := 8.

Definition feed (v : view) (c : N) : view :=
  if negb (N.eqb (N.land (v_mask v) c) 0) && Nat.ltb (length (v_buf v)) slots
  then mkView (v_seen v) true (v_iface v) (v_mask v) (v_buf v ++ [c]) (v_closed v) (v_started v) (v_ended v)
  else v.

Definition feed_set (v : view) (changed : list (N * list N)) : view :=
  fold_left (fun v kv => if N.eqb (fst kv) (v_iface v) then fold_left feed (snd kv) v else v) changed v.

(* one step of the per-subscriber specification; false = the observation contradicts it *)
Definition spec_step (k : nat) (v : view) (eo : event * option out) : view * bool :=
  match eo with
  | (Subscribe iface mask, _) =>
      if Nat.eqb (v_seen v) k
      then (mkView (S (v_seen v)) true iface mask [] false (v_started v) (v_ended v), true)
      else (mkView (S (v_seen v)) (v_active v) (v_iface v) (v_mask v) (v_buf v) (v_closed v) (v_started v) (v_ended v), true)
  | (WatchStart, Some (OWatch p)) =>
      (* a second Watch panics, the first does not *)
      (mkView (v_seen v) (v_active v) (v_iface v) (v_mask v) (v_buf v) (v_closed v) true (v_ended v),
       Bool.eqb p (v_started v))
  | (Notify changed, _) => (if v_active v then feed_set v changed else v, true)
  | (Drain i n, Some (ODrain vals closed_seen)) =>
      if Nat.eqb i k then
        if v_active v then
          (mkView (v_seen v) true (v_iface v) (v_mask v) (skipn n (v_buf v)) (v_closed v) (v_started v) (v_ended v),
           nlist_eqb vals (firstn n (v_buf v)) &&
           Bool.eqb closed_seen (v_closed v && Nat.ltb (length (v_buf v)) n))
        else (v, false)
      else (v, true)
  | (EndWatch failed, o) =>
      (* watching ends, however it ends: the channel is closed; Watch reports the failure, if any *)
      if v_started v && negb (v_ended v)
      then (mkView (v_seen v) (v_active v) (v_iface v) (v_mask v) (v_buf v) (v_active v) true true,
            match o with Some (OEnd err) => Bool.eqb err failed | _ => false end)
      else (v, match o with None => true | Some _ => false end)
  | _ => (v, false)
  end.

Fixpoint spec_run (k : nat) (v : view) (l : list (event * option out)) : bool :=
  match l with
  | [] => true
  | eo :: r => let (v', ok) := spec_step k v eo in ok && spec_run k v' r
  end.

Definition count_subs (evs : list event) : nat :=
  length (filter (fun e => match e with Subscribe _ _ => true | _ => false end) evs).

Definition view0 : view := mkView 0 false 0 0 [] false false false.

(* RFC 2863 ifOperStatus -> Change, as documented in change.go / watcher_linux.go *)
Definition oper_spec (code : N) : option N :=
  match code with
  | 0 => Some 8 | 1 => Some 32 | 2 => Some 2 | 3 => Some 64 | 4 => Some 4 | 5 => Some 16 | 6 => Some 1
  | _ => None
  end.

Fixpoint changes_of (iface : N) (msgs : list (option (N * N))) : list N :=
  match msgs with
  | [] => []
  | Some (i, code) :: r =>
      match oper_spec code with
      | Some c => if N.eqb i iface then c :: changes_of iface r else changes_of iface r
      | None => changes_of iface r
      end
  | None :: r => changes_of iface r
  end.

Definition holds (c : case) : bool :=
  match c with
  | CTrace evs obs trouble =>
      negb trouble &&
      match attach evs obs with
      | None => false
      | Some l => forallb (fun k => spec_run k view0 l) (seq 0 (count_subs evs))
      end
  | COper code obs => oN_eqb (oper_spec code) obs
  | CProcess msgs obs =>
      (* every observed interface carries exactly its recognised changes in message order, is
         non-empty, and every interface with a recognised change is present *)
      forallb (fun kv => nlist_eqb (snd kv) (changes_of (fst kv) msgs) && negb (Nat.eqb (length (snd kv)) 0)) obs &&
      forallb (fun m => match m with
                        | Some (i, code) => match oper_spec code with
                                            | Some _ => match assoc i obs with Some _ => true | None => false end
                                            | None => true end
                        | None => true end) msgs
  end.

Definition known (c : case) : N := 0%N.
