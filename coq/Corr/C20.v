(* C20 correspondence.
   CBuild: Server.BuildTasks on a generated configuration; observed = kinds (and interface names)
   of the returned tasks, whether each interface task got a watcher channel and the server's
   terminate function.
   CServe: the real Server.Serve run under testing/synctest with n scripted tasks; observed = the
   log of task Run entry / ready / observation of ctx.Done() with the terminate() value read /
   return, signals sent, the signal task's log line (with terminate() at that moment), the
   notifications written to the sdnotify socket, Serve's return.
   CHTTP: the real serve() retry loop with a scripted listener function.
   [agree]: the observed log, completed with the signal task's unobservable steps, is a trace of
   the LTS of Model.Server.  [holds]: the property text checked on the observed log. *)
From Coq Require Import String.
From CR Require Export Model.Server.
From Coq Require Import List ZArith NArith Bool.
Local Open Scope N_scope.

Inductive oev :=
| OStart (i : nat)
| OReady (i : nat)
| OSee (i : nat) (b : bool)
| ORet (i : nat) (r : option N) (ctx_done : bool)   (* ctx.Err() != nil when Run returned *)
| OSig (s : sig)                                    (* the driver put s into sigC *)
| OPrint (term_now ctx_done : bool)                 (* "received ..., shutting down" log line *)
| OStopping                                         (* STOPPING=1 written *)
| OStarted                                          (* a per-task "started ..." status written *)
| ONotifyReady                                      (* READY=1 written *)
| OServe (r : option N).

Inductive case :=
| CBuild (c : config) (obs : list task_kind) (wired : bool)
| CServe (n : nat) (obs : list oev) (stuck : bool)   (* stuck: Serve had not returned when everything was idle *)
| CHTTP (delay : Z) (cancel_at : option Z) (oracle : list (fn_result * Z)) (res : serve_result) (calls : list Z).

(* ------------------------------------------------------------------ agree *)
Definition kind_eqb (a b : task_kind) : bool :=
  match a, b with
  | TAdvertiser x, TAdvertiser y | TMonitor x, TMonitor y => N.eqb x y
  | THTTP, THTTP | TWatcher, TWatcher => true
  | _, _ => false
  end.

Fixpoint kinds_eqb (a b : list task_kind) : bool :=
  match a, b with
  | [], [] => true
  | x :: a', y :: b' => kind_eqb x y && kinds_eqb a' b'
  | _, _ => false
  end.

Definition next_action (st : state) : option string :=
  match sigtask st with
  | SAct _ k => nth_error signal_run_order k
  | _ => None
  end.

Definition next_is (a : string) (st : state) : bool :=
  match next_action st with Some x => String.eqb x a | None => false end.

(* one unobservable step of the signal task; [take]: this run's signal task took a signal
   (decided by whether its log line appears anywhere in the observation) *)
Definition tau (take : bool) (st : state) : option state :=
  match sigtask st with
  | SWait => if take then match pending st with Some s => step st (LTake s) | None => None end
             else step st LDone
  | SAct _ _ => step st LAct
  | SDone => None
  end.

(* perform label l, inserting as few unobservable signal-task steps before it as possible *)
Fixpoint perform (fuel : nat) (take : bool) (pre : state -> bool) (l : label) (st : state) : option state :=
  match (if pre st then step st l else None) with
  | Some st' => Some st'
  | None => match fuel with
            | O => None
            | S f => match tau take st with Some st1 => perform f take pre l st1 | None => None end
            end
  end.

Definition yes (_ : state) : bool := true.

Definition accept1 (take : bool) (st : state) (o : oev) : option state :=
  let fuel := S (S (length signal_run_order)) in
  match o with
  | OStart i => perform fuel take yes (LStart i) st
  | OReady i => perform fuel take yes (LReady i) st
  | OSee i b => perform fuel take yes (LSee i b) st
  | ORet i r _ => perform fuel take yes (LRet i r) st
  | OSig s => perform fuel take yes (LSig s) st
  | OPrint t c => perform fuel take (fun st => next_is "print" st && Bool.eqb (term st) t && implb c (cancelled st)) LAct st
  | OStopping => perform fuel take (next_is "notify") LAct st
  | OStarted => Some st
  | ONotifyReady => perform fuel take yes LNotifyReady st
  | OServe r => perform fuel take yes (LServe r) st
  end.

Fixpoint accept (take : bool) (st : state) (obs : list oev) : bool :=
  match obs with
  | [] => true
  | o :: r => match accept1 take st o with Some st' => accept take st' r | None => false end
  end.

Definition is_print (o : oev) : bool := match o with OPrint _ _ => true | _ => false end.
Definition is_serve (o : oev) : bool := match o with OServe _ => true | _ => false end.

Definition sres_eqb (a b : serve_result) : bool :=
  match a, b with
  | SRNil, SRNil | SRTimeout, SRTimeout | SRPanic, SRPanic => true
  | SRErr x, SRErr y => N.eqb x y
  | _, _ => false
  end.

Fixpoint zlist_eqb (a b : list Z) : bool :=
  match a, b with
  | [], [] => true
  | x :: a', y :: b' => Z.eqb x y && zlist_eqb a' b'
  | _, _ => false
  end.

Definition agree (c : case) : bool :=
  match c with
  | CBuild cfg obs wired => kinds_eqb (build_tasks true cfg) obs && wired
  | CServe n obs stuck =>
      accept (existsb is_print obs) (init n) obs && negb stuck && existsb is_serve obs
  | CHTTP delay cancel_at oracle res calls =>
      let (r, cs) := serve delay cancel_at oracle in sres_eqb r res && zlist_eqb cs calls
  end.

(* ------------------------------------------------------------------ holds: the property text *)

(* --- BuildTasks *)
Fixpoint expected_tasks (ifs : list ifcfg) : list task_kind :=
  match ifs with
  | [] => []
  | i :: r =>
      (if ic_advertise i then [TAdvertiser (ic_name i)]
       else if ic_monitor i then [TMonitor (ic_name i)] else []) ++ expected_tasks r
  end.

Definition holds_build (c : config) (obs : list task_kind) : bool :=
  kinds_eqb obs (expected_tasks (c_ifaces c) ++ (if c_debug c then [THTTP] else []) ++ [TWatcher]).

(* --- Serve, on the observed log *)
Fixpoint first_failure (obs : list oev) : option (nat * N) :=
  match obs with
  | [] => None
  | ORet i (Some e) _ :: _ => Some (i, e)
  | _ :: r => first_failure r
  end.

Fixpoint first_signal (obs : list oev) : option sig :=
  match obs with
  | [] => None
  | OSig s :: _ => Some s
  | _ :: r => first_signal r
  end.

Definition means_terminate (s : sig) : bool := negb (sig_eqb s SIGHUP).   (* anything but SIGHUP *)

Definition returned_in (obs : list oev) (i : nat) : bool :=
  existsb (fun o => match o with ORet j _ _ => Nat.eqb i j | _ => false end) obs.
Definition ready_in (obs : list oev) (i : nat) : bool :=
  existsb (fun o => match o with OReady j => Nat.eqb i j | _ => false end) obs.
Definition count (p : oev -> bool) (obs : list oev) : nat := length (filter p obs).

Definition ooN_eqb (a b : option N) : bool :=
  match a, b with None, None => true | Some x, Some y => N.eqb x y | _, _ => false end.

(* walk the log with the part already seen (reversed order is irrelevant: only membership and
   "first" are asked of the past, so the past is kept in order) *)
Fixpoint check_log (n : nat) (past : list oev) (rest : list oev) : bool :=
  match rest with
  | [] => true
  | o :: r =>
      (match o with
       | OServe res =>
           (* only after every task has returned; the first failure if there was one, else success
              and then only because a signal asked for it *)
           forallb (returned_in past) (seq 0 n) &&
           match first_failure past with
           | Some (_, e) => ooN_eqb res (Some e)
           | None => ooN_eqb res None && match first_signal past with Some _ => true | None => false end
           end &&
           match r with [] => true | _ => forallb (fun o => match o with OStarted | ONotifyReady | OSig _ => true | _ => false end) r end
       | OSee i b =>
           (* the cancellation it observes was caused by a failure or by a signal *)
           match first_failure past, first_signal past with
           | None, None => false
           | None, Some s => Bool.eqb b (means_terminate s)      (* recorded before anyone can see it *)
           | Some _, None => Bool.eqb b false
           | Some _, Some s => Bool.eqb b (means_terminate s) || Bool.eqb b false
           end
       | ORet i res done =>
           (* once a task has failed (or a signal was handled and seen) the others are cancelled:
              a task returning after the first failure returns under a cancelled context *)
           negb (returned_in past i) &&
           match first_failure past with Some _ => done | None => true end
       | OPrint t _ =>
           match first_signal past with Some s => Bool.eqb t (means_terminate s) | None => false end
       | OStopping => match first_signal past with Some _ => true | None => false end
       | ONotifyReady =>
           forallb (ready_in past) (seq 0 n) && negb (existsb (fun o => match o with ONotifyReady => true | _ => false end) past)
       | OStart i => negb (existsb (fun o => match o with OStart j => Nat.eqb i j | _ => false end) past)
       | _ => true
       end) && check_log n (past ++ [o]) r
  end.

Definition holds_serve (n : nat) (obs : list oev) (stuck : bool) : bool :=
  check_log n [] obs &&
  (* Serve returns at most once *)
  Nat.leb (count is_serve obs) 1 &&
  (* the scripted tasks all return once cancelled, so a failure or a signal must end the run *)
  (if match first_failure obs with Some _ => true | None => false end ||
      match first_signal obs with Some _ => true | None => false end
   then existsb is_serve obs && negb stuck else true).

(* --- serve(): at most 40 attempts 3 s apart (delay), first at once; stops silently on
   cancellation and on ErrServerClosed, passes other errors on, gives up after the 40th *)
Definition documented_attempts : nat := 40.

Fixpoint gaps_ok (delay : Z) (oracle : list (fn_result * Z)) (calls : list Z) : bool :=
  match calls with
  | a :: ((b :: _) as tl) =>
      match oracle with
      | (_, d) :: orest => Z.eqb b (a + d + delay) && gaps_ok delay orest tl
      | [] => Z.eqb b (a + delay) && gaps_ok delay [] tl
      end
  | _ => true
  end.

Definition holds_http (delay : Z) (cancel_at : option Z) (oracle : list (fn_result * Z))
           (res : serve_result) (calls : list Z) : bool :=
  Nat.leb (length calls) documented_attempts &&
  match calls with [] => true | a :: _ => Z.eqb a 0 end &&
  gaps_ok delay oracle calls &&
  (* never calls fn at or after the cancellation instant *)
  match cancel_at with Some c => forallb (fun t => Z.ltb t c) calls | None => true end &&
  match res with
  | SRTimeout => Nat.eqb (length calls) documented_attempts
  | SRErr e => match nth_error oracle (pred (length calls)) with Some (FOther e', _) => N.eqb e e' | _ => false end
  | SRPanic => match nth_error oracle (pred (length calls)) with Some (FNil, _) => true | _ => false end
  | SRNil => match cancel_at with
             | Some _ => true
             | None => match nth_error oracle (pred (length calls)) with Some (FClosed, _) => true | _ => false end
             end
  end.

Definition holds (c : case) : bool :=
  match c with
  | CBuild cfg obs wired => holds_build cfg obs && wired
  | CServe n obs stuck => holds_serve n obs stuck
  | CHTTP delay cancel_at oracle res calls => holds_http delay cancel_at oracle res calls
  end.

Definition known (c : case) : N := 0%N.
