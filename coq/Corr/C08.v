(* C08 correspondence: the observed event log of one real Advertiser.Run (WriteTo gated per call
   under virtual time) must be a complete run of the stop-sequence LTS and satisfy the trace spec. *)
From CR Require Export Model.Shutdown.
Local Open Scope Z_scope.

Record case := mkStop {
  c_terminate : bool; c_unicast_only : bool;
  c_trace : list (Z * label);          (* (virtual instant, event) in log order *)
  c_last_release : Z;                  (* instant at which the driver released the last gated write (or the cancel instant) *)
  c_final_matches : bool               (* the final RA equals an ordinary RA except for its router lifetime *)
}.

Definition want_final (c : case) : bool := c_terminate c && negb (c_unicast_only c).
Definition labels (c : case) : list label := map snd (c_trace c).

Definition agree (c : case) : bool := accepts (want_final c) (labels c).

(* ---- specification checker, from the property text *)
Definition is_final_begin (l : label) : bool := match l with LBegin _ true => true | _ => false end.
Definition is_return (l : label) : bool := match l with LReturn _ => true | _ => false end.
Definition is_cancel (l : label) : bool := match l with LCancel => true | _ => false end.

(* the events from the first final begin on *)
Fixpoint from_final (tr : list label) : list label :=
  match tr with
  | [] => []
  | l :: tr' => if is_final_begin l then tr else from_final tr'
  end.
Fixpoint before_final (tr : list label) : list label :=
  match tr with
  | [] => []
  | l :: tr' => if is_final_begin l then [] else l :: before_final tr'
  end.

(* every begin in tr has its end later in tr *)
Fixpoint ends_all (tr : list label) : bool :=
  match tr with
  | [] => true
  | LBegin s _ :: tr' => existsb (fun l => match l with LEnd s' => (s =? s')%N | _ => false end) tr' && ends_all tr'
  | _ :: tr' => ends_all tr'
  end.

Definition last_is_return_ok (tr : list label) : bool :=
  match rev tr with LReturn true :: _ => true | _ => false end.

Definition time_of (p : label -> bool) (tr : list (Z * label)) : Z :=
  match filter (fun x => p (snd x)) tr with (t, _) :: _ => t | [] => -1 end.

Definition holds (c : case) : bool :=
  let tr := labels c in
  let w := want_final c in
  (* exactly one final RA when terminating, none when reloading *)
  (Nat.eqb (length (filter is_final_begin tr)) (if w then 1 else 0)) &&
  (* Run returns exactly once, with success, and it is the last event: nothing after return *)
  (Nat.eqb (length (filter is_return tr)) 1) && last_is_return_ok tr &&
  (* the final RA is begun after the cancellation and after every other transmission has ended;
     it is the last packet: after its begin only its own end and the return follow *)
  (if w then
     match from_final tr with
     | [LBegin s true; LEnd s'; LReturn true] => (s =? s')%N
     | _ => false
     end && existsb is_cancel (before_final tr) && ends_all (before_final tr)
   else ends_all tr && existsb is_cancel tr) &&
  (* it stops promptly: no virtual time passes between the last release / cancel and the return *)
  (time_of is_return (c_trace c) <=? Z.max (time_of is_cancel (c_trace c)) (c_last_release c)) &&
  c_final_matches c.

Definition known (c : case) : N := 0%N.
