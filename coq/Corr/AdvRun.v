(* Shared case type for the advertiser-run correspondences (C06, C07): one run of the real
   Advertiser.Run under virtual time, from (re)initialisation at t0 to an observation horizon. *)
From CR Require Import Model.Delay Model.Sched Base.IP.
Local Open Scope Z_scope.

Record case := mkRun {
  c_unicast_only : bool;
  c_min : Z; c_max : Z;
  c_t0 : Z;                          (* instant of the initial RA = start of scheduler and multicast loop *)
  c_loop_draws : list Z;             (* draws of the multicast loop's PRNG, reproduced from the seed *)
  c_events : list (Z * request);     (* solicitations in arrival order: RS from :: = ReqMulti, RS from a = ReqUni a draw *)
  c_horizon : Z;                     (* observation stops (strictly) before this instant *)
  c_obs : list (Z * N);              (* observed WriteTo calls: (virtual instant, destination), sorted *)
  c_cnt_uni : Z; c_cnt_multi : Z;    (* router_advertisements_total{unicast|multicast} at the horizon *)
  c_cnt_rs : Z                       (* messages_received_total{router solicitation} *)
}.

Definition ticks (c : case) : list (Z * request) :=
  if c_unicast_only c then []
  else map (fun t => (t, ReqMulti)) (request_times 0 (c_t0 c) (c_min c) (c_max c) (c_loop_draws c)).

Definition before (hz : Z) {A} (l : list (Z * A)) : list (Z * A) := filter (fun x => fst x <? hz) l.

Definition history (c : case) : list (Z * request) :=
  before (c_horizon c) (merge (ticks c) (c_events c)).

(* insertion sort on (instant, destination) *)
Definition send_leb (a b : Z * N) : bool :=
  (fst a <? fst b) || ((fst a =? fst b) && (snd a <=? snd b)%N).
Fixpoint insert (x : Z * N) (l : list (Z * N)) : list (Z * N) :=
  match l with [] => [x] | y :: l' => if send_leb x y then x :: l else y :: insert x l' end.
Definition sort_sends (l : list (Z * N)) : list (Z * N) := fold_right insert [] l.

Definition model_sends (c : case) : list (Z * N) :=
  sort_sends (before (c_horizon c) (run_sends (c_unicast_only c) (c_t0 c) (history c))).

Definition send_eqb (a b : Z * N) : bool := (fst a =? fst b) && (snd a =? snd b)%N.

Definition agree_sends (c : case) : bool := list_eqb send_eqb (model_sends c) (sort_sends (c_obs c)).
