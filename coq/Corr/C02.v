(* C02 correspondence: one TOML document, lexed (c_raw), with what config.Parse returned for it
   (c_impl: None = error, Some = every field of every Interface incl. the plugin list, and Debug). *)
From CR Require Export Model.Config.
From CR Require Export Model.ConfigSpec.
From CR Require Export Model.ConfigWf.
Local Open Scope Z_scope.

Record case := mkCase { c_raw : raw_config; c_impl : option config }.

Definition plugin_eqb (p q : plugin) : bool :=
  match p, q with
  | PPrefix au a b o s v pr d, PPrefix au' a' b' o' s' v' pr' d' =>
      Bool.eqb au au' && N.eqb a a' && N.eqb b b' && Bool.eqb o o' && Bool.eqb s s' &&
      Z.eqb v v' && Z.eqb pr pr' && Bool.eqb d d'
  | PRoute au a b p l d, PRoute au' a' b' p' l' d' =>
      Bool.eqb au au' && N.eqb a a' && N.eqb b b' && pref_eqb p p' && Z.eqb l l' && Bool.eqb d d'
  | PRDNSS au l s, PRDNSS au' l' s' => Bool.eqb au au' && Z.eqb l l' && list_eqb N.eqb s s'
  | PDNSSL l s, PDNSSL l' s' => Z.eqb l l' && list_eqb N.eqb s s'
  | PMTU m, PMTU m' => Z.eqb m m'
  | PLLA, PLLA => true
  | PCaptive u, PCaptive u' => N.eqb u u'
  | PPref64 v a b l, PPref64 v' a' b' l' => Bool.eqb v v' && N.eqb a a' && N.eqb b b' && Z.eqb l l'
  | _, _ => false
  end.

Definition iface_eqb (x y : iface) : bool :=
  N.eqb (if_name x) (if_name y) && Bool.eqb (if_monitor x) (if_monitor y) &&
  Bool.eqb (if_advertise x) (if_advertise y) && Bool.eqb (if_verbose x) (if_verbose y) &&
  Z.eqb (if_min x) (if_min y) && Z.eqb (if_max x) (if_max y) &&
  Bool.eqb (if_managed x) (if_managed y) && Bool.eqb (if_other x) (if_other y) &&
  Z.eqb (if_reachable x) (if_reachable y) && Z.eqb (if_retrans x) (if_retrans y) &&
  N.eqb (if_hop x) (if_hop y) && Z.eqb (if_lifetime x) (if_lifetime y) &&
  Bool.eqb (if_unicast_only x) (if_unicast_only y) && pref_eqb (if_pref x) (if_pref y) &&
  list_eqb plugin_eqb (if_plugins x) (if_plugins y).

Definition debug_eqb (x y : debug) : bool :=
  N.eqb (dbg_address x) (dbg_address y) && Bool.eqb (dbg_prometheus x) (dbg_prometheus y) &&
  Bool.eqb (dbg_pprof x) (dbg_pprof y).

Definition config_eqb (x y : config) : bool :=
  list_eqb iface_eqb (fst x) (fst y) && debug_eqb (snd x) (snd y).

(* model result = implementation result (accept/reject + whole configuration); the lexer
   invariants assumed by the cfg_wf lemma are validated on every case as well *)
Definition agree (c : case) : bool :=
  lex_wfb (c_raw c) &&
  match parse (c_raw c), c_impl c with
  | Ok m, Some i => config_eqb m i
  | Err _, None => true
  | _, _ => false
  end.

(* the specification evaluated on the implementation's observed result:
   accepted <-> the documented constraints hold; accepted -> exactly the documented defaults
   (and, redundantly by C02_cfg_wf, every accepted interface is well formed) *)
(* [debug] flags are only specified when an address is set (otherwise no debug server exists) *)
Definition config_as_documented (i d : config) : bool :=
  list_eqb iface_eqb (fst i) (fst d) &&
  (if N.eqb (dbg_address (snd d)) 0 then N.eqb (dbg_address (snd i)) 0 else debug_eqb (snd i) (snd d)).

Definition holds (c : case) : bool :=
  match c_impl c with
  | Some i => Accepts_b (c_raw c) && config_as_documented i (defaults (c_raw c)) && forallb cfg_wfb (fst i)
  | None => negb (Accepts_b (c_raw c))
  end.

Definition known (c : case) : N := 0%N.
