(* C12 correspondence: (own RA, received RA as it came out of ndp.ParseMessage) -> the problems the
   implementation reported, either as the return value of verifyRAs (mode 0) or as the deltas of
   corerad_advertiser_inconsistencies_total + hook invocations + log lines of Advertiser.handle
   (mode 1). *)
From CR Require Export Model.Verify.
From CR Require Export Model.VerifySpec.
Local Open Scope Z_scope.

(* rendering helper of the driver: a duration given as seconds + nanoseconds *)
Definition dz (s n : Z) : Z := s * 1000000000 + n.

Record case := mkCase {
  c_mode : N;                (* 0 = verifyRAs(ours, theirs); 1 = Advertiser.handle(theirs) with own RA = ours *)
  c_ours : ra;
  c_theirs : ra;
  c_self : N;                (* 0 = unrelated; 1 = theirs is the decoded wire image of ours;
                                2 = same, and the codec model (wire_ra) is expected to be exact *)
  c_reported : list problem; (* mode 0: returned problems; mode 1: one entry per unit of counter delta *)
  c_hook : N;                (* mode 1: OnInconsistentRA invocations *)
  c_logged : N;              (* mode 1: log lines written *)
  c_labels_ok : bool         (* mode 1: every touched series carries the own interface name *)
}.

Definition same_multiset (l1 l2 : list problem) : bool :=
  forallb (fun p => Nat.eqb (count p l1) (count p l2)) (l1 ++ l2).

(* codec model vs decoder output, on everything but PREF64 lifetimes (scaled units, not inspected) *)
Definition opt_wire_eqb (a b : opt) : bool :=
  match a, b with
  | OPref64 v x l _, OPref64 v' x' l' _ => Bool.eqb v v' && N.eqb x x' && N.eqb l l'
  | _, _ => opt_eqb a b
  end.
Definition ra_wire_eqb (a b : ra) : bool :=
  N.eqb (ra_hop a) (ra_hop b) && Bool.eqb (ra_managed a) (ra_managed b) &&
  Bool.eqb (ra_other a) (ra_other b) && pref_eqb (ra_pref a) (ra_pref b) &&
  Z.eqb (ra_lifetime a) (ra_lifetime b) && Z.eqb (ra_reachable a) (ra_reachable b) &&
  Z.eqb (ra_retrans a) (ra_retrans b) && list_eqb opt_wire_eqb (ra_opts a) (ra_opts b).

Definition agree (c : case) : bool :=
  let m := handle_ra (Ok (c_ours c)) (c_theirs c) in
  same_multiset (h_counted m) (c_reported c) &&
  (if N.eqb (c_mode c) 1 then N.eqb (h_hook m) (c_hook c) && N.eqb (h_logged m) (c_logged c) else true) &&
  (if N.eqb (c_self c) 2 then ra_wire_eqb (wire_ra (c_ours c)) (c_theirs c) else true).

(* the specification, evaluated on what the implementation reported *)
Definition holds (c : case) : bool :=
  reports_ok (c_ours c) (c_theirs c) (c_reported c) &&
  (if N.eqb (c_mode c) 1
   then N.eqb (c_hook c) (if is_nil (c_reported c) then 0 else 1) &&       (* hook iff at least one *)
        N.eqb (c_logged c) (if is_nil (c_reported c) then 0
                            else N.of_nat (S (length (c_reported c)))) &&  (* each logged once *)
        c_labels_ok c
   else true) &&
  (* CoreRAD's own (self-consistent) RA after a wire round trip: no report *)
  (if negb (N.eqb (c_self c) 0) && self_consistent (c_ours c) then is_nil (c_reported c) else true).

Definition known (c : case) : N := 0%N.
