(* C18 correspondence: a history of messages delivered to one real Monitor (through its listener
   or by calling Monitor.handle directly); after every message the complete set of
   corerad_monitor_* samples of the metricslite.Memory is observed. *)
From CR Require Export Model.Monitor.
Local Open Scope Z_scope.

(* rendering helpers of the driver *)
Definition dz (s n : Z) : Z := s * 1000000000 + n.

Record event := mkEv {
  e_host : host;               (* sender as reported by the socket (listener) / passed to handle (direct) *)
  e_now : Z;                   (* m.now() in ns since the UNIX epoch *)
  e_msg : msg;
  e_delta : series             (* the corerad_monitor_* samples that are new or have another value
                                  after the message (computed by the driver from two full snapshots) *)
}.
Record case := mkCase {
  c_iface : N;
  c_listener : bool;           (* true: via Monitor.monitor + listener.Listen; false: Monitor.handle *)
  c_events : list event
}.

(* compact constructors used by the driver (fewer implicit arguments to infer per sample) *)
Definition ev (a z : N) (now : Z) (m : msg) (delta : series) : event := mkEv (a, z) now m delta.
Definition s0 (m : metric) (i a z : N) (v : Z) : key * Z := ((m, mkLabels i (a, z) None None), v).
Definition s1 (m : metric) (i a z pa pl : N) (v : Z) : key * Z := ((m, mkLabels i (a, z) (Some (PL pa pl)) None), v).
Definition s2 (m : metric) (i a z : N) (v : Z) : key * Z := ((m, mkLabels i (a, z) (Some PLInvalid) None), v).
Definition s3 (i a z ty : N) (v : Z) : key * Z := ((MReceived, mkLabels i (a, z) None (Some ty)), v).

Definition delivered (c : case) (e : event) : host :=
  if c_listener c then strip_zone (e_host e) else e_host e.

Definition keys (s : series) : list key := map fst s.
(* the full observed sample set after a message = the previous one updated by the delta *)
Definition next_state (prev delta : series) : series :=
  fold_left (fun s kv => store s (fst kv) (snd kv)) delta prev.
Definition same_series (s1 s2 : series) : bool :=
  forallb (fun k => option_eqb Z.eqb (lookup s1 k) (lookup s2 k)) (keys s1 ++ keys s2).

Fixpoint nodup_keys (ks : list key) : bool :=
  match ks with
  | [] => true
  | k :: ks' => negb (existsb (key_eqb k) ks') && nodup_keys ks'
  end.

(* ---- agree: the model's series after each message = the observed series *)
Fixpoint agree_from (c : case) (s obs : series) (es : list event) : bool :=
  match es with
  | [] => true
  | e :: es' =>
      let s' := apply_ops s (monitor_handle (c_iface c) (delivered c e) (e_now e) (e_msg e)) in
      let obs' := next_state obs (e_delta e) in
      same_series s' obs' && agree_from c s' obs' es'
  end.
Definition agree (c : case) : bool := agree_from c [] [] (c_events c).

(* ---- holds: the property text, sample by sample.  [prev] is the OBSERVED state before the
   message; [expected] says what each sample must be afterwards. *)
Definition prefix_of (o : opt) : option (plabel * (bool * bool * (dur * dur))) :=
  match o with
  | OPrefix l ol au v p x =>
      Some (if (l <=? 128)%N then PL x l else PLInvalid, (au, ol, (p, v)))
  | _ => None
  end.
(* the last prefix option of the RA carrying this label (later options overwrite earlier ones) *)
Fixpoint last_prefix (pl : plabel) (os : list opt) (acc : option (bool * bool * (dur * dur))) :=
  match os with
  | [] => acc
  | o :: os' =>
      match prefix_of o with
      | Some (pl', d) => last_prefix pl os' (if plabel_eqb pl' pl then Some d else acc)
      | None => last_prefix pl os' acc
      end
  end.

Definition expiry (now d : Z) : Z := (now + d) / 1000000000.   (* floor, in UNIX seconds *)

Definition expected (iface : N) (h : host) (now : Z) (m : msg) (prev : series) (k : key) : option Z :=
  let (mt, lb) := k in
  let mine := N.eqb (l_iface lb) iface && host_eqb (l_host lb) h in
  match mt with
  | MReceived =>
      if mine && option_eqb N.eqb (l_msg lb) (Some (msg_type m)) &&
         option_eqb plabel_eqb (l_prefix lb) None
      then Some (value_or_zero (lookup prev k) + 1) else lookup prev k
  | _ =>
      match m with
      | MsgOther _ => lookup prev k
      | MsgRA r =>
          if negb (mine && option_eqb N.eqb (l_msg lb) None) then lookup prev k else
          match mt, l_prefix lb with
          | MFlagManaged, None => Some (if ra_managed r then 1 else 0)
          | MFlagOther, None => Some (if ra_other r then 1 else 0)
          | MDefaultRoute, None =>
              if ra_lifetime r =? 0 then lookup prev k else Some (expiry now (ra_lifetime r))
          | MPrefixAutonomous, Some pl =>
              match last_prefix pl (ra_opts r) None with
              | Some (au, _, _) => Some (if au then 1 else 0) | None => lookup prev k end
          | MPrefixOnLink, Some pl =>
              match last_prefix pl (ra_opts r) None with
              | Some (_, ol, _) => Some (if ol then 1 else 0) | None => lookup prev k end
          | MPrefixPreferred, Some pl =>
              match last_prefix pl (ra_opts r) None with
              | Some (_, _, (p, _)) => Some (expiry now p) | None => lookup prev k end
          | MPrefixValid, Some pl =>
              match last_prefix pl (ra_opts r) None with
              | Some (_, _, (_, v)) => Some (expiry now v) | None => lookup prev k end
          | _, _ => lookup prev k
          end
      end
  end.

(* every label set the message can possibly touch *)
Definition touched (iface : N) (h : host) (m : msg) : list key :=
  (MReceived, mkLabels iface h None (Some (msg_type m))) ::
  match m with
  | MsgOther _ => []
  | MsgRA r =>
      let lb := mkLabels iface h None None in
      (MFlagManaged, lb) :: (MFlagOther, lb) :: (MDefaultRoute, lb) ::
      flat_map (fun o => match prefix_of o with
                         | Some (pl, _) =>
                             let lp := mkLabels iface h (Some pl) None in
                             [(MPrefixAutonomous, lp); (MPrefixOnLink, lp); (MPrefixPreferred, lp); (MPrefixValid, lp)]
                         | None => []
                         end) (ra_opts r)
  end.

Fixpoint holds_from (c : case) (prev : series) (es : list event) : bool :=
  match es with
  | [] => true
  | e :: es' =>
      let h := delivered c e in
      let cur := next_state prev (e_delta e) in
      nodup_keys (keys (e_delta e)) &&
      forallb (fun k => option_eqb Z.eqb (lookup cur k)
                                   (expected (c_iface c) h (e_now e) (e_msg e) prev k))
              (touched (c_iface c) h (e_msg e) ++ keys prev ++ keys (e_delta e)) &&
      holds_from c cur es'
  end.
Definition holds (c : case) : bool := holds_from c [] (c_events c).

Definition known (c : case) : N := 0%N.
