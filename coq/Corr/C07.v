(* C07 correspondence: every solicitation answered exactly once, to the right destination, in time;
   counters equal what was transmitted / received. *)
From CR Require Import Model.Delay Base.IP.
From CR Require Export Model.Sched Corr.AdvRun.
Local Open Scope Z_scope.

Definition case := AdvRun.case.

Definition count_uni (l : list (Z * N)) : Z := Z.of_nat (length (filter (fun s => negb (is_multicast (snd s))) l)).
(* scheduled multicast transmissions: everything to a multicast destination except the initial RA *)
Definition count_multi (l : list (Z * N)) : Z :=
  Z.of_nat (length (filter (fun s => is_multicast (snd s)) l)) - 1.

Definition agree (c : case) : bool :=
  agree_sends c &&
  (c_cnt_uni c =? count_uni (model_sends c)) &&
  (c_cnt_multi c =? (if c_unicast_only c then 0 else count_multi (model_sends c))).

(* ---- specification from the property text; literals: 500 ms, ff02::1 *)
Definition ff02_1 : N := 338963523518870617245727861364146307073%N.

(* solicitation instants per specified source (those whose answer is due before the horizon is decided
   by the window: an RS at t must be answered in [t, t+500ms) ) *)
Definition rs_from (a : N) (c : case) : list Z :=
  flat_map (fun tq => match snd tq with ReqUni d _ => if (d =? a)%N then [fst tq] else [] | _ => [] end) (c_events c).
Definition sends_to (a : N) (c : case) : list Z :=
  map fst (filter (fun s => (snd s =? a)%N) (sort_sends (c_obs c))).

Fixpoint zinsert (x : Z) (l : list Z) : list Z :=
  match l with [] => [x] | y :: l' => if x <=? y then x :: l else y :: zinsert x l' end.
Definition zsort (l : list Z) : list Z := fold_right zinsert [] l.

(* sorted matching: k-th solicitation <-> k-th answer, each within [t, t+500ms); solicitations whose
   window crosses the horizon may be unanswered (the interface was stopped before the answer was due),
   but only as a suffix *)
Fixpoint matched (hz : Z) (rs ans : list Z) : bool :=
  match rs, ans with
  | [], [] => true
  | [], _ :: _ => false                                   (* an answer nobody asked for / a duplicate *)
  | t :: rs', [] => (hz <=? t + 500000000) && matched hz rs' []
  | t :: rs', s :: ans' =>
      if (t <=? s) && (s <? t + 500000000) then matched hz rs' ans'
      else (hz <=? t + 500000000) && matched hz rs' ans
  end.

Definition sources (c : case) : list N :=
  flat_map (fun tq => match snd tq with ReqUni d _ => [d] | _ => [] end) (c_events c).

Definition holds (c : case) : bool :=
  let obs := sort_sends (c_obs c) in
  (* destinations: a solicitor or all-nodes *)
  forallb (fun s => (snd s =? ff02_1)%N || existsb (N.eqb (snd s)) (sources c)) obs &&
  (* exactly once, in time, per source *)
  forallb (fun a => matched (c_horizon c) (zsort (rs_from a c)) (sends_to a c)) (sources c) &&
  (* unicast-only never transmits to a multicast destination *)
  (if c_unicast_only c then forallb (fun s => negb (is_multicast (snd s))) obs else true) &&
  (* counters = transmissions actually made / messages received *)
  (c_cnt_uni c =? count_uni obs) &&
  (c_cnt_multi c =? (if c_unicast_only c then 0 else count_multi obs)) &&
  (c_cnt_rs c =? Z.of_nat (length (c_events c))).

Definition known (c : case) : N := 0%N.
