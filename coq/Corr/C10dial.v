(* C10 (dialer clauses) correspondence: the real Dialer.Dial under synctest against a fault script.
   case = script + observed timed event log.  [agree]: the model's timeline equals the log for some
   resolution of the select races (oracle bits, found by look-ahead: the resolutions that matter are
   "timer k times, then ctx.Done").  [holds]: the specification checker, written from the property
   text as an acceptor of observed logs; it never calls the model. *)
From CR Require Export Model.Dialer.
Local Open Scope Z_scope.

Record case := mkCase { c_sc : script; c_obs : list (Z * event) }.

Definition with_bits (sc : script) (bits : list bool) : script :=
  mkScript (sc_mode sc) (sc_real sc) (sc_autoconf0 sc) (sc_pre sc) (sc_dials sc) (sc_tasks sc) (sc_waits sc) bits.

Definition norm_event (e : event) : event :=
  match e with Return v => Return (norm_ret v) | _ => e end.

Definition tev_eqb (a b : Z * event) : bool := (fst a =? fst b) && event_eqb (snd a) (snd b).

Definition model_obs (sc : script) (k : nat) : list (Z * event) :=
  map (fun te => (fst te, norm_event (snd te))) (timeline 0 (dial_loop (with_bits sc (repeat true k)))).

Fixpoint first_match (sc : script) (obs : list (Z * event)) (k : nat) (fuel : nat) : bool :=
  if list_eqb tev_eqb (model_obs sc k) obs then true
  else match fuel with O => false | S f => first_match sc obs (S k) f end.

Definition is_dial (e : Z * event) : bool := match snd e with DialAttempt _ => true | _ => false end.

Definition agree (c : case) : bool :=
  first_match (c_sc c) (c_obs c) 0 (length (filter is_dial (c_obs c))).

(* ------------------------------------------------------------------ specification checker *)

(* "recoverable (link not ready, link change, a non-permission system call error)" *)
Definition spec_recoverable (e : err) : bool :=
  match e with ELinkNotReady | ELinkChange | ESyscall => true | _ => false end.

(* "at most 50 attempts, delays growing by 250ms up to 3s" *)
Definition spec_attempts : nat := 50.
Definition spec_delay (j : nat) : Z := Z.min (Z.of_nat j * 250000000) 3000000000.

Inductive phase :=
| PFirst                                          (* nothing dialled yet *)
| PDecide (cause : option err) (clean : bool)     (* a cause is known (first dial error / task result after its clean-up) *)
| PReinit (j : nat) (t0 : Z)                      (* re-establishing: j attempts made, the last one (or the cause) at t0 *)
| PExhausted                                      (* the 50th attempt failed *)
| PConn                                           (* a connection was handed out *)
| PRan (k : N) (r : option err)                   (* the task ran on k and returned r; k not yet cleaned up *)
| PDone.

Record hst := mkH { h_phase : phase; h_cancel : option Z; h_last : Z; h_next : N }.

Definition coarse (e : event) : bool :=
  match e with
  | Cancel | DialAttempt _ | Task _ _ | Cleanup _ _ | Return _ => true
  | _ => false
  end.

Definition is_err_ret (v : ret) : bool := match v with RNil => false | _ => true end.

(* an attempt of a re-initialisation in state (j, t0) *)
Definition reinit_step (h : hst) (j : nat) (t0 : Z) (t : Z) (ev : event) : option hst :=
  match ev with
  | DialAttempt r =>
      if (Nat.ltb j spec_attempts) && (t =? t0 + spec_delay j)
         && (match h_cancel h with Some _ => Nat.eqb j 0 | None => true end) then
        match r with
        | None => Some (mkH PConn (h_cancel h) t (h_next h))
        | Some _ =>
            if Nat.eqb (S j) spec_attempts then Some (mkH PExhausted (h_cancel h) t (h_next h))
            else Some (mkH (PReinit (S j) t) (h_cancel h) t (h_next h))
        end
      else None
  | Return v =>
      (* only a cancellation ends a re-initialisation early, and then cleanly and at once *)
      match h_cancel h with
      | Some tc => if ret_eqb v RNil && (t =? tc) then Some (mkH PDone (h_cancel h) t (h_next h)) else None
      | None => None
      end
  | _ => None
  end.

Definition hstep (h : hst) (te : Z * event) : option hst :=
  let (t, ev) := te in
  (* virtual time never runs backwards, and after the cancellation nothing waits any more *)
  if negb (h_last h <=? t) then None else
  if (match h_cancel h with Some tc => negb (t =? tc) | None => false end) then None else
  match ev with
  | Cancel =>
      match h_cancel h, h_phase h with
      | Some _, _ => None
      | None, PDone => None
      | None, _ => Some (mkH (h_phase h) (Some t) t (h_next h))
      end
  | _ =>
    match h_phase h with
    | PFirst =>
        match ev with
        | DialAttempt None => if t =? 0 then Some (mkH PConn (h_cancel h) t (h_next h)) else None
        | DialAttempt (Some e) => if t =? 0 then Some (mkH (PDecide (Some e) true) (h_cancel h) t (h_next h)) else None
        | _ => None
        end
    | PDecide cause clean =>
        if negb clean then
          (* a failed clean-up is reported *)
          match ev with
          | Return v => if is_err_ret v && (t =? h_last h) then Some (mkH PDone (h_cancel h) t (h_next h)) else None
          | _ => None
          end
        else match cause with
        | None =>
            match ev with
            | Return RNil => if t =? h_last h then Some (mkH PDone (h_cancel h) t (h_next h)) else None
            | _ => None
            end
        | Some e =>
            if spec_recoverable e then reinit_step h 0 (h_last h) t ev
            else match ev with
                 | Return v =>
                     if ret_eqb v (if err_eqb e ECanceled then RNil else RWrap e) && (t =? h_last h)
                     then Some (mkH PDone (h_cancel h) t (h_next h)) else None
                 | _ => None
                 end
        end
    | PReinit j t0 => reinit_step h j t0 t ev
    | PExhausted =>
        match ev with
        | Return v => if is_err_ret v && (t =? h_last h) then Some (mkH PDone (h_cancel h) t (h_next h)) else None
        | _ => None
        end
    | PConn =>
        match ev with
        (* the task runs on a connection that was never used before *)
        | Task k r => if N.leb (h_next h) k && (t =? h_last h) then Some (mkH (PRan k r) (h_cancel h) t (k + 1)%N) else None
        | _ => None
        end
    | PRan k r =>
        match ev with
        | Cleanup k' ok => if N.eqb k k' && (t =? h_last h) then Some (mkH (PDecide r ok) (h_cancel h) t (h_next h)) else None
        | _ => None
        end
    | PDone => None
    end
  end.

Fixpoint hrun (h : hst) (l : list (Z * event)) : option hst :=
  match l with
  | [] => Some h
  | te :: tl => match hstep h te with Some h' => hrun h' tl | None => None end
  end.

Definition spec_ok (obs : list (Z * event)) : bool :=
  match hrun (mkH PFirst None 0 0%N) (filter (fun te => coarse (snd te)) obs) with
  | Some h => match h_phase h with PDone => true | _ => false end
  | None => false
  end.

Definition holds (c : case) : bool := spec_ok (c_obs c).

Definition known (c : case) : N := 0%N.
