(* C15 correspondence: Route.Apply with the ::/0 wildcard and an injected loopback route dump. *)
From CR Require Export Model.Wildcard.
Local Open Scope N_scope.

Record case := mkCase {
  c_prf : pref; c_lifetime : Z;
  c_deprecated : bool; c_epoch : Z; c_now : Z;
  (* c_now = the FIRST reading of the injected clock during this Apply; the driver lets the clock advance on
     later readings, all options must nevertheless describe this one instant *)
  c_routes : option (list sysroute);   (* None: the route dump failed / plugin not prepared *)
  c_obs : result (list opt)            (* Ok: the options Apply appended; Err: Apply returned an error *)
}.

Definition agree (c : case) : bool :=
  res_opts_eqb
    (route_Apply true 0 0 (c_prf c) (c_lifetime c) (c_deprecated c) (c_epoch c) (c_now c) (c_routes c))
    (c_obs c).

(* ---- specification checker, written from the property text with plain arithmetic on 128-bit numbers *)

(* the top [bits] bits of an address *)
Definition spec_top (a bits : N) : N := a / 2 ^ (128 - bits).

(* route q = (qa/qb) strictly contains the IPv6 prefix pa/pb: q is IPv6, shorter, and pa lies inside q *)
Definition spec_inside (q : sysroute) (pa pb : N) : bool :=
  negb (rt_v4 q) && (rt_bits q <? pb) && (spec_top pa (rt_bits q) =? spec_top (rt_addr q) (rt_bits q)).

(* the routes the property asks for: IPv6, not a /128 host route, not inside a different shorter route *)
Definition spec_wanted (l : list sysroute) (r : sysroute) : bool :=
  negb (rt_v4 r) && negb (rt_bits r =? 128)
  && negb (existsb (fun q => spec_inside q (rt_addr r) (rt_bits r)) l).

(* two prefixes share an address iff they agree on the top min(bits) bits *)
Definition spec_overlap (x y : N * N) : bool :=
  let m := N.min (snd x) (snd y) in spec_top (fst x) m =? spec_top (fst y) m.

(* the dump is canonical: no host bits set (the kernel refuses other routes) *)
Definition spec_canonical (l : list sysroute) : bool :=
  forallb (fun r => rt_v4 r || (rt_addr r mod 2 ^ (128 - rt_bits r) =? 0)) l.

(* ascending order: by address; each prefix once *)
Fixpoint ascending (l : list (N * N)) : bool :=
  match l with
  | x :: (y :: _) as tl => (fst x <? fst y) && ascending tl
  | _ => true
  end.

Fixpoint pairwise {A} (f : A -> A -> bool) (l : list A) : bool :=
  match l with
  | [] => true
  | x :: tl => forallb (f x) tl && pairwise f tl
  end.

Definition spec_lifetime (c : case) : Z :=
  if c_deprecated c then Z.max 0 (c_epoch c + c_lifetime c - c_now c) else c_lifetime c.

Definition opt_route (o : opt) : N * N := match o with ORoute len _ _ x => (x, len) | _ => (0, 0) end.

Definition holds (c : case) : bool :=
  match c_routes c, c_obs c with
  | None, Err _ => true
  | None, Ok _ => false
  | Some _, Err _ => false
  | Some l, Ok os =>
      let rs := map opt_route os in
      (* every option is a route information option with the stanza's preference and lifetime *)
      forallb (fun o => match o with
         | ORoute _ p t _ => pref_eqb p (c_prf c) && Z.eqb t (spec_lifetime c)
         | _ => false end) os
      (* each once, in ascending order *)
      && ascending rs
      (* exactly the wanted routes *)
      && (let wanted := map (fun r => (rt_addr r, rt_bits r)) (filter (spec_wanted l) l) in
          forallb (fun p => memNN p wanted) rs && forallb (fun p => memNN p rs) wanted)
      (* never duplicate or overlapping routes (for a canonical dump) *)
      && pairwise (fun x y => negb (pair_eqb x y)) rs
      && (if spec_canonical l then pairwise (fun x y => negb (spec_overlap x y)) rs else true)
  end.

Definition known (c : case) : N := 0.
