(* C11 correspondence: the real Dial + dial() (through the identifier seam) + setAutoconf + done
   closure against a recording State and fake connections.  case = script + observed call log +
   final sysctl value. *)
From CR Require Export Model.Dialer.
From CR Require Export Model.DialerSpec.
From CR Require Import Corr.C10dial.
Local Open Scope Z_scope.

Record case := mkCase { c_sc : script; c_obs : list (Z * event); c_final : bool }.

Definition as10 (c : case) : C10dial.case := C10dial.mkCase (c_sc c) (c_obs c).

(* the model's log equals the observed one (for some resolution of the select races), and the
   sysctl the model ends with is the one observed *)
Definition agree (c : case) : bool :=
  C10dial.agree (as10 c) &&
  Bool.eqb (sysctl_after (sc_autoconf0 (c_sc c)) (map snd (c_obs c))) (c_final c).

Definition holds (c : case) : bool :=
  c11_ok (sc_mode (c_sc c)) (sc_autoconf0 (c_sc c)) (map snd (c_obs c)) &&
  (* the value left behind is the one the log of successful writes explains (fake consistency) ... *)
  Bool.eqb (sysctl_after (sc_autoconf0 (c_sc c)) (map snd (c_obs c))) (c_final c) &&
  (* ... and the dial loop itself keeps to its policy (C10) *)
  C10dial.spec_ok (c_obs c).

Definition known (c : case) : N := 0%N.
