(* Model of internal/system/dialer.go: Dialer.Dial, Dialer.init, Dialer.dial, Dialer.setAutoconf
   (properties C10 -- dialer clauses -- and C11).  Executable definitions only.

   The loop is a deterministic function of a fault script: the outcome of every DialFunc call
   (either scripted, or the real dial() run through its sub-steps against scripted OS answers),
   the outcome of every task (fn) and clean-up, the cancellation points, and one oracle bit for
   every `select` entered with the context already cancelled and a 0-delay timer (both cases ready:
   the Go runtime picks one at random).  Constants come from gen/ExtDialer.v. *)
From CR Require Export Model.Types.
From CR Require Import gen.ExtDialer.
Local Open Scope Z_scope.

(* ---- error classes (what errors.Is / errors.As can tell apart) *)
Inductive err :=
| ELinkNotReady            (* wraps system.ErrLinkNotReady *)
| ELinkChange              (* wraps system.ErrLinkChange *)
| ESyscall                 (* an os.SyscallError, not a permission error *)
| EPerm                    (* an os.SyscallError wrapping EPERM / os.ErrPermission *)
| ERetries                 (* corerad.errRetriesExhausted *)
| EOther                   (* any other sentinel *)
| ECanceled                (* context.Canceled *)
| EOpaque.                 (* an error built with %v: wraps nothing *)

Definition err_eqb (a b : err) : bool :=
  match a, b with
  | ELinkNotReady, ELinkNotReady | ELinkChange, ELinkChange | ESyscall, ESyscall | EPerm, EPerm
  | ERetries, ERetries | EOther, EOther | ECanceled, ECanceled | EOpaque, EOpaque => true
  | _, _ => false
  end.

(* Dialer.init's switch, in source order: errors.As os.SyscallError [permission -> return err;
   otherwise retry]; ErrLinkNotReady; ErrLinkChange; nil; default -> return err. *)
Definition recoverable (e : err) : bool :=
  match e with
  | EPerm => false
  | ESyscall => true
  | ELinkNotReady => true
  | ELinkChange => true
  | _ => false
  end.

Definition is_canceled (e : err) : bool := match e with ECanceled => true | _ => false end.

(* answer of a sysctl access (State.IPv6Autoconf / SetIPv6Autoconf) *)
Inductive sysres := SOk | SPerm | SNotExist | SOther.
Definition sysres_eqb (a b : sysres) : bool :=
  match a, b with SOk, SOk | SPerm, SPerm | SNotExist, SNotExist | SOther, SOther => true | _, _ => false end.

Inductive mode := Advertise | Monitor.

(* value returned by Dial *)
Inductive ret :=
| RNil
| RWrap (e : err)          (* "failed to reinitialize ...: %w" around e *)
| RTimeout                 (* ... around "timed out trying to initialize after error: %v" *)
| RCleanupErr.             (* "failed to clean up connection: %v" *)

(* what a caller can observe of it with errors.Is / errors.As *)
Definition norm_ret (v : ret) : ret :=
  match v with RTimeout | RCleanupErr => RWrap EOpaque | _ => v end.

Definition ret_eqb (a b : ret) : bool :=
  match a, b with
  | RNil, RNil | RTimeout, RTimeout | RCleanupErr, RCleanupErr => true
  | RWrap x, RWrap y => err_eqb x y
  | _, _ => false
  end.

Definition oerr_eqb (a b : option err) : bool :=
  match a, b with None, None => true | Some x, Some y => err_eqb x y | _, _ => false end.
Definition obool_eqb (a b : option bool) : bool :=
  match a, b with None, None => true | Some x, Some y => Bool.eqb x y | _, _ => false end.

(* ---- trace *)
Inductive event :=
| Cancel                               (* the context is cancelled here *)
| Wait (d : Z)                         (* back-off timer of d ns elapsed *)
| WaitCut (d e : Z)                    (* back-off of d requested, interrupted by cancellation after e *)
| DialAttempt (r : option err)         (* a DialFunc call returned (None = a DialContext) *)
| Task (k : N) (r : option err)        (* fn ran with connection k and returned r *)
| Cleanup (k : N) (ok : bool)          (* dctx.done() of connection k returned nil / an error *)
| Return (v : ret)
(* sub-steps of the real dial() and of its done closure (C11) *)
| Lookup (r : option err)
| CheckIf (r : option err)
| OpenFail (e : err)
| OpenConn (k : N)                         (* dialNDP succeeded: connection k exists *)
| GetAuto (r : option bool)                (* State.IPv6Autoconf: Some v / error *)
| SetAuto (v : bool) (r : sysres)          (* State.SetIPv6Autoconf(v) by setAutoconf *)
| Restore (v : bool) (r : sysres)      (* State.SetIPv6Autoconf(v) by the restore closure *)
| Leave (k : N) (ok : bool)
| CloseConn (k : N) (ok : bool).

Definition event_eqb (a b : event) : bool :=
  match a, b with
  | Cancel, Cancel => true
  | Wait d, Wait d' => d =? d'
  | WaitCut d e, WaitCut d' e' => (d =? d') && (e =? e')
  | DialAttempt r, DialAttempt r' => oerr_eqb r r'
  | Task k r, Task k' r' => N.eqb k k' && oerr_eqb r r'
  | Cleanup k ok, Cleanup k' ok' => N.eqb k k' && Bool.eqb ok ok'
  | Return v, Return v' => ret_eqb v v'
  | Lookup r, Lookup r' => oerr_eqb r r'
  | CheckIf r, CheckIf r' => oerr_eqb r r'
  | OpenFail e, OpenFail e' => err_eqb e e'
  | OpenConn k, OpenConn k' => N.eqb k k'
  | GetAuto r, GetAuto r' => obool_eqb r r'
  | SetAuto v r, SetAuto v' r' => Bool.eqb v v' && sysres_eqb r r'
  | Restore v r, Restore v' r' => Bool.eqb v v' && sysres_eqb r r'
  | Leave k ok, Leave k' ok' => N.eqb k k' && Bool.eqb ok ok'
  | CloseConn k ok, CloseConn k' ok' => N.eqb k k' && Bool.eqb ok ok'
  | _, _ => false
  end.

(* ---- script *)
Record dial_steps := mkSteps {
  s_lookup : option err; s_check : option err; s_open : option err;
  s_get : sysres; s_set : sysres;
  s_leave : bool; s_close : bool }.     (* LeaveGroup / Close on the setAutoconf failure path *)

Inductive dial_ev :=
| DScripted (r : option err) (cancel : bool)   (* Dialer.DialFunc replaced by a scripted function *)
| DReal (s : dial_steps) (cancel : bool).      (* Dialer.dial against scripted OS answers *)
(* cancel: the context is cancelled while this call is in progress *)

Record task_ev := mkTask {
  t_cancel : bool;                      (* cancelled while fn runs *)
  t_res : option err;                   (* what fn returns *)
  t_done_ok : bool;                     (* scripted DialContext: result of its done() *)
  t_leave : bool; t_close : bool;       (* real done closure: LeaveGroup / Close answers *)
  t_restore : sysres;                   (* ... and the answer to the restoring SetIPv6Autoconf *)
  t_cancel_done : bool }.               (* cancelled while done() runs *)

Definition all_ok_steps : dial_steps := mkSteps None None None SOk SOk true true.
Definition default_task : task_ev := mkTask false None true true true SOk false.

Record script := mkScript {
  sc_mode : mode;
  sc_real : bool;                       (* which DialFunc serves calls beyond the script: real / scripted *)
  sc_autoconf0 : bool;                  (* sysctl value before the first dial *)
  sc_pre : bool;                        (* context already cancelled when Dial is called *)
  sc_dials : list dial_ev;
  sc_tasks : list task_ev;
  sc_waits : list bool;                 (* per positive back-off wait entered un-cancelled: cancel during it *)
  sc_bits : list bool }.                (* per select with ctx cancelled and a 0 timer: true = timer case taken *)

Record world := mkWorld {
  w_cancelled : bool; w_autoconf : bool; w_next : N;
  w_dials : list dial_ev; w_waits : list bool; w_bits : list bool }.

Definition set_cancelled (w : world) : world :=
  mkWorld true (w_autoconf w) (w_next w) (w_dials w) (w_waits w) (w_bits w).
Definition set_autoconf (w : world) (v : bool) : world :=
  mkWorld (w_cancelled w) v (w_next w) (w_dials w) (w_waits w) (w_bits w).
Definition set_next (w : world) (k : N) : world :=
  mkWorld (w_cancelled w) (w_autoconf w) k (w_dials w) (w_waits w) (w_bits w).
Definition set_dials (w : world) (l : list dial_ev) : world :=
  mkWorld (w_cancelled w) (w_autoconf w) (w_next w) l (w_waits w) (w_bits w).
Definition set_waits (w : world) (l : list bool) : world :=
  mkWorld (w_cancelled w) (w_autoconf w) (w_next w) (w_dials w) l (w_bits w).
Definition set_bits (w : world) (l : list bool) : world :=
  mkWorld (w_cancelled w) (w_autoconf w) (w_next w) (w_dials w) (w_waits w) l.

(* the mark is emitted only when the context actually becomes cancelled *)
Definition mark (flag : bool) (w : world) : list event :=
  if flag && negb (w_cancelled w) then [Cancel] else [].
Definition cancel_if (flag : bool) (w : world) : world := if flag then set_cancelled w else w.

(* ---- one DialFunc call *)
Inductive conn_kind :=
| KScripted
| KReal (restore : option bool).        (* Some prev: a restore closure holding the value read *)

Inductive dial_out := DConn (k : N) (kind : conn_kind) | DFail (e : err).

(* Dialer.dial + Dialer.setAutoconf *)
Definition do_real (m : mode) (s : dial_steps) (w : world) : list event * world * dial_out :=
  match s_lookup s with
  | Some e => ([Lookup (Some e)], w, DFail e)
  | None =>
  match s_check s with
  | Some e => ([Lookup None; CheckIf (Some e)], w, DFail e)
  | None =>
  match s_open s with
  | Some e => ([Lookup None; CheckIf None; OpenFail e], w, DFail e)
  | None =>
    let k := w_next w in
    let w1 := set_next w (k + 1)%N in
    let pre := [Lookup None; CheckIf None; OpenConn k] in
    let undo := [Leave k (s_leave s); CloseConn k (s_close s)] in
    match m with
    | Monitor => (pre, w1, DConn k (KReal None))
    | Advertise =>
      match s_get s with
      | SOk =>
        let prev := w_autoconf w1 in
        match s_set s with
        | SOk => (pre ++ [GetAuto (Some prev); SetAuto false SOk], set_autoconf w1 false, DConn k (KReal (Some prev)))
        | SPerm => (pre ++ [GetAuto (Some prev); SetAuto false SPerm], w1, DConn k (KReal (Some prev)))
        | r => (pre ++ [GetAuto (Some prev); SetAuto false r] ++ undo, w1, DFail EOpaque)
        end
      | _ => (pre ++ [GetAuto None] ++ undo, w1, DFail EOpaque)
      end
    end
  end end end.

Definition default_dial (real : bool) : dial_ev :=
  if real then DReal all_ok_steps false else DScripted None false.

Definition do_dial (m : mode) (real : bool) (w : world) : list event * world * dial_out :=
  let de := hd (default_dial real) (w_dials w) in
  let w0 := set_dials w (tl (w_dials w)) in
  match de with
  | DScripted r c =>
      let k := w_next w0 in
      match r with
      | None => ([DialAttempt None] ++ mark c w0, cancel_if c (set_next w0 (k + 1)%N), DConn k KScripted)
      | Some e => ([DialAttempt (Some e)] ++ mark c w0, cancel_if c w0, DFail e)
      end
  | DReal s c =>
      let '(ev, w1, o) := do_real m s w0 in
      (ev ++ [DialAttempt (match o with DConn _ _ => None | DFail e => Some e end)] ++ mark c w1,
       cancel_if c w1, o)
  end.

(* ---- Dialer.init *)
(* delay = time.Duration(i+1) * 250 * time.Millisecond; if delay > maxDelay { delay = maxDelay } *)
Definition backoff (i : Z) : Z :=
  let d := (i + dialStepOffset) * dialStep in
  if dialMaxDelay <? d then dialMaxDelay else d.

(* the driver cancels this long after a positive wait began (any instant inside it) *)
Definition cut_offset : Z := 125 * ms.

Inductive init_out :=
| IConn (k : N) (kind : conn_kind)
| IErr (e : err)        (* return nil, err *)
| ICanceled             (* return nil, ctx.Err() *)
| ITimeout.             (* the attempts are used up *)

Definition pop_bit (w : world) : bool * world := (hd false (w_bits w), set_bits w (tl (w_bits w))).
Definition pop_wait (w : world) : bool * world := (hd false (w_waits w), set_waits w (tl (w_waits w))).

(* for i := 0; i < attempts; i++ { select {ctx.Done / time.After(delay)}; DialFunc() ... } *)
Fixpoint retry (m : mode) (real : bool) (n : nat) (i delay : Z) (w : world)
  : list event * world * init_out :=
  match n with
  | O => ([], w, ITimeout)
  | S n' =>
    let go (pre : list event) (w0 : world) :=
      let '(ev, w1, o) := do_dial m real w0 in
      match o with
      | DConn k kind => (pre ++ ev, w1, IConn k kind)
      | DFail _ =>
          let '(ev2, w2, o2) := retry m real n' (i + 1) (backoff i) w1 in
          (pre ++ ev ++ ev2, w2, o2)
      end in
    if w_cancelled w then
      if delay <=? 0 then
        (* both cases of the select are ready *)
        let (b, w0) := pop_bit w in
        if b then go [Wait delay] w0 else ([WaitCut delay 0], w0, ICanceled)
      else ([WaitCut delay 0], w, ICanceled)
    else if 0 <? delay then
      let (c, w0) := pop_wait w in
      if c then ([WaitCut delay cut_offset; Cancel], set_cancelled w0, ICanceled)
      else go [Wait delay] w0
    else go [Wait delay] w
  end.

Definition init (m : mode) (real : bool) (cause : option err) (w : world)
  : list event * world * init_out :=
  match cause with
  | None =>
      (* first initialisation *)
      let '(ev, w1, o) := do_dial m real w in
      match o with
      | DConn k kind => (ev, w1, IConn k kind)
      | DFail e =>
          if recoverable e then
            let '(ev2, w2, o2) := retry m real (Z.to_nat dialAttempts) dialLoopStart 0 w1 in
            (ev ++ ev2, w2, o2)
          else (ev, w1, IErr e)
      end
  | Some e =>
      if recoverable e then retry m real (Z.to_nat dialAttempts) dialLoopStart 0 w
      else ([], w, IErr e)
  end.

(* ---- fn + done *)
(* the done closure of dial() / of a scripted DialContext *)
Definition do_cleanup (k : N) (kind : conn_kind) (te : task_ev) (w : world)
  : list event * world * bool :=
  match kind with
  | KScripted => ([], w, t_done_ok te)
  | KReal restore =>
      let base := [Leave k (t_leave te); CloseConn k (t_close te)] in
      match restore with
      | None => (base, w, true)
      | Some prev =>
          match t_restore te with
          | SOk => (base ++ [Restore prev SOk], set_autoconf w prev, true)
          | SPerm => (base ++ [Restore prev SPerm], w, true)
          | SNotExist => (base ++ [Restore prev SNotExist], w, true)
          | SOther => (base ++ [Restore prev SOther], w, false)
          end
      end
  end.

Inductive round_out := RDone (v : ret) | RAgain (e : err).

Definition round (k : N) (kind : conn_kind) (te : task_ev) (w : world)
  : list event * world * round_out :=
  let w1 := cancel_if (t_cancel te) w in
  let '(evc, w2, ok) := do_cleanup k kind te w1 in
  (mark (t_cancel te) w ++ [Task k (t_res te)] ++ evc ++ [Cleanup k ok] ++ mark (t_cancel_done te) w2,
   cancel_if (t_cancel_done te) w2,
   if ok then match t_res te with None => RDone RNil | Some e => RAgain e end
   else RDone RCleanupErr).

(* ---- Dialer.Dial *)
Definition final (o : init_out) : ret :=
  match o with
  | IErr e => if is_canceled e then RNil else RWrap e
  | ICanceled => RNil
  | ITimeout => RTimeout
  | IConn _ _ => RNil
  end.

Fixpoint loop (m : mode) (real : bool) (tasks : list task_ev) (cause : option err) (w : world)
  : list event :=
  let '(ev, w1, o) := init m real cause w in
  ev ++
  match o with
  | IConn k kind =>
      let '(ev2, w2, ro) := round k kind (hd default_task tasks) w1 in
      ev2 ++
      match ro with
      | RDone v => [Return v]
      | RAgain e =>
          match tasks with
          | [] => [Return RNil]      (* not reachable: the default task returns nil *)
          | _ :: tl => loop m real tl (Some e) w2
          end
      end
  | _ => [Return (final o)]
  end.

Definition init_world (sc : script) : world :=
  mkWorld (sc_pre sc) (sc_autoconf0 sc) 0%N (sc_dials sc) (sc_waits sc) (sc_bits sc).

Definition dial_loop (sc : script) : list event :=
  (if sc_pre sc then [Cancel] else []) ++
  loop (sc_mode sc) (sc_real sc) (sc_tasks sc) None (init_world sc).

(* ---- virtual instants: time only passes in back-off waits *)
Fixpoint timeline (t : Z) (tr : list event) : list (Z * event) :=
  match tr with
  | [] => []
  | Wait d :: tl => timeline (t + d) tl
  | WaitCut d e :: tl => timeline (t + e) tl
  | ev :: tl => (t, ev) :: timeline t tl
  end.
