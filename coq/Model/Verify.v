(* C12 -- executable model of internal/corerad/verify.go (verifyRAs and its helpers) and of the
   router-advertisement branch of Advertiser.handle (advertise.go), as the code is after
   fix 26ec7a7 (MTU / captive portal by value) and fixes/c12-wire-granularity.diff (durations
   compared at the granularity with which the wire carries them; RDNSS server addresses compared
   without their zones, i.e. as the 128-bit values that model addresses are).  Definitions only. *)
From CR Require Export Model.Types.
Local Open Scope Z_scope.

(* the "field" label of a problem; FUnknown stands for any other string (never produced) *)
Inductive field :=
| FHopLimit | FManaged | FOther | FReachable | FRetrans | FMTU
| FPrefixPreferred | FPrefixValid | FRouteLifetime
| FRdnssCount | FRdnssLifetime | FRdnssServers
| FDnsslCount | FDnsslLifetime | FDnsslNames
| FCaptive | FUnknown.

(* the "details" label: "" (None) or prefixStr / routeStr of the own option = (prefix, length) *)
Definition details := option (N * N).
Definition problem := (field * details)%type.

Definition field_eqb (a b : field) : bool :=
  match a, b with
  | FHopLimit, FHopLimit | FManaged, FManaged | FOther, FOther | FReachable, FReachable
  | FRetrans, FRetrans | FMTU, FMTU | FPrefixPreferred, FPrefixPreferred
  | FPrefixValid, FPrefixValid | FRouteLifetime, FRouteLifetime | FRdnssCount, FRdnssCount
  | FRdnssLifetime, FRdnssLifetime | FRdnssServers, FRdnssServers | FDnsslCount, FDnsslCount
  | FDnsslLifetime, FDnsslLifetime | FDnsslNames, FDnsslNames | FCaptive, FCaptive
  | FUnknown, FUnknown => true
  | _, _ => false
  end.
Definition key_eqb (a b : N * N) : bool := N.eqb (fst a) (fst b) && N.eqb (snd a) (snd b).
Definition details_eqb (a b : details) : bool :=
  match a, b with
  | None, None => true
  | Some x, Some y => key_eqb x y
  | _, _ => false
  end.
Definition problem_eqb (a b : problem) : bool :=
  field_eqb (fst a) (fst b) && details_eqb (snd a) (snd b).

(* time.Duration.Truncate(m), m > 0:  d - d % m  (Go's % truncates toward zero = Z.rem) *)
Definition trunc_to (m d : Z) : Z := d - Z.rem d m.
Definition wire_millis : dur -> dur := trunc_to ms.    (* wireMillis  *)
Definition wire_seconds : dur -> dur := trunc_to sec.  (* wireSeconds *)

(* ---- pick[T] / pickFirst[T]: options of one kind, in order *)
Record pinfo := mkPI { pi_pfx : N; pi_len : N; pi_preferred : dur; pi_valid : dur }.
Record rinfo := mkRI { ri_pfx : N; ri_len : N; ri_prf : pref; ri_lifetime : dur }.

Fixpoint pick_prefixes (os : list opt) : list pinfo :=
  match os with
  | [] => []
  | OPrefix l _ _ v p x :: os' => mkPI x l p v :: pick_prefixes os'
  | _ :: os' => pick_prefixes os'
  end.
Fixpoint pick_routes (os : list opt) : list rinfo :=
  match os with
  | [] => []
  | ORoute l p t x :: os' => mkRI x l p t :: pick_routes os'
  | _ :: os' => pick_routes os'
  end.
Fixpoint pick_rdnss (os : list opt) : list (dur * list N) :=
  match os with
  | [] => []
  | ORDNSS t s :: os' => (t, s) :: pick_rdnss os'
  | _ :: os' => pick_rdnss os'
  end.
Fixpoint pick_dnssl (os : list opt) : list (dur * list N) :=
  match os with
  | [] => []
  | ODNSSL t s :: os' => (t, s) :: pick_dnssl os'
  | _ :: os' => pick_dnssl os'
  end.
Fixpoint pick_first_mtu (os : list opt) : option N :=
  match os with
  | [] => None
  | OMTU m :: _ => Some m
  | _ :: os' => pick_first_mtu os'
  end.
Fixpoint pick_first_captive (os : list opt) : option N :=
  match os with
  | [] => None
  | OCaptive u :: _ => Some u
  | _ :: os' => pick_first_captive os'
  end.

Definition is_nil {A} (l : list A) : bool := match l with [] => true | _ => false end.
Definition push_if (c : bool) (p : problem) : list problem := if c then [p] else [].

(* ---- checkDurations *)
Definition check_durations (want got : dur) : bool :=
  let want := wire_millis want in
  let got := wire_millis got in
  if (want =? 0) || (got =? 0) then true else want =? got.

(* ---- checkRAs *)
Definition check_ras (a b : ra) : list problem :=
  push_if (negb (N.eqb (ra_hop a) (ra_hop b))) (FHopLimit, None) ++
  push_if (negb (Bool.eqb (ra_managed a) (ra_managed b))) (FManaged, None) ++
  push_if (negb (Bool.eqb (ra_other a) (ra_other b))) (FOther, None) ++
  push_if (negb (check_durations (ra_reachable a) (ra_reachable b))) (FReachable, None) ++
  push_if (negb (check_durations (ra_retrans a) (ra_retrans b))) (FRetrans, None).

(* ---- checkMTUs *)
Definition check_mtus (want got : list opt) : list problem :=
  match pick_first_mtu want, pick_first_mtu got with
  | Some ma, Some mb => if N.eqb ma mb then [] else [(FMTU, None)]
  | _, _ => []
  end.

(* ---- checkPrefixes *)
Definition check_prefix_pair (a b : pinfo) : list problem :=
  if negb (N.eqb (pi_pfx a) (pi_pfx b)) || negb (N.eqb (pi_len a) (pi_len b)) then []
  else
    push_if (negb (wire_seconds (pi_preferred a) =? wire_seconds (pi_preferred b)))
            (FPrefixPreferred, Some (pi_pfx a, pi_len a)) ++
    push_if (negb (wire_seconds (pi_valid a) =? wire_seconds (pi_valid b)))
            (FPrefixValid, Some (pi_pfx a, pi_len a)).

Definition check_prefixes (want got : list opt) : list problem :=
  let piA := pick_prefixes want in
  let piB := pick_prefixes got in
  if is_nil piA || is_nil piB then []
  else flat_map (fun a => flat_map (fun b => check_prefix_pair a b) piB) piA.

(* ---- checkRoutes *)
Definition check_route_pair (a b : rinfo) : list problem :=
  if negb (N.eqb (ri_pfx a) (ri_pfx b)) || negb (N.eqb (ri_len a) (ri_len b)) then []
  else
    push_if (pref_eqb (ri_prf a) (ri_prf b) &&
             negb (wire_seconds (ri_lifetime a) =? wire_seconds (ri_lifetime b)))
            (FRouteLifetime, Some (ri_pfx a, ri_len a)).

Definition check_routes (want got : list opt) : list problem :=
  let riA := pick_routes want in
  let riB := pick_routes got in
  if is_nil riA || is_nil riB then []
  else flat_map (fun a => flat_map (fun b => check_route_pair a b) riB) riA.

(* ---- checkRDNSS / checkDNSSL: the loops over i (options) and j (servers / names) *)
(* for j := range A { if A[j] != B[j] { equal = false; break } }  -- lengths already equal *)
Fixpoint items_equal (a b : list N) : bool :=
  match a, b with
  | x :: a', y :: b' => if N.eqb x y then items_equal a' b' else false
  | _, _ => true
  end.

Definition check_dns_pair (flife fitems : field) (a b : dur * list N) : list problem :=
  push_if (negb (wire_seconds (fst a) =? wire_seconds (fst b))) (flife, None) ++
  (if negb (Nat.eqb (length (snd a)) (length (snd b))) then [(fitems, None)]
   else push_if (negb (items_equal (snd a) (snd b))) (fitems, None)).

Fixpoint check_dns_loop (flife fitems : field) (A B : list (dur * list N)) : list problem :=
  match A, B with
  | a :: A', b :: B' => check_dns_pair flife fitems a b ++ check_dns_loop flife fitems A' B'
  | _, _ => []
  end.

Definition check_dns (fcount flife fitems : field) (A B : list (dur * list N)) : list problem :=
  if is_nil A || is_nil B then []
  else if negb (Nat.eqb (length A) (length B)) then [(fcount, None)]
  else check_dns_loop flife fitems A B.

Definition check_rdnss (want got : list opt) : list problem :=
  check_dns FRdnssCount FRdnssLifetime FRdnssServers (pick_rdnss want) (pick_rdnss got).
Definition check_dnssl (want got : list opt) : list problem :=
  check_dns FDnsslCount FDnsslLifetime FDnsslNames (pick_dnssl want) (pick_dnssl got).

(* ---- checkCaptivePortal *)
Definition check_captive (want got : list opt) : list problem :=
  match pick_first_captive want, pick_first_captive got with
  | Some ua, Some ub => if N.eqb ua ub then [] else [(FCaptive, None)]
  | _, _ => []
  end.

(* ---- verifyRAs *)
Definition verify (a b : ra) : list problem :=
  check_ras a b ++
  check_mtus (ra_opts a) (ra_opts b) ++
  check_prefixes (ra_opts a) (ra_opts b) ++
  check_routes (ra_opts a) (ra_opts b) ++
  check_rdnss (ra_opts a) (ra_opts b) ++
  check_dnssl (ra_opts a) (ra_opts b) ++
  check_captive (ra_opts a) (ra_opts b).

(* ---- Advertiser.handle, case *ndp.RouterAdvertisement.
   [ours] is the outcome of a.buildRA(a.cfg) (Err = building failed: handle returns the error
   and reports nothing).  Output: the label sets on which
   corerad_advertiser_inconsistencies_total{interface, details, field} is incremented by 1, in
   call order; the number of log lines written by logf (one heading + one per problem); the
   number of OnInconsistentRA invocations (the hook is installed); whether an error is returned. *)
Record handle_out := mkHandleOut {
  h_counted : list problem; h_logged : N; h_hook : N; h_failed : bool }.

Definition handle_ra (ours : result ra) (theirs : ra) : handle_out :=
  match ours with
  | Err _ => mkHandleOut [] 0 0 true
  | Ok want =>
      let ps := verify want theirs in
      if is_nil ps then mkHandleOut [] 0 0 false
      else mkHandleOut ps (N.of_nat (S (length ps))) 1 false
  end.

(* ---- what the ndp codec does to the durations of an RA (MarshalMessage -> ParseMessage):
   router lifetime and option lifetimes are carried in whole seconds, reachable time and
   retransmit timer in whole milliseconds, truncated.  (Ranges are C03's concern: all values
   CoreRAD builds fit their fields.)  PREF64 lifetimes use scaled 8 s units and are not
   inspected by verifyRAs; they are left alone here. *)
Definition wire_opt (o : opt) : opt :=
  match o with
  | OPrefix l ol au v p x => OPrefix l ol au (wire_seconds v) (wire_seconds p) x
  | ORoute l p t x => ORoute l p (wire_seconds t) x
  | ORDNSS t s => ORDNSS (wire_seconds t) s
  | ODNSSL t s => ODNSSL (wire_seconds t) s
  | o => o
  end.
Definition wire_ra (a : ra) : ra :=
  mkRA (ra_hop a) (ra_managed a) (ra_other a) (ra_pref a)
       (wire_seconds (ra_lifetime a)) (wire_millis (ra_reachable a)) (wire_millis (ra_retrans a))
       (map wire_opt (ra_opts a)).
