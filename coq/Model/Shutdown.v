(* Model of the advertiser's stop sequence (Advertiser.Run / advertise / schedule / shutdown,
   internal/corerad/advertise.go) as a labelled transition system over the observable events
   of one run: begin/end of every Conn.WriteTo, the cancellation, and Run returning.
   The guards are what the code waits for: the scheduler returns only when no send worker is in
   flight and starts none afterwards (workers.stop); the errgroup returns only after the scheduler;
   shutdown() runs after the errgroup; Run returns after shutdown(). *)
From CR Require Export Model.Types.
Local Open Scope N_scope.

Inductive label :=
| LBegin (seq : N) (final : bool)   (* WriteTo begins; final = zero router lifetime to all-nodes *)
| LEnd (seq : N)                    (* that WriteTo returned *)
| LCancel                           (* the context passed to Run is cancelled *)
| LReturn (ok : bool).              (* Run returned (ok = nil error) *)

Inductive phase := Running | Cancelled | FinalStarted (seq : N) | FinalDone | Returned.

Definition state := (phase * list N)%type.     (* phase, sequence numbers of the writes in flight *)
Definition init : state := (Running, []).

Fixpoint remove1 (s : N) (l : list N) : option (list N) :=
  match l with
  | [] => None
  | x :: l' => if N.eqb x s then Some l' else
               match remove1 s l' with Some r => Some (x :: r) | None => None end
  end.

(* [want_final]: the advertiser is terminating (not reloading) and not in unicast-only mode *)
Definition step (want_final : bool) (st : state) (l : label) : option state :=
  let (ph, fl) := st in
  match ph with
  | Running =>
      match l with
      | LBegin s false => Some (Running, s :: fl)
      | LEnd s => match remove1 s fl with Some fl' => Some (Running, fl') | None => None end
      | LCancel => Some (Cancelled, fl)
      | _ => None
      end
  | Cancelled =>
      match l with
      | LBegin s false => Some (Cancelled, s :: fl)   (* a worker that started just before the scheduler stopped *)
      | LEnd s => match remove1 s fl with Some fl' => Some (Cancelled, fl') | None => None end
      | LBegin s true => match fl with [] => if want_final then Some (FinalStarted s, []) else None | _ => None end
      | LReturn true => match fl with [] => if want_final then None else Some (Returned, []) | _ => None end
      | _ => None
      end
  | FinalStarted s =>
      match l, fl with
      | LEnd s', [] => if N.eqb s s' then Some (FinalDone, []) else None
      | _, _ => None
      end
  | FinalDone =>
      match l, fl with
      | LReturn true, [] => Some (Returned, [])
      | _, _ => None
      end
  | Returned => None
  end.

Fixpoint run (want_final : bool) (st : state) (tr : list label) : option state :=
  match tr with
  | [] => Some st
  | l :: tr' => match step want_final st l with Some st' => run want_final st' tr' | None => None end
  end.

Definition accepts (want_final : bool) (tr : list label) : bool :=
  match run want_final init tr with Some (Returned, []) => true | _ => false end.
