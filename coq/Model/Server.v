(* Model of internal/corerad/server.go (BuildTasks, Serve, signalTask.Run, terminator, serve) and
   signals_unix.go (Signals, isTerminal).

   BuildTasks is a pure function of the configuration.

   Serve is a labelled transition system.  State: per user task {not started, running,
   returned r} + ready flag + what it read when it observed the cancellation; the shared context
   (cancelled or not); the errgroup's first error; terminator.term; the signal channel (capacity
   1); the position of the signal task (waiting in its select / having taken signal s and performed
   the first k effect calls of the EXTRACTED source order / returned through ctx.Done()); whether
   the overall READY notification was sent; Serve's return value.  Task behaviour (when a task
   becomes ready, fails, returns, how long it takes to stop) is the environment: any task may take
   any of its steps at any time, which covers the classes {runs until cancelled, fails at an
   arbitrary instant, returns early, slow to stop, never ready}.  Goroutine interleaving is at the
   granularity of these labels.  No proofs in this file. *)
From Coq Require Import String.
From CR Require Export gen.ExtServer.
From Coq Require Export List ZArith NArith Bool.
Export ListNotations.

(* ------------------------------------------------------------------ signals *)
Inductive sig := SIGINT | SIGTERM | SIGHUP.

Definition sig_name (s : sig) : string :=
  match s with
  | SIGINT => "os.Interrupt"
  | SIGTERM => "syscall.SIGTERM"
  | SIGHUP => "syscall.SIGHUP"
  end.

Definition sig_eqb (a b : sig) : bool :=
  match a, b with SIGINT, SIGINT | SIGTERM, SIGTERM | SIGHUP, SIGHUP => true | _, _ => false end.

(* isTerminal: `return s <op> <sig>` with op and sig read from the source *)
Definition is_terminal (s : sig) : bool :=
  if String.eqb is_terminal_op "!=" then negb (String.eqb (sig_name s) is_terminal_sig)
  else if String.eqb is_terminal_op "==" then String.eqb (sig_name s) is_terminal_sig
  else false.

(* Signals() as model values; unknown names are dropped (and the tie lemma fails) *)
Definition sig_of_name (n : string) : option sig :=
  if String.eqb n "os.Interrupt" then Some SIGINT
  else if String.eqb n "syscall.SIGTERM" then Some SIGTERM
  else if String.eqb n "syscall.SIGHUP" then Some SIGHUP
  else None.

Definition handled_signals : list (option sig) := map sig_of_name signals.

(* ------------------------------------------------------------------ BuildTasks *)
Record ifcfg := mkIf { ic_name : N; ic_advertise : bool; ic_monitor : bool }.
Record config := mkCfg { c_ifaces : list ifcfg; c_debug : bool }.   (* c_debug: Debug.Address != "" *)

Inductive task_kind := TAdvertiser (name : N) | TMonitor (name : N) | THTTP | TWatcher.

Definition iface_tasks (i : ifcfg) : list task_kind :=
  if negb (ic_advertise i) && negb (ic_monitor i) then []            (* skipping initialization *)
  else if ic_advertise i then [TAdvertiser (ic_name i)]               (* switch: case ifi.Advertise *)
  else if ic_monitor i then [TMonitor (ic_name i)]                    (* case ifi.Monitor *)
  else [].                                                            (* default: panicf, unreachable *)

(* has_watcher: s.w != nil (always true for NewServer) *)
Definition build_tasks (has_watcher : bool) (c : config) : list task_kind :=
  flat_map iface_tasks (c_ifaces c)
  ++ (if c_debug c then [THTTP] else [])
  ++ (if has_watcher then [TWatcher] else []).

(* every interface that gets a task also subscribes to LinkDown on its own name *)
Definition build_subscriptions (has_watcher : bool) (c : config) : list N :=
  if has_watcher then
    map ic_name (filter (fun i => ic_advertise i || ic_monitor i) (c_ifaces c))
  else [].

(* ------------------------------------------------------------------ Serve *)
Inductive status := NotStarted | Running | Returned (r : option N).   (* None = nil, Some e = error e *)

Record task := mkTask { t_status : status; t_ready : bool; t_seen : option bool }.

Inductive sigst :=
| SWait                          (* blocked in select { <-ctx.Done(); sig = <-t.sigC } *)
| SAct (s : sig) (k : nat)       (* took s; the first k calls of signal_run_order are done *)
| SDone.                         (* returned nil through <-ctx.Done() *)

Record state := mkSt {
  tasks : list task;
  cancelled : bool;
  first_err : option N;
  term : bool;
  pending : option sig;
  sigtask : sigst;
  notified : bool;
  served : option (option N) }.

Definition init (n : nat) : state :=
  mkSt (repeat (mkTask NotStarted false None) n) false None false None SWait false None.

Inductive label :=
| LStart (i : nat)                 (* task i: Run entered *)
| LReady (i : nat)                 (* task i closes its ready channel *)
| LSee (i : nat) (b : bool)        (* task i observes ctx.Done() and reads terminate() = b *)
| LRet (i : nat) (r : option N)    (* task i: Run returns *)
| LSig (s : sig)                   (* a signal is delivered to sigC (dropped when full) *)
| LTake (s : sig)                  (* signal task: select takes sig = <-t.sigC *)
| LAct                             (* signal task: next effect call in source order *)
| LDone                            (* signal task: select takes <-ctx.Done(), returns nil *)
| LNotifyReady                     (* wg.Wait() returned: "server started", READY=1 *)
| LServe (r : option N).           (* eg.Wait() returned; Serve returns r *)

Fixpoint upd {A} (i : nat) (f : A -> A) (l : list A) : list A :=
  match l, i with
  | [], _ => []
  | a :: r, O => f a :: r
  | a :: r, S j => a :: upd j f r
  end.

Definition set_tasks (st : state) (ts : list task) : state :=
  mkSt ts (cancelled st) (first_err st) (term st) (pending st) (sigtask st) (notified st) (served st).

Definition is_returned (t : task) : bool :=
  match t_status t with Returned _ => true | _ => false end.

Definition sig_returned (st : state) : bool :=
  match sigtask st with
  | SWait => false
  | SDone => true
  | SAct _ k => Nat.leb (length signal_run_order) k
  end.

(* effect of one call of signalTask.Run after the select *)
Definition act_effect (a : string) (s : sig) (st : state) (k : nat) : state :=
  if String.eqb a "set" then
    mkSt (tasks st) (cancelled st) (first_err st) (is_terminal s) (pending st) (SAct s (S k)) (notified st) (served st)
  else if String.eqb a "cancel" then
    mkSt (tasks st) true (first_err st) (term st) (pending st) (SAct s (S k)) (notified st) (served st)
  else   (* print, notify(STOPPING), signal.Stop: no effect on the supervision state *)
    mkSt (tasks st) (cancelled st) (first_err st) (term st) (pending st) (SAct s (S k)) (notified st) (served st).

Definition step (st : state) (l : label) : option state :=
  match l with
  | LStart i =>
      match nth_error (tasks st) i with
      | Some t => match t_status t with
                  | NotStarted => Some (set_tasks st (upd i (fun t => mkTask Running (t_ready t) (t_seen t)) (tasks st)))
                  | _ => None end
      | None => None
      end
  | LReady i =>
      match nth_error (tasks st) i with
      | Some t => match t_status t with
                  | Running => if t_ready t then None
                               else Some (set_tasks st (upd i (fun t => mkTask (t_status t) true (t_seen t)) (tasks st)))
                  | _ => None end
      | None => None
      end
  | LSee i b =>
      match nth_error (tasks st) i with
      | Some t => match t_status t with
                  | Running => if cancelled st && Bool.eqb b (term st)
                               then Some (set_tasks st (upd i (fun t => mkTask Running (t_ready t) (Some b)) (tasks st)))
                               else None
                  | _ => None end
      | None => None
      end
  | LRet i r =>
      match nth_error (tasks st) i with
      | Some t => match t_status t with
                  | Running =>
                      let ts := upd i (fun t => mkTask (Returned r) (t_ready t) (t_seen t)) (tasks st) in
                      match r, first_err st with
                      | Some e, None =>   (* errgroup: errOnce -> record, cancel the shared context *)
                          Some (mkSt ts true (Some e) (term st) (pending st) (sigtask st) (notified st) (served st))
                      | _, _ => Some (set_tasks st ts)
                      end
                  | _ => None end
      | None => None
      end
  | LSig s =>
      match pending st with
      | None => Some (mkSt (tasks st) (cancelled st) (first_err st) (term st) (Some s) (sigtask st) (notified st) (served st))
      | Some _ => Some st
      end
  | LTake s =>
      match sigtask st, pending st with
      | SWait, Some s' =>
          if sig_eqb s s'
          then Some (mkSt (tasks st) (cancelled st) (first_err st) (term st) None (SAct s 0) (notified st) (served st))
          else None
      | _, _ => None
      end
  | LAct =>
      match sigtask st with
      | SAct s k => match nth_error signal_run_order k with
                    | Some a => Some (act_effect a s st k)
                    | None => None end
      | _ => None
      end
  | LDone =>
      match sigtask st with
      | SWait => if cancelled st && signal_select_shape
                 then Some (mkSt (tasks st) true (first_err st) (term st) (pending st) SDone (notified st) (served st))
                 else None
      | _ => None
      end
  | LNotifyReady =>
      if negb (notified st) && forallb t_ready (tasks st)
      then Some (mkSt (tasks st) (cancelled st) (first_err st) (term st) (pending st) (sigtask st) true (served st))
      else None
  | LServe r =>
      match served st with
      | Some _ => None
      | None =>
          if forallb is_returned (tasks st) && sig_returned st &&
             match r, first_err st with
             | None, None => true
             | Some a, Some b => N.eqb a b
             | _, _ => false
             end
          then Some (mkSt (tasks st) (cancelled st) (first_err st) (term st) (pending st) (sigtask st) (notified st) (Some r))
          else None
      end
  end.

Fixpoint run (st : state) (tr : list label) : option state :=
  match tr with
  | [] => Some st
  | l :: r => match step st l with Some st' => run st' r | None => None end
  end.

(* ------------------------------------------------------------------ serve(): HTTP listener retries *)
Inductive fn_result :=
| FClosed              (* http.ErrServerClosed *)
| FNet                 (* *net.OpError *)
| FNil                 (* nil: the code panics *)
| FOther (e : N).      (* any other error *)

Inductive serve_result := SRNil | SRErr (e : N) | SRTimeout | SRPanic.

Definition serve_attempts : nat := Z.to_nat httpServeAttempts.

(* clock in ns from the call of serve; every fn call takes its own duration; cancel_at = instant
   at which ctx is cancelled (None = never).  The oracle list gives fn's results in call order;
   when it is exhausted fn is taken to fail with a net error.
   Returns (result, instants at which fn was called). *)
Fixpoint serve_loop (fuel : nat) (first : bool) (delay now : Z) (cancel_at : option Z)
         (oracle : list (fn_result * Z)) : serve_result * list Z :=
  match fuel with
  | O => (SRTimeout, [])
  | S fuel' =>
      let is_cancelled t := match cancel_at with Some c => Z.leb c t | None => false end in
      if is_cancelled now then (SRNil, [])
      else
        let wake := if first then now else (now + delay)%Z in
        if negb first && is_cancelled wake then (SRNil, [])       (* <-ctx.Done() wins the select *)
        else
          let '(res, d, rest) := match oracle with
                                 | [] => (FNet, 0%Z, [])
                                 | (r, d) :: rest => (r, d, rest) end in
          match res with
          | FClosed => (SRNil, [wake])
          | FNil => (SRPanic, [wake])
          | FOther e => (SRErr e, [wake])
          | FNet => let (r, calls) := serve_loop fuel' false delay (wake + d)%Z cancel_at rest in
                    (r, wake :: calls)
          end
  end.

Definition serve (delay : Z) (cancel_at : option Z) (oracle : list (fn_result * Z)) : serve_result * list Z :=
  serve_loop serve_attempts true delay 0 cancel_at oracle.
