(* Model of the RA scheduler (Advertiser.schedule / sendWorker / send, internal/corerad/advertise.go)
   as a sequential state machine over the history of requests it receives from the request channel.
   Time is virtual: a request is handled at the instant it is made and a scheduled RA is transmitted
   at its scheduled instant (transmit latency and OS timer jitter are outside the model). *)
From CR Require Export Model.Types.
From CR Require Import Base.IP gen.ExtAdvertise.
Local Open Scope Z_scope.

(* a request taken from the channel: destination + (for unicast) the delay drawn by the scheduler's PRNG *)
Inductive request :=
| ReqMulti                       (* ff02::1: periodic tick or RS from :: *)
| ReqUni (dst : N) (r : Z).      (* RS from a specified source; r = Int63n(maxRADelay) *)

Definition send := (Z * N)%type.  (* (instant, destination) *)

(* one iteration of the scheduler loop at instant t; [last] = lastMulticast *)
Definition sched_step (last t : Z) (q : request) : Z * list send :=
  match q with
  | ReqUni dst r => (last, [(t + r, dst)])
  | ReqMulti =>
      if t <? last then (last, [])                        (* a multicast RA is pending: it serves this one *)
      else let next := Z.max t (last + minDelayBetweenRAs) in (next, [(next, all_nodes)])
  end.

Fixpoint sched (last : Z) (h : list (Z * request)) : list send :=
  match h with
  | [] => []
  | (t, q) :: h' => let (last', out) := sched_step last t q in out ++ sched last' h'
  end.

Fixpoint sched_last (last : Z) (h : list (Z * request)) : Z :=
  match h with
  | [] => last
  | (t, q) :: h' => sched_last (fst (sched_step last t q)) h'
  end.

(* what is actually put on the wire: unicast-only suppresses multicast destinations *)
Definition is_multi (s : send) : bool := is_multicast (snd s).
Definition transmitted (unicast_only : bool) (l : list send) : list send :=
  if unicast_only then filter (fun s => negb (is_multi s)) l else l.

(* the whole run from (re)initialisation at t0: initial RA, then the scheduled ones *)
Definition run_sends (unicast_only : bool) (t0 : Z) (h : list (Z * request)) : list send :=
  transmitted unicast_only ((t0, all_nodes) :: sched t0 h).

Definition multi_times (l : list send) : list Z := map fst (filter is_multi l).
Definition uni_to (a : N) (l : list send) : list Z :=
  map fst (filter (fun s => N.eqb (snd s) a) l).

(* merge two time-sorted request histories (ticks of the multicast loop, solicitations) *)
Fixpoint merge (a : list (Z * request)) : list (Z * request) -> list (Z * request) :=
  fix inner (b : list (Z * request)) : list (Z * request) :=
    match a, b with
    | [], _ => b
    | _, [] => a
    | (ta, qa) :: a', (tb, qb) :: b' =>
        if ta <=? tb then (ta, qa) :: merge a' b else (tb, qb) :: inner b'
    end.
