(* Shared vocabulary of the CoreRAD models (DESIGN.md section 4.2).
   Durations / instants: Z nanoseconds.  IPv6 addresses: N < 2^128.  Strings whose content the
   code never inspects (interface names, domain names, URIs) are interned to N by the drivers. *)
From Coq Require Export List ZArith NArith Bool.
Export ListNotations.

Definition dur := Z.
Definition ns : Z := 1%Z.
Definition us : Z := 1000%Z.
Definition ms : Z := 1000000%Z.
Definition sec : Z := 1000000000%Z.
Definition minute : Z := (60 * sec)%Z.
Definition hour : Z := (3600 * sec)%Z.
(* ndp.Infinity = time.Duration(0xffffffff) * time.Second *)
Definition infinity : dur := (4294967295 * sec)%Z.

Inductive pref := Low | Medium | High.
Definition pref_eqb (a b : pref) : bool :=
  match a, b with Low, Low | Medium, Medium | High, High => true | _, _ => false end.

(* NDP options as CoreRAD builds / inspects them. *)
Inductive opt :=
| OPrefix (plen : N) (onlink autonomous : bool) (valid preferred : dur) (pfx : N)
| ORoute (plen : N) (prf : pref) (lifetime : dur) (pfx : N)
| ORDNSS (lifetime : dur) (servers : list N)
| ODNSSL (lifetime : dur) (names : list N)
| OMTU (mtu : N)
| OSLLA (mac : list N)                      (* bytes *)
| OCaptive (uri : N)
| OPref64 (v4 : bool) (pfx : N) (plen : N) (lifetime : dur)
| OOther (code : N).                        (* any other option a peer may send *)

Record ra := mkRA {
  ra_hop : N; ra_managed : bool; ra_other : bool; ra_pref : pref;
  ra_lifetime : dur; ra_reachable : dur; ra_retrans : dur; ra_opts : list opt }.

(* Parsed configuration (config.Interface with its plugin list). *)
Inductive plugin :=
| PPrefix (auto : bool) (pfx bits : N) (onlink autonomous : bool) (valid preferred : dur) (deprecated : bool)
| PRoute (auto : bool) (pfx bits : N) (prf : pref) (lifetime : dur) (deprecated : bool)
| PRDNSS (auto : bool) (lifetime : dur) (servers : list N)
| PDNSSL (lifetime : dur) (names : list N)
| PMTU (mtu : Z)
| PLLA
| PCaptive (uri : N)
| PPref64 (v4 : bool) (pfx bits : N) (lifetime : dur).

Record iface := mkIface {
  if_name : N; if_monitor : bool; if_advertise : bool; if_verbose : bool;
  if_min : dur; if_max : dur; if_managed : bool; if_other : bool;
  if_reachable : dur; if_retrans : dur; if_hop : N; if_lifetime : dur;
  if_unicast_only : bool; if_pref : pref; if_plugins : list plugin }.

(* System state read while an RA is generated.  None = the OS call failed. *)
Record sysip := mkIP {
  ip_v4 : bool; ip_addr : N; ip_bits : N;
  ip_deprecated : bool; ip_mngtmp : bool; ip_stablepriv : bool;
  ip_temporary : bool; ip_tentative : bool; ip_forever : bool }.
Record sysroute := mkRoute { rt_v4 : bool; rt_addr : N; rt_bits : N }.
Record sys := mkSys {
  s_addrs : option (list sysip); s_routes : option (list sysroute);
  s_mac : option (list N); s_now : Z; s_epoch : Z; s_fwd : bool }.

Inductive result (A : Type) := Ok (a : A) | Err (code : N).
Arguments Ok {A} a. Arguments Err {A} code.
Definition is_ok {A} (r : result A) : bool := match r with Ok _ => true | Err _ => false end.

(* boolean equality helpers used by the case checkers *)
Fixpoint list_eqb {A} (eqb : A -> A -> bool) (l1 l2 : list A) : bool :=
  match l1, l2 with
  | [], [] => true
  | x :: l1', y :: l2' => eqb x y && list_eqb eqb l1' l2'
  | _, _ => false
  end.

Definition opt_eqb (a b : opt) : bool :=
  match a, b with
  | OPrefix l o au v p x, OPrefix l' o' au' v' p' x' =>
      N.eqb l l' && Bool.eqb o o' && Bool.eqb au au' && Z.eqb v v' && Z.eqb p p' && N.eqb x x'
  | ORoute l p t x, ORoute l' p' t' x' => N.eqb l l' && pref_eqb p p' && Z.eqb t t' && N.eqb x x'
  | ORDNSS t s, ORDNSS t' s' => Z.eqb t t' && list_eqb N.eqb s s'
  | ODNSSL t s, ODNSSL t' s' => Z.eqb t t' && list_eqb N.eqb s s'
  | OMTU m, OMTU m' => N.eqb m m'
  | OSLLA m, OSLLA m' => list_eqb N.eqb m m'
  | OCaptive u, OCaptive u' => N.eqb u u'
  | OPref64 v x l t, OPref64 v' x' l' t' => Bool.eqb v v' && N.eqb x x' && N.eqb l l' && Z.eqb t t'
  | OOther c, OOther c' => N.eqb c c'
  | _, _ => false
  end.

Definition ra_eqb (a b : ra) : bool :=
  N.eqb (ra_hop a) (ra_hop b) && Bool.eqb (ra_managed a) (ra_managed b) &&
  Bool.eqb (ra_other a) (ra_other b) && pref_eqb (ra_pref a) (ra_pref b) &&
  Z.eqb (ra_lifetime a) (ra_lifetime b) && Z.eqb (ra_reachable a) (ra_reachable b) &&
  Z.eqb (ra_retrans a) (ra_retrans b) && list_eqb opt_eqb (ra_opts a) (ra_opts b).
