(* Model of internal/system/conn.go: lookupInterface, isNoSuchInterface, checkInterface -- the
   code that decides "link not ready" (property C10: the recoverable cause of a failed dial) -- and
   of the sysctl file access of internal/system/interface_linux.go (sysctlBool, sysctlEnable).
   Executable definitions only.

   The operating system's answers are inputs: whether net.InterfaceByName found the name (and the
   shape of its error), the interface flags, and what ( *net.Interface).Addrs returned.  The
   net/netip predicates used by the code (AddrFromSlice, Is6, Is4In6, IsLinkLocalUnicast) are
   modelled as the Go standard library implements them -- in particular IsLinkLocalUnicast first
   unmaps an IPv4-mapped address, so ::ffff:169.254.1.1 "is link-local unicast". *)
From CR Require Export Model.Types.
From CR Require Import Base.IP Model.Dialer.
Local Open Scope N_scope.

(* ---- one net.Addr of the interface *)
Record laddr := mkLA {
  la_ipnet : bool;      (* the dynamic type is a net.IPNet pointer (else IPAddr, TCPAddr, ...) *)
  la_len : N;           (* len(a.IP) *)
  la_ip : N }.          (* a.IP read as a big-endian number *)

(* netip.AddrFromSlice: ok iff the slice has 4 or 16 bytes *)
Definition from_slice_ok (a : laddr) : bool := N.eqb (la_len a) 4 || N.eqb (la_len a) 16.
(* Addr.Is6: a 16-byte address, IPv4-mapped included *)
Definition netip_is6 (a : laddr) : bool := N.eqb (la_len a) 16.
(* Addr.Is4In6: ::ffff:0:0/96 *)
Definition is_4in6 (ip : N) : bool := N.eqb (N.shiftr ip 32) 65535.
Definition netip_is4in6 (a : laddr) : bool := netip_is6 a && is_4in6 (la_ip a).
(* 169.254.0.0/16 on the low 32 bits *)
Definition v4_link_local (ip : N) : bool := N.eqb (N.shiftr (N.land ip 4294967295) 16) 43518.   (* 0xa9fe *)
(* Addr.IsLinkLocalUnicast: unmap, then 169.254/16 for IPv4 and fe80::/10 for IPv6 *)
Definition netip_is_llu (a : laddr) : bool :=
  if N.eqb (la_len a) 4 then v4_link_local (la_ip a)
  else if netip_is4in6 a then v4_link_local (la_ip a)
  else if netip_is6 a then is_link_local (la_ip a)
  else false.

(* the loop body of checkInterface: `a, ok := a.( *net.IPNet)`; `ip, ok := netip.AddrFromSlice(a.IP)`;
   `ok && ip.Is6() && !ip.Is4In6() && ip.IsLinkLocalUnicast()` *)
Definition found_ll (a : laddr) : bool :=
  la_ipnet a && (from_slice_ok a && netip_is6 a && negb (netip_is4in6 a) && netip_is_llu a).

(* the condition before the repair (no Is4In6 test): kept to state the defect *)
Definition found_ll_legacy (a : laddr) : bool :=
  la_ipnet a && (from_slice_ok a && netip_is6 a && netip_is_llu a).

(* what addrFunc returned *)
Inductive addrs_res := AErr (e : err) | AList (l : list laddr).

(* checkInterface: result (None = nil) and whether addrFunc was called.
   "%w" keeps the class of the wrapped error. *)
Definition check_interface_gen (found : laddr -> bool) (up : bool) (r : addrs_res) : option err * bool :=
  if negb up then (Some ELinkNotReady, false)
  else match r with
       | AErr e => (Some e, true)
       | AList l => (if existsb found l then None else Some ELinkNotReady, true)
       end.
Definition check_interface := check_interface_gen found_ll.
Definition check_interface_legacy := check_interface_gen found_ll_legacy.

(* ---- lookupInterface *)
(* what errors.As(err, &oerr) and the three comparisons of isNoSuchInterface see *)
Record lookup_err := mkLE {
  le_operr : bool;      (* the chain contains a net.OpError pointer *)
  le_route : bool;      (* oerr.Op == "route" *)
  le_ipnet : bool;      (* oerr.Net == "ip+net" *)
  le_text : bool }.     (* oerr.Err.Error() == "no such network interface" *)

Definition is_no_such (e : lookup_err) : bool := le_operr e && (le_route e && le_ipnet e && le_text e).

(* result of net.InterfaceByName: found, or an error *)
Definition lookup_interface (r : option lookup_err) : option err :=
  match r with
  | None => None
  | Some e => if is_no_such e then Some ELinkNotReady     (* "%w", ErrLinkNotReady *)
              else Some EOpaque                           (* "%v": wraps nothing *)
  end.

(* what net.InterfaceByName answers (Go standard library): *)
Definition by_name_missing : lookup_err := mkLE true true true true.     (* errNoSuchInterface *)
Definition by_name_invalid : lookup_err := mkLE true true true false.    (* errInvalidInterfaceName *)

(* ---- the first two steps of Dialer.dial from the state of the interface *)
Record ifstate := mkIf {
  if_lookup : option lookup_err;
  if_up : bool;
  if_addrs : addrs_res }.

Definition link_steps (i : ifstate) (rest : dial_steps) : dial_steps :=
  mkSteps (lookup_interface (if_lookup i)) (fst (check_interface (if_up i) (if_addrs i)))
          (s_open rest) (s_get rest) (s_set rest) (s_leave rest) (s_close rest).

(* ---- sysctl files (interface_linux.go) *)
(* sysctlBool: bytes.Equal(out, []byte("1\n")) -- file content as a list of bytes *)
Definition sysctl_bool (content : list N) : bool :=
  match content with
  | [a; b] => N.eqb a 49 && N.eqb b 10
  | _ => false
  end.
(* sysctlEnable writes "0" or "1" *)
Definition sysctl_enable_bytes (enable : bool) : list N := if enable then [49] else [48].
