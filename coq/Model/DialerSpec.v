(* Specification acceptors for C11, written from the property text (not from the code's control
   flow): executable monitors over a log of events.  They are evaluated on the implementation's
   observed call log by Corr/C11.v and proved to accept every trace of the model in Proofs/. *)
From CR Require Export Model.Dialer.
Local Open Scope Z_scope.

Record cst := mkC {
  c_open : option N;          (* the connection currently open *)
  c_fresh : N;                (* identifier the next connection must carry *)
  c_sys : bool;               (* the sysctl, replayed from the successful writes *)
  c_read : option bool;       (* value read by the dial that opened the current connection *)
  c_pending : option bool;    (* autoconf was (tried to be) disabled: value that must be put back
                                 (need not be when switching it off was denied: nothing changed) *)
  c_denied : bool;            (* ... and that write was denied *)
  c_failed : bool;            (* some set / restore call failed so far *)
  c_lastrest : option sysres  (* answer to the restore of the clean-up in progress *)
}.

Definition c_init (a0 : bool) : cst := mkC None 0%N a0 None None false false None.

Definition opt_N_eqb (a : option N) (b : N) : bool := match a with Some x => N.eqb x b | None => false end.
Definition is_none {A} (o : option A) : bool := match o with None => true | Some _ => false end.

(* "put back to the value it had before": whenever nothing is held and no set/restore call failed *)
Definition rest_ok (a0 : bool) (s : cst) : bool :=
  is_none (c_open s) && (is_none (c_pending s) || c_denied s) && (c_failed s || Bool.eqb (c_sys s) a0).

Definition cstep (m : mode) (a0 : bool) (s : cst) (ev : event) : option cst :=
  match ev with
  | OpenConn k =>
      (* the previous connection is gone and autoconf is back before the next one is opened *)
      if is_none (c_open s) && (is_none (c_pending s) || c_denied s) && N.eqb k (c_fresh s) then
        Some (mkC (Some k) (k + 1)%N (c_sys s) None None false (c_failed s) None)
      else None
  | GetAuto r =>
      match m, c_open s with
      | Advertise, Some _ =>
          match r with
          | Some v => if Bool.eqb v (c_sys s) then Some (mkC (c_open s) (c_fresh s) (c_sys s) (Some v) (c_pending s) (c_denied s) (c_failed s) (c_lastrest s)) else None
          | None => Some s
          end
      | _, _ => None       (* a monitor never touches the sysctl *)
      end
  | SetAuto v r =>
      match m, c_open s, c_read s, c_pending s with
      | Advertise, Some _, Some prev, None =>
          if v then None else
          match r with
          | SOk => Some (mkC (c_open s) (c_fresh s) false (c_read s) (Some prev) false (c_failed s) None)
          | SPerm => Some (mkC (c_open s) (c_fresh s) (c_sys s) (c_read s) (Some prev) true true None)
          | _ => Some (mkC (c_open s) (c_fresh s) (c_sys s) (c_read s) None false true None)
          end
      | _, _, _, _ => None
      end
  | Restore v r =>
      match m, c_pending s with
      | Advertise, Some prev =>
          (* every restore writes the value read by THAT dial *)
          if Bool.eqb v prev then
            Some (mkC (c_open s) (c_fresh s) (if sysres_eqb r SOk then v else c_sys s) (c_read s) None (c_denied s)
                      (c_failed s || negb (sysres_eqb r SOk)) (Some r))
          else None
      | _, _ => None
      end
  | Leave k _ => if opt_N_eqb (c_open s) k then Some s else None
  | CloseConn k _ =>
      if opt_N_eqb (c_open s) k then
        Some (mkC None (c_fresh s) (c_sys s) (c_read s) (c_pending s) (c_denied s) (c_failed s) (c_lastrest s))
      else None
  | DialAttempt None =>
      (* a connection is handed out: it is open, and on an advertising interface autoconf is off
         unless switching it off was denied *)
      match c_open s with
      | Some _ =>
          match m with
          | Advertise => if negb (is_none (c_pending s)) && (c_denied s || negb (c_sys s)) then Some s else None
          | Monitor => Some s
          end
      | None => None
      end
  | DialAttempt (Some _) => if rest_ok a0 s then Some s else None    (* a failed dial leaves nothing behind *)
  | Task k _ =>
      if opt_N_eqb (c_open s) k &&
         (match m with Advertise => negb (is_none (c_pending s)) && (c_denied s || negb (c_sys s)) | Monitor => true end)
      then Some (mkC (c_open s) (c_fresh s) (c_sys s) (c_read s) (c_pending s) (c_denied s) (c_failed s) None)
      else None
  | Cleanup k ok =>
      (* cleaned exactly once; permission / not-exist on restore tolerated, anything else reported *)
      if rest_ok a0 s && N.eqb (k + 1) (c_fresh s) &&
         Bool.eqb ok (negb (match c_lastrest s with Some SOther => true | _ => false end))
      then Some s else None
  | Return _ => if rest_ok a0 s then Some s else None
  | _ => Some s
  end.

Fixpoint crun (m : mode) (a0 : bool) (s : cst) (l : list event) : option cst :=
  match l with
  | [] => Some s
  | ev :: tl => match cstep m a0 s ev with Some s' => crun m a0 s' tl | None => None end
  end.

Definition c11_ok (m : mode) (a0 : bool) (l : list event) : bool :=
  match crun m a0 (c_init a0) l with Some _ => true | None => false end.

(* the sysctl after a log: replay of the successful writes *)
Fixpoint sysctl_after (a : bool) (l : list event) : bool :=
  match l with
  | [] => a
  | SetAuto v SOk :: tl => sysctl_after v tl
  | Restore v SOk :: tl => sysctl_after v tl
  | _ :: tl => sysctl_after a tl
  end.
