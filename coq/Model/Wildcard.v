(* Wildcard expansion (internal/plugin/plugin.go, internal/config/plugin.go parseRDNSS):
     Prefix.current / apply / Apply   -- "::/64"  (C13)
     RDNSS.current / betterRDNSS / isStable / isEUI64 / Apply, parseRDNSS's server list -- "::" (C14)
     Route.current / apply / Apply    -- "::/0"   (C15, code as repaired by a252649)
   Executable definitions only; lemmas live in Proofs/Wildcard*.v.
   The operating system's answer (address list, route dump, or failure = None) is an input. *)
From CR Require Export Model.Types.
From CR Require Export Base.IP.
From CR Require Export Model.Lifetimes.
Local Open Scope N_scope.

(* ---- net/netip address classes.  Since go1.22 IsPrivate / IsGlobalUnicast / IsLinkLocalUnicast /
   IsLoopback / IsMulticast first unmap an IPv4-mapped address (::ffff:a.b.c.d) and classify the IPv4 one. *)
Definition is_4in6 (a : N) : bool := N.shiftr a 32 =? 65535.               (* hi = 0 && lo>>32 = 0xffff *)
Definition v4_of (a : N) : N := N.land a 4294967295.
Definition v4_link_local (v : N) : bool := N.shiftr v 16 =? 43518.         (* 169.254/16 = 0xa9fe *)
Definition v4_private (v : N) : bool :=
  (N.shiftr v 24 =? 10) || (N.shiftr v 20 =? 2753) || (N.shiftr v 16 =? 49320).   (* 10/8, 172.16/12 = 0xac1, 192.168/16 = 0xc0a8 *)
Definition v4_global_unicast (v : N) : bool :=
  negb (v =? 0) && negb (v =? 4294967295) && negb (N.shiftr v 24 =? 127) && negb (N.shiftr v 28 =? 14)
  && negb (v4_link_local v).

Definition go_link_local (a : N) : bool := if is_4in6 a then v4_link_local (v4_of a) else is_link_local a.
Definition go_private (a : N) : bool := if is_4in6 a then v4_private (v4_of a) else is_private a.
Definition go_global_unicast (a : N) : bool :=
  if is_4in6 a then v4_global_unicast (v4_of a) else is_global_unicast a.

(* ---- slices.SortStableFunc(xs, cmp by address): a stable sort; modelled as the insertion sort that
   puts each element in front of the first element whose key is not smaller. *)
Fixpoint insert_by {A} (key : A -> N) (x : A) (l : list A) : list A :=
  match l with
  | [] => [x]
  | y :: tl => if key x <=? key y then x :: l else y :: insert_by key x tl
  end.
Fixpoint isort {A} (key : A -> N) (l : list A) : list A :=
  match l with [] => [] | x :: tl => insert_by key x (isort key tl) end.

Definition memN (x : N) (l : list N) : bool := existsb (N.eqb x) l.
Definition pair_eqb (x y : N * N) : bool := (fst x =? fst y) && (snd x =? snd y).
Definition memNN (x : N * N) (l : list (N * N)) : bool := existsb (pair_eqb x) l.

(* error codes of the models (only Ok/Err is compared with the implementation) *)
Definition err_list : N := 1.        (* the address / route listing failed (or the plugin was not prepared) *)
Definition err_no_addr : N := 2.     (* "interface has no usable IPv6 addresses" *)

(* =================================================================== Prefix, "::/64" *)

(* the two `continue`s of the loop in Prefix.current, in order; pbits = p.Prefix.Bits() *)
Definition prefix_skip1 (pbits : N) (a : sysip) : bool :=
  ip_v4 a || go_link_local (ip_addr a) || negb (ip_bits a =? pbits).
Definition prefix_skip2 (a : sysip) : bool := ip_temporary a || ip_tentative a.

(* the loop: [seen] is the map of prefixes already appended.  Every key has length pbits, so the
   masked address identifies it. *)
Fixpoint prefix_scan (pbits : N) (seen : list N) (l : list sysip) : list N :=
  match l with
  | [] => []
  | a :: tl =>
      if prefix_skip1 pbits a then prefix_scan pbits seen tl
      else if prefix_skip2 a then prefix_scan pbits seen tl
      else let pfx := mask (ip_addr a) (ip_bits a) in
        if memN pfx seen then prefix_scan pbits seen tl
        else pfx :: prefix_scan pbits (pfx :: seen) tl
  end.

Definition prefix_list (pbits : N) (l : list sysip) : list N :=
  isort (fun x => x) (prefix_scan pbits [] l).

Definition prefix_current (pbits : N) (addrs : option (list sysip)) : result (list N) :=
  match addrs with
  | None => Err err_list
  | Some l => Ok (prefix_list pbits l)
  end.

(* Prefix.apply: one PrefixInformation per prefix, all with the stanza's parameters *)
Definition prefix_apply (pbits : N) (onlink autonomous : bool) (lt : Z * Z) (pfxs : list N) : list opt :=
  map (fun x => OPrefix pbits onlink autonomous (fst lt) (snd lt) x) pfxs.

(* Prefix.Apply *)
Definition prefix_Apply (auto : bool) (pfx pbits : N) (onlink autonomous : bool) (valid preferred : dur)
    (deprecated : bool) (epoch now : Z) (addrs : option (list sysip)) : result (list opt) :=
  let lt := prefix_lifetimes deprecated epoch valid preferred now in
  if auto then
    match prefix_current pbits addrs with
    | Err e => Err e
    | Ok ps => Ok (prefix_apply pbits onlink autonomous lt ps)
    end
  else Ok (prefix_apply pbits onlink autonomous lt [pfx]).

(* =================================================================== RDNSS, "::" *)

Definition is_stable (a : sysip) : bool :=
  false || ip_forever a || ip_mngtmp a || ip_stablepriv a || is_eui64 (ip_addr a).

(* the loop over IsPrivate, IsGlobalUnicast, IsLinkLocalUnicast, then the final byte comparison *)
Definition class_fns : list (N -> bool) := [go_private; go_global_unicast; go_link_local].
Fixpoint better_class (fns : list (N -> bool)) (cur best : sysip) : sysip :=
  match fns with
  | [] => if ip_addr cur <? ip_addr best then cur else best
  | fn :: tl =>
      let okC := fn (ip_addr cur) in let okB := fn (ip_addr best) in
      if okC && negb okB then cur
      else if negb okC && okB then best
      else if okC && okB then (if ip_addr cur <? ip_addr best then cur else best)
      else better_class tl cur best
  end.

(* betterRDNSS; best = None is the zero system.IP (invalid Address) *)
Definition better (best : option sysip) (cur : sysip) : sysip :=
  match best with
  | None => cur
  | Some b =>
      let okC := is_stable cur in let okB := is_stable b in
      if okC && negb okB then cur
      else if negb okC && okB then b
      else better_class class_fns cur b
  end.

Definition rdnss_skip (a : sysip) : bool :=
  ip_v4 a || ip_deprecated a || ip_temporary a || ip_tentative a.

Fixpoint rdnss_fold (best : option sysip) (l : list sysip) : option sysip :=
  match l with
  | [] => best
  | a :: tl => if rdnss_skip a then rdnss_fold best tl else rdnss_fold (Some (better best a)) tl
  end.

Definition rdnss_current (addrs : option (list sysip)) : result N :=
  match addrs with
  | None => Err err_list
  | Some l => match rdnss_fold None l with
              | None => Err err_no_addr
              | Some b => Ok (ip_addr b)
              end
  end.

(* RDNSS.Apply *)
Definition rdnss_Apply (auto : bool) (lifetime : dur) (servers : list N) (addrs : option (list sysip))
    : result (list opt) :=
  if auto then
    match rdnss_current addrs with
    | Err e => Err e
    | Ok s => Ok [ORDNSS lifetime (s :: servers)]
    end
  else Ok [ORDNSS lifetime servers].

(* parseRDNSS, server list part.  A server string as lexed by netip.ParseAddr: *)
Inductive raw_server :=
| RSbad                       (* ParseAddr failed *)
| RSnot6                      (* !Is6() || Is4In6() *)
| RSzone (a : N)              (* an IPv6 address with a zone (fe80::1%eth0): refused since fix f20e750 (fixes/rdnss-zone.diff) *)
| RS6 (a : N).                (* an IPv6 address without zone *)

Definition perr_parse : N := 1.
Definition perr_not6 : N := 2.
Definition perr_wild_twice : N := 3.
Definition perr_dup : N := 4.
Definition perr_zone : N := 5.

(* the loop; [set] is the map of servers (most recent first) *)
Fixpoint parse_servers (auto : bool) (set : list N) (l : list raw_server) : result (bool * list N) :=
  match l with
  | [] => Ok (auto, set)
  | RSbad :: _ => Err perr_parse
  | RSnot6 :: _ => Err perr_not6
  | RSzone _ :: _ => Err perr_zone
  | RS6 a :: tl =>
      if is_unspecified a then (if auto then Err perr_wild_twice else parse_servers true set tl)
      else if memN a set then Err perr_dup
      else parse_servers auto (a :: set) tl
  end.

(* (Auto, Servers) of the resulting plugin.RDNSS.  The map is flattened in Go's unspecified iteration
   order and then sorted; Proofs/Wildcard.v (isort_perm_unique) shows that the sorted result does
   not depend on that order because the elements are distinct. *)
Definition parse_rdnss (servers : list raw_server) : result (bool * list N) :=
  match servers with
  | [] => Ok (true, [])
  | _ => match parse_servers false [] servers with
         | Err e => Err e
         | Ok (auto, set) => Ok (auto, isort (fun x => x) set)
         end
  end.

(* =================================================================== Route, "::/0" *)

(* rt2.Prefix.Bits() < rt.Prefix.Bits() && rt2.Prefix.Contains(rt.Prefix.Addr()), rt being IPv6.
   Contains is false across address families. *)
Definition route_covers (rt2 rt : sysroute) : bool :=
  (rt_bits rt2 <? rt_bits rt) && (negb (rt_v4 rt2) && contains (rt_addr rt2) (rt_bits rt2) (rt_addr rt)).
Definition route_covered (all : list sysroute) (rt : sysroute) : bool := existsb (fun rt2 => route_covers rt2 rt) all.

(* IPv4 or IsSingleIP *)
Definition route_skip (rt : sysroute) : bool := rt_v4 rt || (rt_bits rt =? 128).

Fixpoint route_scan (all : list sysroute) (seen : list (N * N)) (l : list sysroute) : list (N * N) :=
  match l with
  | [] => []
  | rt :: tl =>
      let p := (rt_addr rt, rt_bits rt) in
      if route_skip rt then route_scan all seen tl
      else if memNN p seen then route_scan all seen tl
      else if route_covered all rt then route_scan all seen tl
      else p :: route_scan all (p :: seen) tl
  end.

Definition route_list (l : list sysroute) : list (N * N) := isort fst (route_scan l [] l).

Definition route_current (routes : option (list sysroute)) : result (list (N * N)) :=
  match routes with
  | None => Err err_list
  | Some l => Ok (route_list l)
  end.

Definition route_apply (prf : pref) (lt : dur) (rs : list (N * N)) : list opt :=
  map (fun r => ORoute (snd r) prf lt (fst r)) rs.

(* Route.Apply *)
Definition route_Apply (auto : bool) (pfx pbits : N) (prf : pref) (lifetime : dur) (deprecated : bool)
    (epoch now : Z) (routes : option (list sysroute)) : result (list opt) :=
  let lt := route_lifetime deprecated epoch lifetime now in
  if auto then
    match route_current routes with
    | Err e => Err e
    | Ok rs => Ok (route_apply prf lt rs)
    end
  else Ok (route_apply prf lt [(pfx, pbits)]).

(* observable comparison helpers shared by the Corr files *)
Definition res_opts_eqb (a b : result (list opt)) : bool :=
  match a, b with
  | Ok x, Ok y => list_eqb opt_eqb x y
  | Err _, Err _ => true
  | _, _ => false
  end.
