(* Model of RA construction (properties C01 / C03):
     config.Interface.RouterAdvertisement            internal/config/config.go
     the eight Plugin.Apply methods, NewPREF64        internal/plugin/plugin.go
     Prefix.current / Route.current / RDNSS.current   (wildcard expansion; Route.current as fixed by a252649)
   Executable definitions only.  Input: the *parsed* configuration [iface] and the system state [sys]
   (s_addrs / s_routes = None: the OS call failed; s_mac = LLA.Addr as set by Prepare; s_now = TimeNow();
   s_epoch = the epoch handed to config.Parse; s_fwd = the forwarding argument). *)
From CR Require Export Model.Types Model.Lifetimes Base.IP.
From CR Require Import gen.ExtPlugins.
Local Open Scope Z_scope.

(* error classes (only Ok / Err is compared with the implementation) *)
Definition E_ADDRS : N := 1%N.      (* Addrs() failed *)
Definition E_ROUTES : N := 2%N.     (* Routes() failed *)
Definition E_NO_RDNSS : N := 3%N.   (* "interface has no usable IPv6 addresses" *)

(* ---- plugin.NewPREF64: lifetime of the PREF64 option from MaxRtrAdvInterval.
   Go: lifetime := maxPref64Lifetime; if scaled := 3*max; scaled < lifetime { (scaled+unit-1)/unit*unit }
   (Go's / truncates toward zero: Z.quot).  The constants come from the source (gen/ExtPlugins.v). *)
Definition new_pref64_lifetime (max : Z) : Z :=
  let scaled := pref64Factor * max in
  if scaled <? maxPref64Lifetime
  then Z.quot (scaled + pref64Unit - 1) pref64Unit * pref64Unit
  else maxPref64Lifetime.

(* ---- net/netip predicates as go1.23 defines them (IPv4-mapped addresses are unmapped first) *)
Local Open Scope N_scope.
Definition is4in6 (a : N) : bool := N.eqb (N.shiftr a 32) 65535.
Definition v4byte (a i : N) : N := N.land (N.shiftr a (8 * (3 - i))) 255.
Definition go_is_link_local (a : N) : bool :=
  if is4in6 a then N.eqb (v4byte a 0) 169 && N.eqb (v4byte a 1) 254 else is_link_local a.
Definition go_is_private (a : N) : bool :=
  if is4in6 a then
    N.eqb (v4byte a 0) 10 || (N.eqb (v4byte a 0) 172 && N.eqb (N.land (v4byte a 1) 240) 16)
    || (N.eqb (v4byte a 0) 192 && N.eqb (v4byte a 1) 168)
  else is_private a.
Definition go_is_global_unicast (a : N) : bool :=
  if is4in6 a then
    let v := N.land a 4294967295 in
    negb (N.eqb v 0) && negb (N.eqb v 4294967295) && negb (N.eqb (v4byte a 0) 127)
    && negb (N.eqb (N.land (v4byte a 0) 240) 224) && negb (go_is_link_local a)
  else is_global_unicast a.

(* ---- slices.SortStableFunc by address: stable insertion sort of (address, bits) pairs *)
Definition pfx := (N * N)%type.
Fixpoint insert_pfx (x : pfx) (l : list pfx) : list pfx :=
  match l with
  | [] => [x]
  | y :: t => if fst x <=? fst y then x :: l else y :: insert_pfx x t
  end.
Definition sort_pfx (l : list pfx) : list pfx := fold_right insert_pfx [] l.
Definition pfx_eqb (a b : pfx) : bool := N.eqb (fst a) (fst b) && N.eqb (snd a) (snd b).

(* ---- Prefix.current: all unique, non-link-local, non-temporary, non-tentative prefixes of the
   interface's IPv6 addresses whose length equals the wildcard's length, sorted by address *)
Definition prefix_candidate (bits : N) (a : sysip) : bool :=
  negb (ip_v4 a || go_is_link_local (ip_addr a) || negb (N.eqb (ip_bits a) bits))
  && negb (ip_temporary a || ip_tentative a).
Fixpoint prefix_scan (bits : N) (l : list sysip) (seen : list pfx) : list pfx :=
  match l with
  | [] => []
  | a :: t =>
    if prefix_candidate bits a then
      let p := (mask (ip_addr a) (ip_bits a), ip_bits a) in
      if existsb (pfx_eqb p) seen then prefix_scan bits t seen
      else p :: prefix_scan bits t (p :: seen)
    else prefix_scan bits t seen
  end.
Definition prefix_current (bits : N) (s : sys) : result (list pfx) :=
  match s_addrs s with
  | None => Err E_ADDRS
  | Some addrs => Ok (sort_pfx (prefix_scan bits addrs []))
  end.

(* ---- Route.current (after fix a252649): IPv6 loopback routes other than /128, each once, not
   covered by a strictly shorter route of the list, sorted by address *)
Definition route_covered (all : list sysroute) (rt : sysroute) : bool :=
  existsb (fun r2 => (rt_bits r2 <? rt_bits rt) && negb (rt_v4 r2)
                     && contains (rt_addr r2) (rt_bits r2) (rt_addr rt)) all.
Fixpoint route_scan (all l : list sysroute) (seen : list pfx) : list pfx :=
  match l with
  | [] => []
  | rt :: t =>
    let p := (rt_addr rt, rt_bits rt) in
    if rt_v4 rt || N.eqb (rt_bits rt) 128 then route_scan all t seen
    else if existsb (pfx_eqb p) seen then route_scan all t seen
    else if route_covered all rt then route_scan all t seen
    else p :: route_scan all t (p :: seen)
  end.
Definition route_current (s : sys) : result (list pfx) :=
  match s_routes s with
  | None => Err E_ROUTES
  | Some routes => Ok (sort_pfx (route_scan routes routes []))
  end.

(* ---- RDNSS.current: the best usable address (betterRDNSS) *)
Definition rdnss_candidate (a : sysip) : bool :=
  negb (ip_v4 a || ip_deprecated a || ip_temporary a || ip_tentative a).
Definition is_stable (a : sysip) : bool :=
  ip_forever a || ip_mngtmp a || ip_stablepriv a || is_eui64 (ip_addr a).
(* the three address classes tried in order; a tie inside a class and no class at all both end in
   the byte comparison *)
Fixpoint better_by (fns : list (N -> bool)) (best cur : sysip) : sysip :=
  let less := ip_addr cur <? ip_addr best in
  match fns with
  | [] => if less then cur else best
  | f :: fs =>
    match f (ip_addr cur), f (ip_addr best) with
    | true, false => cur
    | false, true => best
    | true, true => if less then cur else best
    | false, false => better_by fs best cur
    end
  end.
Definition better_rdnss (best : option sysip) (cur : sysip) : sysip :=
  match best with
  | None => cur
  | Some b =>
    match is_stable cur, is_stable b with
    | true, false => cur
    | false, true => b
    | _, _ => better_by [go_is_private; go_is_global_unicast; go_is_link_local] b cur
    end
  end.
Definition rdnss_best (addrs : list sysip) : option sysip :=
  fold_left (fun best a => if rdnss_candidate a then Some (better_rdnss best a) else best) addrs None.
Definition rdnss_current (s : sys) : result N :=
  match s_addrs s with
  | None => Err E_ADDRS
  | Some addrs =>
    match rdnss_best addrs with
    | None => Err E_NO_RDNSS
    | Some a => Ok (ip_addr a)
    end
  end.
Local Close Scope N_scope.

(* ---- the Apply methods: the options one plugin contributes *)
Definition plugin_opts (p : plugin) (s : sys) : result (list opt) :=
  match p with
  | PPrefix auto a bits onl aut valid preferred dep =>
    let '(v, pr) := prefix_lifetimes dep (s_epoch s) valid preferred (s_now s) in
    let mk := fun x : pfx => OPrefix (snd x) onl aut v pr (fst x) in
    if auto then
      match prefix_current bits s with
      | Err e => Err e
      | Ok ps => Ok (map mk ps)
      end
    else Ok [mk (a, bits)]
  | PRoute auto a bits prf lt dep =>
    let l := route_lifetime dep (s_epoch s) lt (s_now s) in
    let mk := fun x : pfx => ORoute (snd x) prf l (fst x) in
    if auto then
      match route_current s with
      | Err e => Err e
      | Ok rs => Ok (map mk rs)
      end
    else Ok [mk (a, bits)]
  | PRDNSS auto lt servers =>
    if auto then
      match rdnss_current s with
      | Err e => Err e
      | Ok a => Ok [ORDNSS lt (a :: servers)]
      end
    else Ok [ORDNSS lt servers]
  | PDNSSL lt names => Ok [ODNSSL lt names]
  | PMTU m => Ok [OMTU (Z.to_N (m mod 4294967296))]        (* ndp.NewMTU of the uint32 conversion *)
  | PLLA => match s_mac s with None => Ok [] | Some mac => Ok [OSLLA mac] end
  | PCaptive uri => Ok [OCaptive uri]
  | PPref64 v4 a bits lt => Ok [OPref64 v4 a bits lt]
  end.

Definition add_opts (r : ra) (os : list opt) : ra :=
  mkRA (ra_hop r) (ra_managed r) (ra_other r) (ra_pref r) (ra_lifetime r) (ra_reachable r)
       (ra_retrans r) (ra_opts r ++ os).

(* state-passing form: Apply returns the (unchanged) plugin and the extended RA *)
Definition apply_plugin_st (p : plugin) (s : sys) (r : ra) : result (plugin * ra) :=
  match plugin_opts p s with
  | Err e => Err e
  | Ok os => Ok (p, add_opts r os)
  end.
Definition apply_plugin (p : plugin) (s : sys) (r : ra) : result ra :=
  match apply_plugin_st p s r with
  | Err e => Err e
  | Ok (_, r') => Ok r'
  end.

Fixpoint apply_all (ps : list plugin) (s : sys) (r : ra) : result ra :=
  match ps with
  | [] => Ok r
  | p :: t => match apply_plugin p s r with Err e => Err e | Ok r' => apply_all t s r' end
  end.

Definition header (c : iface) : ra :=
  mkRA (if_hop c) (if_managed c) (if_other c) (if_pref c) (if_lifetime c) (if_reachable c)
       (if_retrans c) [].

(* if ra.RouterLifetime > 0 && !forwarding { ra.RouterLifetime = 0 } *)
Definition forwarding_rule (fwd : bool) (r : ra) : ra :=
  if (0 <? ra_lifetime r) && negb fwd
  then mkRA (ra_hop r) (ra_managed r) (ra_other r) (ra_pref r) 0 (ra_reachable r) (ra_retrans r) (ra_opts r)
  else r.

Definition build (c : iface) (s : sys) : result ra :=
  match apply_all (if_plugins c) s (header c) with
  | Err e => Err e
  | Ok r => Ok (forwarding_rule (s_fwd s) r)
  end.

(* n-fold rebuild: the plugin list threaded through n builds (state-passing) *)
Fixpoint apply_all_st (ps : list plugin) (s : sys) (r : ra) : result (list plugin * ra) :=
  match ps with
  | [] => Ok ([], r)
  | p :: t =>
    match apply_plugin_st p s r with
    | Err e => Err e
    | Ok (p', r') =>
      match apply_all_st t s r' with
      | Err e => Err e
      | Ok (t', r'') => Ok (p' :: t', r'')
      end
    end
  end.
Definition build_st (c : iface) (s : sys) : result (iface * ra) :=
  match apply_all_st (if_plugins c) s (header c) with
  | Err e => Err e
  | Ok (ps, r) =>
    Ok (mkIface (if_name c) (if_monitor c) (if_advertise c) (if_verbose c) (if_min c) (if_max c)
                (if_managed c) (if_other c) (if_reachable c) (if_retrans c) (if_hop c) (if_lifetime c)
                (if_unicast_only c) (if_pref c) ps,
        forwarding_rule (s_fwd s) r)
  end.
