(* Field-level model of the NDP wire codec as CoreRAD uses it (property C03):
   github.com/mdlayher/ndp v1.1.0  message.go (RouterAdvertisement.marshal/unmarshal) and option.go
   (the eight option kinds CoreRAD emits, RawOption.marshal).  Executable definitions only.

   [encode] mirrors the encoder: every conversion to a fixed-width unsigned field is written as an
   explicit [mod 2^k]; every refusal of the encoder is an [Err].  Two peculiarities of ndp v1.1.0 are
   modelled as they are (they are the two known-finding classes of C03):
     - second-granular lifetimes go through float64 [Duration.Seconds()] ([float_secs]): for >= 2^24 s the
       sum sec + nsec/1e9 can round up to the next integer;
     - [RawOption.marshal] computes [Length*8] in uint8, so an option longer than 31 units is refused.
   [wire_meaning] is what an RFC-conformant receiver reads from the wire image; [decode] is ndp v1.1.0's own
   decoder, which additionally drops the partial last byte of a Route Information prefix.

   DNS names and URIs are opaque: an N whose low 16 bits are the string's length in bytes
   ([str_len]); the drivers intern strings that way. *)
From CR Require Export Model.Types Base.IP.
From CR Require Import Model.Build.
Local Open Scope Z_scope.

Definition E_ENC : N := 10%N.       (* the encoder refuses the option / message *)
Definition E_DEC : N := 11%N.       (* the decoder refuses *)

Definition two16 : Z := 65536.
Definition two32 : Z := 4294967296.

(* ---- duration conversions *)
(* uintN(d.Seconds()): Seconds() = float64(d/1e9) + float64(d%1e9)/1e9 in binary64, round to nearest even.
   With sec in [2^k, 2^(k+1)) the sum rounds up to sec+1 exactly when (1e9 - nsec) * 2^(44-k) <= 5^9
   (1e9 * 2^(k-53) = 5^9 * 2^(k-44)).  int64 durations have k <= 33.  Negative durations (outside every
   theorem's domain) are truncated toward zero like Go's int64 conversion on amd64. *)
Definition float_secs (d : Z) : Z :=
  let s := Z.quot d sec in
  let n := Z.rem d sec in
  if 0 <? s then
    let k := Z.log2 s in
    if (k <? 44) && ((sec - n) * 2 ^ (44 - k) <=? 1953125) then s + 1 else s
  else s.
Definition u32_secs (d : Z) : N := Z.to_N (float_secs d mod two32).
Definition u16_secs (d : Z) : N := Z.to_N (float_secs d mod two16).
(* uint32(d / time.Millisecond) *)
Definition u32_millis (d : Z) : N := Z.to_N (Z.quot d ms mod two32).
(* uint16(math.Round(d.Seconds() / 8)): half away from zero.  Exact on the rationals here; the binary64
   evaluation agrees for d below 2^24 s (all PREF64 lifetimes are multiples of 8 s up to 65528 s). *)
Definition pref64_scaled (d : Z) : N := Z.to_N (Z.quot (2 * d + 8 * sec) (16 * sec) mod two16).

Definition of_secs (n : N) : Z := Z.of_N n * sec.
Definition of_millis (n : N) : Z := Z.of_N n * ms.

(* ---- strings *)
Definition str_len (id : N) : N := N.land id 65535.
(* one domain name on the wire: a length byte per label, the labels, a terminating zero byte
   = len + 2 for a name without empty labels *)
Definition name_wire_len (id : N) : N := (str_len id + 2)%N.
Definition round8 (n : N) : N := ((n + 7) / 8 * 8)%N.

(* RawOption.marshal: l := int(r.Length * 8) in uint8; 1+1+len(r.Value) != l -> error.
   [total] = 2 + len(Value); [len8] = the Length byte the option encoder computed. *)
Definition raw_ok (len8 total : N) : bool := N.eqb total ((len8 * 8) mod 256)%N.

(* ---- wire image, field by field *)
Inductive wopt :=
| WPrefix (plen : N) (onlink autonomous : bool) (valid preferred : N) (pfx : N)
| WRoute (plen : N) (prf : pref) (lifetime : N) (pfx : N)    (* pfx: the iplen*8 prefix bytes, zero-extended to 128 bits *)
| WRDNSS (lifetime : N) (servers : list N)
| WDNSSL (lifetime : N) (names : list N)
| WMTU (mtu : N)
| WSLLA (mac : list N)
| WCaptive (uri : N)
| WPref64 (scaled plc : N) (pfx96 : N).                       (* pfx96: the 12 prefix bytes, zero-extended *)

Record wire_ra := mkWire {
  w_hop : N; w_managed : bool; w_other : bool; w_pref : pref;
  w_lifetime : N; w_reachable : N; w_retrans : N; w_opts : list wopt }.

Local Open Scope N_scope.
(* keep the top [n] bits of a 128-bit value *)
Definition keep_top (a n : N) : N := mask a n.
(* PrefixInformation / RouteInformation: netip.PrefixFrom(addr, len).Masked().Addr() != addr -> error
   (a length above 128 makes the prefix invalid, whose masked address is the zero Addr) *)
Definition masked_ok (a plen : N) : bool := (plen <=? 128) && N.eqb (mask a plen) a.
Definition route_iplen (plen : N) : N := if N.eqb plen 0 then 0 else if plen <=? 64 then 1 else 2.

Definition pref64_plc (bits : N) : option N :=
  if N.eqb bits 96 then Some 0 else if N.eqb bits 64 then Some 1 else if N.eqb bits 56 then Some 2
  else if N.eqb bits 48 then Some 3 else if N.eqb bits 40 then Some 4 else if N.eqb bits 32 then Some 5
  else None.
Definition plc_bits (plc : N) : option N :=
  match plc with 0 => Some 96 | 1 => Some 64 | 2 => Some 56 | 3 => Some 48 | 4 => Some 40 | 5 => Some 32
  | _ => None end.

Definition sumN (l : list N) : N := fold_right N.add 0 l.

Definition encode_opt (o : opt) : result wopt :=
  match o with
  | OPrefix plen onl aut valid preferred a =>
    if masked_ok a plen
    then Ok (WPrefix plen onl aut (u32_secs valid) (u32_secs preferred) a)
    else Err E_ENC
  | ORoute plen prf lt a =>
    if masked_ok a plen
    then Ok (WRoute plen prf (u32_secs lt) (keep_top a (64 * route_iplen plen)))
    else Err E_ENC
  | ORDNSS lt servers =>
    let n := N.of_nat (length servers) in
    if N.eqb n 0 then Err E_ENC
    else if raw_ok ((1 + (n * 2) mod 256) mod 256) (8 + 16 * n)
    then Ok (WRDNSS (u32_secs lt) servers) else Err E_ENC
  | ODNSSL lt names =>
    if N.eqb (N.of_nat (length names)) 0 then Err E_ENC
    else
      let total := round8 (8 + sumN (map name_wire_len names)) in
      if raw_ok ((total / 8) mod 256) total
      then Ok (WDNSSL (u32_secs lt) names) else Err E_ENC
  | OMTU m => Ok (WMTU (m mod 4294967296))
  | OSLLA mac => if Nat.eqb (length mac) 6 then Ok (WSLLA mac) else Err E_ENC
  | OCaptive uri =>
    let len := str_len uri in
    if N.eqb len 0 then Err E_ENC
    else
      let l := round8 (len + 2) - 2 in                       (* padded value length *)
      if raw_ok ((((l mod 256) + 2) mod 256) / 8) (l + 2)
      then Ok (WCaptive uri) else Err E_ENC
  | OPref64 v4 a bits lt =>
    match pref64_plc bits with
    | None => Err E_ENC
    | Some plc =>
      let scaled := pref64_scaled lt in
      if 8191 <? scaled then Err E_ENC
      else
        (* p.Prefix.Masked().Addr().As16()[:12]; an IPv4 prefix is written in its IPv4-mapped form *)
        let a16 := if v4 then 65535 * 4294967296 + a else mask a bits in
        Ok (WPref64 scaled plc (keep_top a16 96))
    end
  | OOther _ => Err E_ENC
  end.

Fixpoint encode_opts (os : list opt) : result (list wopt) :=
  match os with
  | [] => Ok []
  | o :: t =>
    match encode_opt o with
    | Err e => Err e
    | Ok w => match encode_opts t with Err e => Err e | Ok ws => Ok (w :: ws) end
    end
  end.

Definition encode (r : ra) : result wire_ra :=
  match encode_opts (ra_opts r) with
  | Err e => Err e
  | Ok ws =>
    Ok (mkWire (ra_hop r mod 256) (ra_managed r) (ra_other r) (ra_pref r)
               (u16_secs (ra_lifetime r)) (u32_millis (ra_reachable r)) (u32_millis (ra_retrans r)) ws)
  end.

(* ---- reading the wire image.  [quirk] = true: ndp v1.1.0's RouteInformation.unmarshal, which copies
   only plen/8 whole bytes of the prefix; false: a receiver following RFC 4191 (all plen bits). *)
Definition decode_opt (quirk : bool) (w : wopt) : result opt :=
  match w with
  | WPrefix plen onl aut valid preferred a =>
    if is4in6 a then Err E_DEC                                (* checkIPv6 *)
    else if 128 <? plen then Err E_DEC
    else Ok (OPrefix plen onl aut (of_secs valid) (of_secs preferred) (mask a plen))
  | WRoute plen prf lt a =>
    if 128 <? plen then Err E_DEC
    else Ok (ORoute plen prf (of_secs lt) (keep_top a (if quirk then 8 * (plen / 8) else plen)))
  | WRDNSS lt servers => if N.eqb (N.of_nat (length servers)) 0 then Err E_DEC else Ok (ORDNSS (of_secs lt) servers)
  | WDNSSL lt names => if N.eqb (N.of_nat (length names)) 0 then Err E_DEC else Ok (ODNSSL (of_secs lt) names)
  | WMTU m => Ok (OMTU m)
  | WSLLA mac => Ok (OSLLA mac)
  | WCaptive uri => if N.eqb (str_len uri) 0 then Err E_DEC else Ok (OCaptive uri)
  | WPref64 scaled plc a =>
    match plc_bits plc with
    | None => Err E_DEC
    | Some bits => Ok (OPref64 false (mask a bits) bits (Z.of_N scaled * 8 * sec)%Z)
    end
  end.

Fixpoint decode_opts (quirk : bool) (ws : list wopt) : result (list opt) :=
  match ws with
  | [] => Ok []
  | w :: t =>
    match decode_opt quirk w with
    | Err e => Err e
    | Ok o => match decode_opts quirk t with Err e => Err e | Ok os => Ok (o :: os) end
    end
  end.

Definition decode_with (quirk : bool) (w : wire_ra) : result ra :=
  match decode_opts quirk (w_opts w) with
  | Err e => Err e
  | Ok os =>
    Ok (mkRA (w_hop w) (w_managed w) (w_other w) (w_pref w)
             (of_secs (w_lifetime w)) (of_millis (w_reachable w)) (of_millis (w_retrans w)) os)
  end.
Definition decode : wire_ra -> result ra := decode_with true.         (* ndp v1.1.0 *)
Definition wire_meaning : wire_ra -> result ra := decode_with false.  (* RFC reading *)
Local Close Scope N_scope.

(* ---- specification side: truncation to the field's unit *)
Definition trunc_s (d : Z) : Z := d / sec * sec.
Definition trunc_ms (d : Z) : Z := d / ms * ms.
Definition trunc_opt (o : opt) : opt :=
  match o with
  | OPrefix l onl aut v p a => OPrefix l onl aut (trunc_s v) (trunc_s p) a
  | ORoute l prf t a => ORoute l prf (trunc_s t) a
  | ORDNSS t s => ORDNSS (trunc_s t) s
  | ODNSSL t s => ODNSSL (trunc_s t) s
  | other => other                     (* PREF64 lifetimes are multiples of 8 s *)
  end.
Definition trunc (r : ra) : ra :=
  mkRA (ra_hop r) (ra_managed r) (ra_other r) (ra_pref r) (trunc_s (ra_lifetime r))
       (trunc_ms (ra_reachable r)) (trunc_ms (ra_retrans r)) (map trunc_opt (ra_opts r)).

(* what ndp v1.1.0's decoder shows of an RA: Route Information prefixes cut to whole bytes *)
Definition ndp_view_opt (o : opt) : opt :=
  match o with
  | ORoute l prf t a => ORoute l prf t (keep_top a (8 * (l / 8)))
  | other => other
  end.
Definition ndp_view (r : ra) : ra :=
  mkRA (ra_hop r) (ra_managed r) (ra_other r) (ra_pref r) (ra_lifetime r) (ra_reachable r)
       (ra_retrans r) (map ndp_view_opt (ra_opts r)).

(* ---- wire_ok: every duration within its field's range, every option encodable per the RFCs *)
Definition in_secs32 (d : Z) : bool := (0 <=? d) && (d <? two32 * sec).
Definition pref64_bits_ok (bits : N) : bool :=
  match pref64_plc bits with Some _ => true | None => false end.

(* option length in bytes on the wire *)
Definition opt_wire_len (o : opt) : N :=
  match o with
  | OPrefix _ _ _ _ _ _ => 32
  | ORoute l _ _ _ => 8 + 8 * route_iplen l
  | ORDNSS _ s => 8 + 16 * N.of_nat (length s)
  | ODNSSL _ names => round8 (8 + sumN (map name_wire_len names))
  | OMTU _ => 8
  | OSLLA _ => 8
  | OCaptive uri => round8 (str_len uri + 2)
  | OPref64 _ _ _ _ => 16
  | OOther _ => 0
  end%N.

(* [limit]: the largest option in bytes: 2040 = 255 units (the 8-bit length field of the RFCs) *)
Definition opt_ok (limit : N) (o : opt) : bool :=
  (opt_wire_len o <=? limit)%N &&
  match o with
  | OPrefix plen _ _ v p a => masked_ok a plen && negb (is4in6 a) && in_secs32 v && in_secs32 p
  | ORoute plen _ t a => masked_ok a plen && in_secs32 t
  | ORDNSS t s => negb (N.eqb (N.of_nat (length s)) 0) && in_secs32 t
  | ODNSSL t names => negb (N.eqb (N.of_nat (length names)) 0) && in_secs32 t
  | OMTU m => (m <? 4294967296)%N
  | OSLLA mac => Nat.eqb (length mac) 6
  | OCaptive uri => negb (N.eqb (str_len uri) 0)
  | OPref64 v4 a bits t =>
    negb v4 && pref64_bits_ok bits && N.eqb (mask a bits) a
    && (0 <=? t) && (t <=? 65528 * sec) && (t mod (8 * sec) =? 0)
  | OOther _ => false
  end.

Definition wire_okb_upto (limit : N) (r : ra) : bool :=
  (ra_hop r <? 256)%N
  && (0 <=? ra_lifetime r) && (ra_lifetime r <? two16 * sec)
  && (0 <=? ra_reachable r) && (ra_reachable r <? two32 * ms)
  && (0 <=? ra_retrans r) && (ra_retrans r <? two32 * ms)
  && forallb (opt_ok limit) (ra_opts r).
Definition wire_okb : ra -> bool := wire_okb_upto 2040.
Definition wire_ok (r : ra) : Prop := wire_okb r = true.

(* ---- the complement of the two known-finding classes *)
(* class 1: a second-granular lifetime the float conversion rounds up *)
Definition rounds_up (d : Z) : bool := negb (float_secs d =? d / sec).
Definition opt_lifetimes (o : opt) : list Z :=
  match o with
  | OPrefix _ _ _ v p _ => [v; p]
  | ORoute _ _ t _ => [t]
  | ORDNSS t _ => [t]
  | ODNSSL t _ => [t]
  | _ => []
  end.
Definition ra_rounds_up (r : ra) : bool :=
  rounds_up (ra_lifetime r) || existsb (fun o => existsb rounds_up (opt_lifetimes o)) (ra_opts r).
(* class 2: an option longer than 31 units *)
Definition ra_oversize (r : ra) : bool := existsb (fun o => (248 <? opt_wire_len o)%N) (ra_opts r).
Definition ndp_okb (r : ra) : bool := negb (ra_rounds_up r) && negb (ra_oversize r).
