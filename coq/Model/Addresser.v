(* Model of internal/system/addresser_linux.go: addresser.AddressesByIndex and routesByIndex -- the
   rtnetlink layer below the wildcard plugins (C13 / C14: Prefix.Addrs, RDNSS.Addrs; C15: Route.Routes).

   The answer of the injected `execute` function (rtnetlink request + dump) is an INPUT: the list of
   messages it returned and whether it returned a non-nil error.  Only well-formed messages are modelled
   (AF_INET6 AddressMessage / RouteMessage with a 16-byte, not IPv4-mapped address): for anything else the
   code panics on purpose ("rtnetlink package invariant checks").

       msgs, err := a.execute(...)
       if err != nil || len(msgs) == 0 { return nil, err }
       for _, m := range msgs { ... append(addrs, IP{...}) }
       return addrs, nil

   Flag bits (linux/if_addr.h, the values of golang.org/x/sys/unix): IFA_F_TEMPORARY 0x01,
   IFA_F_DEPRECATED 0x20, IFA_F_TENTATIVE 0x40, IFA_F_MANAGETEMPADDR 0x100, IFA_F_STABLE_PRIVACY 0x800;
   "valid forever" is cacheinfo.valid = 0xffffffff.  No proofs in this file. *)
From CR Require Export Model.Types.
Local Open Scope N_scope.

Definition IFA_F_TEMPORARY : N := 0x01.
Definition IFA_F_DEPRECATED : N := 0x20.
Definition IFA_F_TENTATIVE : N := 0x40.
Definition IFA_F_MANAGETEMPADDR : N := 0x100.
Definition IFA_F_STABLE_PRIVACY : N := 0x800.
Definition valid_forever : N := 0xffffffff.      (* math.MaxUint32 *)

(* one AF_INET6 rtnetlink.AddressMessage: Attributes.Address, PrefixLength, Attributes.Flags,
   Attributes.CacheInfo.Valid *)
Record addrmsg := mkAM { am_addr : N; am_plen : N; am_flags : N; am_valid : N }.

(* f&FLAG != 0 *)
Definition has_flag (f flag : N) : bool := negb (N.land f flag =? 0).

Definition decode_addr (m : addrmsg) : sysip :=
  let f := am_flags m in
  mkIP false (am_addr m) (am_plen m)
       (has_flag f IFA_F_DEPRECATED) (has_flag f IFA_F_MANAGETEMPADDR) (has_flag f IFA_F_STABLE_PRIVACY)
       (has_flag f IFA_F_TEMPORARY) (has_flag f IFA_F_TENTATIVE)
       (am_valid m =? valid_forever).

(* [failed]: execute returned a non-nil error (with or without messages) *)
Definition addresses_by_index (msgs : list addrmsg) (failed : bool) : result (list sysip) :=
  if failed || (match msgs with [] => true | _ => false end)
  then (if failed then Err 1 else Ok [])          (* return nil, err *)
  else Ok (map decode_addr msgs).

(* the source a prepared Prefix / RDNSS plugin reads: p.Addrs = func() { return a.AddressesByIndex(ifi.Index) } *)
Definition addrs_source (msgs : list addrmsg) (failed : bool) : option (list sysip) :=
  match addresses_by_index msgs failed with Ok l => Some l | Err _ => None end.

(* one AF_INET6 rtnetlink.RouteMessage: Attributes.Dst, DstLength, Attributes.OutIface, Attributes.Pref
   (nil: ndp.Medium = 0; otherwise the raw value, the conversion ndp.Preference of the pointed-to value) *)
Record routemsg := mkRM { rm_dst : N; rm_len : N; rm_oif : N; rm_pref : option N }.
Record osroute := mkOR { or_dst : N; or_len : N; or_index : N; or_pref : N }.

Definition decode_route (m : routemsg) : osroute :=
  mkOR (rm_dst m) (rm_len m) (rm_oif m) (match rm_pref m with Some p => p | None => 0 end).

Definition routes_by_index (msgs : list routemsg) (failed : bool) : result (list osroute) :=
  if failed || (match msgs with [] => true | _ => false end)
  then (if failed then Err 1 else Ok [])
  else Ok (map decode_route msgs).
