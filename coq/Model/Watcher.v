(* Model of internal/netstate: Watcher.Subscribe / Watch / notify (watcher.go), the Change bit
   assignments (change.go) and process / operStateChange (watcher_linux.go).

   State: the subscriptions in subscription order -- (interface, mask, FIFO queue, closed flag)
   plus two ghost fields (everything the subscriber has taken out so far, number of close()
   calls on its channel) -- and the single-use guard of Watch.  The Go code keeps the
   subscriptions in map[iface]map[mask][]chan and iterates Go maps, so the order in which one
   change reaches DIFFERENT subscribers is unspecified; every subscriber's own channel is only
   touched by its own (iface, mask) entry, which is what this per-subscription list records.

   Events: Subscribe | WatchStart (the call of Watch up to the hook) | Notify changeset (the hook
   calls notify) | Drain i n (subscriber i does n non-blocking receives) | EndWatch failed (the hook
   returned, with a nil or a non-nil error: Watch's deferred close loop runs in both cases, then
   Watch returns what the hook returned).  [step] returns None where the Go runtime panics
   (send on a closed channel, close of a closed channel).  [notify] never waits: it is a total
   function of the state, which is the model's rendering of "never blocks the watcher".
   No proofs in this file. *)
From Coq Require Import String.
From CR Require Export gen.ExtNetstate.
From Coq Require Export List ZArith NArith Bool.
Export ListNotations.

(* ---- change.go: bit assignments, read from the extracted const block *)
Fixpoint lookupZ (name : string) (tbl : list (string * Z)) : option Z :=
  match tbl with
  | [] => None
  | (k, v) :: r => if String.eqb k name then Some v else lookupZ name r
  end.

Definition change_named (name : string) : N :=
  match lookupZ name change_bits with Some v => Z.to_N v | None => 0%N end.

Definition LinkUp := change_named "LinkUp".
Definition LinkDown := change_named "LinkDown".
Definition LinkTesting := change_named "LinkTesting".
Definition LinkUnknown := change_named "LinkUnknown".
Definition LinkDormant := change_named "LinkDormant".
Definition LinkNotPresent := change_named "LinkNotPresent".
Definition LinkLowerLayerDown := change_named "LinkLowerLayerDown".
Definition LinkAny := change_named "LinkAny".

(* the seven RFC 2863 link states in declaration order *)
Definition link_states : list N :=
  [LinkUp; LinkDown; LinkTesting; LinkUnknown; LinkDormant; LinkNotPresent; LinkLowerLayerDown].

(* ---- watcher_linux.go: operStateChange.  rtnetlink.OperationalState values are the RFC 2863
   IF_OPER_* numbers (rtnetlink/link.go: iota from OperStateUnknown). *)
Definition oper_code (name : string) : option N :=
  if String.eqb name "OperStateUnknown" then Some 0%N
  else if String.eqb name "OperStateNotPresent" then Some 1%N
  else if String.eqb name "OperStateDown" then Some 2%N
  else if String.eqb name "OperStateLowerLayerDown" then Some 3%N
  else if String.eqb name "OperStateTesting" then Some 4%N
  else if String.eqb name "OperStateDormant" then Some 5%N
  else if String.eqb name "OperStateUp" then Some 6%N
  else None.

Fixpoint oper_lookup (code : N) (tbl : list (string * string)) : option N :=
  match tbl with
  | [] => None
  | (o, c) :: r =>
      match oper_code o with
      | Some k => if N.eqb k code then Some (change_named c) else oper_lookup code r
      | None => oper_lookup code r
      end
  end.

(* operStateChange: Some change = (change, true); None = (0, false) *)
Definition oper_state_change (code : N) : option N :=
  match oper_lookup code oper_state_table with
  | Some c => Some c
  | None => if oper_state_default_rejects then None else Some 0%N
  end.

(* process(): link messages -> changeSet.  A message is None (not a LinkMessage, or nil
   Attributes) or Some (interface, operstate).  The changeSet (a Go map) is rendered as an
   association list in order of first appearance. *)
Fixpoint cs_append (iface c : N) (cs : list (N * list N)) : list (N * list N) :=
  match cs with
  | [] => [(iface, [c])]
  | (i, l) :: r => if N.eqb i iface then (i, l ++ [c]) :: r else (i, l) :: cs_append iface c r
  end.

Fixpoint process_from (cs : list (N * list N)) (msgs : list (option (N * N))) : list (N * list N) :=
  match msgs with
  | [] => cs
  | None :: r => process_from cs r
  | Some (iface, oper) :: r =>
      match oper_state_change oper with
      | None => process_from cs r
      | Some c => process_from (cs_append iface c cs) r
      end
  end.

Definition process := process_from [].

(* ---- watcher.go *)
Definition chan_cap : nat := Z.to_nat subscribeChanCap.    (* make(chan Change, 8) *)

Record sub := mkSub {
  s_iface : N; s_mask : N;
  s_queue : list N;          (* buffered, not yet received; head = oldest *)
  s_closed : bool;
  s_drained : list N;        (* ghost: everything received so far, oldest first *)
  s_closes : nat }.          (* ghost: number of close() calls on the channel *)

Record state := mkSt { subs : list sub; watching : bool; ended : bool }.

Definition init : state := mkSt [] false false.

Inductive event :=
| Subscribe (iface mask : N)
| WatchStart
| Notify (changed : list (N * list N))
| Drain (i n : nat)
| EndWatch (failed : bool).                (* the watch function returned: nil / an error *)

Inductive out :=
| OWatch (panicked : bool)                 (* Watch called: "multiple calls" panic or not *)
| ODrain (vals : list N) (closed_seen : bool)
| OEnd (err : bool).                       (* the running Watch call returned: nil / the hook's error *)

(* k&change != 0 for the entry this subscription lives in *)
Definition wants (s : sub) (iface c : N) : bool :=
  N.eqb (s_iface s) iface && negb (N.eqb (N.land (s_mask s) c) 0).

(* select { case ch <- change: default: } *)
Definition offer (iface c : N) (s : sub) : option sub :=
  if wants s iface c then
    if s_closed s then None                                  (* send on closed channel *)
    else if Nat.ltb (length (s_queue s)) chan_cap
      then Some (mkSub (s_iface s) (s_mask s) (s_queue s ++ [c]) false (s_drained s) (s_closes s))
      else Some s                                            (* full: dropped *)
  else Some s.

Fixpoint map_opt {A B} (f : A -> option B) (l : list A) : option (list B) :=
  match l with
  | [] => Some []
  | a :: r =>
      match f a with
      | None => None
      | Some b => match map_opt f r with None => None | Some r' => Some (b :: r') end
      end
  end.

(* for _, change := range changes { for k, v := range interest { ... } } *)
Fixpoint notify_changes (iface : N) (changes : list N) (ss : list sub) : option (list sub) :=
  match changes with
  | [] => Some ss
  | c :: r =>
      match map_opt (offer iface c) ss with
      | None => None
      | Some ss' => notify_changes iface r ss'
      end
  end.

(* for iface, changes := range changed *)
Fixpoint notify (changed : list (N * list N)) (ss : list sub) : option (list sub) :=
  match changed with
  | [] => Some ss
  | (iface, changes) :: r =>
      match notify_changes iface changes ss with
      | None => None
      | Some ss' => notify r ss'
      end
  end.

Definition close_sub (s : sub) : option sub :=
  if s_closed s then None                                     (* close of closed channel *)
  else Some (mkSub (s_iface s) (s_mask s) (s_queue s) true (s_drained s) (S (s_closes s))).

Fixpoint upd_nth {A} (i : nat) (f : A -> A) (l : list A) : list A :=
  match l, i with
  | [], _ => []
  | a :: r, O => f a :: r
  | a :: r, S j => a :: upd_nth j f r
  end.

(* n non-blocking receives: values first; a closed and empty channel yields (zero, !ok) *)
Definition drain_sub (n : nat) (s : sub) : sub :=
  mkSub (s_iface s) (s_mask s) (skipn n (s_queue s)) (s_closed s)
        (s_drained s ++ firstn n (s_queue s)) (s_closes s).

Definition drain_out (n : nat) (s : sub) : out :=
  ODrain (firstn n (s_queue s)) (Nat.ltb (length (s_queue s)) n && s_closed s).

Definition step (st : state) (e : event) : option (state * list out) :=
  match e with
  | Subscribe iface mask =>
      Some (mkSt (subs st ++ [mkSub iface mask [] false [] 0]) (watching st) (ended st), [])
  | WatchStart =>
      if watching st then Some (st, [OWatch true])            (* panic in the caller; no state change *)
      else Some (mkSt (subs st) true (ended st), [OWatch false])
  | Notify changed =>
      match notify changed (subs st) with
      | None => None
      | Some ss => Some (mkSt ss (watching st) (ended st), [])
      end
  | Drain i n =>
      match nth_error (subs st) i with
      | None => Some (st, [])
      | Some s => Some (mkSt (upd_nth i (drain_sub n) (subs st)) (watching st) (ended st), [drain_out n s])
      end
  | EndWatch failed =>
      (* the deferred function of the one successful Watch call: enabled once; it runs whatever
         the watch function returned, and Watch then returns that value *)
      if watching st && negb (ended st) then
        match map_opt close_sub (subs st) with
        | None => None
        | Some ss => Some (mkSt ss true true, [OEnd failed])
        end
      else Some (st, [])
  end.

(* outputs up to a panic, and the final state (None = panicked) *)
Fixpoint run (st : state) (evs : list event) : list out * option state :=
  match evs with
  | [] => ([], Some st)
  | e :: r =>
      match step st e with
      | None => ([], None)
      | Some (st', o) => let (os, fin) := run st' r in (o ++ os, fin)
      end
  end.

(* what a subscriber has received or can still receive *)
Definition received (s : sub) : list N := s_drained s ++ s_queue s.

(* Traces the API can produce: notify is only ever called by the watch hook, i.e. between the
   start of the one successful Watch and its end; EndWatch happens at most once, after it. *)
Fixpoint valid_from (w e : bool) (evs : list event) : bool :=
  match evs with
  | [] => true
  | Subscribe _ _ :: r => valid_from w e r
  | Drain _ _ :: r => valid_from w e r
  | WatchStart :: r => valid_from true e r
  | Notify _ :: r => w && negb e && valid_from w e r
  | EndWatch _ :: r => w && negb e && valid_from w true r
  end.
Definition valid (evs : list event) : bool := valid_from false false evs.
