(* The bookkeeping of send workers (internal/corerad/advertise.go, type workers) as a transition system.
   Any number of timer callbacks run beside the scheduler; what matters of them is how many are between the test
   of `stopped` and the count (only possible when start() is not atomic), and how many have started and not yet
   finished.  The scheduler calls stop() once: it sets `stopped`, then waits for the count to be zero, then
   returns (after which the final RA may be sent and Run may return: C08, C10).

   [atomic] is extracted from the source (gen/ExtWorkers.v): start() holds w.mu across the test and the count, and
   stop() sets the flag under the same lock before it waits. *)
From Coq Require Export List Bool Arith Lia.
Export ListNotations.

Inductive wlabel :=
| WStart      (* atomic start(): stopped is false, the worker is counted *)
| WRefuse     (* start() sees stopped and transmits nothing *)
| WCheck      (* non-atomic start(), first half: stopped read as false *)
| WAdd        (* non-atomic start(), second half: the worker is counted *)
| WDone       (* a counted worker finishes its transmission *)
| WSet        (* stop(): stopped := true *)
| WWait.      (* stop(): the count is zero, Wait returns, stop returns *)

Record wstate := mkW { stopped : bool; checked : nat; started : nat; phase : nat }.
(* phase: 0 = stop() not called, 1 = flag set, waiting, 2 = stop() has returned *)

Definition winit : wstate := mkW false 0 0 0.

Definition wstep (atomic : bool) (s : wstate) (l : wlabel) : option wstate :=
  match l with
  | WStart => if atomic && negb (stopped s) then Some (mkW (stopped s) (checked s) (S (started s)) (phase s)) else None
  | WRefuse => if stopped s then Some s else None
  | WCheck => if negb atomic && negb (stopped s) then Some (mkW (stopped s) (S (checked s)) (started s) (phase s)) else None
  | WAdd => match checked s with
            | S c => if negb atomic then Some (mkW (stopped s) c (S (started s)) (phase s)) else None
            | O => None
            end
  | WDone => match started s with
             | S n => Some (mkW (stopped s) (checked s) n (phase s))
             | O => None
             end
  | WSet => if phase s =? 0 then Some (mkW true (checked s) (started s) 1) else None
  | WWait => if (phase s =? 1) && (started s =? 0) then Some (mkW (stopped s) (checked s) (started s) 2) else None
  end.

Fixpoint wrun (atomic : bool) (s : wstate) (ls : list wlabel) : option wstate :=
  match ls with
  | [] => Some s
  | l :: ls' => match wstep atomic s l with
                | Some s' => wrun atomic s' ls'
                | None => None
                end
  end.
