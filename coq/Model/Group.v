(* Labelled transition system of the advertiser's goroutine group (Advertiser.advertise,
   internal/corerad/advertise.go + listener.Listen): the scheduler S, the multicast loop M, the
   listener L with its interrupt goroutine I, the link watcher W and the send workers, interleaved
   at their blocking points.  The scheduler of the Go runtime is the nondeterminism of [steps].
   The guards that depend on how the code is written are parameters ([guards]); their actual
   values are extracted from the source on every run (gen/ExtGroup.v). *)
From CR Require Export Model.Types.
From CR Require Import gen.ExtAdvertise gen.ExtGroup.
From Coq Require Import Arith.
Local Open Scope nat_scope.

Record guards := mkG {
  g_lsend : bool;    (* listener callback: `ipC <- ip` is a select case next to <-ctx.Done() *)
  g_msend : bool;    (* multicast loop: likewise *)
  g_werr : bool;     (* worker: `errC <- err` is a select case next to <-ctx.Done() *)
  g_swait : bool;    (* scheduler waits for in-flight workers (ws.stop) before returning *)
  g_lcancel : bool;  (* Listen's deferred function cancels before it waits for the interrupt goroutine *)
  g_cfirst : bool    (* the scheduler's error branch calls cancel() before ws.stop() *)
}.
Definition extracted : guards :=
  mkG listener_send_guarded multicast_send_guarded worker_err_guarded sched_waits_workers listen_cancel_before_wait
      sched_cancels_before_stop.

Definition cap : nat := Z.to_nat requestChanCap.

Inductive sloc := Ssel | Sstop (err : bool) | Sdone.
Inductive mloc := Msend | Mwait | Mdone.
Inductive lloc := Lcheck | Lread | Lsend | Lexit1 (err : bool) | Lexit2 (err : bool) | Ldone.
Inductive iloc := Iwait | Idone.
Inductive wloc := Wsel | Wdone.

Record st := mkSt {
  gc : bool;            (* the errgroup's context is cancelled *)
  scancel : bool;       (* the scheduler cancelled its own derived context *)
  lcancel : bool;       (* Listen cancelled its own derived context *)
  dl : bool;            (* the read deadline has been set to the past *)
  q : nat;              (* requests buffered in ipC *)
  pending : nat;        (* timers scheduled, not yet fired *)
  kw : nat;             (* workers inside WriteTo *)
  ke : nat;             (* workers whose WriteTo failed, about to report on errC *)
  stopped : bool;       (* workers.stopped *)
  gerr : bool;          (* the group has recorded an error *)
  S : sloc; M : mloc; L : lloc; I : iloc; W : wloc }.

Definition init : st :=
  mkSt false false false false 0 0 0 0 false false Ssel Msend Lcheck Iwait Wsel.

Definition sctx (s : st) : bool := gc s || scancel s.
Definition lctx (s : st) : bool := gc s || lcancel s.

Definition set_S (s : st) (x : sloc) := mkSt (gc s) (scancel s) (lcancel s) (dl s) (q s) (pending s) (kw s) (ke s) (stopped s) (gerr s) x (M s) (L s) (I s) (W s).
Definition set_M (s : st) (x : mloc) := mkSt (gc s) (scancel s) (lcancel s) (dl s) (q s) (pending s) (kw s) (ke s) (stopped s) (gerr s) (S s) x (L s) (I s) (W s).
Definition set_L (s : st) (x : lloc) := mkSt (gc s) (scancel s) (lcancel s) (dl s) (q s) (pending s) (kw s) (ke s) (stopped s) (gerr s) (S s) (M s) x (I s) (W s).
Definition set_I (s : st) (x : iloc) := mkSt (gc s) (scancel s) (lcancel s) (dl s) (q s) (pending s) (kw s) (ke s) (stopped s) (gerr s) (S s) (M s) (L s) x (W s).
Definition set_W (s : st) (x : wloc) := mkSt (gc s) (scancel s) (lcancel s) (dl s) (q s) (pending s) (kw s) (ke s) (stopped s) (gerr s) (S s) (M s) (L s) (I s) x.
Definition set_q (s : st) (n : nat) := mkSt (gc s) (scancel s) (lcancel s) (dl s) n (pending s) (kw s) (ke s) (stopped s) (gerr s) (S s) (M s) (L s) (I s) (W s).
Definition set_pending (s : st) (n : nat) := mkSt (gc s) (scancel s) (lcancel s) (dl s) (q s) n (kw s) (ke s) (stopped s) (gerr s) (S s) (M s) (L s) (I s) (W s).
Definition set_kw (s : st) (n : nat) := mkSt (gc s) (scancel s) (lcancel s) (dl s) (q s) (pending s) n (ke s) (stopped s) (gerr s) (S s) (M s) (L s) (I s) (W s).
Definition set_ke (s : st) (n : nat) := mkSt (gc s) (scancel s) (lcancel s) (dl s) (q s) (pending s) (kw s) n (stopped s) (gerr s) (S s) (M s) (L s) (I s) (W s).
Definition set_fail (s : st) := mkSt true (scancel s) (lcancel s) (dl s) (q s) (pending s) (kw s) (ke s) (stopped s) true (S s) (M s) (L s) (I s) (W s).
Definition set_scancel (s : st) := mkSt (gc s) true (lcancel s) (dl s) (q s) (pending s) (kw s) (ke s) (stopped s) (gerr s) (S s) (M s) (L s) (I s) (W s).
Definition set_lcancel (s : st) := mkSt (gc s) (scancel s) true (dl s) (q s) (pending s) (kw s) (ke s) (stopped s) (gerr s) (S s) (M s) (L s) (I s) (W s).
Definition set_dl (s : st) := mkSt (gc s) (scancel s) (lcancel s) true (q s) (pending s) (kw s) (ke s) (stopped s) (gerr s) (S s) (M s) (L s) (I s) (W s).
Definition set_stopped (s : st) := mkSt (gc s) (scancel s) (lcancel s) (dl s) (q s) (pending s) (kw s) (ke s) true (gerr s) (S s) (M s) (L s) (I s) (W s).

Definition when (b : bool) (l : list st) : list st := if b then l else [].

(* scheduler *)
Definition steps_S (g : guards) (s : st) : list st :=
  match S s with
  | Ssel =>
      when (0 <? q s) [set_pending (set_q s (q s - 1)) (pending s + 1)]        (* ip = <-ipC; schedule a timer *)
      ++ when (sctx s) [set_stopped (set_S s (Sstop false))]                    (* <-ctx.Done(): ws.stop() *)
      ++ when (0 <? ke s)                                                       (* err = <-errC: cancel(); ws.stop() *)
           [if g_cfirst g then set_stopped (set_scancel (set_S (set_ke s (ke s - 1)) (Sstop true)))
            else set_stopped (set_S (set_ke s (ke s - 1)) (Sstop true))]
  | Sstop e =>
      (* ws.stop() returns when no worker is in flight (if the scheduler waits at all) *)
      when (negb (g_swait g) || ((kw s =? 0) && (ke s =? 0)))
        [if e then set_fail (set_scancel (set_S s Sdone)) else set_scancel (set_S s Sdone)]   (* deferred cancel() *)
  | Sdone => []
  end.

(* timers and send workers *)
Definition steps_K (g : guards) (s : st) : list st :=
  when (0 <? pending s)
    [if stopped s then set_pending s (pending s - 1)                            (* ws.start() refuses *)
     else set_kw (set_pending s (pending s - 1)) (kw s + 1)]                    (* WriteTo begins *)
  ++ when (0 <? kw s) [set_kw s (kw s - 1)]                                     (* WriteTo returned nil *)
  ++ when ((0 <? ke s) && sctx s && g_werr g) [set_ke s (ke s - 1)].            (* <-ctx.Done() instead of errC <- err *)

(* multicast loop *)
Definition steps_M (g : guards) (s : st) : list st :=
  match M s with
  | Msend => when (q s <? cap) [set_M (set_q s (q s + 1)) Mwait]
             ++ when (gc s && g_msend g) [set_M s Mdone]
  | Mwait => when (gc s) [set_M s Mdone]                                        (* <-ctx.Done(), or the timer and then the loop's ctx check *)
  | Mdone => []
  end.

(* listener and its interrupt goroutine *)
Definition steps_L (g : guards) (s : st) : list st :=
  match L s with
  | Lcheck => if lctx s then [set_L s (Lexit1 false)] else [set_L s Lread]      (* ctx.Err() at the top of receiveRetry *)
  | Lread => when (dl s) [set_L s (Lexit1 false)]                               (* deadline: timeout, ctx.Err() != nil *)
  | Lsend => when (q s <? cap) [set_L (set_q s (q s + 1)) Lcheck]
             ++ when (gc s && g_lsend g) [set_L s Lcheck]
  | Lexit1 e => [if g_lcancel g then set_lcancel (set_L s (Lexit2 e)) else set_L s (Lexit2 e)]
  | Lexit2 e => match I s with
                | Idone => [if e then set_fail (set_L s Ldone) else set_L s Ldone]
                | Iwait => []
                end
  | Ldone => []
  end.
Definition steps_I (s : st) : list st :=
  match I s with Iwait => when (lctx s) [set_dl (set_I s Idone)] | Idone => [] end.

(* link-state watcher *)
Definition steps_W (s : st) : list st :=
  match W s with
  | Wsel => when (gc s) [set_W s Wdone]
  | Wdone => []
  end.

(* internal steps: what the goroutines can do by themselves (a WriteTo in progress returns) *)
Definition internal (g : guards) (s : st) : list st :=
  steps_S g s ++ steps_K g s ++ steps_M g s ++ steps_L g s ++ steps_I s ++ steps_W s.

(* environment steps: arrivals, failures, link events, the periodic timer *)
Definition env (s : st) : list st :=
  when (0 <? kw s) [set_ke (set_kw s (kw s - 1)) (ke s + 1)]                    (* a WriteTo fails *)
  ++ match L s with
     | Lread => [set_L s Lsend;                                                 (* a solicitation arrives *)
                 set_L s (Lexit1 true)]                                         (* ReadFrom fails / retries exhausted *)
     | _ => [] end
  ++ match W s with Wsel => [set_fail (set_W s Wdone)] | _ => [] end            (* a link event: ErrLinkChange *)
  ++ match M s with Mwait => when (negb (gc s)) [set_M s Msend] | _ => [] end.  (* the interval timer fires *)

Definition steps (g : guards) (s : st) : list st := internal g s ++ env s.

(* the errgroup's Wait returns: every member has returned *)
Definition all_done (s : st) : bool :=
  match S s, M s, L s, W s with Sdone, Mdone, Ldone, Wdone => true | _, _, _, _ => false end.

Fixpoint run_path (g : guards) (s : st) (choices : list nat) : option st :=
  match choices with
  | [] => Some s
  | c :: cs => match nth_error (steps g s) c with Some s' => run_path g s' cs | None => None end
  end.
