(* C02 -- executable model of the configuration parser on *lexed atoms* (DESIGN 4.2).

   internal/config/config.go     Parse, parseDuration (with the range check of fix cc835fa)
   internal/config/interface.go  parseInterfaces, parseInterface, parseMinInterval,
                                 parseDefaultLifetime, parsePreference
   internal/config/plugin.go     parsePlugins, parsePrefix, parseRoute, parseRDNSS, parseDNSSL,
                                 parseIPPrefix, parsePREF64Prefix (fix 9bc4403)
   internal/plugin/plugin.go     NewPREF64 (fix 00ed34c)

   The Go driver lexes every string with the stdlib function the code itself calls
   (time.ParseDuration, netip.ParsePrefix, netip.ParseAddr, net.ResolveTCPAddr,
   ndp.NewCaptivePortal) and hands over the atoms below; the model applies the code's own case
   logic, in the code's order of checks.  TOML decoding (go-toml, strict) is outside the model.
   Error codes only name the failing check; they are not part of the tie.

   Definitions only -- no proofs in this file. *)
From CR Require Export Model.Types.
From CR Require Export Base.IP.
Local Open Scope Z_scope.

(* ---------------------------------------------------------------- lexed atoms *)

(* a duration-valued key.  DAbsent: key not in the document (nil *string, or "" for the plain
   string keys -- the model treats DAbsent and DEmpty alike there); DEmpty: "";
   DAuto: "auto"; DInfinite: "infinite"; DDur d: time.ParseDuration succeeded with d ns;
   DJunk: time.ParseDuration failed (syntax or int64 overflow). *)
Inductive dtext := DAbsent | DEmpty | DAuto | DInfinite | DDur (d : Z) | DJunk.

(* a CIDR-valued key, lexed with netip.ParsePrefix.  IPv4: addr is the 32-bit value. *)
Inductive ctext := CAbsent | CEmpty | CJunk | CPfx (v4 : bool) (addr bits : N).

(* an RDNSS server, lexed with netip.ParseAddr.  zone = 0: no zone; otherwise (has a zone) the
   rank of the zone string among the zone strings of the document.  Since fix f20e750 a zoned
   server is rejected, so only "zone <> 0" matters. *)
Inductive atext := AJunk | AAddr (v4 : bool) (addr zone : N).

(* a preference key: "" (or absent), "low", "medium", "high", anything else *)
Inductive prtext := PrEmpty | PrLow | PrMedium | PrHigh | PrJunk.

(* captive_portal: "" (or absent); ndp.NewCaptivePortal failed (longer than 255 bytes, url.Parse
   error, IP literal in the path); succeeded with the normalized URI, interned -- 0 = the
   normalized URI is the empty string ("#", "//") *)
Inductive utext := UEmpty | UBad | UOk (uri : N).

Record raw_prefix := mkRP {
  rp_prefix : ctext; rp_on_link : option bool; rp_autonomous : option bool;
  rp_valid : dtext; rp_preferred : dtext; rp_deprecated : bool }.
Record raw_route := mkRR {
  rr_prefix : ctext; rr_pref : prtext; rr_lifetime : dtext; rr_deprecated : bool }.
Record raw_rdnss := mkRD { rd_lifetime : dtext; rd_servers : list atext }.
Record raw_dnssl := mkRN { rn_lifetime : dtext; rn_names : list N }.
Record raw_pref64 := mkR6 { r6_prefix : ctext }.

(* one [[interfaces]] stanza.  Interface / domain names are interned; 0 = the empty string. *)
Record raw_iface := mkRI {
  ri_name : N; ri_names : list N;
  ri_monitor : bool; ri_advertise : bool; ri_verbose : bool;
  ri_max : dtext; ri_min : dtext; ri_managed : bool; ri_other : bool;
  ri_reachable : dtext; ri_retrans : dtext; ri_hop : option Z; ri_lifetime : dtext;
  ri_unicast_only : bool; ri_pref : prtext;
  ri_prefixes : list raw_prefix; ri_routes : list raw_route; ri_rdnss : list raw_rdnss;
  ri_dnssl : list raw_dnssl; ri_pref64 : list raw_pref64;
  ri_mtu : Z; ri_source_lla : option bool; ri_captive : utext }.

(* [debug]: address interned (0 = ""), whether net.ResolveTCPAddr("tcp", address) succeeded *)
Record raw_debug := mkRDbg {
  rdbg_address : N; rdbg_resolves : bool; rdbg_prometheus : bool; rdbg_pprof : bool }.
Record raw_config := mkRC { rc_ifaces : list raw_iface; rc_debug : raw_debug }.

(* config.Debug as stored in the Config *)
Record debug := mkDbg { dbg_address : N; dbg_prometheus : bool; dbg_pprof : bool }.
Definition config := (list iface * debug)%type.

(* ---------------------------------------------------------------- result monad *)

Definition bind {A B} (r : result A) (f : A -> result B) : result B :=
  match r with Ok a => f a | Err e => Err e end.
Notation "'do' x <- r ;; k" := (bind r (fun x => k))
  (at level 200, x pattern, r at level 100, k at level 200, right associativity).
(* Go: if cond { return error e } *)
Definition reject_if (cond : bool) (e : N) : result unit := if cond then Err e else Ok tt.
Fixpoint mapM {A B} (f : A -> result B) (l : list A) : result (list B) :=
  match l with
  | [] => Ok []
  | x :: t => do y <- f x;; do ys <- mapM f t;; Ok (y :: ys)
  end.

(* ---------------------------------------------------------------- durations *)

(* time.Duration.Truncate(time.Second): d - d % second (Go's % truncates toward zero) *)
Definition truncate_s (d : Z) : Z := d - Z.rem d sec.
(* time.Duration(0.33 * float64(max)) and time.Duration(0.75 * float64(max)): exact rational
   floors on ns (DESIGN 4.2; validated by the correspondence on all whole seconds + random ns) *)
Definition mul_033 (mx : Z) : Z := 33 * mx / 100.
Definition mul_075 (mx : Z) : Z := 3 * mx / 4.

(* config.go parseDuration *)
Definition parse_duration (t : dtext) (def : Z) : result Z :=
  match t with
  | DAbsent => Ok def
  | DInfinite => Ok infinity
  | DAuto => Ok def
  | DEmpty => Ok 0
  | DJunk => Err 10
  | DDur d => if (d <? 0) || (infinity <? d) then Err 11 else Ok d
  end.

(* the plain `string` duration keys: "" -> default, otherwise time.ParseDuration *)
Definition parse_plain_duration (t : dtext) (def : Z) (e : N) : result Z :=
  match t with
  | DAbsent | DEmpty => Ok def
  | DDur d => Ok d
  | DAuto | DInfinite | DJunk => Err e
  end.

(* interface.go parseMinInterval *)
Definition parse_min_interval (t : dtext) (mx : Z) : result Z :=
  match t with
  | DAbsent | DEmpty | DAuto =>
      if 9 * sec <=? mx then Ok (truncate_s (mul_033 mx)) else Ok mx
  | DDur mn =>
      let upper := truncate_s (mul_075 mx) in
      if (mn <? 3 * sec) || (upper <? mn) then Err 41 else Ok mn
  | DInfinite | DJunk => Err 40
  end.

(* interface.go parseDefaultLifetime *)
Definition parse_default_lifetime (t : dtext) (mx : Z) : result Z :=
  do lt <- parse_duration t (3 * mx);;
  if negb (lt =? 0) && ((lt <? mx) || (9000 * sec <? lt)) then Err 45 else Ok lt.

(* interface.go parsePreference *)
Definition parse_preference (t : prtext) : result pref :=
  match t with
  | PrEmpty | PrMedium => Ok Medium
  | PrLow => Ok Low
  | PrHigh => Ok High
  | PrJunk => Err 50
  end.

(* ---------------------------------------------------------------- CIDR prefixes *)

(* netip.Prefix.Masked for an address family of [w] bits *)
Definition mask_w (w a bits : N) : N :=
  let sh := (w - bits)%N in N.shiftl (N.shiftr a sh) sh.
(* netip.Addr.Is4In6: ::ffff:0:0/96 *)
Definition is_4in6 (a : N) : bool := N.eqb (N.shiftr a 32) 65535.

(* plugin.go parseIPPrefix; None = the valid zero Prefix (empty string) *)
Definition parse_ip_prefix (c : ctext) : result (option (N * N)) :=
  match c with
  | CAbsent | CEmpty => Ok None
  | CJunk => Err 20
  | CPfx v4 a b =>
      if negb (N.eqb (mask_w (if v4 then 32 else 128)%N a b) a) then Err 21
      else if v4 || is_4in6 a then Err 22
      else Ok (Some (a, b))
  end.

(* plugin.go parsePrefix *)
Definition parse_prefix (p : raw_prefix) : result plugin :=
  do o <- parse_ip_prefix (rp_prefix p);;
  let '(a, b) := match o with Some ab => ab | None => (0%N, 64%N) end in     (* autoPrefix *)
  do _ <- reject_if (N.eqb b 128) 30;;                                        (* IsSingleIP *)
  do _ <- reject_if (is_unspecified a && negb (N.eqb b 64)) 31;;
  do valid <- parse_duration (rp_valid p) (24 * hour);;
  do _ <- reject_if (valid =? 0) 32;;
  do preferred <- parse_duration (rp_preferred p) (4 * hour);;
  do _ <- reject_if (preferred =? 0) 33;;
  do _ <- reject_if (valid <? preferred) 34;;
  do _ <- reject_if (rp_deprecated p && ((preferred =? infinity) || (valid =? infinity))) 35;;
  let on_link := match rp_on_link p with Some v => v | None => true end in
  let auto := match rp_autonomous p with Some v => v | None => true end in
  Ok (PPrefix (N.eqb a 0 && N.eqb b 64) a b on_link auto valid preferred (rp_deprecated p)).

(* plugin.go parseRoute *)
Definition parse_route (r : raw_route) : result plugin :=
  do o <- parse_ip_prefix (rr_prefix r);;
  let '(a, b) := match o with Some ab => ab | None => (0%N, 0%N) end in      (* autoRoute *)
  do _ <- reject_if (is_unspecified a && negb (N.eqb b 0)) 36;;
  do prf <- parse_preference (rr_pref r);;
  do lt <- parse_duration (rr_lifetime r) (24 * hour);;
  do _ <- reject_if (lt =? 0) 37;;
  do _ <- reject_if (rr_deprecated r && (lt =? infinity)) 38;;
  Ok (PRoute (N.eqb a 0 && N.eqb b 0) a b prf lt (rr_deprecated r)).

(* the two "must not overlap" loops of parsePlugins: the outer loop takes every element x, the
   inner loop every element at a *different position* (the code compares pointers), i.e. the
   elements before and after x; [skip] is the auto-route exemption *)
Definition overlap_chk (skip : N * N -> bool) (p1 p2 : N * N) : bool :=
  negb (skip p1) && negb (skip p2) && overlaps (fst p1) (snd p1) (fst p2) (snd p2).
Fixpoint overlap_from (skip : N * N -> bool) (before l : list (N * N)) : bool :=
  match l with
  | [] => false
  | x :: t => existsb (overlap_chk skip x) (before ++ t) || overlap_from skip (before ++ [x]) t
  end.
Definition overlap_found (skip : N * N -> bool) (l : list (N * N)) : bool := overlap_from skip [] l.
Definition plugin_prefix (p : plugin) : N * N :=
  match p with
  | PPrefix _ a b _ _ _ _ _ => (a, b)
  | PRoute _ a b _ _ _ => (a, b)
  | _ => (0%N, 0%N)
  end.
Definition is_auto_route (p : N * N) : bool := N.eqb (fst p) 0 && N.eqb (snd p) 0.

(* ---------------------------------------------------------------- RDNSS / DNSSL *)

(* a server address with its zone rank; Addr.Compare on IPv6: address first, then zone *)
Definition skey := (N * N)%type.
Definition skey_eqb (x y : skey) : bool := N.eqb (fst x) (fst y) && N.eqb (snd x) (snd y).
Definition skey_leb (x y : skey) : bool :=
  N.ltb (fst x) (fst y) || (N.eqb (fst x) (fst y) && N.leb (snd x) (snd y)).
Fixpoint sk_insert (x : skey) (l : list skey) : list skey :=
  match l with
  | [] => [x]
  | y :: t => if skey_leb x y then x :: l else y :: sk_insert x t
  end.
(* slices.SortStableFunc on a set (all elements distinct): the sorted permutation *)
Definition sk_sort (l : list skey) : list skey := fold_right sk_insert [] l.
(* how a server is written into plugin.RDNSS.Servers : list N -- a zoned address is its
   128-bit value plus zone * 2^128, so that un-zoned addresses are plain 128-bit numbers *)
Definition skey_enc (x : skey) : N := (fst x + snd x * two128)%N.

(* the loop of parseRDNSS over d.Servers: (auto, set of servers in insertion order) *)
Fixpoint rdnss_servers (l : list atext) (auto : bool) (set : list skey) : result (bool * list skey) :=
  match l with
  | [] => Ok (auto, set)
  | AJunk :: _ => Err 60
  | AAddr v4 a z :: t =>
      if v4 || is_4in6 a then Err 61                      (* !ip.Is6() || ip.Is4In6() *)
      else if N.ltb 0 z then Err 66                       (* ip.Zone() != "" (fix f20e750) *)
      else if N.eqb a 0 && N.eqb z 0 then                 (* ip.IsUnspecified() *)
        if auto then Err 62 else rdnss_servers t true set
      else if existsb (skey_eqb (a, z)) set then Err 63
      else rdnss_servers t auto (set ++ [(a, z)])
  end.

(* plugin.go parseRDNSS *)
Definition parse_rdnss (mx : Z) (d : raw_rdnss) : result plugin :=
  do lt <- parse_duration (rd_lifetime d) (3 * mx);;
  match rd_servers d with
  | [] => Ok (PRDNSS true lt [])
  | _ =>
      do r <- rdnss_servers (rd_servers d) false [];;
      Ok (PRDNSS (fst r) lt (map skey_enc (sk_sort (snd r))))
  end.

Fixpoint has_dup (l : list N) (seen : list N) : bool :=
  match l with
  | [] => false
  | x :: t => if existsb (N.eqb x) seen then true else has_dup t (x :: seen)
  end.

(* plugin.go parseDNSSL *)
Definition parse_dnssl (mx : Z) (d : raw_dnssl) : result plugin :=
  do lt <- parse_duration (rn_lifetime d) (3 * mx);;
  do _ <- reject_if (match rn_names d with [] => true | _ => false end) 64;;
  do _ <- reject_if (has_dup (rn_names d) []) 65;;
  Ok (PDNSSL lt (rn_names d)).

(* ---------------------------------------------------------------- PREF64 *)

(* defaultPREF64Prefix = "64:ff9b::/96" *)
Definition default_pref64 : N * N := (N.shiftl 6619035 96, 96%N).       (* 0x0064ff9b << 96 *)
Definition pref64_len_ok (b : N) : bool :=
  N.eqb b 96 || N.eqb b 64 || N.eqb b 56 || N.eqb b 48 || N.eqb b 40 || N.eqb b 32.
Definition max_pref64_lifetime : Z := 8191 * 8 * sec.
(* plugin.NewPREF64 (Go's / truncates; operands are positive here) *)
Definition new_pref64_lifetime (mx : Z) : Z :=
  let scaled := 3 * mx in
  if scaled <? max_pref64_lifetime
  then Z.quot (scaled + 8 * sec - 1) (8 * sec) * (8 * sec)
  else max_pref64_lifetime.

Definition parse_pref64 (mx : Z) (p : raw_pref64) : result plugin :=
  do o <- match r6_prefix p with
          | CAbsent | CEmpty => Ok (Some default_pref64)     (* parseIPPrefix(defaultPREF64Prefix) *)
          | c => parse_ip_prefix c
          end;;
  match o with
  | None => Err 70          (* unreachable: the string handed to parseIPPrefix is never empty *)
  | Some (a, b) => if pref64_len_ok b then Ok (PPref64 false a b (new_pref64_lifetime mx)) else Err 71
  end.

(* ---------------------------------------------------------------- parsePlugins *)

Definition parse_plugins (ifi : raw_iface) (mx : Z) : result (list plugin) :=
  do prefixes <- mapM parse_prefix (ri_prefixes ifi);;
  do _ <- reject_if (overlap_found (fun _ => false) (map plugin_prefix prefixes)) 80;;
  do routes <- mapM parse_route (ri_routes ifi);;
  do _ <- reject_if (overlap_found is_auto_route (map plugin_prefix routes)) 81;;
  do rdnss <- mapM (parse_rdnss mx) (ri_rdnss ifi);;
  do dnssl <- mapM (parse_dnssl mx) (ri_dnssl ifi);;
  do _ <- reject_if ((ri_mtu ifi <? 0) || (65536 <? ri_mtu ifi)) 82;;
  let mtu := if ri_mtu ifi =? 0 then [] else [PMTU (ri_mtu ifi)] in
  let lla := match ri_source_lla ifi with Some false => [] | _ => [PLLA] end in
  do cp <- match ri_captive ifi with
           | UEmpty => Ok []
           | UBad => Err 83
           | UOk u => if N.eqb u 0 then Err 84 else Ok [PCaptive u]   (* plugin.NewCaptivePortal, fix a58a290 *)
           end;;
  do p64 <- mapM (parse_pref64 mx) (ri_pref64 ifi);;
  Ok (prefixes ++ routes ++ rdnss ++ dnssl ++ mtu ++ lla ++ cp ++ p64).

(* ---------------------------------------------------------------- interfaces *)

(* the zero Interface apart from the three fields set for monitor mode (ndp.Medium = 0) *)
Definition monitor_iface (name : N) (verbose : bool) : iface :=
  mkIface name true false verbose 0 0 false false 0 0 0%N 0 false Medium [].

(* interface.go parseInterface *)
Definition parse_interface (ifi : raw_iface) (name : N) : result iface :=
  do _ <- reject_if (ri_monitor ifi && ri_advertise ifi) 90;;
  if ri_monitor ifi then Ok (monitor_iface name (ri_verbose ifi)) else
  do mx <- parse_plain_duration (ri_max ifi) (600 * sec) 91;;
  do _ <- reject_if ((mx <? 4 * sec) || (1800 * sec <? mx)) 92;;
  do mn <- parse_min_interval (ri_min ifi) mx;;
  do reach <- parse_plain_duration (ri_reachable ifi) 0 93;;
  do _ <- reject_if ((reach <? 0) || (hour <? reach)) 94;;
  do retr <- parse_plain_duration (ri_retrans ifi) 0 95;;
  do _ <- reject_if ((retr <? 0) || (hour <? retr)) 96;;
  let hop := match ri_hop ifi with Some h => h | None => 64 end in
  do _ <- reject_if ((hop <? 0) || (255 <? hop)) 97;;
  do lt <- parse_default_lifetime (ri_lifetime ifi) mx;;
  do prf <- parse_preference (ri_pref ifi);;
  do plugins <- parse_plugins ifi mx;;
  Ok (mkIface name (ri_monitor ifi) (ri_advertise ifi) (ri_verbose ifi) mn mx
        (ri_managed ifi) (ri_other ifi) reach retr (Z.to_N hop) lt
        (ri_unicast_only ifi) prf plugins).

(* interface.go parseInterfaces *)
Definition parse_interfaces (ifi : raw_iface) : result (list iface) :=
  let has_name := negb (N.eqb (ri_name ifi) 0) in
  let has_names := match ri_names ifi with [] => false | _ => true end in
  match has_name, has_names with
  | true, true => Err 100
  | true, false => mapM (parse_interface ifi) [ri_name ifi]
  | false, true => mapM (parse_interface ifi) (ri_names ifi)
  | false, false => Err 101
  end.

(* the `seen` loop of Parse over one stanza's interfaces *)
Fixpoint add_seen (names : list N) (seen : list N) : result (list N) :=
  match names with
  | [] => Ok seen
  | n :: t => if existsb (N.eqb n) seen then Err 110 else add_seen t (n :: seen)
  end.

Fixpoint parse_stanzas (sts : list raw_iface) (seen : list N) (acc : list iface) : result (list iface) :=
  match sts with
  | [] => Ok acc
  | st :: rest =>
      do ifis <- parse_interfaces st;;
      do seen' <- add_seen (map if_name ifis) seen;;
      parse_stanzas rest seen' (acc ++ ifis)
  end.

(* config.go Parse, after the TOML decoder *)
Definition parse (raw : raw_config) : result config :=
  do _ <- reject_if (match rc_ifaces raw with [] => true | _ => false end) 120;;
  let d := rc_debug raw in
  do dbg <- (if negb (N.eqb (rdbg_address d) 0)
             then if rdbg_resolves d then Ok (mkDbg (rdbg_address d) (rdbg_prometheus d) (rdbg_pprof d))
                  else Err 121
             else Ok (mkDbg 0 false false));;
  do ifis <- parse_stanzas (rc_ifaces raw) [] [];;
  Ok (ifis, dbg).

(* ---------------------------------------------------------------- lexer invariants
   facts about the stdlib lexers that the well-formedness lemma (cfg_wf) assumes; the
   correspondence evaluates lex_wfb on every case. *)
Definition ctext_wfb (c : ctext) : bool :=
  match c with
  | CPfx true a b => N.ltb a (2 ^ 32) && N.leb b 32
  | CPfx false a b => N.ltb a two128 && N.leb b 128
  | _ => true
  end.
Definition atext_wfb (s : atext) : bool :=
  match s with
  | AAddr true a z => N.ltb a (2 ^ 32) && N.eqb z 0
  | AAddr false a z => N.ltb a two128
  | AJunk => true
  end.
Definition iface_lex_wfb (ifi : raw_iface) : bool :=
  forallb (fun p => ctext_wfb (rp_prefix p)) (ri_prefixes ifi) &&
  forallb (fun r => ctext_wfb (rr_prefix r)) (ri_routes ifi) &&
  forallb (fun d => forallb atext_wfb (rd_servers d)) (ri_rdnss ifi) &&
  forallb (fun p => ctext_wfb (r6_prefix p)) (ri_pref64 ifi).
Definition lex_wfb (raw : raw_config) : bool := forallb iface_lex_wfb (rc_ifaces raw).
