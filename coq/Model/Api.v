(* C17 -- model of the debug API: crhttp.Handler (route gating, /_/api/interfaces) and packRA / packOptions
   (internal/crhttp/handler.go, ra.go).  No proofs in this file. *)
From CR Require Export Model.Metrics.
Local Open Scope Z_scope.

(* ---- JSON model of routerAdvertisement *)

Record jprefix := mkJPrefix { jp_addr : N; jp_bits : N; jp_onlink : bool; jp_auto : bool; jp_valid_s : Z; jp_pref_s : Z }.
Record jroute := mkJRoute { jr_addr : N; jr_bits : N; jr_pref : pref; jr_lifetime_s : Z }.
Record jrdnss := mkJRdnss { jd_lifetime_s : Z; jd_servers : list N }.
Record jdnssl := mkJDnssl { js_lifetime_s : Z; js_names : list N }.
Record jpref64 := mkJPref64 { j6_v4 : bool; j6_addr : N; j6_bits : N; j6_lifetime_s : Z }.

Record jopts := mkJOpts {
  jo_dnssl : list jdnssl;
  jo_mtu : Z;                       (* 0 when there is no MTU option *)
  jo_prefixes : list jprefix;
  jo_rdnss : list jrdnss;
  jo_routes : list jroute;
  jo_slla : option (list N);        (* "" in JSON when there is no source link-layer address option *)
  jo_captive : option N;            (* "" in JSON when there is no captive portal option *)
  jo_pref64 : list jpref64 }.

Record jra := mkJRA {
  j_hop : Z; j_managed : bool; j_other : bool; j_pref : pref;
  j_lifetime_s : Z; j_reachable_ms : Z; j_retrans_ms : Z; j_opts : jopts }.

Definition jopts_empty : jopts := mkJOpts [] 0 [] [] [] None None [].

(* int(d.Seconds()), d.Milliseconds(): truncation toward zero (float rounding of Seconds() is outside the model:
   exact for whole milliseconds below 2^32 s) *)
Definition secs (d : dur) : Z := Z.quot d sec.
Definition millis (d : dur) : Z := Z.quot d ms.

(* the Go type name of an option, as it appears in packOptions' type switch and in plugin.go *)
Definition kind_name (o : opt) : string :=
  match o with
  | OPrefix _ _ _ _ _ _ => "PrefixInformation"
  | ORoute _ _ _ _ => "RouteInformation"
  | ORDNSS _ _ => "RecursiveDNSServer"
  | ODNSSL _ _ => "DNSSearchList"
  | OMTU _ => "MTU"
  | OSLLA _ => "LinkLayerAddress"
  | OCaptive _ => "CaptivePortal"
  | OPref64 _ _ _ _ => "PREF64"
  | OOther _ => "RawOption"
  end%string.

(* one iteration of packOptions' loop: the body of the `case` for this option type *)
Definition pack_one (out : jopts) (o : opt) : jopts :=
  match o with
  | OCaptive uri => mkJOpts (jo_dnssl out) (jo_mtu out) (jo_prefixes out) (jo_rdnss out) (jo_routes out) (jo_slla out) (Some uri) (jo_pref64 out)
  | ODNSSL l names => mkJOpts (jo_dnssl out ++ [mkJDnssl (secs l) names]) (jo_mtu out) (jo_prefixes out) (jo_rdnss out) (jo_routes out) (jo_slla out) (jo_captive out) (jo_pref64 out)
  | OSLLA mac => mkJOpts (jo_dnssl out) (jo_mtu out) (jo_prefixes out) (jo_rdnss out) (jo_routes out) (Some mac) (jo_captive out) (jo_pref64 out)
  | OMTU m => mkJOpts (jo_dnssl out) (Z.of_N m) (jo_prefixes out) (jo_rdnss out) (jo_routes out) (jo_slla out) (jo_captive out) (jo_pref64 out)
  | OPref64 v4 a bits l => mkJOpts (jo_dnssl out) (jo_mtu out) (jo_prefixes out) (jo_rdnss out) (jo_routes out) (jo_slla out) (jo_captive out) (jo_pref64 out ++ [mkJPref64 v4 a bits (secs l)])
  | OPrefix bits onlink auto valid preferred a =>
      mkJOpts (jo_dnssl out) (jo_mtu out) (jo_prefixes out ++ [mkJPrefix a bits onlink auto (secs valid) (secs preferred)]) (jo_rdnss out) (jo_routes out) (jo_slla out) (jo_captive out) (jo_pref64 out)
  | ORDNSS l servers => mkJOpts (jo_dnssl out) (jo_mtu out) (jo_prefixes out) (jo_rdnss out ++ [mkJRdnss (secs l) servers]) (jo_routes out) (jo_slla out) (jo_captive out) (jo_pref64 out)
  | ORoute bits p l a => mkJOpts (jo_dnssl out) (jo_mtu out) (jo_prefixes out) (jo_rdnss out) (jo_routes out ++ [mkJRoute a bits p (secs l)]) (jo_slla out) (jo_captive out) (jo_pref64 out)
  | OOther _ => out
  end.

(* packOptions: `for _, o := range opts { switch o := o.(type) { case ...: default: panicf(...) } }`; the case list
   is ExtMetrics.packOptions_cases.  None = panic. *)
Fixpoint pack_options (cases : list string) (out : jopts) (os : list opt) : option jopts :=
  match os with
  | [] => Some out
  | o :: tl => if str_mem (kind_name o) cases then pack_options cases (pack_one out o) tl else None
  end.

Inductive rendered := Rendered (j : jra) | RPanic.

(* packRA *)
Definition api_render (r : ra) : rendered :=
  match pack_options ExtMetrics.packOptions_cases jopts_empty (ra_opts r) with
  | Some os => Rendered (mkJRA (Z.of_N (ra_hop r)) (ra_managed r) (ra_other r) (ra_pref r)
                               (secs (ra_lifetime r)) (millis (ra_reachable r)) (millis (ra_retrans r)) os)
  | None => RPanic
  end.

(* ---- GET /_/api/interfaces *)

Record jiface := mkJIface { ji_name : N; ji_adv : bool; ji_ra : option jra }.
Inductive api_out := ABody (l : list jiface) | AError | APanic.      (* 200 + JSON | 500 | panic *)

(* handler.interfaces: per interface in configuration order; only advertising interfaces read the forwarding state
   and build an RA; the first failure answers 500 *)
Fixpoint api_from (ifs : list ifin) (acc : list jiface) : api_out :=
  match ifs with
  | [] => ABody acc
  | i :: tl =>
      if negb (i_adv i) then api_from tl (acc ++ [mkJIface (i_name i) false None])
      else match i_fwd i with
           | None => AError
           | Some fwd =>
               match i_build i with
               | Err _ => AError
               | Ok r =>
                   match api_render (fst (finalize fwd r)) with
                   | Rendered j => api_from tl (acc ++ [mkJIface (i_name i) true (Some j)])
                   | RPanic => APanic
                   end
               end
           end
  end.
Definition api (ifs : list ifin) : api_out := api_from ifs [].

(* ---- route gating (NewHandler / ServeHTTP) *)

Inductive route :=
| RRoot            (* "/" : banner, answered before the mux *)
| RInterfaces      (* "/_/api/interfaces" *)
| RMetrics         (* "/metrics" *)
| RPprof           (* "/debug/pprof/" and the handlers below it *)
| RUnknown.        (* anything else *)

Definition serves (r : route) (prometheus pprof : bool) : bool :=
  match r with
  | RRoot => true
  | RInterfaces => true
  | RMetrics => prometheus
  | RPprof => pprof
  | RUnknown => false
  end.
