(* C18 -- executable model of Monitor.handle (internal/corerad/monitor.go), of the zone stripping
   in listener.Listen (listener.go) and of cidrStr (metrics.go), plus the metricslite series
   state (Counter = Add, Gauge = Set).  Definitions only. *)
From CR Require Export Model.Types.
Local Open Scope Z_scope.

Inductive metric :=
| MReceived          (* corerad_monitor_messages_received_total {interface, host, message} *)
| MFlagManaged       (* corerad_monitor_flag_managed {interface, router} *)
| MFlagOther         (* corerad_monitor_flag_other {interface, router} *)
| MDefaultRoute      (* corerad_monitor_default_route_expiration_timestamp_seconds {interface, router} *)
| MPrefixAutonomous  (* corerad_monitor_prefix_autonomous {interface, prefix, router} *)
| MPrefixOnLink      (* corerad_monitor_prefix_on_link {interface, prefix, router} *)
| MPrefixPreferred   (* corerad_monitor_prefix_preferred_expiration_timestamp_seconds {interface, prefix, router} *)
| MPrefixValid.      (* corerad_monitor_prefix_valid_expiration_timestamp_seconds {interface, prefix, router} *)

(* a sender as the socket reports it: address and zone (0 = no zone) *)
Definition host := (N * N)%type.

(* cidrStr(prefix, length) = netip.PrefixFrom(prefix, int(length)).String(): the pair exactly as
   received (not masked) when the length is a valid IPv6 prefix length, "invalid Prefix" otherwise *)
Inductive plabel := PL (pfx len : N) | PLInvalid.
Definition cidr (pfx len : N) : plabel := if (len <=? 128)%N then PL pfx len else PLInvalid.

Record labels := mkLabels {
  l_iface : N; l_host : host; l_prefix : option plabel; l_msg : option N }.

Inductive metric_op :=
| MAdd (m : metric) (l : labels) (v : Z)
| MSet (m : metric) (l : labels) (v : Z).

(* an NDP message: a router advertisement or any other type (ICMPv6 type number: 133 RS, 135 NS,
   136 NA) *)
Inductive msg := MsgRA (r : ra) | MsgOther (ty : N).
Definition msg_type (m : msg) : N := match m with MsgRA _ => 134%N | MsgOther t => t end.

Definition b2z (b : bool) : Z := if b then 1 else 0.        (* boolFloat *)
(* float64(now.Add(d).Unix()): Unix() is the floor of the instant in seconds *)
Definition unix_of (now d : Z) : Z := (now + d) / sec.

(* pick[*ndp.PrefixInformation](msg.Options) *)
Record mpinfo := mkMPI { mp_pfx : N; mp_len : N; mp_onlink : bool; mp_auto : bool; mp_preferred : dur; mp_valid : dur }.
Fixpoint pick_prefix_infos (os : list opt) : list mpinfo :=
  match os with
  | [] => []
  | OPrefix l ol au v p x :: os' => mkMPI x l ol au p v :: pick_prefix_infos os'
  | _ :: os' => pick_prefix_infos os'
  end.

Definition prefix_ops (iface : N) (h : host) (now : Z) (p : mpinfo) : list metric_op :=
  let lb := mkLabels iface h (Some (cidr (mp_pfx p) (mp_len p))) None in
  [ MSet MPrefixAutonomous lb (b2z (mp_auto p));
    MSet MPrefixOnLink lb (b2z (mp_onlink p));
    MSet MPrefixPreferred lb (unix_of now (mp_preferred p));
    MSet MPrefixValid lb (unix_of now (mp_valid p)) ].

(* Monitor.handle(msg, host) with m.now() = now *)
Definition monitor_handle (iface : N) (h : host) (now : Z) (m : msg) : list metric_op :=
  MAdd MReceived (mkLabels iface h None (Some (msg_type m))) 1 ::
  match m with
  | MsgRA r =>
      let lb := mkLabels iface h None None in
      [ MSet MFlagManaged lb (b2z (ra_managed r)); MSet MFlagOther lb (b2z (ra_other r)) ] ++
      (if ra_lifetime r =? 0 then [] else [MSet MDefaultRoute lb (unix_of now (ra_lifetime r))]) ++
      flat_map (prefix_ops iface h now) (pick_prefix_infos (ra_opts r))
  | MsgOther _ => []
  end.

(* listener.Listen: Host: host.WithZone("") *)
Definition strip_zone (h : host) : host := (fst h, 0%N).
(* a message read from the socket by the monitor's listener *)
Definition monitor_receive (iface : N) (h : host) (now : Z) (m : msg) : list metric_op :=
  monitor_handle iface (strip_zone h) now m.

(* ---- series state (metricslite: a map from (series, label values) to a value) *)
Definition key := (metric * labels)%type.

Definition metric_eqb (a b : metric) : bool :=
  match a, b with
  | MReceived, MReceived | MFlagManaged, MFlagManaged | MFlagOther, MFlagOther
  | MDefaultRoute, MDefaultRoute | MPrefixAutonomous, MPrefixAutonomous
  | MPrefixOnLink, MPrefixOnLink | MPrefixPreferred, MPrefixPreferred | MPrefixValid, MPrefixValid => true
  | _, _ => false
  end.
Definition host_eqb (a b : host) : bool := N.eqb (fst a) (fst b) && N.eqb (snd a) (snd b).
Definition plabel_eqb (a b : plabel) : bool :=
  match a, b with
  | PL x l, PL x' l' => N.eqb x x' && N.eqb l l'
  | PLInvalid, PLInvalid => true
  | _, _ => false
  end.
Definition option_eqb {A} (eqb : A -> A -> bool) (a b : option A) : bool :=
  match a, b with
  | None, None => true
  | Some x, Some y => eqb x y
  | _, _ => false
  end.
Definition labels_eqb (a b : labels) : bool :=
  N.eqb (l_iface a) (l_iface b) && host_eqb (l_host a) (l_host b) &&
  option_eqb plabel_eqb (l_prefix a) (l_prefix b) && option_eqb N.eqb (l_msg a) (l_msg b).
Definition key_eqb (a b : key) : bool := metric_eqb (fst a) (fst b) && labels_eqb (snd a) (snd b).

Definition series := list (key * Z).

Fixpoint lookup (s : series) (k : key) : option Z :=
  match s with
  | [] => None
  | (k', v) :: s' => if key_eqb k' k then Some v else lookup s' k
  end.
Fixpoint store (s : series) (k : key) (v : Z) : series :=
  match s with
  | [] => [(k, v)]
  | (k', v') :: s' => if key_eqb k' k then (k', v) :: s' else (k', v') :: store s' k v
  end.
Definition value_or_zero (o : option Z) : Z := match o with Some v => v | None => 0 end.

Definition apply_op (s : series) (op : metric_op) : series :=
  match op with
  | MSet m l v => store s (m, l) v
  | MAdd m l v => store s (m, l) (value_or_zero (lookup s (m, l)) + v)
  end.
Definition apply_ops (s : series) (ops : list metric_op) : series := fold_left apply_op ops s.

(* a reception: sender, receipt time, message *)
Record reception := mkRx { rx_host : host; rx_now : Z; rx_msg : msg }.

(* the series after a history of messages read by the monitor of interface [iface] *)
Definition monitor_run (iface : N) (hist : list reception) (s : series) : series :=
  fold_left (fun s rx => apply_ops s (monitor_receive iface (rx_host rx) (rx_now rx) (rx_msg rx))) hist s.
(* same, Monitor.handle called directly with an already prepared host label *)
Definition monitor_run_direct (iface : N) (hist : list reception) (s : series) : series :=
  fold_left (fun s rx => apply_ops s (monitor_handle iface (rx_host rx) (rx_now rx) (rx_msg rx))) hist s.
