(* What RA construction (C01) and wire encodability (C03) need from an accepted configuration.
   [cfg_ok] is a boolean predicate on the *parsed* configuration: exactly the guarantees of
   config.Parse that the C03 proof consumes (the parser model of C02 proves them; here they are also
   evaluated on what the real config.Parse returned, in Corr/C03.holds).
   [sizes_ok] is the property's own quantifier assumption ("option element counts within one option's
   8-bit length"); [sys_wf] / [clock_ok] the assumptions on the system state.  Definitions only. *)
From CR Require Export Model.Types Base.IP.
From CR Require Import Model.Build Model.Wire.
Local Open Scope Z_scope.

(* parseDuration: 0 <= d <= ndp.Infinity *)
Definition dur_ok (d : Z) : bool := (0 <=? d) && (d <=? infinity).

Definition plugin_ok (max : Z) (p : plugin) : bool :=
  match p with
  | PPrefix auto a bits _ _ valid preferred dep =>
    (if auto then N.eqb a 0 && N.eqb bits 64
     else masked_ok a bits && (bits <? 128)%N && negb (is4in6 a))
    && dur_ok valid && dur_ok preferred && (0 <? valid) && (0 <? preferred) && (preferred <=? valid)
    && (if dep then (valid <? infinity) && (preferred <? infinity) else true)
  | PRoute auto a bits _ lt dep =>
    (if auto then N.eqb a 0 && N.eqb bits 0 else masked_ok a bits)
    && dur_ok lt && (0 <? lt) && (if dep then lt <? infinity else true)
  | PRDNSS auto lt servers => dur_ok lt && (auto || negb (N.eqb (N.of_nat (length servers)) 0))
  | PDNSSL lt names => dur_ok lt && negb (N.eqb (N.of_nat (length names)) 0)
  | PMTU m => (0 <? m) && (m <=? 65536)
  | PLLA => true
  | PCaptive uri => negb (N.eqb (str_len uri) 0)
  | PPref64 v4 a bits lt =>
    negb v4 && pref64_bits_ok bits && N.eqb (mask a bits) a && (lt =? new_pref64_lifetime max)
  end.

Definition cfg_ok (c : iface) : bool :=
  (4 * sec <=? if_max c) && (if_max c <=? 1800 * sec)
  && (if_hop c <? 256)%N
  && (0 <=? if_lifetime c) && (if_lifetime c <=? 9000 * sec)
  && (0 <=? if_reachable c) && (if_reachable c <=? hour)
  && (0 <=? if_retrans c) && (if_retrans c <=? hour)
  && forallb (plugin_ok (if_max c)) (if_plugins c).

(* the quantifier's assumption: every option fits the 8-bit length field (255 units = 2040 bytes);
   the wildcard RDNSS stanza gets one more server at run time *)
Definition plugin_size_ok (p : plugin) : bool :=
  match p with
  | PRDNSS auto _ servers => (N.of_nat (length servers) + (if auto then 1 else 0) <=? 127)%N
  | PDNSSL _ names => (round8 (8 + sumN (map name_wire_len names)) <=? 2040)%N
  | PCaptive uri => (round8 (str_len uri + 2) <=? 2040)%N
  | _ => true
  end.
Definition sizes_ok (c : iface) : bool := forallb plugin_size_ok (if_plugins c).

(* system state: MAC absent or 6 bytes; OS routes are masked prefixes of at most 128 bits;
   interface addresses carry a length of at most 128 bits *)
Definition sys_wfb (s : sys) : bool :=
  match s_mac s with None => true | Some mac => Nat.eqb (length mac) 6 end
  && match s_routes s with
     | None => true
     | Some rs => forallb (fun r => rt_v4 r || masked_ok (rt_addr r) (rt_bits r)) rs
     end
  && match s_addrs s with
     | None => true
     | Some l => forallb (fun a => ip_v4 a || (ip_bits a <=? 128)%N) l
     end.
Definition sys_wf (s : sys) : Prop := sys_wfb s = true.

(* deprecated lifetimes: remaining = epoch + L - now, which exceeds L when the clock reads earlier than
   the epoch; it must still fit the 32-bit seconds field *)
Definition clock_plugin_ok (s : sys) (p : plugin) : bool :=
  match p with
  | PPrefix _ _ _ _ _ valid preferred true =>
    (s_epoch s + valid - s_now s <? two32 * sec) && (s_epoch s + preferred - s_now s <? two32 * sec)
  | PRoute _ _ _ _ lt true => s_epoch s + lt - s_now s <? two32 * sec
  | _ => true
  end.
Definition clock_okb (c : iface) (s : sys) : bool := forallb (clock_plugin_ok s) (if_plugins c).
