(* Go's sync.RWMutex as used for plugin.prepareMu (internal/plugin/plugin.go): Prepare takes the
   write lock, Apply the read lock.  Documented semantics: "If any goroutine calls Lock while the
   lock is already held by one or more readers, concurrent calls to RLock will block until the
   writer has acquired (and released) the lock" -- hence recursive read locking is prohibited.

   Threads: readers run [RLock; (if reentrant: RLock; RUnlock;) RUnlock] k times (an RA build, a
   metrics scrape, a debug API request), writers run [Lock; Unlock] k times (Prepare at every
   (re)initialisation).  Lock is two steps: announce (excludes other writers and from then on new
   readers), then acquire once the active readers have drained.  Whether a reader re-acquires the
   lock it holds is read from the source on every run (gen/ExtLock.v).  Executable definitions only. *)
From Coq Require Export List Arith Bool.
Export ListNotations.
From CR Require Import gen.ExtLock.

Inductive pc :=
| R0      (* reader outside the lock *)
| R1      (* holds the read lock once *)
| R2      (* holds it twice (reentrant only) *)
| R3      (* released the inner one *)
| W0      (* writer outside the lock *)
| W1      (* announced: waits for the readers to drain *)
| W2.     (* holds the write lock *)

Record thread := mkT { t_pc : pc; t_rem : nat }.   (* t_rem: critical sections still to begin *)

Definition held (t : thread) : nat :=
  match t_pc t with R1 | R3 => 1 | R2 => 2 | _ => 0 end.
Definition readers (s : list thread) : nat := fold_right (fun t a => held t + a) 0 s.
Definition is_wbusy (t : thread) : bool := match t_pc t with W1 | W2 => true | _ => false end.
Definition wbusy (s : list thread) : bool := existsb is_wbusy s.

(* what thread t can do in state s (None: blocked or finished) *)
Definition tstep (reentrant : bool) (s : list thread) (t : thread) : option thread :=
  match t_pc t with
  | R0 => match t_rem t with 0 => None | S r => if wbusy s then None else Some (mkT R1 r) end
  | R1 => if reentrant then (if wbusy s then None else Some (mkT R2 (t_rem t)))
          else Some (mkT R0 (t_rem t))
  | R2 => Some (mkT R3 (t_rem t))
  | R3 => Some (mkT R0 (t_rem t))
  | W0 => match t_rem t with 0 => None | S r => if wbusy s then None else Some (mkT W1 r) end
  | W1 => if readers s =? 0 then Some (mkT W2 (t_rem t)) else None
  | W2 => Some (mkT W0 (t_rem t))
  end.

Fixpoint replace (i : nat) (t : thread) (s : list thread) : list thread :=
  match s, i with
  | [], _ => []
  | _ :: tl, 0 => t :: tl
  | x :: tl, S j => x :: replace j t tl
  end.

(* thread i moves *)
Definition step (reentrant : bool) (s : list thread) (i : nat) : option (list thread) :=
  match nth_error s i with
  | Some t => match tstep reentrant s t with Some t' => Some (replace i t' s) | None => None end
  | None => None
  end.

Definition finished (t : thread) : bool :=
  match t_pc t, t_rem t with R0, 0 | W0, 0 => true | _, _ => false end.
Definition done (s : list thread) : bool := forallb finished s.

Fixpoint run (reentrant : bool) (s : list thread) (is : list nat) : option (list thread) :=
  match is with
  | [] => Some s
  | i :: tl => match step reentrant s i with Some s' => run reentrant s' tl | None => None end
  end.

Definition stuck (reentrant : bool) (s : list thread) : bool :=
  negb (done s) && forallb (fun i => match step reentrant s i with None => true | Some _ => false end) (seq 0 (length s)).

(* the discipline read from the source *)
Definition extracted_reentrant : bool := prepare_lock_reentrant.
