(* Well-formedness of a parsed configuration: the ranges the RA builder / wire encoder rely on.
   C02 proves  parse raw = Ok c -> Forall cfg_wf (fst c)  (Properties/C02.v, C02_cfg_wf);
   other properties (C01, C03) may take  cfg_wf i  as their hypothesis on an accepted interface.
   cfg_wfb is the boolean form (reflection lemma cfg_wfb_iff in Proofs/ConfigWf.v).
   Definitions only. *)
From CR Require Export Model.Types.
From CR Require Export Base.IP.
Local Open Scope Z_scope.

(* netip.Addr.Is4In6 *)
Definition addr_is_4in6 (a : N) : bool := N.eqb (N.shiftr a 32) 65535.
(* RFC 8781 section 4: the NAT64 prefix lengths a PREF64 option can carry *)
Definition pref64_lengths : list N := [96; 64; 56; 48; 40; 32]%N.

(* [mx] is the interface's max_interval *)
Definition plugin_wf (mx : Z) (p : plugin) : Prop :=
  match p with
  | PPrefix auto a b _ _ valid preferred dep =>
      (* a masked IPv6 prefix shorter than /128; :: only as the wildcard ::/64 *)
      (a < two128)%N /\ (b < 128)%N /\ mask a b = a /\ addr_is_4in6 a = false /\
      (a = 0%N -> b = 64%N) /\ (auto = true <-> a = 0%N) /\
      (* lifetimes positive, within the 32-bit seconds field, preferred <= valid;
         a deprecated prefix counts down from a finite lifetime *)
      0 < preferred /\ preferred <= valid /\ valid <= infinity /\
      (dep = true -> valid < infinity)
  | PRoute auto a b _ lt dep =>
      (a < two128)%N /\ (b <= 128)%N /\ mask a b = a /\ addr_is_4in6 a = false /\
      (a = 0%N -> b = 0%N) /\ (auto = true <-> a = 0%N) /\
      0 < lt /\ lt <= infinity /\ (dep = true -> lt < infinity)
  | PRDNSS auto lt servers =>
      (* plain (zone-less, not IPv4-mapped) 128-bit addresses, none of them :: *)
      0 <= lt <= infinity /\ NoDup servers /\ ~ In 0%N servers /\
      (auto = true \/ servers <> []) /\
      Forall (fun s => (s < two128)%N /\ addr_is_4in6 s = false) servers
  | PDNSSL lt names => 0 <= lt <= infinity /\ names <> [] /\ NoDup names
  | PMTU m => 0 < m <= 65536
  | PLLA => True
  | PCaptive u => u <> 0%N                                  (* a non-empty URI *)
  | PPref64 v4 a b lt =>
      v4 = false /\ (a < two128)%N /\ In b pref64_lengths /\ mask a b = a /\ addr_is_4in6 a = false /\
      (* 3 * max_interval rounded up to the 8 s unit; always below the 13-bit limit *)
      3 * mx <= lt < 3 * mx + 8 * sec /\ lt mod (8 * sec) = 0 /\ 0 < lt <= 65528 * sec
  end.

Definition cfg_wf (i : iface) : Prop :=
  if if_monitor i then
    (* monitor interfaces carry no advertising settings *)
    if_advertise i = false /\ if_plugins i = [] /\ if_min i = 0 /\ if_max i = 0 /\
    if_lifetime i = 0 /\ if_reachable i = 0 /\ if_retrans i = 0 /\ if_hop i = 0%N /\
    if_managed i = false /\ if_other i = false /\ if_unicast_only i = false /\ if_pref i = Medium
  else
    4 * sec <= if_max i <= 1800 * sec /\
    (* the computed default for 9 s <= max < 9.09.. s is 2 s; a configured min is >= 3 s *)
    2 * sec <= if_min i <= if_max i /\
    0 <= if_reachable i <= hour /\ 0 <= if_retrans i <= hour /\
    (if_hop i <= 255)%N /\
    (if_lifetime i = 0 \/ if_max i <= if_lifetime i <= 9000 * sec) /\
    Forall (plugin_wf (if_max i)) (if_plugins i).

(* ---- boolean forms *)
Fixpoint nodupN_b (l : list N) : bool :=
  match l with [] => true | x :: t => negb (existsb (N.eqb x) t) && nodupN_b t end.

Definition plugin_wfb (mx : Z) (p : plugin) : bool :=
  match p with
  | PPrefix auto a b _ _ valid preferred dep =>
      N.ltb a two128 && N.ltb b 128 && N.eqb (mask a b) a && negb (addr_is_4in6 a) &&
      (negb (N.eqb a 0) || N.eqb b 64) && Bool.eqb auto (N.eqb a 0) &&
      (0 <? preferred) && (preferred <=? valid) && (valid <=? infinity) &&
      (negb dep || (valid <? infinity))
  | PRoute auto a b _ lt dep =>
      N.ltb a two128 && N.leb b 128 && N.eqb (mask a b) a && negb (addr_is_4in6 a) &&
      (negb (N.eqb a 0) || N.eqb b 0) && Bool.eqb auto (N.eqb a 0) &&
      (0 <? lt) && (lt <=? infinity) && (negb dep || (lt <? infinity))
  | PRDNSS auto lt servers =>
      (0 <=? lt) && (lt <=? infinity) && nodupN_b servers && negb (existsb (N.eqb 0) servers) &&
      (auto || negb (match servers with [] => true | _ => false end)) &&
      forallb (fun s => N.ltb s two128 && negb (addr_is_4in6 s)) servers
  | PDNSSL lt names =>
      (0 <=? lt) && (lt <=? infinity) && negb (match names with [] => true | _ => false end) && nodupN_b names
  | PMTU m => (0 <? m) && (m <=? 65536)
  | PLLA => true
  | PCaptive u => negb (N.eqb u 0)
  | PPref64 v4 a b lt =>
      negb v4 && N.ltb a two128 && existsb (N.eqb b) pref64_lengths && N.eqb (mask a b) a &&
      negb (addr_is_4in6 a) && (3 * mx <=? lt) && (lt <? 3 * mx + 8 * sec) &&
      (lt mod (8 * sec) =? 0) && (0 <? lt) && (lt <=? 65528 * sec)
  end.

Definition cfg_wfb (i : iface) : bool :=
  if if_monitor i then
    negb (if_advertise i) && (match if_plugins i with [] => true | _ => false end) &&
    (if_min i =? 0) && (if_max i =? 0) && (if_lifetime i =? 0) && (if_reachable i =? 0) &&
    (if_retrans i =? 0) && N.eqb (if_hop i) 0 && negb (if_managed i) && negb (if_other i) &&
    negb (if_unicast_only i) && pref_eqb (if_pref i) Medium
  else
    (4 * sec <=? if_max i) && (if_max i <=? 1800 * sec) &&
    (2 * sec <=? if_min i) && (if_min i <=? if_max i) &&
    (0 <=? if_reachable i) && (if_reachable i <=? hour) &&
    (0 <=? if_retrans i) && (if_retrans i <=? hour) &&
    N.leb (if_hop i) 255 &&
    ((if_lifetime i =? 0) || ((if_max i <=? if_lifetime i) && (if_lifetime i <=? 9000 * sec))) &&
    forallb (plugin_wfb (if_max i)) (if_plugins i).
