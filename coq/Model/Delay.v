(* Model of multicastDelay and the multicast loop (internal/corerad/advertise.go) and of
   parseMinInterval (internal/config/interface.go), which is what guarantees the PRNG argument. *)
From CR Require Export Model.Types.
From CR Require Import gen.ExtAdvertise.
Local Open Scope Z_scope.

(* time.Duration.Round(m): round half away from zero to a multiple of m (no int64 saturation:
   the values here are far from 2^63). *)
Definition round_dur (d m : Z) : Z :=
  if m <=? 0 then d else
  if d <? 0 then let r := (- d) mod m in if 2 * r <? m then d + r else d - m + r
  else let r := d mod m in if 2 * r <? m then d - r else d + m - r.

(* time.Duration.Truncate(m) for d >= 0 *)
Definition trunc_dur (d m : Z) : Z := d - d mod m.

(* multicastDelay(r, i, min, max); [r] is the value drawn by r.Int63n(max-min) (unused when min = max) *)
Definition delay_uncapped (min max r : Z) : Z :=
  if min =? max then round_dur max sec else round_dur (min + r) sec.
Definition multicast_delay (i min max r : Z) : Z :=
  let d := delay_uncapped min max r in
  if (i <? maxInitialAdv) && (maxInitialAdvInterval <? d) then maxInitialAdvInterval else d.

(* instants at which the multicast loop requests an RA: T_0 = t0, T_{n+1} = T_n + delay(n, r_n) *)
Fixpoint request_times (i t min max : Z) (draws : list Z) : list Z :=
  t :: match draws with
       | [] => []
       | r :: ds => request_times (i + 1) (t + multicast_delay i min max r) min max ds
       end.
(* the same loop when the consumer of the (unbuffered) request channel is slow: the n-th request is
   offered at O_n; the consumer is ready again gap_n after it took the previous one; the request is taken at
   R_n = max(O_n, R_{n-1} + gap_n) and the loop's wait starts only then: O_{n+1} = R_n + delay(n, r_n).
   Returns the instants R_n. *)
Fixpoint taken_times (i o prev min max : Z) (draws gaps : list Z) : list Z :=
  let g := match gaps with x :: _ => x | [] => 0 end in
  let r := Z.max o (prev + g) in
  r :: match draws with
       | [] => []
       | d :: ds => taken_times (i + 1) (r + multicast_delay i min max d) r min max ds (tl gaps)
       end.

Fixpoint waits (i min max : Z) (draws : list Z) : list Z :=
  match draws with
  | [] => []
  | r :: ds => multicast_delay i min max r :: waits (i + 1) min max ds
  end.

(* parseMinInterval: [explicit] = None for "" / "auto", Some d for a parsed duration.
   0.33*float64(max) and 0.75*float64(max) are exact rational floors here (DESIGN 4.2). *)
Definition default_min (max : Z) : Z :=
  if 9 * sec <=? max then trunc_dur (33 * max / 100) sec else max.
Definition parse_min_interval (explicit : option Z) (max : Z) : option Z :=
  match explicit with
  | None => Some (default_min max)
  | Some m =>
      let upper := trunc_dur (3 * max / 4) sec in
      if (m <? 3 * sec) || (upper <? m) then None else Some m
  end.
