(* What a fault injected into a running advertiser / monitor must lead to (C10): the classification
   of Dialer.init applied to the error the task returns, as an executable table. *)
From CR Require Export Model.Types.
From CR Require Import gen.ExtAdvertise.
Local Open Scope Z_scope.

Inductive fault :=
| FReadSyscall      (* ReadFrom fails with a non-permission *os.SyscallError *)
| FReadPerm         (* ... with a permission *os.SyscallError *)
| FReadOther        (* ... with any other error *)
| FTimeouts5        (* five consecutive read timeouts: errRetriesExhausted *)
| FWriteSyscall | FWritePerm | FWriteOther   (* a scheduled WriteTo fails *)
| FLink             (* a link-state event on the watcher channel: ErrLinkChange *)
| FWatchClosed      (* the watcher channel is closed: nothing happens *)
| FBuildFail.       (* building a scheduled RA fails (a plugin's Apply: e.g. the address dump of a wildcard fails) *)

Inductive reaction := Redial | ReturnErr | Continue.

Definition react (f : fault) : reaction :=
  match f with
  | FReadSyscall | FWriteSyscall | FLink => Redial
  | FReadPerm | FWritePerm | FReadOther | FWriteOther | FTimeouts5 => ReturnErr
  | FBuildFail => ReturnErr       (* "failed to generate router advertisement: %v": wraps nothing *)
  | FWatchClosed => Continue
  end.

(* virtual time between the injection of the (last) fault event and the reaction: the fifth timeout
   still waits its back-off (4 x 50 ms) before receiveRetry gives up; a re-dial's first wait is 0 *)
Definition react_delay (f : fault) : Z :=
  match f with FTimeouts5 => (rxRetries - 1) * rxBackoffUnit | _ => 0 end.
