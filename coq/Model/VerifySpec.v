(* C12 -- declarative specification, written from the property text and RFC 4861 6.2.7 (not from
   the control flow of verify.go): for every label set (field, details) the NUMBER of reports an
   (own RA, received RA) pair must produce.  Used by Properties/C12.v (as the statement) and by
   Corr/C12.v (evaluated on what the implementation reported).  Definitions only. *)
From CR Require Export Model.Verify.
Local Open Scope Z_scope.

Definition b2n (b : bool) : nat := if b then 1%nat else 0%nat.

(* what the wire carries: whole units, truncated *)
Definition units (u d : Z) : Z := Z.quot d u.
Definition differ_s (d1 d2 : dur) : bool := negb (units sec d1 =? units sec d2).
(* reachable time / retransmit timer: 0 means "unspecified by this router" *)
Definition timers_conflict (d1 d2 : dur) : bool :=
  negb (units ms d1 =? 0) && negb (units ms d2 =? 0) && negb (units ms d1 =? units ms d2).

(* the options of each kind, as association data *)
Definition prefix_opts (a : ra) : list ((N * N) * (dur * dur)) :=   (* key, (preferred, valid) *)
  flat_map (fun o => match o with OPrefix l _ _ v p x => [((x, l), (p, v))] | _ => [] end) (ra_opts a).
Definition route_opts (a : ra) : list ((N * N) * (pref * dur)) :=
  flat_map (fun o => match o with ORoute l p t x => [((x, l), (p, t))] | _ => [] end) (ra_opts a).
Definition rdnss_opts (a : ra) : list (dur * list N) :=
  flat_map (fun o => match o with ORDNSS t s => [(t, s)] | _ => [] end) (ra_opts a).
Definition dnssl_opts (a : ra) : list (dur * list N) :=
  flat_map (fun o => match o with ODNSSL t s => [(t, s)] | _ => [] end) (ra_opts a).
Definition mtu_opts (a : ra) : list N :=
  flat_map (fun o => match o with OMTU m => [m] | _ => [] end) (ra_opts a).
Definition captive_opts (a : ra) : list N :=
  flat_map (fun o => match o with OCaptive u => [u] | _ => [] end) (ra_opts a).

Definition count_pairs {A B} (f : A -> B -> bool) (la : list A) (lb : list B) : nat :=
  length (filter (fun ab => f (fst ab) (snd ab)) (list_prod la lb)).

(* both advertise one (the first counts) and the values differ *)
Definition firsts_differ (la lb : list N) : bool :=
  match hd_error la, hd_error lb with
  | Some x, Some y => negb (N.eqb x y)
  | _, _ => false
  end.

(* RDNSS / DNSSL: compared only when both advertise some; by count, then index by index *)
Definition dns_comparable (A B : list (dur * list N)) : bool :=
  negb (is_nil A) && negb (is_nil B) && Nat.eqb (length A) (length B).
Definition dns_count_differs (A B : list (dur * list N)) : bool :=
  negb (is_nil A) && negb (is_nil B) && negb (Nat.eqb (length A) (length B)).
Definition dns_index_count (f : dur * list N -> dur * list N -> bool) (A B : list (dur * list N)) : nat :=
  if dns_comparable A B then length (filter (fun ab => f (fst ab) (snd ab)) (combine A B)) else 0%nat.

Definition expected_count (a b : ra) (p : problem) : nat :=
  match p with
  | (FHopLimit, None) => b2n (negb (N.eqb (ra_hop a) (ra_hop b)))
  | (FManaged, None) => b2n (xorb (ra_managed a) (ra_managed b))
  | (FOther, None) => b2n (xorb (ra_other a) (ra_other b))
  | (FReachable, None) => b2n (timers_conflict (ra_reachable a) (ra_reachable b))
  | (FRetrans, None) => b2n (timers_conflict (ra_retrans a) (ra_retrans b))
  | (FMTU, None) => b2n (firsts_differ (mtu_opts a) (mtu_opts b))
  | (FPrefixPreferred, Some k) =>
      count_pairs (fun x y => key_eqb (fst x) k && key_eqb (fst y) k &&
                              differ_s (fst (snd x)) (fst (snd y))) (prefix_opts a) (prefix_opts b)
  | (FPrefixValid, Some k) =>
      count_pairs (fun x y => key_eqb (fst x) k && key_eqb (fst y) k &&
                              differ_s (snd (snd x)) (snd (snd y))) (prefix_opts a) (prefix_opts b)
  | (FRouteLifetime, Some k) =>
      count_pairs (fun x y => key_eqb (fst x) k && key_eqb (fst y) k &&
                              pref_eqb (fst (snd x)) (fst (snd y)) &&
                              differ_s (snd (snd x)) (snd (snd y))) (route_opts a) (route_opts b)
  | (FRdnssCount, None) => b2n (dns_count_differs (rdnss_opts a) (rdnss_opts b))
  | (FRdnssLifetime, None) =>
      dns_index_count (fun x y => differ_s (fst x) (fst y)) (rdnss_opts a) (rdnss_opts b)
  | (FRdnssServers, None) =>
      dns_index_count (fun x y => negb (list_eqb N.eqb (snd x) (snd y))) (rdnss_opts a) (rdnss_opts b)
  | (FDnsslCount, None) => b2n (dns_count_differs (dnssl_opts a) (dnssl_opts b))
  | (FDnsslLifetime, None) =>
      dns_index_count (fun x y => differ_s (fst x) (fst y)) (dnssl_opts a) (dnssl_opts b)
  | (FDnsslNames, None) =>
      dns_index_count (fun x y => negb (list_eqb N.eqb (snd x) (snd y))) (dnssl_opts a) (dnssl_opts b)
  | (FCaptive, None) => b2n (firsts_differ (captive_opts a) (captive_opts b))
  | _ => 0%nat                       (* nothing else, under no other label set *)
  end.

Definition count (p : problem) (l : list problem) : nat := length (filter (problem_eqb p) l).

(* every label set that can possibly carry a report for this pair *)
Definition all_fields : list field :=
  [FHopLimit; FManaged; FOther; FReachable; FRetrans; FMTU; FPrefixPreferred; FPrefixValid;
   FRouteLifetime; FRdnssCount; FRdnssLifetime; FRdnssServers; FDnsslCount; FDnsslLifetime;
   FDnsslNames; FCaptive; FUnknown].
Definition candidates (a b : ra) : list problem :=
  map (fun f => (f, None)) all_fields ++
  flat_map (fun k => [(FPrefixPreferred, Some k); (FPrefixValid, Some k)]) (map fst (prefix_opts a)) ++
  map (fun k => (FRouteLifetime, Some k)) (map fst (route_opts a)).

(* the reported multiset is exactly the specified one *)
Definition reports_ok (a b : ra) (reported : list problem) : bool :=
  forallb (fun p => Nat.eqb (count p reported) (expected_count a b p)) (candidates a b ++ reported).

(* an RA that does not contradict itself: no two prefix options for the same (prefix, length)
   with different lifetimes, no two route options for the same route and preference with
   different lifetimes (as carried on the wire) *)
Definition self_consistent (a : ra) : bool :=
  forallb (fun x => forallb (fun y =>
     negb (key_eqb (fst x) (fst y)) ||
     (negb (differ_s (fst (snd x)) (fst (snd y))) && negb (differ_s (snd (snd x)) (snd (snd y)))))
     (prefix_opts a)) (prefix_opts a) &&
  forallb (fun x => forallb (fun y =>
     negb (key_eqb (fst x) (fst y)) || negb (pref_eqb (fst (snd x)) (fst (snd y))) ||
     negb (differ_s (snd (snd x)) (snd (snd y))))
     (route_opts a)) (route_opts a).
