(* C04 -- the forwarding adjustment of a generated RA and the event machine over RA generations.

   Mirrors:
     config.Interface.RouterAdvertisement (internal/config/config.go), last step:
         if ra.RouterLifetime > 0 && !forwarding { ra.RouterLifetime = 0; ms = append(ms, InterfaceNotForwarding) }
     Advertiser.buildRA (internal/corerad/advertise.go): reads State.IPv6Forwarding on EVERY call, logs every
         reported misconfiguration; its callers: Run (initial), sendWorker (periodic / solicited), handle's RA
         branch (consistency check, `ours` of OnInconsistentRA), shutdown (final: a copy of the configuration with
         DefaultLifetime = 0);
     Metrics.constScrape (metrics.go): reads the flag per interface per scrape, exports the forwarding gauge and
         one misconfiguration sample per reported misconfiguration; for an interface that does not advertise
         (monitoring or unused: `if ifi.Advertise` is false) RouterAdvertisement is NOT called, `ra` and `ms` are the
         nil values of that loop iteration: path ScrapeIdle;
     crhttp.Handler.interfaces (handler.go): reads the flag per advertising interface per request, discards the
         misconfigurations ("TODO: plumb in misconfigurations").

   The RA as built from the configuration and its plugins (before the adjustment) is an INPUT (`ra`): RA
   construction is property C01.  No proofs in this file. *)
From CR Require Export Model.Types.
Local Open Scope Z_scope.

Inductive misconf := InterfaceNotForwarding.

Definition set_lifetime (r : ra) (l : dur) : ra :=
  mkRA (ra_hop r) (ra_managed r) (ra_other r) (ra_pref r) l (ra_reachable r) (ra_retrans r) (ra_opts r).

(* the tail of RouterAdvertisement(forwarding), applied to the RA built from configuration + plugins *)
Definition finalize (forwarding : bool) (r : ra) : ra * list misconf :=
  if (0 <? ra_lifetime r) && negb forwarding
  then (set_lifetime r 0, [InterfaceNotForwarding])
  else (r, []).

(* every place which generates an RA *)
Inductive path := Initial | Periodic | Solicited | Final | Verify | Scrape | Api
  | ScrapeIdle.   (* constScrape's visit of an interface with Advertise = false *)

Definition path_eqb (a b : path) : bool :=
  match a, b with
  | Initial, Initial | Periodic, Periodic | Solicited, Solicited | Final, Final
  | Verify, Verify | Scrape, Scrape | Api, Api | ScrapeIdle, ScrapeIdle => true
  | _, _ => false
  end.

(* the router lifetime of the configuration which the path hands to RouterAdvertisement: shutdown() copies
   a.cfg and sets DefaultLifetime = 0, every other path uses the configured value; the scrape of an interface
   that does not advertise hands nothing to it (no RA, no misconfigurations: whatever the interface's stanza
   says, there is no lifetime to override) *)
Definition path_lifetime (p : path) (configured : dur) : dur :=
  match p with Final | ScrapeIdle => 0 | _ => configured end.

(* where a reported misconfiguration is surfaced on a path *)
Inductive surface := SLog | SGauge | SNone.
Definition path_surface (p : path) : surface :=
  match p with
  | Initial | Periodic | Solicited | Final | Verify => SLog    (* buildRA: a.logf(...) per misconfiguration *)
  | Scrape | ScrapeIdle => SGauge                              (* collectMetrics: c(1, iface, "interface_not_forwarding") per entry of Misconfigurations *)
  | Api => SNone                                               (* handler.go: ra, _, err := iface.RouterAdvertisement(fwd) *)
  end.

Record out := mkOut {
  o_iface : N;
  o_path : path;
  o_ra : ra;                     (* the RA sent / compared / reported / rendered *)
  o_misconf : bool;              (* RouterAdvertisement returned InterfaceNotForwarding *)
  o_logged : bool;               (* the misconfiguration log line was written *)
  o_gauge : option bool;         (* Scrape / ScrapeIdle only: the misconfiguration sample (value 1) is present *)
  o_fwd_gauge : option bool;     (* Scrape / ScrapeIdle only: value of corerad_interface_forwarding *)
  o_reads : N                    (* State.IPv6Forwarding calls made for this generation *)
}.

(* One generation on interface [i] over [p]: [base] is the RA which the interface's configuration and plugins
   yield (its lifetime field is the configured default lifetime), [fwd] is the answer of the State read made
   by this very generation. *)
Definition gen (i : N) (p : path) (base : ra) (fwd : bool) : out :=
  let cfg_ra := set_lifetime base (path_lifetime p (ra_lifetime base)) in
  let '(r, ms) := finalize fwd cfg_ra in
  let reported := match ms with [] => false | _ => true end in
  mkOut i p r reported
        (match path_surface p with SLog => reported | _ => false end)
        (match path_surface p with SGauge => Some reported | _ => None end)
        (match p with Scrape | ScrapeIdle => Some fwd | _ => None end)
        1%N.

(* Events: the environment flips the per-interface sysctl, or some path generates an RA.  The answer of the State
   read made by a generation is an input: [Gen] -- the read succeeds and returns the flag in force; [GenFail] -- the
   read fails (EACCES / EPERM, bare or wrapped in *os.SyscallError, or any other error: the code does not look at
   the error).  On a failing read buildRA returns "failed to get IPv6 forwarding state" before RouterAdvertisement
   is called (send writes nothing; handle reports nothing; shutdown only logs), constScrape returns a ScrapeError
   for the forwarding gauge before collectMetrics, the API handler answers 500 before rendering: no RA on any path. *)
Inductive event := SetFwd (i : N) (b : bool) | Gen (i : N) (p : path) | GenFail (i : N) (p : path).

Definition upd (f : N -> bool) (i : N) (b : bool) : N -> bool :=
  fun j => if N.eqb j i then b else f j.

(* The machine's state is the ENVIRONMENT's flag map only: the daemon keeps no copy, each Gen reads it. *)
Fixpoint run (cfg : N -> ra) (f : N -> bool) (evs : list event) : list (option out) :=
  match evs with
  | [] => []
  | SetFwd i b :: tl => None :: run cfg (upd f i b) tl
  | Gen i p :: tl => Some (gen i p (cfg i) (f i)) :: run cfg f tl
  | GenFail i p :: tl => None :: run cfg f tl          (* err != nil: nothing is generated, whatever f i is *)
  end.

(* association-list front ends used by the correspondence *)
Fixpoint lookup {A} (d : A) (l : list (N * A)) (i : N) : A :=
  match l with
  | [] => d
  | (j, a) :: tl => if N.eqb i j then a else lookup d tl i
  end.
