(* Advertiser.Run around the goroutine group (internal/corerad/advertise.go):

       err := a.advertise(ctx, dctx.Conn)        -- starts the group, returns after eg.Wait()
       switch { case errors.Is(err, context.Canceled): a.shutdown(dctx.Conn); return nil ... }

   The group is the LTS of Model/Group.v; this file adds the phase of Run: the group is running,
   the final router advertisement of shutdown() is being transmitted, Run has returned.  Where the
   final transmission may begin depends on how the code is written; the two orderings are read
   from the source on every run (gen/ExtGroup.v): advertise() returns only after eg.Wait(), and
   shutdown() is called only after advertise() has returned and is followed by a return.  With
   either ordering missing the final transmission may begin while members of the group are still
   alive.  Executable definitions only. *)
From CR Require Export Model.Group.
From CR Require Import gen.ExtGroup.
Local Open Scope nat_scope.

Record order := mkO {
  o_wait : bool;      (* advertise() returns only after eg.Wait() *)
  o_after : bool }.   (* shutdown() only after advertise() returned; Run returns right after it *)
Definition extracted_order : order := mkO advertise_returns_after_wait shutdown_after_advertise.

Inductive phase := PGroup | PFinal | PReturned.
Record rst := mkR { grp : st; ph : phase }.

Definition rinit : rst := mkR init PGroup.

Definition rwhen (b : bool) (l : list rst) : list rst := if b then l else [].

Definition lift (p : phase) (l : list st) : list rst := map (fun s => mkR s p) l.

(* the members of the group move whatever Run is doing (that is the point: if Run does not wait
   for them they are still there) *)
Definition rsteps (o : order) (g : guards) (r : rst) : list rst :=
  lift (ph r) (steps g (grp r)) ++
  match ph r with
  | PGroup =>
      (* the Canceled path: the final RA begins.  With both orderings in place only once every
         member has returned. *)
      rwhen (gc (grp r) && (negb (o_wait o && o_after o) || all_done (grp r))) [mkR (grp r) PFinal]
  | PFinal => [mkR (grp r) PReturned]          (* the final WriteTo returns; Run returns nil *)
  | PReturned => []
  end.
