(* C17 -- model of Metrics.constScrape / collectMetrics (internal/corerad/metrics.go) and of the two
   metricslite back ends which turn the collected samples into a scrape result.

   Inputs per interface ([ifin]): the configuration flags, the two State reads (None = the read failed) and the RA
   as built from configuration + plugins BEFORE the forwarding adjustment ([result ra]; Err = a plugin's Apply
   failed: not prepared, or its address / route source failed).  RA construction itself is property C01.

   Values are in nano-units: a float64 sample value v is represented by v * 10^9 (so a time.Duration d reported as
   d.Seconds() is represented by d itself, and boolFloat(true) = 1.0 by [sec]).

   [spec_samples] is the declarative listing "what a scrape must contain" (per option); [scrape] mirrors the
   code (per registered metric, picking options by type).  No proofs in this file. *)
From Coq Require Export String.
From CR Require Export Model.Types.
From CR Require Export Model.Forwarding.
From CR Require gen.ExtMetrics.
Local Open Scope Z_scope.

(* ---- samples *)

Inductive lval :=
| LId (n : N)                (* interface name (interned) *)
| LStr (s : string)          (* literal text, e.g. "interface_not_forwarding" *)
| LCidr (addr bits : N)      (* netip.PrefixFrom(addr, bits).String() *)
| LAddrs (l : list N)        (* addresses joined by ", " *)
| LIds (l : list N).         (* domain names (interned) joined by ", " *)

Definition sample : Type := string * list (string * lval) * Z.   (* metric name, labels, value * 10^9 *)

Definition bool_val (b : bool) : Z := if b then sec else 0.

(* ---- the const metrics *)

Inductive metric :=
| MAdvertising | MMonitoring | MAutoconf | MForwarding | MMisconf
| MDnssl | MPfxAutonomous | MPfxOnLink | MPfxValid | MPfxPreferred | MRdnss | MRoute.

Definition all_metrics : list metric :=
  [MAdvertising; MMonitoring; MAutoconf; MForwarding; MMisconf;
   MDnssl; MPfxAutonomous; MPfxOnLink; MPfxValid; MPfxPreferred; MRdnss; MRoute].

(* documented names (docs: "Prometheus metrics") and label names *)
Definition metric_name (m : metric) : string :=
  match m with
  | MAdvertising => "corerad_interface_advertising"
  | MMonitoring => "corerad_interface_monitoring"
  | MAutoconf => "corerad_interface_autoconfiguration"
  | MForwarding => "corerad_interface_forwarding"
  | MMisconf => "corerad_advertiser_misconfiguration"
  | MDnssl => "corerad_advertiser_dnssl_lifetime_seconds"
  | MPfxAutonomous => "corerad_advertiser_prefix_autonomous"
  | MPfxOnLink => "corerad_advertiser_prefix_on_link"
  | MPfxValid => "corerad_advertiser_prefix_valid_seconds"
  | MPfxPreferred => "corerad_advertiser_prefix_preferred_seconds"
  | MRdnss => "corerad_advertiser_rdnss_lifetime_seconds"
  | MRoute => "corerad_advertiser_route_lifetime_seconds"
  end%string.

Definition label_names (m : metric) : list string :=
  match m with
  | MAdvertising | MMonitoring | MAutoconf | MForwarding => ["interface"]
  | MMisconf => ["interface"; "details"]
  | MDnssl => ["interface"; "domains"]
  | MPfxAutonomous | MPfxOnLink | MPfxValid | MPfxPreferred => ["interface"; "prefix"]
  | MRdnss => ["interface"; "servers"]
  | MRoute => ["interface"; "route"]
  end%string.

Definition metric_of_name (s : string) : option metric :=
  find (fun m => String.eqb (metric_name m) s) all_metrics.

Definition str_mem (s : string) (l : list string) : bool := existsb (String.eqb s) l.

(* ---- per-interface input *)

Record ifin := mkIf {
  i_name : N; i_adv : bool; i_mon : bool;
  i_auto : option bool;        (* State.IPv6Autoconf(name) *)
  i_fwd : option bool;         (* State.IPv6Forwarding(name) *)
  i_build : result ra          (* configuration + plugins, before the forwarding adjustment *)
}.

(* metricsContext *)
Record mctx := mkCtx {
  x_name : N; x_adv : bool; x_auto : bool; x_fwd : bool; x_mon : bool;
  x_ra : option ra;            (* nil when the interface does not advertise *)
  x_ms : list misconf }.

(* pick[T](options) *)
Definition pick_prefix (os : list opt) := flat_map (fun o => match o with OPrefix _ _ _ _ _ _ => [o] | _ => [] end) os.
Definition pick_route (os : list opt) := flat_map (fun o => match o with ORoute _ _ _ _ => [o] | _ => [] end) os.
Definition pick_rdnss (os : list opt) := flat_map (fun o => match o with ORDNSS _ _ => [o] | _ => [] end) os.
Definition pick_dnssl (os : list opt) := flat_map (fun o => match o with ODNSSL _ _ => [o] | _ => [] end) os.

Definition ctx_opts (c : mctx) : list opt := match x_ra c with Some r => ra_opts r | None => [] end.

(* the calls c(value, labels...) made by the case of metric [m] in collectMetrics *)
Definition calls (m : metric) (c : mctx) : list (Z * list lval) :=
  let n := LId (x_name c) in
  match m with
  | MAdvertising => [(bool_val (x_adv c), [n])]
  | MAutoconf => [(bool_val (x_auto c), [n])]
  | MForwarding => [(bool_val (x_fwd c), [n])]
  | MMonitoring => [(bool_val (x_mon c), [n])]
  | MMisconf => map (fun ms => match ms with InterfaceNotForwarding => (sec, [n; LStr "interface_not_forwarding"]) end) (x_ms c)
  | MDnssl => flat_map (fun o => match o with ODNSSL l names => [(l, [n; LIds names])] | _ => [] end) (pick_dnssl (ctx_opts c))
  | MPfxAutonomous => flat_map (fun o => match o with OPrefix bits _ au _ _ a => [(bool_val au, [n; LCidr a bits])] | _ => [] end) (pick_prefix (ctx_opts c))
  | MPfxOnLink => flat_map (fun o => match o with OPrefix bits ol _ _ _ a => [(bool_val ol, [n; LCidr a bits])] | _ => [] end) (pick_prefix (ctx_opts c))
  | MPfxValid => flat_map (fun o => match o with OPrefix bits _ _ v _ a => [(v, [n; LCidr a bits])] | _ => [] end) (pick_prefix (ctx_opts c))
  | MPfxPreferred => flat_map (fun o => match o with OPrefix bits _ _ _ p a => [(p, [n; LCidr a bits])] | _ => [] end) (pick_prefix (ctx_opts c))
  | MRdnss => flat_map (fun o => match o with ORDNSS l servers => [(l, [n; LAddrs servers])] | _ => [] end) (pick_rdnss (ctx_opts c))
  | MRoute => flat_map (fun o => match o with ORoute bits _ l a => [(l, [n; LCidr a bits])] | _ => [] end) (pick_route (ctx_opts c))
  end.

(* Outcomes.  [Panic] is an explicit outcome: an unhandled metric name / misconfiguration / label cardinality
   panics in the real code. *)
Inductive outcome (A : Type) := Done (a : A) | Failed (partial : A) | Panic.
Arguments Done {A} a. Arguments Failed {A} partial. Arguments Panic {A}.

(* the collect function handed out by the back end for a registered const metric: panics when the number of label
   values differs from the number of registered label names *)
Fixpoint emit (name : string) (lnames : list string) (cs : list (Z * list lval)) : option (list sample) :=
  match cs with
  | [] => Some []
  | (v, ls) :: tl =>
      if Nat.eqb (length ls) (length lnames)
      then match emit name lnames tl with Some r => Some ((name, combine lnames ls, v) :: r) | None => None end
      else None
  end.

(* collectMetrics: `for m, c := range metrics { switch m { case ...: ... default: panic } }` over the registered
   const metrics [regs] (ExtMetrics.const_metrics); the `case` list is ExtMetrics.collect_cases. None = panic. *)
Fixpoint collect (regs : list (string * list string)) (c : mctx) : option (list sample) :=
  match regs with
  | [] => Some []
  | (name, lnames) :: tl =>
      if str_mem name ExtMetrics.collect_cases then
        match metric_of_name name with
        | Some m =>
            match emit name lnames (calls m c), collect tl c with
            | Some a, Some b => Some (a ++ b)
            | _, _ => None
            end
        | None => None
        end
      else None
  end.

(* the inner `switch m { case config.InterfaceNotForwarding: ... default: panic }` *)
Definition misconf_name (m : misconf) : string := match m with InterfaceNotForwarding => "InterfaceNotForwarding" end.
Definition misconfs_handled (ms : list misconf) : bool :=
  forallb (fun m => str_mem (misconf_name m) ExtMetrics.collect_misconf_cases) ms.

(* the RA generated for the scrape: `if ifi.Advertise { ra, ms, err = ifi.RouterAdvertisement(fwd) }`; None = error *)
Definition built (i : ifin) (fwd : bool) : option (option ra * list misconf) :=
  if i_adv i then
    match i_build i with
    | Ok r => let '(r', ms) := finalize fwd r in Some (Some r', ms)
    | Err _ => None
    end
  else Some (None, []).

(* constScrape: interfaces in configuration order; the first failing read / build aborts the whole scrape with a
   ScrapeError (samples of the interfaces before it have already been handed to the back end) *)
Fixpoint scrape_from (regs : list (string * list string)) (ifs : list ifin) (acc : list sample) : outcome (list sample) :=
  match ifs with
  | [] => Done acc
  | i :: tl =>
      match i_auto i with
      | None => Failed acc
      | Some auto =>
          match i_fwd i with
          | None => Failed acc
          | Some fwd =>
              match built i fwd with
              | None => Failed acc
              | Some (r, ms) =>
                  if misconfs_handled ms then
                    match collect regs (mkCtx (i_name i) (i_adv i) auto fwd (i_mon i) r ms) with
                    | Some ss => scrape_from regs tl (acc ++ ss)
                    | None => Panic
                    end
                  else Panic
              end
          end
      end
  end.

Definition scrape (ifs : list ifin) : outcome (list sample) := scrape_from ExtMetrics.const_metrics ifs [].

(* ---- back ends *)

Definition lval_eqb (a b : lval) : bool :=
  match a, b with
  | LId x, LId y => N.eqb x y
  | LStr x, LStr y => String.eqb x y
  | LCidr a1 b1, LCidr a2 b2 => N.eqb a1 a2 && N.eqb b1 b2
  | LAddrs x, LAddrs y => list_eqb N.eqb x y
  | LIds x, LIds y => list_eqb N.eqb x y
  | _, _ => false
  end.
(* (cheap comparisons first: these run on every pair of samples of a case) *)
Definition label_eqb (a b : string * lval) : bool := lval_eqb (snd a) (snd b) && String.eqb (fst a) (fst b).
(* same series: same metric name and same label set (label order is immaterial: Prometheus sorts by label name) *)
Definition labels_eqb (a b : list (string * lval)) : bool :=
  Nat.eqb (length a) (length b) && forallb (fun x => existsb (label_eqb x) b) a.
Definition series_eqb (a b : sample) : bool :=
  labels_eqb (snd (fst a)) (snd (fst b)) && String.eqb (fst (fst a)) (fst (fst b)).
Definition sample_eqb (a b : sample) : bool := Z.eqb (snd a) (snd b) && series_eqb a b.

Fixpoint has_dup (l : list sample) : bool :=
  match l with
  | [] => false
  | s :: tl => existsb (series_eqb s) tl || has_dup tl
  end.

(* Prometheus (pedantic registry): a scrape error and two samples of one series both fail Gather; promhttp with the
   default HandlerOpts then answers 500. *)
Inductive gather := GOk (l : list sample) | GErr | GPanic.
Definition prom_gather (o : outcome (list sample)) : gather :=
  match o with
  | Done l => if has_dup l then GErr else GOk l
  | Failed _ => GErr
  | Panic => GPanic
  end.

(* metricslite.Memory: samples are stored in a map keyed by the label values, a later sample of the same series
   overwrites the earlier one; a ScrapeError is marked by the sample (""; -1) of the reported metric. *)
Fixpoint dedup_last (l : list sample) : list sample :=
  match l with
  | [] => []
  | s :: tl => if existsb (series_eqb s) tl then dedup_last tl else s :: dedup_last tl
  end.
Inductive memory := MOk (l : list sample) | MErr (partial : list sample) | MPanic.
Definition mem_series (o : outcome (list sample)) : memory :=
  match o with
  | Done l => MOk (dedup_last l)
  | Failed l => MErr (dedup_last l)
  | Panic => MPanic
  end.

(* ---- specification: what a scrape must contain *)

Definition lbl_if (n : N) : string * lval := ("interface"%string, LId n).

Definition opt_samples (n : N) (o : opt) : list sample :=
  match o with
  | OPrefix bits onlink autonomous valid preferred a =>
      let ls := [lbl_if n; ("prefix"%string, LCidr a bits)] in
      [ (metric_name MPfxAutonomous, ls, bool_val autonomous);
        (metric_name MPfxOnLink, ls, bool_val onlink);
        (metric_name MPfxValid, ls, valid);
        (metric_name MPfxPreferred, ls, preferred) ]
  | ORoute bits _ lifetime a => [ (metric_name MRoute, [lbl_if n; ("route"%string, LCidr a bits)], lifetime) ]
  | ORDNSS lifetime servers => [ (metric_name MRdnss, [lbl_if n; ("servers"%string, LAddrs servers)], lifetime) ]
  | ODNSSL lifetime names => [ (metric_name MDnssl, [lbl_if n; ("domains"%string, LIds names)], lifetime) ]
  | _ => []
  end.

(* flags of the interface as the scrape must report them, the RA which would be sent now (None when the interface
   does not advertise) and whether that RA's lifetime was overridden because the interface does not forward *)
Definition spec_samples (n : N) (advertising monitoring autoconf forwarding : bool)
    (current : option ra) (overridden : bool) : list sample :=
  [ (metric_name MAdvertising, [lbl_if n], bool_val advertising);
    (metric_name MMonitoring, [lbl_if n], bool_val monitoring);
    (metric_name MAutoconf, [lbl_if n], bool_val autoconf);
    (metric_name MForwarding, [lbl_if n], bool_val forwarding) ]
  ++ (if overridden
      then [ (metric_name MMisconf, [lbl_if n; ("details"%string, LStr "interface_not_forwarding")], sec) ]
      else [])
  ++ flat_map (opt_samples n) (match current with Some r => ra_opts r | None => [] end).

(* the RA which the interface would send at this moment (C04: lifetime 0 when it is not forwarding), and whether its
   configured lifetime was overridden; None when the interface does not advertise or cannot build an RA *)
Definition flag (o : option bool) : bool := match o with Some b => b | None => false end.
Definition sent_ra (i : ifin) : option ra :=
  if i_adv i then match i_build i with Ok r => Some (fst (finalize (flag (i_fwd i)) r)) | Err _ => None end else None.
Definition lifetime_overridden (i : ifin) : bool :=
  if i_adv i then match i_build i with Ok r => (0 <? ra_lifetime r) && negb (flag (i_fwd i)) | Err _ => false end else false.
Definition iface_spec (i : ifin) : list sample :=
  spec_samples (i_name i) (i_adv i) (i_mon i) (flag (i_auto i)) (flag (i_fwd i)) (sent_ra i) (lifetime_overridden i).

(* everything a scrape needs can be read: both State reads succeed and an advertising interface can build its RA *)
Definition readable (i : ifin) : bool :=
  match i_auto i, i_fwd i with
  | Some _, Some _ => negb (i_adv i) || is_ok (i_build i)
  | _, _ => false
  end.
