(* Model of listener.Listen / receiveRetry (internal/corerad/listener.go) over a script of
   Conn.ReadFrom outcomes, and of the advertiser's / monitor's classification of delivered messages. *)
From CR Require Export Model.Types.
From CR Require Import gen.ExtAdvertise.
Local Open Scope Z_scope.

(* ICMPv6 types *)
Definition tRS : N := 133%N.  Definition tRA : N := 134%N.
Definition tNS : N := 135%N.  Definition tNA : N := 136%N.

Inductive read :=
| RdMsg (typ : N) (hop : N) (src : N)   (* a datagram: message type, IPv6 hop limit, source *)
| RdTimeout                             (* net.Error with Timeout() *)
| RdErr.                                (* any other read error *)

Inductive outcome := Pending | Fatal | Exhausted.

Record lres := mkL {
  delivered : list (N * N);   (* (type, source) handed to the callback, in order *)
  invalid : list N;           (* types counted in messages_received_invalid_total by the listener *)
  waits : list Z;             (* back-off waits requested, in order *)
  out : outcome }.

Definition cons_d d r := mkL (d :: delivered r) (invalid r) (waits r) (out r).
Definition cons_i t r := mkL (delivered r) (t :: invalid r) (waits r) (out r).
Definition cons_w w r := mkL (delivered r) (invalid r) (w :: waits r) (out r).

(* [i] = number of consecutive timeouts so far in the current receiveRetry call *)
Fixpoint listen (i : Z) (script : list read) : lres :=
  match script with
  | [] => mkL [] [] [] Pending
  | RdErr :: _ => mkL [] [] [] Fatal
  | RdTimeout :: rest =>
      cons_w (i * rxBackoffUnit)
        (if i + 1 <? rxRetries then listen (i + 1) rest else mkL [] [] [] Exhausted)
  | RdMsg ty hop src :: rest =>
      if (hop =? 255)%N then cons_d (ty, src) (listen 0 rest)
      else cons_i ty (listen 0 rest)
  end.

(* virtual time between consecutive ReadFrom calls: one entry per consumed outcome that is followed by
   another read (a message: 0; the j-th consecutive timeout: its back-off) *)
Fixpoint read_gaps (i : Z) (script : list read) : list Z :=
  match script with
  | [] => []
  | RdErr :: _ => []
  | RdTimeout :: rest => if i + 1 <? rxRetries then (i * rxBackoffUnit) :: read_gaps (i + 1) rest else []
  | RdMsg _ _ _ :: rest => 0 :: read_gaps 0 rest
  end.

(* what a delivered message makes an advertiser do *)
Inductive action := ASolicitUni (dst : N) | ASolicitMulti | AVerify | AIgnoreInvalid (typ : N).
Definition adv_handle (m : N * N) : action :=
  let (ty, src) := m in
  if (ty =? tRS)%N then (if (src =? 0)%N then ASolicitMulti else ASolicitUni src)
  else if (ty =? tRA)%N then AVerify
  else AIgnoreInvalid ty.

(* all types counted invalid on an advertising interface: bad hop limit (listener) + other types (handle) *)
Definition adv_invalid (r : lres) : list N :=
  invalid r ++ flat_map (fun m => match adv_handle m with AIgnoreInvalid t => [t] | _ => [] end) (delivered r).
Definition adv_unicast_targets (r : lres) : list N :=
  flat_map (fun m => match adv_handle m with ASolicitUni d => [d] | _ => [] end) (delivered r).
