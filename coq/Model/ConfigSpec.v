(* C02 -- the SPECIFICATION of the configuration parser, written clause by clause from the
   property statement and internal/config/reference.toml (not from the code's control flow):

     Accepts  : raw_config -> Prop     the documented constraints, as one conjunction
     Accepts_b: raw_config -> bool     its boolean form (reflection: Proofs/ConfigSpec.v)
     defaults : raw_config -> config   every documented default

   Shared with the model are only the vocabulary (lexed atoms, mask / overlaps / is_4in6, the
   sorting function used to present RDNSS servers) -- none of the parser's case logic.
   Definitions only -- no proofs in this file. *)
From CR Require Export Model.Config.
Local Open Scope Z_scope.

(* ---------------------------------------------------------------- documented meaning of keys *)

(* "truncated to a whole second" *)
Definition sec_floor (d : Z) : Z := d / sec * sec.

(* lifetime-valued keys: omitted or "auto" = the documented default; "infinite" = forever;
   "" = 0; otherwise a Go duration *)
Definition lifetime_value (t : dtext) (def : Z) : option Z :=
  match t with
  | DAbsent | DAuto => Some def
  | DInfinite => Some infinity
  | DEmpty => Some 0
  | DDur d => Some d
  | DJunk => None
  end.

(* max_interval, reachable_time, retransmit_timer: a Go duration; omitted or "" = the default *)
Definition interval_value (t : dtext) (def : Z) : option Z :=
  match t with
  | DAbsent | DEmpty => Some def
  | DDur d => Some d
  | DAuto | DInfinite | DJunk => None
  end.

Definition value_or (o : option Z) : Z := match o with Some v => v | None => 0 end.
Definition with_value (o : option Z) (P : Z -> Prop) : Prop :=
  match o with Some v => P v | None => False end.
Definition with_value_b (o : option Z) (P : Z -> bool) : bool :=
  match o with Some v => P v | None => false end.

(* a CIDR key: the written prefix, or [def] (the wildcard / the well-known prefix) when omitted
   or empty *)
Definition cidr_of (c : ctext) (def : N * N) : N * N :=
  match c with CPfx _ a b => (a, b) | _ => def end.
(* "canonical IPv6 CIDR": parses, is an IPv6 (not IPv4, not IPv4-mapped) prefix, no host bits *)
Definition canonical_v6 (c : ctext) : Prop :=
  match c with
  | CAbsent | CEmpty => True
  | CJunk => False
  | CPfx v4 a b => v4 = false /\ is_4in6 a = false /\ mask a b = a
  end.
Definition canonical_v6_b (c : ctext) : bool :=
  match c with
  | CAbsent | CEmpty => true
  | CJunk => false
  | CPfx v4 a b => negb v4 && negb (is_4in6 a) && N.eqb (mask a b) a
  end.

Definition pref_value (t : prtext) : pref :=
  match t with PrLow => Low | PrHigh => High | _ => Medium end.
Definition pref_ok (t : prtext) : Prop := t <> PrJunk.
Definition pref_ok_b (t : prtext) : bool := match t with PrJunk => false | _ => true end.

Definition no_overlap (p q : N * N) : Prop := overlaps (fst p) (snd p) (fst q) (snd q) = false.
Definition no_overlap_b (p q : N * N) : bool := negb (overlaps (fst p) (snd p) (fst q) (snd q)).
Fixpoint pairwise_b {A} (r : A -> A -> bool) (l : list A) : bool :=
  match l with [] => true | x :: t => forallb (r x) t && pairwise_b r t end.
Fixpoint nodup_b {A} (eqb : A -> A -> bool) (l : list A) : bool :=
  match l with [] => true | x :: t => negb (existsb (eqb x) t) && nodup_b eqb t end.

Definition in_range (lo v hi : Z) : Prop := lo <= v <= hi.
Definition in_range_b (lo v hi : Z) : bool := (lo <=? v) && (v <=? hi).

(* ---------------------------------------------------------------- prefix stanzas *)

Definition wild_prefix : N * N := (0%N, 64%N).      (* ::/64 *)
Definition wild_route : N * N := (0%N, 0%N).        (* ::/0  *)
Definition prefix_cidr (p : raw_prefix) : N * N := cidr_of (rp_prefix p) wild_prefix.
Definition route_cidr (r : raw_route) : N * N := cidr_of (rr_prefix r) wild_route.

Definition prefix_valid (p : raw_prefix) : option Z := lifetime_value (rp_valid p) (24 * hour).
Definition prefix_preferred (p : raw_prefix) : option Z := lifetime_value (rp_preferred p) (4 * hour).

(* canonical IPv6 CIDR, no /128, only ::/64 with an unspecified address; lifetimes positive (or
   infinite) and within the wire range, preferred <= valid, deprecated -> finite *)
Definition prefix_ok (p : raw_prefix) : Prop :=
  canonical_v6 (rp_prefix p) /\
  snd (prefix_cidr p) <> 128%N /\
  (fst (prefix_cidr p) = 0%N -> snd (prefix_cidr p) = 64%N) /\
  with_value (prefix_valid p) (fun valid =>
  with_value (prefix_preferred p) (fun preferred =>
    0 < valid <= infinity /\ 0 < preferred <= infinity /\ preferred <= valid /\
    (rp_deprecated p = true -> valid <> infinity /\ preferred <> infinity))).
Definition prefix_ok_b (p : raw_prefix) : bool :=
  canonical_v6_b (rp_prefix p) &&
  negb (N.eqb (snd (prefix_cidr p)) 128) &&
  (negb (N.eqb (fst (prefix_cidr p)) 0) || N.eqb (snd (prefix_cidr p)) 64) &&
  with_value_b (prefix_valid p) (fun valid =>
  with_value_b (prefix_preferred p) (fun preferred =>
    (0 <? valid) && (valid <=? infinity) && (0 <? preferred) && (preferred <=? infinity) &&
    (preferred <=? valid) &&
    (negb (rp_deprecated p) || (negb (valid =? infinity) && negb (preferred =? infinity))))).

Definition opt_true (o : option bool) : bool := match o with Some v => v | None => true end.
Definition pair_eqb (p q : N * N) : bool := N.eqb (fst p) (fst q) && N.eqb (snd p) (snd q).

Definition prefix_default (p : raw_prefix) : plugin :=
  PPrefix (pair_eqb (prefix_cidr p) wild_prefix) (fst (prefix_cidr p)) (snd (prefix_cidr p))
    (opt_true (rp_on_link p)) (opt_true (rp_autonomous p))
    (value_or (prefix_valid p)) (value_or (prefix_preferred p)) (rp_deprecated p).

(* ---------------------------------------------------------------- route stanzas *)

Definition route_lifetime_v (r : raw_route) : option Z := lifetime_value (rr_lifetime r) (24 * hour).

Definition route_ok (r : raw_route) : Prop :=
  canonical_v6 (rr_prefix r) /\
  (fst (route_cidr r) = 0%N -> snd (route_cidr r) = 0%N) /\
  pref_ok (rr_pref r) /\
  with_value (route_lifetime_v r) (fun lt =>
    0 < lt <= infinity /\ (rr_deprecated r = true -> lt <> infinity)).
Definition route_ok_b (r : raw_route) : bool :=
  canonical_v6_b (rr_prefix r) &&
  (negb (N.eqb (fst (route_cidr r)) 0) || N.eqb (snd (route_cidr r)) 0) &&
  pref_ok_b (rr_pref r) &&
  with_value_b (route_lifetime_v r) (fun lt =>
    (0 <? lt) && (lt <=? infinity) && (negb (rr_deprecated r) || negb (lt =? infinity))).

Definition route_default (r : raw_route) : plugin :=
  PRoute (pair_eqb (route_cidr r) wild_route) (fst (route_cidr r)) (snd (route_cidr r))
    (pref_value (rr_pref r)) (value_or (route_lifetime_v r)) (rr_deprecated r).

Definition not_wild_route (p : N * N) : bool := negb (pair_eqb p wild_route).

(* ---------------------------------------------------------------- RDNSS / DNSSL stanzas *)

(* a plain IPv6 server address: not IPv4, not IPv4-mapped, no zone *)
Definition server_key (s : atext) : option skey :=
  match s with
  | AAddr false a z => if is_4in6 a then None else if N.ltb 0 z then None else Some (a, z)
  | _ => None
  end.
Definition server_keys (l : list atext) : list skey :=
  flat_map (fun s => match server_key s with Some k => [k] | None => [] end) l.
Definition is_some {A} (o : option A) : bool := match o with Some _ => true | None => false end.
Definition wild_server : skey := (0%N, 0%N).        (* :: *)

Definition rdnss_lifetime_v (mx : Z) (d : raw_rdnss) : option Z := lifetime_value (rd_lifetime d) (3 * mx).

(* lifetime not negative (and within the wire range); servers unique IPv6 (hence at most one ::) *)
Definition rdnss_ok (mx : Z) (d : raw_rdnss) : Prop :=
  with_value (rdnss_lifetime_v mx d) (fun lt => 0 <= lt <= infinity) /\
  Forall (fun s => server_key s <> None) (rd_servers d) /\
  NoDup (server_keys (rd_servers d)).
Definition rdnss_ok_b (mx : Z) (d : raw_rdnss) : bool :=
  with_value_b (rdnss_lifetime_v mx d) (fun lt => in_range_b 0 lt infinity) &&
  forallb (fun s => is_some (server_key s)) (rd_servers d) &&
  nodup_b skey_eqb (server_keys (rd_servers d)).

(* an empty server list means the wildcard; the wildcard itself is not listed among the static
   servers, which are presented in address order *)
Definition rdnss_default (mx : Z) (d : raw_rdnss) : plugin :=
  let keys := server_keys (rd_servers d) in
  PRDNSS (match rd_servers d with [] => true | _ => existsb (skey_eqb wild_server) keys end)
    (value_or (rdnss_lifetime_v mx d))
    (map skey_enc (sk_sort (filter (fun k => negb (skey_eqb wild_server k)) keys))).

Definition dnssl_lifetime_v (mx : Z) (d : raw_dnssl) : option Z := lifetime_value (rn_lifetime d) (3 * mx).
Definition dnssl_ok (mx : Z) (d : raw_dnssl) : Prop :=
  with_value (dnssl_lifetime_v mx d) (fun lt => 0 <= lt <= infinity) /\
  rn_names d <> [] /\ NoDup (rn_names d).
Definition dnssl_ok_b (mx : Z) (d : raw_dnssl) : bool :=
  with_value_b (dnssl_lifetime_v mx d) (fun lt => in_range_b 0 lt infinity) &&
  negb (match rn_names d with [] => true | _ => false end) && nodup_b N.eqb (rn_names d).
Definition dnssl_default (mx : Z) (d : raw_dnssl) : plugin :=
  PDNSSL (value_or (dnssl_lifetime_v mx d)) (rn_names d).

(* ---------------------------------------------------------------- PREF64 stanzas *)

Definition well_known_pref64 : N * N := (524413980667603649783483181312245760%N, 96%N).   (* 64:ff9b::/96 *)
Definition pref64_cidr (p : raw_pref64) : N * N := cidr_of (r6_prefix p) well_known_pref64.
Definition nat64_lengths : list N := [96; 64; 56; 48; 40; 32]%N.

(* "a NAT64-sized IPv6 prefix" *)
Definition pref64_ok (p : raw_pref64) : Prop :=
  canonical_v6 (r6_prefix p) /\ In (snd (pref64_cidr p)) nat64_lengths.
Definition pref64_ok_b (p : raw_pref64) : bool :=
  canonical_v6_b (r6_prefix p) && existsb (N.eqb (snd (pref64_cidr p))) nat64_lengths.
(* RFC 8781 4.1: 3 * max_interval rounded up to the option's 8 s unit, at most 8191 * 8 s *)
Definition pref64_lifetime (mx : Z) : Z :=
  Z.min (65528 * sec) ((3 * mx + (8 * sec - 1)) / (8 * sec) * (8 * sec)).
Definition pref64_default (mx : Z) (p : raw_pref64) : plugin :=
  PPref64 false (fst (pref64_cidr p)) (snd (pref64_cidr p)) (pref64_lifetime mx).

(* ---------------------------------------------------------------- interface stanzas *)

Definition max_interval_v (st : raw_iface) : option Z := interval_value (ri_max st) (600 * sec).
Definition reachable_v (st : raw_iface) : option Z := interval_value (ri_reachable st) 0.
Definition retrans_v (st : raw_iface) : option Z := interval_value (ri_retrans st) 0.
Definition hop_v (st : raw_iface) : Z := match ri_hop st with Some h => h | None => 64 end.
Definition default_lifetime_v (mx : Z) (st : raw_iface) : option Z := lifetime_value (ri_lifetime st) (3 * mx).

(* 3s <= min_interval <= 0.75 * max_interval (truncated to a whole second); "" / "auto" / omitted
   = computed *)
Definition min_interval_ok (t : dtext) (mx : Z) : Prop :=
  match t with
  | DAbsent | DEmpty | DAuto => True
  | DDur mn => 3 * sec <= mn <= sec_floor (3 * mx / 4)
  | DInfinite | DJunk => False
  end.
Definition min_interval_ok_b (t : dtext) (mx : Z) : bool :=
  match t with
  | DAbsent | DEmpty | DAuto => true
  | DDur mn => in_range_b (3 * sec) mn (sec_floor (3 * mx / 4))
  | DInfinite | DJunk => false
  end.
(* min 0.33 * max truncated to a second, or max when max < 9s *)
Definition min_interval_default (t : dtext) (mx : Z) : Z :=
  match t with
  | DDur mn => mn
  | _ => if mx <? 9 * sec then mx else sec_floor (33 * mx / 100)
  end.

(* captive_portal: empty / omitted, or a URI that ndp accepts and that is non-empty once normalized *)
Definition captive_ok (u : utext) : Prop := u <> UBad /\ u <> UOk 0%N.
Definition captive_ok_b (u : utext) : bool :=
  match u with UBad => false | UOk u => negb (N.eqb u 0) | UEmpty => true end.

(* the constraints on an advertising (non-monitor) interface *)
Definition advertising_ok (st : raw_iface) : Prop :=
  with_value (max_interval_v st) (fun mx =>
    4 * sec <= mx <= 1800 * sec /\
    min_interval_ok (ri_min st) mx /\
    with_value (reachable_v st) (fun r => 0 <= r <= hour) /\
    with_value (retrans_v st) (fun r => 0 <= r <= hour) /\
    0 <= hop_v st <= 255 /\
    with_value (default_lifetime_v mx st) (fun lt => lt = 0 \/ mx <= lt <= 9000 * sec) /\
    pref_ok (ri_pref st) /\
    Forall prefix_ok (ri_prefixes st) /\
    ForallOrdPairs no_overlap (map prefix_cidr (ri_prefixes st)) /\
    Forall route_ok (ri_routes st) /\
    ForallOrdPairs no_overlap (filter not_wild_route (map route_cidr (ri_routes st))) /\
    Forall (rdnss_ok mx) (ri_rdnss st) /\
    Forall (dnssl_ok mx) (ri_dnssl st) /\
    0 <= ri_mtu st <= 65536 /\
    captive_ok (ri_captive st) /\
    Forall pref64_ok (ri_pref64 st)).
Definition advertising_ok_b (st : raw_iface) : bool :=
  with_value_b (max_interval_v st) (fun mx =>
    in_range_b (4 * sec) mx (1800 * sec) &&
    min_interval_ok_b (ri_min st) mx &&
    with_value_b (reachable_v st) (fun r => in_range_b 0 r hour) &&
    with_value_b (retrans_v st) (fun r => in_range_b 0 r hour) &&
    in_range_b 0 (hop_v st) 255 &&
    with_value_b (default_lifetime_v mx st) (fun lt => (lt =? 0) || in_range_b mx lt (9000 * sec)) &&
    pref_ok_b (ri_pref st) &&
    forallb prefix_ok_b (ri_prefixes st) &&
    pairwise_b no_overlap_b (map prefix_cidr (ri_prefixes st)) &&
    forallb route_ok_b (ri_routes st) &&
    pairwise_b no_overlap_b (filter not_wild_route (map route_cidr (ri_routes st))) &&
    forallb (rdnss_ok_b mx) (ri_rdnss st) &&
    forallb (dnssl_ok_b mx) (ri_dnssl st) &&
    in_range_b 0 (ri_mtu st) 65536 &&
    captive_ok_b (ri_captive st) &&
    forallb pref64_ok_b (ri_pref64 st)).

(* the interface names a stanza stands for *)
Definition stanza_names (st : raw_iface) : list N :=
  (if N.eqb (ri_name st) 0 then [] else [ri_name st]) ++ ri_names st.

(* exactly one of name / names; monitor and advertise not both; a monitor interface is exempt
   from the advertising constraints (it carries no advertising settings) *)
Definition stanza_ok (st : raw_iface) : Prop :=
  ((ri_name st <> 0%N /\ ri_names st = []) \/ (ri_name st = 0%N /\ ri_names st <> [])) /\
  ~ (ri_monitor st = true /\ ri_advertise st = true) /\
  (ri_monitor st = false -> advertising_ok st).
Definition stanza_ok_b (st : raw_iface) : bool :=
  xorb (negb (N.eqb (ri_name st) 0)) (negb (match ri_names st with [] => true | _ => false end)) &&
  negb (ri_monitor st && ri_advertise st) &&
  (ri_monitor st || advertising_ok_b st).

Definition plugins_default (st : raw_iface) (mx : Z) : list plugin :=
  map prefix_default (ri_prefixes st) ++ map route_default (ri_routes st) ++
  map (rdnss_default mx) (ri_rdnss st) ++ map (dnssl_default mx) (ri_dnssl st) ++
  (if ri_mtu st =? 0 then [] else [PMTU (ri_mtu st)]) ++
  (match ri_source_lla st with Some false => [] | _ => [PLLA] end) ++
  (match ri_captive st with UOk u => [PCaptive u] | _ => [] end) ++
  map (pref64_default mx) (ri_pref64 st).

Definition iface_default (st : raw_iface) (name : N) : iface :=
  if ri_monitor st
  then (* monitor interfaces carry no advertising settings *)
    mkIface name true false (ri_verbose st) 0 0 false false 0 0 0%N 0 false Medium []
  else
    let mx := value_or (max_interval_v st) in
    mkIface name false (ri_advertise st) (ri_verbose st)
      (min_interval_default (ri_min st) mx) mx (ri_managed st) (ri_other st)
      (value_or (reachable_v st)) (value_or (retrans_v st)) (Z.to_N (hop_v st))
      (value_or (default_lifetime_v mx st)) (ri_unicast_only st) (pref_value (ri_pref st))
      (plugins_default st mx).

Definition stanza_default (st : raw_iface) : list iface := map (iface_default st) (stanza_names st).

(* ---------------------------------------------------------------- the whole document *)

Definition debug_ok (d : raw_debug) : Prop := rdbg_address d = 0%N \/ rdbg_resolves d = true.
Definition debug_ok_b (d : raw_debug) : bool := N.eqb (rdbg_address d) 0 || rdbg_resolves d.
(* the [debug] table is only taken over when an address is set *)
Definition debug_default (d : raw_debug) : debug :=
  if N.eqb (rdbg_address d) 0 then mkDbg 0 false false
  else mkDbg (rdbg_address d) (rdbg_prometheus d) (rdbg_pprof d).

(* "no unknown keys" / well-typed TOML is the decoder's part and outside this model: a
   raw_config exists only for documents that decode. *)
Definition Accepts (raw : raw_config) : Prop :=
  rc_ifaces raw <> [] /\
  debug_ok (rc_debug raw) /\
  Forall stanza_ok (rc_ifaces raw) /\
  NoDup (flat_map stanza_names (rc_ifaces raw)).
Definition Accepts_b (raw : raw_config) : bool :=
  negb (match rc_ifaces raw with [] => true | _ => false end) &&
  debug_ok_b (rc_debug raw) &&
  forallb stanza_ok_b (rc_ifaces raw) &&
  nodup_b N.eqb (flat_map stanza_names (rc_ifaces raw)).

Definition defaults (raw : raw_config) : config :=
  (flat_map stanza_default (rc_ifaces raw), debug_default (rc_debug raw)).
