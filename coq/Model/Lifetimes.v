(* Model of plugin.Prefix.lifetimes / plugin.Route.lifetime (internal/plugin/plugin.go).
   Instants and durations are Z nanoseconds.  time.Time saturation is outside the model:
   the theorems assume |now - epoch| and the lifetimes stay well inside int64 (stated there). *)
From CR Require Export Model.Types.
Local Open Scope Z_scope.

(* now.Equal(d) || now.After(d) -> 0, else d.Sub(now) *)
Definition remaining (epoch L now : Z) : Z :=
  let d := epoch + L in
  if (now =? d) || (d <? now) then 0 else d - now.

Definition prefix_lifetimes (deprecated : bool) (epoch valid preferred now : Z) : Z * Z :=
  if deprecated then (remaining epoch valid now, remaining epoch preferred now)
  else (valid, preferred).

Definition route_lifetime (deprecated : bool) (epoch L now : Z) : Z :=
  if deprecated then remaining epoch L now else L.
