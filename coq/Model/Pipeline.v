(* Where in the life of a scheduled transmission the RA is built (internal/corerad/advertise.go:
   schedule -> time.AfterFunc -> sendWorker -> send -> buildRA -> WriteTo).  A transmission is requested at
   [requested] (a solicitation is accepted, the multicast loop ticks) and its timer fires at [fired]
   (0..500 ms later for a solicited answer, up to 3 s later for a rate-limited multicast RA); the RA that is
   handed to the socket at [fired] describes the instant at which it was BUILT.  The three flags are extracted
   from the source on every run (gen/ExtFresh.v). *)
From CR Require Export Model.Lifetimes.
Local Open Scope Z_scope.

Record pipeline := mkPipeline {
  build_in_send : bool;     (* send builds the RA and writes that RA *)
  send_in_worker : bool;    (* sendWorker calls send itself *)
  worker_in_timer : bool    (* schedule calls sendWorker from the timer callback and builds nothing outside it *)
}.

Definition built_at (p : pipeline) (requested fired : Z) : Z :=
  if build_in_send p && send_in_worker p && worker_in_timer p then fired else requested.

(* lifetime of a deprecated prefix / route in the RA on the wire at [fired] *)
Definition wire_lifetime (p : pipeline) (epoch L requested fired : Z) : Z :=
  remaining epoch L (built_at p requested fired).

(* transmissions in the order in which they reach the wire: (requested, fired) *)
Definition wire_sequence (p : pipeline) (epoch L : Z) (txs : list (Z * Z)) : list Z :=
  map (fun t => wire_lifetime p epoch L (fst t) (snd t)) txs.
