(* Record of the defect repaired by fixes/rdnss-zone.diff: before the fix parseRDNSS kept a zoned server
   (fe80::1%eth0) as a map key different from the unzoned address, so one address could be configured --
   and advertised -- more than once.  [legacy_parse_rdnss] models the code before the fix (the key of a
   server is its address plus "has a zone"); the result lists the addresses that reach the option. *)
From CR Require Import Model.Wildcard.
Local Open Scope N_scope.

Definition lkey := (N * bool)%type.
Definition lkey_eqb (x y : lkey) : bool := (fst x =? fst y) && Bool.eqb (snd x) (snd y).
Definition lmem (x : lkey) (l : list lkey) : bool := existsb (lkey_eqb x) l.

Fixpoint legacy_parse_servers (auto : bool) (set : list lkey) (l : list raw_server) : result (bool * list lkey) :=
  match l with
  | [] => Ok (auto, set)
  | RSbad :: _ => Err perr_parse
  | RSnot6 :: _ => Err perr_not6
  | RSzone a :: tl =>                     (* ip.IsUnspecified() is false for "::%zone" *)
      if lmem (a, true) set then Err perr_dup else legacy_parse_servers auto ((a, true) :: set) tl
  | RS6 a :: tl =>
      if is_unspecified a then (if auto then Err perr_wild_twice else legacy_parse_servers true set tl)
      else if lmem (a, false) set then Err perr_dup
      else legacy_parse_servers auto ((a, false) :: set) tl
  end.

Definition legacy_parse_rdnss (servers : list raw_server) : result (bool * list N) :=
  match servers with
  | [] => Ok (true, [])
  | _ => match legacy_parse_servers false [] servers with
         | Err e => Err e
         | Ok (auto, set) => Ok (auto, map fst (isort fst set))
         end
  end.

(* servers = ["::", "fe80::1", "fe80::1%eth0"] was accepted and put fe80::1 into the option twice
   (reproduced on the real code: replay c14cfg-seq-0.4.13) *)
Lemma legacy_parse_rdnss_refuted :
  exists raw auto servers, legacy_parse_rdnss raw = Ok (auto, servers) /\ ~ NoDup servers.
Proof.
  exists [RS6 0; RS6 0xfe800000000000000000000000000001; RSzone 0xfe800000000000000000000000000001],
         true, [0xfe800000000000000000000000000001; 0xfe800000000000000000000000000001].
  split; [vm_compute; reflexivity|].
  intros H. inversion H as [|x l Hn _]; subst. apply Hn. left; reflexivity.
Qed.

(* the repaired parser refuses it *)
Lemma repaired_parse_rdnss_rejects :
  is_ok (parse_rdnss [RS6 0; RS6 0xfe800000000000000000000000000001; RSzone 0xfe800000000000000000000000000001]) = false.
Proof. vm_compute. reflexivity. Qed.
