# Generic check runner: every property module in props/ describes itself with a SPEC dict and
# (optionally) hooks; this file turns that into the verdict contract of MANIFEST.json.
import collections
import hashlib
import json
import os
import subprocess
import sys
import time

from . import vlib
from .vlib import log

BASE_TRUSTED = [
    "Coq 8.16.1 kernel incl. the vm_compute virtual machine (used for reflection over closed terms and for evaluating cases); native_compute not used",
    "goextract (Go AST -> coq/gen/*.v) reads the right syntactic places of the staged /repo tree",
    "correspondence check: Go drivers + fakes under harness/overlay, rendering of cases to Gallina terms, coqc evaluating agree/holds",
    "modelled, not verified: Go runtime, stdlib (time, net/netip, math/rand), go-toml, mdlayher/ndp codec, schedgroup, errgroup, metricslite/prometheus",
]


def run(spec, tier, replay=None):
    ctx = vlib.Ctx(spec["id"], tier=tier, replay=replay)
    if replay:
        # a replay file names one case; regenerate exactly it (same seed, same tier) on the current tree
        rp = json.load(open(replay))
        c = rp.get("case") or (rp.get("first_disagreements") or [None])[0] or rp
        if isinstance(c, dict) and "id" in c:
            ctx.seed = int(c.get("seed", ctx.seed))
            ctx.tier = c.get("tier", ctx.tier)
            ctx.only = c["id"]
            log("replaying case %s (seed %d, tier %s)" % (ctx.only, ctx.seed, ctx.tier))
    try:
        return _run(ctx, spec)
    finally:
        ctx.cleanup()


def _run(ctx, spec):
    prop = spec["id"]
    pfile = spec.get("property_file", "Properties/%s.v" % prop)
    corr = spec.get("corr_module", "Corr.%s" % prop)
    corr_file = corr.replace(".", "/") + ".v"
    violations = []           # (kind, replay_path, suffix)
    vlib.stage_repo(ctx)
    if "stage_hook" in spec:
        # source-level seam applied to the STAGED copy only (never to /repo); it must raise when
        # its patterns are not found exactly (= broken tie)
        try:
            spec["stage_hook"](ctx.repo)
        except Exception as e:  # noqa
            ctx.broken.append(("stage-hook", spec["id"], str(e)[-1500:]))

    # ---- 1. Coq side: regenerate extracted facts, rebuild the cone, read Print Assumptions
    extra_corr = sorted({d["corr_module"].replace(".", "/") + ".v" for d in spec.get("drivers", []) if d.get("corr_module")}
                        | {m.replace(".", "/") + ".v" for m in spec.get("extra_corr_modules", [])})
    targets = [pfile[:-2] + ".vo", corr_file[:-2] + ".vo"] + [t[:-2] + ".vo" for t in spec.get("extra_targets", []) + extra_corr]
    ok, failing, out = vlib.prepare_coq(ctx, targets)
    names, bad = vlib.obligations(ctx.coq, pfile)
    proofs_ok = ok and not bad
    closed, axioms, pa_out = 0, [], ""
    if ok:
        pa_ok, closed, axioms, pa_out = vlib.print_assumptions(ctx.coq, pfile, ctx.scratch)
        proofs_ok = proofs_ok and pa_ok
    coqchk_note = "coqchk: not run in the quick tier"
    if ok and ctx.tier == "thorough":
        # independent re-check of the compiled property module and everything it depends on
        mod = "CR." + pfile[:-2].replace("/", ".")
        try:
            cp = subprocess.run(["coqchk", "-silent", "-o", "-R", ".", "CR", mod], cwd=ctx.coq,
                                stdout=subprocess.PIPE, stderr=subprocess.STDOUT, text=True, timeout=3000)
            m = __import__("re").search(r"\* Axioms:(.*?)\n\s*\n", cp.stdout, __import__("re").S)
            axs = " ".join(m.group(1).split()) if m else "?"
            coqchk_note = "coqchk -silent -o %s: exit %d, axioms: %s" % (mod, cp.returncode, axs)
            if cp.returncode != 0:
                ctx.broken.append(("coqchk", mod, cp.stdout[-1500:]))
                proofs_ok = False
        except subprocess.TimeoutExpired:
            coqchk_note = "coqchk timed out"
    if not ok:
        log(out[-4000:])
        ctx.broken.append(("proof", ", ".join(failing) or pfile, out[-1500:]))
    if bad:
        ctx.broken.append(("forbidden-vernacular", ", ".join(bad), ""))
    corr_ok = os.path.exists(os.path.join(ctx.coq, corr_file[:-2] + ".vo"))
    if not corr_ok:
        # models/checkers do not depend on proofs; try to build just them
        ok2, _, out2 = vlib.make_coq(ctx.coq, [corr_file[:-2] + ".vo"])
        corr_ok = ok2

    # ---- 2. implementation side: drivers
    all_cases, dist = [], collections.Counter()
    driver_walls = {}
    for k, d in enumerate(spec.get("drivers", [])):
        if d.get("tiers") and ctx.tier not in d["tiers"]:
            continue
        denv = dict(d.get("env") or {})
        if getattr(ctx, "only", None):
            denv["VERIF_ONLY"] = ctx.only
        r = vlib.run_driver(ctx, d["pkg"], d["test"], newgo=d.get("newgo", False),
                            extra=denv, timeout=(d.get("timeout", 900) if not isinstance(d.get("timeout"), dict) else d["timeout"].get(ctx.tier, 900)),
                            race=d.get("race", False) and ctx.tier == "thorough", tag=str(k))
        driver_walls[d["test"]] = round(r.wall, 1)
        if not r.compiled:
            log(r.out[-4000:])
            ctx.broken.append(("driver-build", d["test"], r.out[-1500:]))
            continue
        if not r.ok:
            log(r.out[-6000:])
            # a driver failing by itself (panic, timeout, assertion on the implementation only)
            ctx.broken.append(("driver-run", d["test"], r.out[-3000:]))
        for c in r.cases:
            c["_driver"] = d["test"]
            c["_corr"] = c.get("corr") or d.get("corr_module", corr)
        all_cases += r.cases
        # the same driver once more on a 32-bit platform (routers are often 32-bit ARM / MIPS: `int` is 32 bits,
        # 64-bit atomics need alignment): quick-size streams, same model, same checkers
        if ctx.tier in d.get("arch386", ["thorough"]) and not d.get("race"):
            env386 = dict(denv)
            env386.update({"GOARCH": "386", "VERIF_TIER": "quick"})
            r3 = vlib.run_driver(ctx, d["pkg"], d["test"], newgo=d.get("newgo", False), extra=env386,
                                 timeout=d["timeout"].get("quick", 900) if isinstance(d.get("timeout"), dict) else d.get("timeout", 900),
                                 race=False, tag=str(k) + "x386")
            driver_walls[d["test"] + "@386"] = round(r3.wall, 1)
            if not r3.compiled:
                log(r3.out[-4000:])
                ctx.broken.append(("driver-build", d["test"] + "@386", r3.out[-1500:]))
            else:
                if not r3.ok:
                    log(r3.out[-6000:])
                    ctx.broken.append(("driver-run", d["test"] + "@386", r3.out[-3000:]))
                for c in r3.cases:
                    c["_driver"] = d["test"] + "@386"
                    c["_corr"] = c.get("corr") or d.get("corr_module", corr)
                    c["tags"] = list(c.get("tags", [])) + ["arch:386"]
                    c["id"] = str(c.get("id")) + "@386"
                all_cases += r3.cases

    # implementation-only assertions reported by drivers ({"impl_violation": "...", ...})
    eval_cases = []
    for c in all_cases:
        for t in c.get("tags", []):
            dist[t] += 1
        if "impl_violation" in c:
            klass = c.get("class")
            kf = vlib.known_findings()
            if klass and (prop, klass) in kf:
                if klass not in ctx.known_printed:
                    print("KNOWN-FINDING: property=%s %s" % (prop, kf[(prop, klass)]))
                    ctx.known_printed.add(klass)
            else:
                violations.append(("impl", vlib.save_replay(ctx, "impl", c), ""))
        if "coq" in c:
            eval_cases.append(c)

    # ---- 3. evaluate agree / holds / known in Coq (a property may have several case types)
    res = {}
    corr_modules = sorted({c["_corr"] for c in eval_cases})
    for cm in corr_modules:
        cm_file = cm.replace(".", "/") + ".v"
        if not os.path.exists(os.path.join(ctx.coq, cm_file[:-2] + ".vo")):
            ok3, _, _ = vlib.make_coq(ctx.coq, [cm_file[:-2] + ".vo"])
            if not ok3:
                ctx.broken.append(("corr-build", cm_file, ""))
                continue
        idx = [i for i, c in enumerate(eval_cases) if c["_corr"] == cm]
        try:
            sub = vlib.coq_eval(ctx, cm, [eval_cases[i] for i in idx])
            for k, v in sub.items():
                res[idx[k]] = v
        except RuntimeError as e:
            log(str(e)[-4000:])
            ctx.broken.append(("case-eval", cm, str(e)[-1500:]))

    classes = spec.get("known_classes", {})
    kf = vlib.known_findings()
    disagreements = []
    for i, (agree, holds, known) in sorted(res.items()):
        c = eval_cases[i]
        if not holds:
            klass = classes.get(known)
            if klass and (prop, klass) in kf:
                if klass not in ctx.known_printed:
                    print("KNOWN-FINDING: property=%s %s" % (prop, kf[(prop, klass)]))
                    ctx.known_printed.add(klass)
                continue
            violations.append(("holds", vlib.save_replay(ctx, "fail", {
                "property": prop, "what": "the specification checker rejects the implementation's observed behaviour on this input",
                "agree_with_model": agree, "case": c}), ""))
        elif not agree:
            disagreements.append(c)

    # ---- 4. tie broken but no failing input found
    if not violations and (disagreements or ctx.broken):
        payload = {"property": prop,
                   "what": "the proof or the model/implementation correspondence no longer checks; no concrete failing input was found",
                   "broken": [{"kind": k, "name": n, "detail": d} for k, n, d in ctx.broken],
                   "first_disagreements": disagreements[:5],
                   "disagreements": len(disagreements)}
        violations.append(("tie", vlib.save_replay(ctx, "tie", payload), " no-failing-input-found"))

    # ---- 5. evidence
    nontriv = spec.get("nontrivial", lambda c: True)
    seen = set()
    for c in all_cases:
        if nontriv(c):
            key = hashlib.sha1(json.dumps(c.get("input", c.get("coq")), sort_keys=True, default=str).encode()).hexdigest()
            seen.add(key)
    samples = [{k: v for k, v in c.items() if k in ("input", "observed", "tags", "desc")} for c in all_cases[:3]]
    if not samples:
        samples = names[:5]
    coverage = {
        "obligations": len(names),
        "discharged": len(names) if proofs_ok else 0,
        "checker_cmd": "cd coq && coq_makefile -f _CoqProject -o Makefile && make -j16 %s   # full .vo build, then coqc %s for Print Assumptions" % (" ".join(targets), pfile),
        "trusted_base": BASE_TRUSTED + spec.get("trusted", []) + [
            "Print Assumptions (%s): %s" % (pfile, ("%d theorems closed under the global context" % closed) +
                                            ("; axioms: " + ", ".join(axioms) if axioms else "; no axioms")),
            coqchk_note],
        "evaluations": len(all_cases),
        "distinct_nontrivial": len(seen),
        "rule": spec.get("rule", ""),
        "samples": samples,
        "traces_validated_against_impl": len(eval_cases),
        "disagreements": len(disagreements),
        "input_distribution": dict(dist),
        "theorems": [n for n in names if n.startswith(pfile)],
        "driver_wall_s": driver_walls,
        "notes": ctx.notes,
        "explanation": spec.get("explanation", ""),
    }
    if not ctx.replay:
        vlib.write_evidence(ctx, coverage, spec.get("assumptions", []), len(violations))

    if violations:
        # one line, the most concrete violation first
        order = {"holds": 0, "impl": 1, "tie": 2}
        violations.sort(key=lambda v: order[v[0]])
        kind, path, suffix = violations[0]
        print("VIOLATION property=%s replay=%s%s" % (prop, path, suffix))
        return 1
    print("OK property=%s tier=%s cases=%d obligations=%d wall=%.1fs" % (
        prop, ctx.tier, len(all_cases), len(names), time.time() - ctx.t0))
    return 0
