# Shared machinery for the corerad property checks (see DESIGN.md section 4, INFRA.md).
#
# One check run =
#   stage /repo's working tree (+ overlay drivers) into a scratch directory
#   regenerate coq/gen/*.v from the staged source (goextract) into a scratch copy
#     of the Coq tree and `make` the property's cone there (no-op when unchanged)
#   run the Go driver(s) on the staged tree -> JSONL cases
#   evaluate agree/holds/known for every case inside Coq (vm_compute)
#   decide the verdict, write replay + evidence.
import concurrent.futures
import hashlib
import json
import os
import re
import shutil
import subprocess
import sys
import tempfile
import time

VERIF = os.path.dirname(os.path.dirname(os.path.abspath(__file__)))
REPO = os.environ.get("VERIF_REPO", "/repo")
SCRATCH_BASE = os.environ.get("VERIF_SCRATCH", "/var/tmp")
NEWGO = "/opt/veriftools/go1.26.8/bin"
FORBIDDEN = re.compile(
    r"\b(Admitted|admit|Axiom|Axioms|Parameter|Parameters|Conjecture|Conjectures|"
    r"Unset\s+Guard\s+Checking|Unset\s+Positivity\s+Checking|Unset\s+Universe\s+Checking|"
    r"bypass_check|Admit\s+Obligations|type-in-type|impredicative-set)\b")
OBLIGATION = re.compile(
    r"^\s*(?:Local\s+|Global\s+|#\[[^\]]*\]\s*)*(Theorem|Lemma|Corollary|Example|Fact|Remark|Proposition)\s+([A-Za-z0-9_']+)",
    re.M)


def log(*a):
    print(*a, file=sys.stderr, flush=True)


class Ctx:
    def __init__(self, prop, tier="quick", seed=None, replay=None):
        self.prop = prop
        self.tier = tier
        self.seed = int(seed if seed is not None else os.environ.get("VERIF_SEED", "20260930"))
        self.replay = replay
        self.t0 = time.time()
        self.scratch = tempfile.mkdtemp(prefix="verif-%s-" % prop, dir=SCRATCH_BASE)
        self.repo = None       # staged copy
        self.coq = None        # scratch copy of the Coq tree
        self.notes = []        # free text for the evidence
        self.broken = []       # broken ties / proofs: (kind, name, detail)
        self.known_printed = set()

    def cleanup(self):
        if os.environ.get("VERIF_KEEP"):
            log("scratch kept:", self.scratch)
            return
        # go's module cache files are read-only; ours are not, but be robust.
        subprocess.run(["chmod", "-R", "u+w", self.scratch], stderr=subprocess.DEVNULL)
        shutil.rmtree(self.scratch, ignore_errors=True)


# --------------------------------------------------------------------------- staging

def stage_repo(ctx):
    """Copy /repo's current working tree (not .git) and the overlay drivers."""
    dst = os.path.join(ctx.scratch, "repo")
    subprocess.run(["rsync", "-a", "--exclude", ".git", REPO + "/", dst + "/"], check=True)
    ov = os.path.join(VERIF, "harness", "overlay")
    if os.path.isdir(ov):
        subprocess.run(["rsync", "-a", ov + "/", dst + "/"], check=True)
    ctx.repo = dst
    return dst


def go_env(newgo=False, extra=None):
    env = dict(os.environ)
    env.update({
        "GOFLAGS": "-mod=mod", "GOPROXY": "off", "GOSUMDB": "off",
        "GOTOOLCHAIN": "local", "GONOSUMDB": "*", "GONOSUMCHECK": "1",
        "CGO_ENABLED": "0",
    })
    if newgo:
        env["PATH"] = NEWGO + ":" + env.get("PATH", "")
        env["GOROOT"] = os.path.dirname(NEWGO)
        # module says go 1.22: synctest needs synchronous timer channels
        env["GODEBUG"] = "asynctimerchan=0"
    else:
        env.pop("GOROOT", None)
    if extra:
        env.update({k: str(v) for k, v in extra.items()})
    return env


class DriverResult:
    def __init__(self, ok, compiled, out, cases, wall):
        self.ok, self.compiled, self.out, self.cases, self.wall = ok, compiled, out, cases, wall


def run_driver(ctx, pkg, test, newgo=False, extra=None, timeout=900, race=False, tag="a"):
    """Run one driver test in the staged tree; cases are JSON lines in VERIF_OUT."""
    if ctx.repo is None:
        stage_repo(ctx)
    outp = os.path.join(ctx.scratch, "cases_%s_%s.jsonl" % (ctx.prop, tag))
    if os.path.exists(outp):
        os.unlink(outp)
    env = {"VERIF_OUT": outp, "VERIF_SEED": ctx.seed, "VERIF_TIER": ctx.tier,
           "VERIF_SCRATCH_DIR": ctx.scratch}
    if ctx.replay:
        env["VERIF_REPLAY"] = os.path.abspath(ctx.replay)
    if extra:
        env.update(extra)
    cmd = ["go", "test", "-count=1", "-vet=off", "-tags", "verif",
           "-timeout", "%ds" % timeout, "-run", "^%s$" % test]
    if race:
        cmd.append("-race")
    cmd.append("./" + pkg)
    t = time.time()
    e = go_env(newgo, env)
    if race:
        e["CGO_ENABLED"] = "1"
    try:
        p = subprocess.run(cmd, cwd=ctx.repo, env=e, stdout=subprocess.PIPE,
                           stderr=subprocess.STDOUT, text=True, timeout=timeout + 120)
        out, rc = p.stdout, p.returncode
    except subprocess.TimeoutExpired as ex:
        out, rc = (ex.stdout or "") + "\n[verif: driver timed out]", 124
    compiled = ("[build failed]" not in out) and ("[setup failed]" not in out) \
        and not re.search(r"^# .*\n.*\.go:\d+:\d+:", out, re.M)
    cases = []
    if os.path.exists(outp):
        with open(outp) as f:
            for line in f:
                line = line.strip()
                if line:
                    try:
                        cases.append(json.loads(line))
                    except ValueError:
                        out += "\n[verif: truncated case line in the driver output (driver crashed while writing)]"
    return DriverResult(rc == 0, compiled, out, cases, time.time() - t)


# --------------------------------------------------------------------------- Coq tree

def coq_files(coqdir):
    res = []
    for d, _, fs in os.walk(coqdir):
        for f in fs:
            if f.endswith(".v"):
                res.append(os.path.relpath(os.path.join(d, f), coqdir))
    return sorted(res)


def write_coqproject(coqdir):
    lines = ["-R . CR", "-arg -w", "-arg -notation-overridden,-deprecated-hint-without-locality,-deprecated-instance-without-locality"]
    lines += [f for f in coq_files(coqdir) if not f.startswith("scratch")]
    p = os.path.join(coqdir, "_CoqProject")
    new = "\n".join(lines) + "\n"
    old = open(p).read() if os.path.exists(p) else None
    if old != new:
        with open(p, "w") as f:
            f.write(new)
        return True
    return False


def ensure_makefile(coqdir):
    changed = write_coqproject(coqdir)
    mk = os.path.join(coqdir, "Makefile")
    if changed or not os.path.exists(mk):
        subprocess.run(["coq_makefile", "-f", "_CoqProject", "-o", "Makefile"], cwd=coqdir,
                       check=True, stdout=subprocess.DEVNULL, stderr=subprocess.DEVNULL)


def run_goextract(src_root, gen_dir):
    """Regenerate gen/*.v from the Go sources under src_root. Only rewrites changed files."""
    exe = os.path.join(VERIF, "bin", "goextract")
    if not os.path.exists(exe):
        build_goextract()
    tmp = tempfile.mkdtemp(prefix="gen-", dir=SCRATCH_BASE)
    try:
        p = subprocess.run([exe, src_root, tmp], stdout=subprocess.PIPE, stderr=subprocess.STDOUT, text=True)
        if p.returncode != 0:
            raise RuntimeError("goextract failed: " + p.stdout)
        changed = []
        for f in sorted(os.listdir(tmp)):
            new = open(os.path.join(tmp, f)).read()
            dst = os.path.join(gen_dir, f)
            old = open(dst).read() if os.path.exists(dst) else None
            if old != new:
                with open(dst, "w") as g:
                    g.write(new)
                changed.append(f)
        return changed, p.stdout
    finally:
        shutil.rmtree(tmp, ignore_errors=True)


def build_goextract():
    os.makedirs(os.path.join(VERIF, "bin"), exist_ok=True)
    subprocess.run(["go", "build", "-o", os.path.join(VERIF, "bin", "goextract"), "."],
                   cwd=os.path.join(VERIF, "goextract"), env=go_env(), check=True)


def prepare_coq(ctx, targets):
    """Scratch copy of the Coq tree with gen/ regenerated from the staged source; make targets.
    Returns (ok, failing_file, log)."""
    if ctx.repo is None:
        stage_repo(ctx)
    dst = os.path.join(ctx.scratch, "coq")
    subprocess.run(["cp", "-a", os.path.join(VERIF, "coq"), dst], check=True)
    ctx.coq = dst
    changed, _ = run_goextract(ctx.repo, os.path.join(dst, "gen"))
    if changed:
        ctx.notes.append("extracted facts differ from the committed ones: " + ", ".join(changed))
        log("gen files changed:", changed)
    ensure_makefile(dst)
    return make_coq(dst, targets)


def make_coq(coqdir, targets, timeout=3000):
    cmd = ["make", "-j16", "-k"] + list(targets)
    try:
        p = subprocess.run(cmd, cwd=coqdir, stdout=subprocess.PIPE, stderr=subprocess.STDOUT,
                           text=True, timeout=timeout)
        out, rc = p.stdout, p.returncode
    except subprocess.TimeoutExpired as ex:
        out, rc = (ex.stdout or "") + "\n[verif: coq build timed out]", 124
    failing = []
    for m in re.finditer(r'File "\./([^"]+)", line (\d+)', out):
        if m.group(1) not in failing:
            failing.append(m.group(1))
    for m in re.finditer(r"\*\*\* \[[^\]]*?([A-Za-z0-9_/]+)\.vo", out):
        f = m.group(1) + ".v"
        if f not in failing:
            failing.append(f)
    return rc == 0, failing, out


def cone(coqdir, root):
    """Transitive dependency cone (project files only) of a .v file, by reading Require lines."""
    seen, todo = [], [root]
    allf = set(coq_files(coqdir))
    while todo:
        f = todo.pop()
        if f in seen or f not in allf:
            continue
        seen.append(f)
        txt = open(os.path.join(coqdir, f)).read()
        txt = strip_comments(txt)
        for m in re.finditer(r"From\s+CR\s+Require\s+(?:Import\b|Export\b)?\s*(.*?)\.(?=\s)", txt, re.S):
            for mod in m.group(1).split():
                todo.append(mod.replace(".", "/") + ".v")
        for m in re.finditer(r"(?<!CR\s)Require\s+(?:Import\b|Export\b)?\s*(.*?)\.(?=\s)", txt, re.S):
            for mod in m.group(1).split():
                if mod.startswith("CR."):
                    todo.append(mod[3:].replace(".", "/") + ".v")
    return sorted(seen)


def strip_comments(txt):
    out, depth, i = [], 0, 0
    while i < len(txt):
        if txt.startswith("(*", i):
            depth += 1
            i += 2
        elif txt.startswith("*)", i) and depth:
            depth -= 1
            i += 2
        else:
            if depth == 0:
                out.append(txt[i])
            i += 1
    return "".join(out)


def obligations(coqdir, root):
    names, bad = [], []
    for f in cone(coqdir, root):
        txt = strip_comments(open(os.path.join(coqdir, f)).read())
        for m in OBLIGATION.finditer(txt):
            names.append(f + ":" + m.group(2))
        for m in FORBIDDEN.finditer(txt):
            bad.append(f + ":" + m.group(0))
    return names, bad


def print_assumptions(coqdir, root, scratch):
    """Compile the property file again (cheap) and capture its Print Assumptions output."""
    pad = os.path.join(scratch, "pa")
    os.makedirs(pad, exist_ok=True)
    p = subprocess.run(["coqc", "-R", ".", "CR", "-o", os.path.join(pad, os.path.basename(root)[:-2] + ".vo"), root],
                       cwd=coqdir, stdout=subprocess.PIPE, stderr=subprocess.STDOUT, text=True, timeout=1200)
    out = p.stdout
    closed = len(re.findall(r"Closed under the global context", out))
    axioms = sorted(set(re.findall(r"^([A-Za-z_][A-Za-z0-9_.']*)\s*:", out, re.M)))
    if p.returncode != 0:
        axioms = ["<coqc failed: %s>" % out[-300:].replace("\n", " ")]
    return p.returncode == 0, closed, axioms, out


# --------------------------------------------------------------------------- evaluation in Coq

RES_RE = re.compile(r"\bR\s+(\d+)(?:%N)?\s+(true|false)\s+(true|false)\s+(\d+)(?:%N)?")


def _eval_shard(args):
    coqdir, module, path, terms = args
    with open(path, "w") as f:
        f.write("From CR Require Import Base.CorrLib %s.\n" % module)
        f.write("Local Open Scope Z_scope.\n")
        f.write("Definition cases : list (N * case) := [\n")
        f.write(";\n".join("(%d%%N, %s)" % (i, t) for i, t in terms))
        f.write("\n].\n")
        f.write("Definition res := Eval vm_compute in run_cases agree holds known cases.\nPrint res.\n")
        f.write("Definition cnt := Eval vm_compute in N.of_nat (length cases).\nPrint cnt.\n")
    d = os.path.dirname(path)
    p = subprocess.run(["coqc", "-R", coqdir, "CR", "-o", path[:-2] + ".vo", path], cwd=d,
                       stdout=subprocess.PIPE, stderr=subprocess.STDOUT, text=True, timeout=3000)
    return p.returncode, p.stdout, [i for i, _ in terms]


def coq_eval(ctx, module, cases, shard=400):
    """cases: list of dicts with 'coq' (Gallina term of type case). Returns dict idx -> (agree, holds, known)
    for the cases that are not (true,true,0); raises on Coq errors."""
    d = os.path.join(ctx.scratch, "eval_" + module.replace(".", "_"))
    os.makedirs(d, exist_ok=True)
    jobs = []
    idx = [(i, c["coq"]) for i, c in enumerate(cases)]
    for s in range(0, len(idx), shard):
        jobs.append((ctx.coq, module, os.path.join(d, "cases_%d.v" % (s // shard)), idx[s:s + shard]))
    res, errors, total = {}, [], 0
    with concurrent.futures.ThreadPoolExecutor(max_workers=14) as ex:
        for rc, out, ids in ex.map(_eval_shard, jobs):
            if rc != 0:
                errors.append(out[-3000:])
                continue
            m = re.search(r"res\s*=(.*?)\n\s*:\s*list", out, re.S)
            body = m.group(1) if m else out
            for r in RES_RE.finditer(body):
                res[int(r.group(1))] = (r.group(2) == "true", r.group(3) == "true", int(r.group(4)))
            m = re.search(r"cnt\s*=\s*(\d+)", out)
            total += int(m.group(1)) if m else 0
    if errors:
        raise RuntimeError("Coq evaluation failed:\n" + errors[0])
    if total != len(cases):
        raise RuntimeError("Coq evaluated %d of %d cases" % (total, len(cases)))
    return res


# --------------------------------------------------------------------------- known findings

def known_findings():
    res = {}
    p = os.path.join(VERIF, "known_findings.txt")
    if os.path.exists(p):
        for line in open(p):
            m = re.match(r"finding:\s+property=(C\d+)\s+class=(\S+)\s+(.*)", line.strip())
            if m:
                res[(m.group(1), m.group(2))] = m.group(3)
    return res


# --------------------------------------------------------------------------- verdict + evidence

def save_replay(ctx, name, payload):
    d = os.path.join(VERIF, "replays")
    os.makedirs(d, exist_ok=True)
    h = hashlib.sha1(json.dumps(payload, sort_keys=True, default=str).encode()).hexdigest()[:10]
    p = os.path.join(d, "%s-%s-%s.json" % (ctx.prop, name, h))
    with open(p, "w") as f:
        json.dump(payload, f, indent=1, default=str)
    return p


def write_evidence(ctx, coverage, assumptions, violations, level="proof"):
    evdir = os.environ.get("VERIF_EVIDENCE_DIR") or os.path.join(VERIF, "evidence")
    os.makedirs(evdir, exist_ok=True)
    ev = {
        "property_id": ctx.prop, "tier": ctx.tier, "seed": ctx.seed, "level": level,
        "coverage": coverage, "assumptions": assumptions,
        "wall_s": round(time.time() - ctx.t0, 2), "violations": violations,
    }
    p = os.path.join(evdir, ctx.prop + ".json")
    with open(p + ".tmp", "w") as f:
        json.dump(ev, f, indent=1, default=str)
    os.replace(p + ".tmp", p)
    return p
