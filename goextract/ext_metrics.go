package main

import (
	"fmt"
	"go/ast"
	"go/token"
	"strconv"
	"strings"
)

// ExtMetrics (C17, C04): the tables which tie the metrics / debug API models to the source.
//
//	const_metrics        ConstGauge / ConstCounter registrations of NewMetrics: (name, label names)
//	direct_metrics       Gauge / Counter registrations of NewMetrics
//	collect_cases        metric names handled by the outer `switch m` of collectMetrics
//	misconfigurations    constants of type config.Misconfiguration
//	collect_misconf_cases / buildRA_misconf_cases   the cases of the inner switches over them
//	packOptions_cases    ndp option types in the type switch of crhttp.packOptions
//	plugin_option_kinds  ndp option types which the Apply methods of plugin.go append to an RA
//	pick_kinds           type arguments of the pick[...] calls of collectMetrics
func init() {
	register("ExtMetrics", func(x *ctx) string {
		var b strings.Builder
		met := "internal/corerad/metrics.go"
		f := x.file(met)

		consts, direct := newMetricsTables(x, f)
		pairs(&b, "const_metrics", consts)
		pairs(&b, "direct_metrics", direct)
		if len(consts) == 0 || len(direct) == 0 {
			x.warnf("%s: NewMetrics registrations not found", met)
		}

		cases := switchCases(x, f, "collectMetrics", "m", 0)
		strs(&b, "collect_cases", cases, met+" collectMetrics switch m")
		if len(cases) == 0 {
			x.warnf("%s: collectMetrics switch not found", met)
		}
		strs(&b, "collect_misconf_cases", switchCases(x, f, "collectMetrics", "m", 1), met+" collectMetrics inner switch over misconfigurations")
		strs(&b, "pick_kinds", pickKinds(f), met+" collectMetrics pick[T]")

		adv := x.file("internal/corerad/advertise.go")
		strs(&b, "buildRA_misconf_cases", switchCases(x, adv, "Advertiser.buildRA", "m", 0), "advertise.go buildRA switch over misconfigurations")

		cfg := x.file("internal/config/config.go")
		strs(&b, "misconfigurations", typedConsts(cfg, "Misconfiguration"), "config.go constants of type Misconfiguration")

		ra := x.file("internal/crhttp/ra.go")
		po := typeSwitchCases(ra, "packOptions")
		strs(&b, "packOptions_cases", po, "crhttp/ra.go packOptions type switch")
		if len(po) == 0 {
			x.warnf("crhttp/ra.go: packOptions type switch not found")
		}

		pl := x.file("internal/plugin/plugin.go")
		pk := pluginOptionKinds(x, pl)
		strs(&b, "plugin_option_kinds", pk, "plugin/plugin.go options appended by Apply")
		if len(pk) == 0 {
			x.warnf("plugin.go: appended option kinds not found")
		}
		return b.String()
	})
}

func q(s string) string { return strconv.Quote(s) + "%string" }

func strs(b *strings.Builder, name string, l []string, where string) {
	qs := make([]string, len(l))
	for i, s := range l {
		qs[i] = q(s)
	}
	fmt.Fprintf(b, "Definition %s : list string := [%s]. (* %s *)\n", name, strings.Join(qs, "; "), where)
}

type metricReg struct {
	name   string
	labels []string
}

func pairs(b *strings.Builder, name string, l []metricReg) {
	items := make([]string, len(l))
	for i, m := range l {
		ls := make([]string, len(m.labels))
		for j, s := range m.labels {
			ls[j] = q(s)
		}
		items[i] = fmt.Sprintf("(%s, [%s])", q(m.name), strings.Join(ls, "; "))
	}
	fmt.Fprintf(b, "Definition %s : list (string * list string) := [\n  %s].\n", name, strings.Join(items, ";\n  "))
}

// strValue resolves a string literal or an identifier naming a string constant of the file.
func strValue(f *ast.File, e ast.Expr) (string, bool) {
	switch e := e.(type) {
	case *ast.BasicLit:
		if e.Kind == token.STRING {
			s, err := strconv.Unquote(e.Value)
			return s, err == nil
		}
	case *ast.Ident:
		if v := findConst(f, e.Name); v != nil {
			return strValue(f, v)
		}
	case *ast.ParenExpr:
		return strValue(f, e.X)
	}
	return "", false
}

// newMetricsTables lists the m.ConstGauge/ConstCounter and m.Gauge/Counter calls of NewMetrics in
// source order.
func newMetricsTables(x *ctx, f *ast.File) (consts, direct []metricReg) {
	fd := findFunc(f, "NewMetrics")
	if fd == nil || fd.Body == nil {
		return nil, nil
	}
	ast.Inspect(fd.Body, func(n ast.Node) bool {
		call, ok := n.(*ast.CallExpr)
		if !ok {
			return true
		}
		sel, ok := call.Fun.(*ast.SelectorExpr)
		if !ok {
			return true
		}
		if id, ok := sel.X.(*ast.Ident); !ok || id.Name != "m" {
			return true
		}
		kind := sel.Sel.Name
		if kind != "ConstGauge" && kind != "ConstCounter" && kind != "Gauge" && kind != "Counter" {
			return true
		}
		if len(call.Args) < 2 {
			x.warnf("metrics.go: %s call with %d arguments", kind, len(call.Args))
			return true
		}
		name, ok := strValue(f, call.Args[0])
		if !ok {
			x.warnf("metrics.go: %s call with a non-constant name", kind)
			name = "?"
		}
		r := metricReg{name: name}
		for _, a := range call.Args[2:] {
			s, ok := strValue(f, a)
			if !ok {
				x.warnf("metrics.go: %s(%s) with a non-constant label name", kind, name)
				s = "?"
			}
			r.labels = append(r.labels, s)
		}
		if strings.HasPrefix(kind, "Const") {
			consts = append(consts, r)
		} else {
			direct = append(direct, r)
		}
		return true
	})
	return consts, direct
}

// switchCases returns the case expressions (resolved string constants, or the selector / identifier
// name) of the depth-th nested `switch <tag>` statement in function fn whose tag is the identifier
// tagName; depth 0 = outermost.
func switchCases(x *ctx, f *ast.File, fn, tagName string, depth int) []string {
	fd := findFunc(f, fn)
	if fd == nil || fd.Body == nil {
		return nil
	}
	var res []string
	var walk func(n ast.Node, d int)
	found := false
	walk = func(n ast.Node, d int) {
		ast.Inspect(n, func(n ast.Node) bool {
			sw, ok := n.(*ast.SwitchStmt)
			if !ok || found {
				return !found
			}
			id, ok := sw.Tag.(*ast.Ident)
			if !ok || id.Name != tagName {
				return true
			}
			if d < depth {
				// look for the nested switch with the same tag name (shadowing variable)
				for _, st := range sw.Body.List {
					cc := st.(*ast.CaseClause)
					for _, s := range cc.Body {
						walk(s, d+1)
						if found {
							return false
						}
					}
				}
				return false
			}
			found = true
			for _, st := range sw.Body.List {
				cc := st.(*ast.CaseClause)
				for _, e := range cc.List {
					if s, ok := strValue(f, e); ok {
						res = append(res, s)
					} else if sel, ok := e.(*ast.SelectorExpr); ok {
						res = append(res, sel.Sel.Name)
					} else if id, ok := e.(*ast.Ident); ok {
						res = append(res, id.Name)
					} else {
						x.warnf("%s: unrecognised case expression", fn)
						res = append(res, "?")
					}
				}
			}
			return false
		})
	}
	walk(fd.Body, 0)
	return res
}

// pickKinds lists T of every pick[*ndp.T](...) call of collectMetrics.
func pickKinds(f *ast.File) []string {
	fd := findFunc(f, "collectMetrics")
	if fd == nil || fd.Body == nil {
		return nil
	}
	var res []string
	ast.Inspect(fd.Body, func(n ast.Node) bool {
		ie, ok := n.(*ast.IndexExpr)
		if !ok {
			return true
		}
		if id, ok := ie.X.(*ast.Ident); !ok || id.Name != "pick" {
			return true
		}
		if t, ok := ndpType(ie.Index); ok {
			res = append(res, t)
		}
		return true
	})
	return res
}

// ndpType recognises *ndp.T / ndp.T and returns T.
func ndpType(e ast.Expr) (string, bool) {
	if s, ok := e.(*ast.StarExpr); ok {
		e = s.X
	}
	sel, ok := e.(*ast.SelectorExpr)
	if !ok {
		return "", false
	}
	if id, ok := sel.X.(*ast.Ident); !ok || id.Name != "ndp" {
		return "", false
	}
	return sel.Sel.Name, true
}

// typedConsts lists the named constants of a const block whose (possibly inherited) type is typ.
func typedConsts(f *ast.File, typ string) []string {
	var res []string
	if f == nil {
		return nil
	}
	for _, d := range f.Decls {
		gd, ok := d.(*ast.GenDecl)
		if !ok || gd.Tok != token.CONST {
			continue
		}
		cur := ""
		for _, s := range gd.Specs {
			vs := s.(*ast.ValueSpec)
			if vs.Type != nil {
				if id, ok := vs.Type.(*ast.Ident); ok {
					cur = id.Name
				} else {
					cur = ""
				}
			} else if len(vs.Values) > 0 {
				cur = ""
			}
			if cur != typ {
				continue
			}
			for _, n := range vs.Names {
				if n.Name != "_" {
					res = append(res, n.Name)
				}
			}
		}
	}
	return res
}

// typeSwitchCases lists the ndp types of the first type switch of function fn.
func typeSwitchCases(f *ast.File, fn string) []string {
	fd := findFunc(f, fn)
	if fd == nil || fd.Body == nil {
		return nil
	}
	var res []string
	done := false
	ast.Inspect(fd.Body, func(n ast.Node) bool {
		ts, ok := n.(*ast.TypeSwitchStmt)
		if !ok || done {
			return !done
		}
		done = true
		for _, st := range ts.Body.List {
			cc := st.(*ast.CaseClause)
			for _, e := range cc.List {
				if t, ok := ndpType(e); ok {
					res = append(res, t)
				} else {
					res = append(res, "?")
				}
			}
		}
		return false
	})
	return res
}

// pluginOptionKinds: for every append(<x>.Options | opts, args...) in plugin.go, the ndp type of each
// argument: &ndp.T{...}, ndp.NewT(...), or a struct field declared as *ndp.T in the same file.
func pluginOptionKinds(x *ctx, f *ast.File) []string {
	if f == nil {
		return nil
	}
	// struct fields of type *ndp.T
	fields := map[string]string{}
	ast.Inspect(f, func(n ast.Node) bool {
		st, ok := n.(*ast.StructType)
		if !ok {
			return true
		}
		for _, fl := range st.Fields.List {
			if t, ok := ndpType(fl.Type); ok {
				for _, nm := range fl.Names {
					fields[nm.Name] = t
				}
			}
		}
		return true
	})
	seen := map[string]bool{}
	var res []string
	add := func(t string) {
		if !seen[t] {
			seen[t] = true
			res = append(res, t)
		}
	}
	ast.Inspect(f, func(n ast.Node) bool {
		call, ok := n.(*ast.CallExpr)
		if !ok {
			return true
		}
		if id, ok := call.Fun.(*ast.Ident); !ok || id.Name != "append" || len(call.Args) < 2 {
			return true
		}
		// first argument: ra.Options or opts
		switch a := call.Args[0].(type) {
		case *ast.SelectorExpr:
			if a.Sel.Name != "Options" {
				return true
			}
		case *ast.Ident:
			if a.Name != "opts" {
				return true
			}
		default:
			return true
		}
		for _, a := range call.Args[1:] {
			switch a := a.(type) {
			case *ast.UnaryExpr:
				if cl, ok := a.X.(*ast.CompositeLit); ok && a.Op == token.AND {
					if t, ok := ndpType(cl.Type); ok {
						add(t)
						continue
					}
				}
				x.warnf("plugin.go: unrecognised appended option expression")
				add("?")
			case *ast.CallExpr:
				if sel, ok := a.Fun.(*ast.SelectorExpr); ok {
					if id, ok := sel.X.(*ast.Ident); ok && id.Name == "ndp" && strings.HasPrefix(sel.Sel.Name, "New") {
						add(strings.TrimPrefix(sel.Sel.Name, "New"))
						continue
					}
				}
				x.warnf("plugin.go: unrecognised appended option call")
				add("?")
			case *ast.SelectorExpr:
				if t, ok := fields[a.Sel.Name]; ok {
					add(t)
					continue
				}
				x.warnf("plugin.go: appended field %s has no *ndp type", a.Sel.Name)
				add("?")
			case *ast.Ident:
				// `opts...`: a slice built by the appends recognised above
				if call.Ellipsis == token.NoPos {
					x.warnf("plugin.go: appended identifier %s", a.Name)
					add("?")
				}
			default:
				x.warnf("plugin.go: unrecognised appended option")
				add("?")
			}
		}
		return true
	})
	return res
}
