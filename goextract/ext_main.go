package main

import (
	"go/ast"
	"strings"
)

// ExtMain: the wiring in cmd/corerad/main.go that the models take for granted (they have ONE system state, ONE
// metrics value, an epoch that is the start of the daemon, and a Serve whose error ends the process):
//
//   - main_one_state: a variable is assigned system.NewState() and that same variable is an argument of
//     corerad.NewMetrics, corerad.NewContext and crhttp.NewHandler (what is scraped, what the API reports and what
//     the advertisers read is one and the same live state);
//   - main_one_metrics: the variable assigned corerad.NewMetrics(..) is an argument of corerad.NewContext;
//   - main_epoch_is_start: config.Parse is called with time.Now() as the epoch;
//   - main_serve_error_fatal: the error of s.Serve(..) is tested and leads to a Fatalf (exit status 1);
//   - main_signals: signal.Notify(sigC, corerad.Signals()...) on a channel of capacity >= 1, the channel handed to Serve.
func init() {
	register("ExtMain", func(x *ctx) string {
		var b strings.Builder
		f := x.file("cmd/corerad/main.go")
		fd := findFunc(f, "main")
		ok := fd != nil && fd.Body != nil
		defB := func(name string, v bool, where string) {
			switch {
			case !ok:
				x.warnf("%s: %s not found", where, name)
				b.WriteString("Definition " + name + " : bool := false. (* NOT FOUND in " + where + " *)\n")
			case v:
				b.WriteString("Definition " + name + " : bool := true. (* " + where + " *)\n")
			default:
				b.WriteString("Definition " + name + " : bool := false. (* " + where + " *)\n")
			}
		}
		var oneState, oneMetrics, epoch, fatal, signals bool
		if ok {
			// variables by the call that initialises them (assignments and var specs)
			inits := map[string]string{} // "pkg.Func" -> variable
			record := func(name string, rhs ast.Expr) {
				if r, n, c := selCall(rhs); c != nil {
					inits[r+"."+n] = name
				}
			}
			ast.Inspect(fd.Body, func(n ast.Node) bool {
				switch s := n.(type) {
				case *ast.AssignStmt:
					if len(s.Rhs) == 1 && len(s.Lhs) >= 1 {
						if id, ok := s.Lhs[0].(*ast.Ident); ok {
							record(id.Name, s.Rhs[0])
						}
					}
				case *ast.ValueSpec:
					for i, nm := range s.Names {
						if i < len(s.Values) {
							record(nm.Name, s.Values[i])
						}
					}
				}
				return true
			})
			hasArg := func(pkg, fn, v string) bool {
				found := false
				ast.Inspect(fd.Body, func(n ast.Node) bool {
					if e, ok := n.(ast.Expr); ok {
						if r, name, c := selCall(e); c != nil && r == pkg && name == fn {
							for _, a := range c.Args {
								if id, ok := a.(*ast.Ident); ok && id.Name == v {
									found = true
								}
							}
						}
					}
					return true
				})
				return found
			}
			st := inits["system.NewState"]
			oneState = st != "" && hasArg("corerad", "NewMetrics", st) && hasArg("corerad", "NewContext", st) && hasArg("crhttp", "NewHandler", st)
			mm := inits["corerad.NewMetrics"]
			oneMetrics = mm != "" && hasArg("corerad", "NewContext", mm)
			ast.Inspect(fd.Body, func(n ast.Node) bool {
				if e, ok := n.(ast.Expr); ok {
					if r, name, c := selCall(e); c != nil && r == "config" && name == "Parse" && len(c.Args) == 2 {
						if r2, n2, c2 := selCall(c.Args[1]); c2 != nil && r2 == "time" && n2 == "Now" {
							epoch = true
						}
					}
					if r, name, c := selCall(e); c != nil && r == "signal" && name == "Notify" && len(c.Args) == 2 && c.Ellipsis.IsValid() {
						if r2, n2, c2 := selCall(c.Args[1]); c2 != nil && r2 == "corerad" && n2 == "Signals" {
							if id, ok := c.Args[0].(*ast.Ident); ok {
								if v, okc := chanCap(f, "main", id.Name); okc && v >= 1 {
									signals = true
								}
							}
						}
					}
				}
				if is, ok := n.(*ast.IfStmt); ok && is.Init != nil {
					if as, ok := is.Init.(*ast.AssignStmt); ok && len(as.Rhs) == 1 {
						if _, name, c := selCall(as.Rhs[0]); c != nil && name == "Serve" {
							for _, s := range is.Body.List {
								if es, ok := s.(*ast.ExprStmt); ok {
									if _, n3, c3 := selCall(es.X); c3 != nil && (n3 == "Fatalf" || n3 == "Fatal") {
										fatal = true
									}
								}
							}
						}
					}
				}
				return true
			})
		}
		defB("main_one_state", oneState, "cmd/corerad/main.go: one system.NewState() for Metrics, Context and HTTP handler")
		defB("main_one_metrics", oneMetrics, "cmd/corerad/main.go: the Metrics value given to the Context")
		defB("main_epoch_is_start", epoch, "cmd/corerad/main.go: config.Parse(f, time.Now())")
		defB("main_serve_error_fatal", fatal, "cmd/corerad/main.go: if err := s.Serve(..); err != nil { ll.Fatalf(..) }")
		defB("main_signals", signals, "cmd/corerad/main.go: signal.Notify(sigC, corerad.Signals()...), sigC buffered")
		return b.String()
	})
}
