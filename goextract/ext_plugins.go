package main

import (
	"fmt"
	"go/ast"
	"go/token"
	"sort"
	"strings"
)

// ExtPlugins (properties C01 / C03):
//   - plugin_order: the kinds of plugin that config.parsePlugins appends to its result, in the
//     source order of the `plugins = append(plugins, ...)` statements (= option order on the wire);
//   - apply_options: for every plugin type of internal/plugin/plugin.go that has an Apply method,
//     the ndp option types its Apply / apply methods construct (or hand over from a field);
//   - maxPref64Lifetime, pref64Unit, pref64Factor: the constants of plugin.NewPREF64.
func init() {
	register("ExtPlugins", func(x *ctx) string {
		var b strings.Builder
		b.WriteString("Open Scope string_scope.\n\n")

		cfg := "internal/config/plugin.go"
		order, ok := pluginOrder(x.file(cfg))
		if !ok {
			x.warnf("%s: parsePlugins append order not recognised", cfg)
			order = nil
		}
		fmt.Fprintf(&b, "(* %s parsePlugins: kinds appended to the plugin list, in source order *)\n", cfg)
		fmt.Fprintf(&b, "Definition plugin_order : list string := [%s].\n\n", quoteJoin(order))

		pl := "internal/plugin/plugin.go"
		ao := applyOptions(x, x.file(pl))
		fmt.Fprintf(&b, "(* %s: ndp option types constructed by each plugin's Apply/apply methods *)\n", pl)
		b.WriteString("Definition apply_options : list (string * list string) := [")
		for i, e := range ao {
			if i > 0 {
				b.WriteString("; ")
			}
			fmt.Fprintf(&b, "(\"%s\", [%s])", e.typ, quoteJoin(e.opts))
		}
		b.WriteString("].\n\n")

		constZ(&b, x, pl, "maxPref64Lifetime", "maxPref64Lifetime")
		f := x.file(pl)
		var unitExpr ast.Expr
		if fd := findFunc(f, "NewPREF64"); fd != nil {
			unitExpr = findConstIn(fd.Body, "unit")
		}
		v, okU := evalInt(f, unitExpr, 0)
		defZ(&b, x, "pref64Unit", v, okU, pl+" NewPREF64 unit")
		v, okF := pref64Factor(f)
		defZ(&b, x, "pref64Factor", v, okF, pl+" NewPREF64 factor of maxInterval")
		return b.String()
	})
}

func quoteJoin(xs []string) string {
	q := make([]string, len(xs))
	for i, s := range xs {
		q[i] = "\"" + s + "\""
	}
	return strings.Join(q, "; ")
}

// findConstIn finds a const/var spec called name inside a node.
func findConstIn(n ast.Node, name string) ast.Expr {
	var res ast.Expr
	if n == nil {
		return nil
	}
	ast.Inspect(n, func(n ast.Node) bool {
		gd, ok := n.(*ast.GenDecl)
		if !ok || (gd.Tok != token.CONST && gd.Tok != token.VAR) {
			return true
		}
		for _, s := range gd.Specs {
			vs := s.(*ast.ValueSpec)
			for i, id := range vs.Names {
				if id.Name == name && i < len(vs.Values) && res == nil {
					res = vs.Values[i]
				}
			}
		}
		return true
	})
	return res
}

// pref64Factor finds `K * maxInterval` (or `maxInterval * K`) inside NewPREF64.
func pref64Factor(f *ast.File) (int64, bool) {
	fd := findFunc(f, "NewPREF64")
	if fd == nil || fd.Body == nil {
		return 0, false
	}
	var res int64
	n := 0
	ast.Inspect(fd.Body, func(nd ast.Node) bool {
		be, ok := nd.(*ast.BinaryExpr)
		if !ok || be.Op != token.MUL {
			return true
		}
		for _, pr := range [][2]ast.Expr{{be.X, be.Y}, {be.Y, be.X}} {
			if id, ok := pr[1].(*ast.Ident); ok && id.Name == "maxInterval" {
				if v, ok := evalInt(f, pr[0], 0); ok {
					res = v
					n++
				}
			}
		}
		return true
	})
	return res, n == 1
}

// selName returns "pkg.Name" for a selector on an identifier, or "" otherwise.
func selName(e ast.Expr) string {
	if s, ok := e.(*ast.StarExpr); ok {
		e = s.X
	}
	se, ok := e.(*ast.SelectorExpr)
	if !ok {
		return ""
	}
	id, ok := se.X.(*ast.Ident)
	if !ok {
		return ""
	}
	return id.Name + "." + se.Sel.Name
}

// pluginOrder walks parsePlugins in source order.  It tracks which identifiers denote a
// plugin of which kind (from `make([]*plugin.T, ...)`, `x, err := parseT(...)`,
// `x, err := plugin.NewT(...)` and `for _, v := range <slice of T>`), and records the kind of the
// argument of every `plugins = append(plugins, arg)`.
func pluginOrder(f *ast.File) ([]string, bool) {
	fd := findFunc(f, "parsePlugins")
	if fd == nil || fd.Body == nil {
		return nil, false
	}
	slices := map[string]string{} // slice identifier -> element kind
	kinds := map[string]string{}  // identifier -> kind
	var order []string
	ok := true

	kindOfCall := func(call *ast.CallExpr) string {
		switch fn := call.Fun.(type) {
		case *ast.Ident:
			if strings.HasPrefix(fn.Name, "parse") && fn.Name != "parsePREF64Prefix" && fn.Name != "parseIPPrefix" {
				return strings.TrimPrefix(fn.Name, "parse")
			}
		case *ast.SelectorExpr:
			if id, isID := fn.X.(*ast.Ident); isID && id.Name == "plugin" && strings.HasPrefix(fn.Sel.Name, "New") {
				return strings.TrimPrefix(fn.Sel.Name, "New")
			}
		}
		return ""
	}
	kindOf := func(e ast.Expr) string {
		switch e := e.(type) {
		case *ast.Ident:
			return kinds[e.Name]
		case *ast.CallExpr:
			return kindOfCall(e)
		case *ast.UnaryExpr:
			if cl, isCL := e.X.(*ast.CompositeLit); isCL && e.Op == token.AND {
				if n := selName(cl.Type); strings.HasPrefix(n, "plugin.") {
					return strings.TrimPrefix(n, "plugin.")
				}
			}
		}
		return ""
	}

	var walk func(stmts []ast.Stmt)
	walkStmt := func(s ast.Stmt) {}
	walkStmt = func(s ast.Stmt) {
		switch s := s.(type) {
		case *ast.AssignStmt:
			if len(s.Rhs) == 1 {
				if call, isCall := s.Rhs[0].(*ast.CallExpr); isCall {
					fn, _ := call.Fun.(*ast.Ident)
					// plugins = append(plugins, arg)
					if fn != nil && fn.Name == "append" && len(call.Args) >= 2 {
						if dst, isID := call.Args[0].(*ast.Ident); isID && dst.Name == "plugins" {
							for _, a := range call.Args[1:] {
								k := kindOf(a)
								if k == "" {
									ok = false
									k = "?"
								}
								order = append(order, k)
							}
							return
						}
					}
					// x := make([]*plugin.T, ...)
					if fn != nil && fn.Name == "make" && len(call.Args) >= 1 && len(s.Lhs) == 1 {
						if at, isArr := call.Args[0].(*ast.ArrayType); isArr {
							if n := selName(at.Elt); strings.HasPrefix(n, "plugin.") && n != "plugin.Plugin" {
								if id, isID := s.Lhs[0].(*ast.Ident); isID {
									slices[id.Name] = strings.TrimPrefix(n, "plugin.")
								}
							}
						}
						return
					}
					// x, err := parseT(...) / plugin.NewT(...)
					if id, isID := s.Lhs[0].(*ast.Ident); isID {
						if k := kindOfCall(call); k != "" {
							kinds[id.Name] = k
						} else {
							delete(kinds, id.Name)
						}
					}
				}
			}
		case *ast.RangeStmt:
			if v, isID := s.Value.(*ast.Ident); isID && s.Value != nil {
				if src, isSrc := s.X.(*ast.Ident); isSrc && slices[src.Name] != "" {
					kinds[v.Name] = slices[src.Name]
				} else {
					delete(kinds, v.Name)
				}
			}
			walk(s.Body.List)
		case *ast.IfStmt:
			if s.Init != nil {
				walkStmt(s.Init)
			}
			walk(s.Body.List)
			if s.Else != nil {
				walkStmt(s.Else)
			}
		case *ast.BlockStmt:
			walk(s.List)
		case *ast.ForStmt:
			walk(s.Body.List)
		}
	}
	walk = func(stmts []ast.Stmt) {
		for _, s := range stmts {
			walkStmt(s)
		}
	}
	walk(fd.Body.List)
	return order, ok && len(order) > 0
}

type applyEntry struct {
	typ  string
	opts []string
}

// applyOptions: for each receiver type T with a method Apply, the ndp option types named in
// T's Apply and apply methods: `&ndp.X{...}`, `ndp.NewX(...)`, or a receiver field of type *ndp.X
// that the method reads.
func applyOptions(x *ctx, f *ast.File) []applyEntry {
	if f == nil {
		return nil
	}
	// struct field types: T -> field -> "ndp.X"
	fields := map[string]map[string]string{}
	for _, d := range f.Decls {
		gd, ok := d.(*ast.GenDecl)
		if !ok || gd.Tok != token.TYPE {
			continue
		}
		for _, s := range gd.Specs {
			ts := s.(*ast.TypeSpec)
			st, ok := ts.Type.(*ast.StructType)
			if !ok {
				continue
			}
			m := map[string]string{}
			for _, fl := range st.Fields.List {
				if _, isPtr := fl.Type.(*ast.StarExpr); !isPtr {
					continue // options are held by pointer (*ndp.X); ndp.Preference etc. are plain values
				}
				if n := selName(fl.Type); strings.HasPrefix(n, "ndp.") {
					for _, id := range fl.Names {
						m[id.Name] = n
					}
				}
			}
			fields[ts.Name.Name] = m
		}
	}
	res := map[string]map[string]bool{}
	for _, d := range f.Decls {
		fd, ok := d.(*ast.FuncDecl)
		if !ok || fd.Recv == nil || len(fd.Recv.List) != 1 || fd.Body == nil {
			continue
		}
		if fd.Name.Name != "Apply" && fd.Name.Name != "apply" {
			continue
		}
		t := fd.Recv.List[0].Type
		if s, ok := t.(*ast.StarExpr); ok {
			t = s.X
		}
		tid, ok := t.(*ast.Ident)
		if !ok {
			continue
		}
		recv := ""
		if len(fd.Recv.List[0].Names) == 1 {
			recv = fd.Recv.List[0].Names[0].Name
		}
		if res[tid.Name] == nil {
			res[tid.Name] = map[string]bool{}
		}
		if fd.Name.Name == "Apply" {
			res[tid.Name]["#apply"] = true
		}
		ast.Inspect(fd.Body, func(n ast.Node) bool {
			switch n := n.(type) {
			case *ast.CompositeLit:
				if s := selName(n.Type); strings.HasPrefix(s, "ndp.") {
					res[tid.Name][strings.TrimPrefix(s, "ndp.")] = true
				}
			case *ast.CallExpr:
				if s := selName(n.Fun); strings.HasPrefix(s, "ndp.New") {
					res[tid.Name][strings.TrimPrefix(s, "ndp.New")] = true
				}
			case *ast.SelectorExpr:
				// recv.Field where the field is an ndp option (handed over or copied into the RA)
				if r, ok := n.X.(*ast.Ident); ok && r.Name == recv && recv != "" {
					if ft := fields[tid.Name][n.Sel.Name]; ft != "" {
						res[tid.Name][strings.TrimPrefix(ft, "ndp.")] = true
					}
				}
			}
			return true
		})
	}
	var out []applyEntry
	for t, m := range res {
		if !m["#apply"] {
			continue
		}
		var opts []string
		for o := range m {
			if o != "#apply" {
				opts = append(opts, o)
			}
		}
		sort.Strings(opts)
		if len(opts) == 0 {
			x.warnf("plugin.go: no ndp option found for %s.Apply", t)
		}
		out = append(out, applyEntry{t, opts})
	}
	sort.Slice(out, func(i, j int) bool { return out[i].typ < out[j].typ })
	if len(out) == 0 {
		x.warnf("plugin.go: no Apply methods found")
	}
	return out
}
