package main

import (
	"go/ast"
	"sort"
	"strings"
)

// ExtLock: lock discipline of the package-level sync.RWMutex `prepareMu` of internal/plugin
// (plugin.go).  Model/RWLock.v needs one fact: no function that holds prepareMu (read or write)
// can reach -- through calls inside the package -- a function that acquires it again.  Go's
// RWMutex blocks new readers as soon as a writer is waiting, so a recursive read lock deadlocks
// with a concurrent Prepare.
//
//   - prepare_lock_holders: functions that call prepareMu.RLock() / prepareMu.Lock();
//   - prepare_lock_reentrant: true iff one of them can reach (name-based call graph inside the
//     package; calls on the method's own receiver are resolved to the receiver's type) a holder.
func init() {
	register("ExtLock", func(x *ctx) string {
		var b strings.Builder
		b.WriteString("Open Scope string_scope.\n\n")
		rel := "internal/plugin/plugin.go"
		f := x.file(rel)
		if f == nil {
			x.warnf("%s not found", rel)
			b.WriteString("Definition prepare_lock_holders : list string := [].\nDefinition prepare_lock_reentrant : bool := true. (* NOT FOUND *)\n")
			return b.String()
		}
		type fn struct {
			key, recvType, recvName, name string
			decl                          *ast.FuncDecl
		}
		var fns []fn
		byKey := map[string]*fn{}
		byName := map[string][]string{}
		for _, d := range f.Decls {
			fd, ok := d.(*ast.FuncDecl)
			if !ok || fd.Body == nil {
				continue
			}
			e := fn{name: fd.Name.Name, decl: fd}
			if fd.Recv != nil && len(fd.Recv.List) == 1 {
				t := fd.Recv.List[0].Type
				if s, ok := t.(*ast.StarExpr); ok {
					t = s.X
				}
				if id, ok := t.(*ast.Ident); ok {
					e.recvType = id.Name
				}
				if len(fd.Recv.List[0].Names) == 1 {
					e.recvName = fd.Recv.List[0].Names[0].Name
				}
			}
			e.key = e.name
			if e.recvType != "" {
				e.key = e.recvType + "." + e.name
			}
			fns = append(fns, e)
		}
		for i := range fns {
			byKey[fns[i].key] = &fns[i]
			byName[fns[i].name] = append(byName[fns[i].name], fns[i].key)
		}
		acquires := func(fd *ast.FuncDecl) bool {
			found := false
			ast.Inspect(fd.Body, func(nd ast.Node) bool {
				if e, ok := nd.(ast.Expr); ok && (isCallExpr(e, "prepareMu", "RLock") || isCallExpr(e, "prepareMu", "Lock")) {
					found = true
				}
				return true
			})
			return found
		}
		callees := func(e *fn) []string {
			seen := map[string]bool{}
			ast.Inspect(e.decl.Body, func(nd ast.Node) bool {
				call, ok := nd.(*ast.CallExpr)
				if !ok {
					return true
				}
				switch fun := call.Fun.(type) {
				case *ast.Ident:
					if _, ok := byKey[fun.Name]; ok {
						seen[fun.Name] = true
					}
				case *ast.SelectorExpr:
					if id, ok := fun.X.(*ast.Ident); ok && e.recvName != "" && id.Name == e.recvName {
						if _, ok := byKey[e.recvType+"."+fun.Sel.Name]; ok {
							seen[e.recvType+"."+fun.Sel.Name] = true
							return true
						}
					}
					for _, k := range byName[fun.Sel.Name] {
						if strings.Contains(k, ".") {
							seen[k] = true
						}
					}
				}
				return true
			})
			var out []string
			for k := range seen {
				out = append(out, k)
			}
			sort.Strings(out)
			return out
		}
		holder := map[string]bool{}
		var holders []string
		for i := range fns {
			if acquires(fns[i].decl) {
				holder[fns[i].key] = true
				holders = append(holders, fns[i].key)
			}
		}
		sort.Strings(holders)
		reentrant := false
		var witness string
		for _, h := range holders {
			visited := map[string]bool{}
			stack := callees(byKey[h])
			for len(stack) > 0 {
				k := stack[len(stack)-1]
				stack = stack[:len(stack)-1]
				if visited[k] {
					continue
				}
				visited[k] = true
				if holder[k] {
					reentrant = true
					witness = h + " -> " + k
					break
				}
				stack = append(stack, callees(byKey[k])...)
			}
			if reentrant {
				break
			}
		}
		if len(holders) == 0 {
			x.warnf("%s: no function acquires prepareMu", rel)
		}
		b.WriteString("(* " + rel + ": functions that acquire prepareMu *)\n")
		b.WriteString("Definition prepare_lock_holders : list string := [" + quoteJoin(holders) + "].\n")
		if reentrant {
			b.WriteString("Definition prepare_lock_reentrant : bool := true. (* " + witness + " *)\n")
		} else {
			b.WriteString("Definition prepare_lock_reentrant : bool := false. (* no holder reaches a holder *)\n")
		}
		return b.String()
	})
}
