package main

import (
	"go/ast"
	"go/token"
	"strings"
)

// ExtAdvertise: RFC 4861 constants of internal/corerad/advertise.go, the request channel
// capacity, and the receive retry / back-off constants of listener.go.
func init() {
	register("ExtAdvertise", func(x *ctx) string {
		var b strings.Builder
		adv := "internal/corerad/advertise.go"
		constZ(&b, x, adv, "maxInitialAdvInterval", "maxInitialAdvInterval")
		constZ(&b, x, adv, "maxInitialAdv", "maxInitialAdv")
		constZ(&b, x, adv, "minDelayBetweenRAs", "minDelayBetweenRAs")
		constZ(&b, x, adv, "maxRADelay", "maxRADelay")
		// ipC := make(chan netip.Addr, N) in Advertiser.advertise
		v, ok := chanCap(x.file(adv), "Advertiser.advertise", "ipC")
		defZ(&b, x, "requestChanCap", v, ok, adv+" advertise ipC capacity")

		lis := "internal/corerad/listener.go"
		constZ(&b, x, lis, "retries", "rxRetries")
		// time.After(time.Duration(i) * 50 * time.Millisecond) in receiveRetry
		v, ok = backoffUnit(x.file(lis), "listener.receiveRetry")
		defZ(&b, x, "rxBackoffUnit", v, ok, lis+" receiveRetry back-off unit")

		// Advertiser.Run: the error of the initial RA is wrapped with %w (the Dialer must see a system call error behind
		// it to apply the same policy as to a scheduled RA)
		wrapped, found := false, false
		if fd := findFunc(x.file(adv), "Advertiser.Run"); fd != nil && fd.Body != nil {
			ast.Inspect(fd.Body, func(n ast.Node) bool {
				c, ok := n.(*ast.CallExpr)
				if !ok || len(c.Args) < 2 {
					return true
				}
				sel, ok := c.Fun.(*ast.SelectorExpr)
				if !ok || sel.Sel.Name != "Errorf" {
					return true
				}
				if lit, ok := c.Args[0].(*ast.BasicLit); ok && strings.Contains(lit.Value, "failed to send initial") {
					found = true
					wrapped = strings.Contains(lit.Value, "%w")
				}
				return true
			})
		}
		if !found {
			x.warnf("%s: the initial-RA error in Run not found", adv)
		}
		if wrapped {
			b.WriteString("Definition initial_send_error_wrapped : bool := true. (* " + adv + " Run: fmt.Errorf(\"failed to send initial ...: %w\", err) *)\n")
		} else {
			b.WriteString("Definition initial_send_error_wrapped : bool := false. (* " + adv + " Run: the initial-RA error is not wrapped with %w *)\n")
		}
		return b.String()
	})
}

// chanCap finds `name := make(chan T, N)` (or var/assign) inside function fn.
func chanCap(f *ast.File, fn, name string) (int64, bool) {
	fd := findFunc(f, fn)
	if fd == nil || fd.Body == nil {
		return 0, false
	}
	var res int64
	found := false
	ast.Inspect(fd.Body, func(n ast.Node) bool {
		as, ok := n.(*ast.AssignStmt)
		if !ok || len(as.Lhs) != 1 || len(as.Rhs) != 1 {
			return true
		}
		id, ok := as.Lhs[0].(*ast.Ident)
		if !ok || id.Name != name {
			return true
		}
		call, ok := as.Rhs[0].(*ast.CallExpr)
		if !ok {
			return true
		}
		if fid, ok := call.Fun.(*ast.Ident); !ok || fid.Name != "make" {
			return true
		}
		if _, ok := call.Args[0].(*ast.ChanType); !ok {
			return true
		}
		if len(call.Args) == 1 {
			res, found = 0, true
			return true
		}
		if v, ok := evalInt(f, call.Args[1], 0); ok {
			res, found = v, true
		}
		return true
	})
	return res, found
}

// backoffUnit finds time.After(time.Duration(i) * K) in fn and returns K (ns): the product of
// all constant factors of the multiplication.
func backoffUnit(f *ast.File, fn string) (int64, bool) {
	fd := findFunc(f, fn)
	if fd == nil || fd.Body == nil {
		return 0, false
	}
	var res int64
	found := false
	ast.Inspect(fd.Body, func(n ast.Node) bool {
		call, ok := n.(*ast.CallExpr)
		if !ok || len(call.Args) != 1 {
			return true
		}
		sel, ok := call.Fun.(*ast.SelectorExpr)
		if !ok || sel.Sel.Name != "After" {
			return true
		}
		if v, ok := constFactors(f, call.Args[0]); ok && !found {
			res, found = v, true
		}
		return true
	})
	return res, found
}

// constFactors multiplies the constant factors of a product, skipping exactly the
// non-constant ones (the loop variable).
func constFactors(f *ast.File, e ast.Expr) (int64, bool) {
	if be, ok := e.(*ast.BinaryExpr); ok && be.Op == token.MUL {
		a, okA := constFactors(f, be.X)
		b, okB := constFactors(f, be.Y)
		switch {
		case okA && okB:
			return a * b, true
		case okA:
			return a, true
		case okB:
			return b, true
		}
		return 0, false
	}
	if pe, ok := e.(*ast.ParenExpr); ok {
		return constFactors(f, pe.X)
	}
	if ce, ok := e.(*ast.CallExpr); ok && len(ce.Args) == 1 {
		// time.Duration(i): not constant unless its argument is
		return constFactors(f, ce.Args[0])
	}
	if id, ok := e.(*ast.Ident); ok {
		if findConst(f, id.Name) == nil {
			return 0, false
		}
	}
	return evalInt(f, e, 0)
}
