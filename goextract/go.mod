module goextract

go 1.22
