package main

import (
	"go/ast"
	"strings"
)

// ExtWorkers: the bookkeeping of send workers in internal/corerad/advertise.go (type workers), as far as the model
// Model/Workers.v needs it:
//
//   - workers_start_atomic: start() locks w.mu first, unlocks it by defer, and both the test of w.stopped and
//     w.wg.Add(1) happen below that (check and count are one atomic step with respect to stop);
//   - workers_stop_sets_then_waits: stop() sets w.stopped = true between w.mu.Lock() and w.mu.Unlock() and calls
//     w.wg.Wait() after the unlock, and nowhere else;
//   - workers_done_is_done: done() is w.wg.Done();
//   - workers_zero_value: schedule() declares `ws workers` (the zero value is ready to use: the parallel driver
//     relies on it too).
func init() {
	register("ExtWorkers", func(x *ctx) string {
		var b strings.Builder
		adv := x.file("internal/corerad/advertise.go")
		defB := func(name string, v, ok bool, where string) {
			if !ok {
				x.warnf("%s: %s not found", where, name)
				b.WriteString("Definition " + name + " : bool := false. (* NOT FOUND in " + where + " *)\n")
				return
			}
			if v {
				b.WriteString("Definition " + name + " : bool := true. (* " + where + " *)\n")
			} else {
				b.WriteString("Definition " + name + " : bool := false. (* " + where + " *)\n")
			}
		}
		v, ok := workersStartAtomic(findFunc(adv, "workers.start"))
		defB("workers_start_atomic", v, ok, "advertise.go workers.start(): w.mu held across the test of stopped and wg.Add(1)")
		v, ok = workersStopShape(findFunc(adv, "workers.stop"))
		defB("workers_stop_sets_then_waits", v, ok, "advertise.go workers.stop(): stopped = true under w.mu, then wg.Wait()")
		fd := findFunc(adv, "workers.done")
		okd := fd != nil && fd.Body != nil
		defB("workers_done_is_done", okd && len(fd.Body.List) == 1 && isSelSelCall(fd.Body.List[0], "wg", "Done"), okd, "advertise.go workers.done(): w.wg.Done()")
		v, ok = workersZeroValue(findFunc(adv, "Advertiser.schedule"))
		defB("workers_zero_value", v, ok, "advertise.go schedule(): `ws workers` declared as a zero value")
		return b.String()
	})
}

// isSelSelCall: statement is the call w.<field>.<name>()
func isSelSelCall(s ast.Stmt, field, name string) bool {
	es, ok := s.(*ast.ExprStmt)
	if !ok {
		return false
	}
	return isSelSelCallExpr(es.X, field, name)
}

func isSelSelCallExpr(e ast.Expr, field, name string) bool {
	c, ok := e.(*ast.CallExpr)
	if !ok {
		return false
	}
	sel, ok := c.Fun.(*ast.SelectorExpr)
	if !ok || sel.Sel.Name != name {
		return false
	}
	in, ok := sel.X.(*ast.SelectorExpr)
	return ok && in.Sel.Name == field
}

func workersStartAtomic(fd *ast.FuncDecl) (bool, bool) {
	if fd == nil || fd.Body == nil {
		return false, false
	}
	l := fd.Body.List
	if len(l) < 4 || !isSelSelCall(l[0], "mu", "Lock") {
		return false, true
	}
	d, ok := l[1].(*ast.DeferStmt)
	if !ok || !isSelSelCallExpr(d.Call, "mu", "Unlock") {
		return false, true
	}
	// below: an if on w.stopped that returns false, then w.wg.Add(1), then return true; nothing unlocks
	sawCheck, sawAdd := false, false
	for _, s := range l[2:] {
		bad := false
		ast.Inspect(s, func(n ast.Node) bool {
			if e, ok := n.(ast.Expr); ok && (isSelSelCallExpr(e, "mu", "Unlock") || isSelSelCallExpr(e, "mu", "Lock")) {
				bad = true
			}
			if _, ok := n.(*ast.GoStmt); ok {
				bad = true
			}
			return true
		})
		if bad {
			return false, true
		}
		if is, ok := s.(*ast.IfStmt); ok && !sawAdd {
			if sel, ok := is.Cond.(*ast.SelectorExpr); ok && sel.Sel.Name == "stopped" {
				sawCheck = true
			}
		}
		if isSelSelCall(s, "wg", "Add") {
			if !sawCheck {
				return false, true
			}
			sawAdd = true
		}
	}
	return sawCheck && sawAdd, true
}

func workersStopShape(fd *ast.FuncDecl) (bool, bool) {
	if fd == nil || fd.Body == nil {
		return false, false
	}
	phase := 0 // 0: before Lock, 1: locked, 2: set, 3: unlocked, 4: waited
	for _, s := range fd.Body.List {
		switch {
		case isSelSelCall(s, "mu", "Lock") && phase == 0:
			phase = 1
		case phase == 1:
			as, ok := s.(*ast.AssignStmt)
			if !ok || len(as.Lhs) != 1 || len(as.Rhs) != 1 {
				return false, true
			}
			sel, ok := as.Lhs[0].(*ast.SelectorExpr)
			id, ok2 := as.Rhs[0].(*ast.Ident)
			if !ok || !ok2 || sel.Sel.Name != "stopped" || id.Name != "true" {
				return false, true
			}
			phase = 2
		case isSelSelCall(s, "mu", "Unlock") && phase == 2:
			phase = 3
		case isSelSelCall(s, "wg", "Wait") && phase == 3:
			phase = 4
		default:
			return false, true
		}
	}
	return phase == 4, true
}

func workersZeroValue(fd *ast.FuncDecl) (bool, bool) {
	if fd == nil || fd.Body == nil {
		return false, false
	}
	found := false
	ast.Inspect(fd.Body, func(n ast.Node) bool {
		vs, ok := n.(*ast.ValueSpec)
		if !ok || len(vs.Names) != 1 || vs.Names[0].Name != "ws" {
			return true
		}
		if id, ok := vs.Type.(*ast.Ident); ok && id.Name == "workers" && len(vs.Values) == 0 {
			found = true
		}
		return true
	})
	return found, true
}
