package main

import (
	"go/ast"
	"sort"
	"strings"
)

// ExtClock: the code that computes deadlines and delays does so on ONE clock.  time.Now() carries a
// monotonic reading; the methods UTC, Local, In, Round(0), Truncate, AddDate and Zone-changing
// conversions strip it, after which Sub / After / Before silently fall back to the wall clock (NTP steps,
// suspend).  The models use a single clock (instants are integers), so this is the fact that ties
// them to the source: inside the functions below no such method is applied to a time value.
//
//   - clock_strips: occurrences "file:func:method" found (must be empty);
//   - clock_funcs_found: how many of the functions of interest were found (sentinel against renames).
func init() {
	register("ExtClock", func(x *ctx) string {
		var b strings.Builder
		b.WriteString("Open Scope string_scope.\n\n")
		type target struct {
			file  string
			funcs []string
		}
		targets := []target{
			{"internal/corerad/advertise.go", []string{"Advertiser.schedule", "Advertiser.multicast", "multicastDelay", "Advertiser.send", "Advertiser.sendWorker"}},
			{"internal/plugin/plugin.go", []string{"Prefix.lifetimes", "Route.lifetime", "timeNow", "Prefix.Prepare", "Route.Prepare"}},
			{"internal/config/config.go", []string{"Parse"}},
			{"internal/corerad/monitor.go", []string{"Monitor.handle"}},
			{"internal/corerad/listener.go", []string{"listener.Listen", "listener.receiveRetry"}},
			{"internal/system/dialer.go", []string{"Dialer.init", "Dialer.Dial"}},
		}
		stripping := map[string]bool{"UTC": true, "Local": true, "In": true, "AddDate": true}
		var found []string
		nfuncs := 0
		for _, tg := range targets {
			f := x.file(tg.file)
			if f == nil {
				x.warnf("%s not found", tg.file)
				continue
			}
			for _, fn := range tg.funcs {
				if fd := findFunc(f, fn); fd == nil || fd.Body == nil {
					x.warnf("%s: %s not found", tg.file, fn)
				} else {
					nfuncs++
				}
			}
			// every function of the file is scanned (a helper added later is as good a place to lose the reading)
			for _, d := range f.Decls {
				fd, ok := d.(*ast.FuncDecl)
				if !ok || fd.Body == nil {
					continue
				}
				fn := fd.Name.Name
				ast.Inspect(fd.Body, func(nd ast.Node) bool {
					call, ok := nd.(*ast.CallExpr)
					if !ok {
						return true
					}
					sel, ok := call.Fun.(*ast.SelectorExpr)
					if !ok {
						return true
					}
					m := sel.Sel.Name
					hit := false
					switch {
					case stripping[m] && len(call.Args) <= 3:
						// UTC() / Local() / In(loc) / AddDate(y, m, d) exist on time.Time only
						if id, ok := sel.X.(*ast.Ident); !(ok && id.Name == "time") {
							hit = true
						}
					case m == "Round" || m == "Truncate":
						// Duration.Round / Truncate are fine; on a time value they strip the monotonic reading.  A time
						// value here is: time.Now(), a call result of ....TimeNow() / timeNow(...), or one of the names
						// the code uses for instants.
						hit = isInstantExpr(sel.X)
					}
					if hit {
						found = append(found, tg.file+":"+fn+":"+m)
					}
					return true
				})
			}
		}
		sort.Strings(found)
		b.WriteString("(* methods that strip the monotonic clock reading, applied to a time value inside the scheduling / lifetime / parsing functions *)\n")
		b.WriteString("Definition clock_strips : list string := [" + quoteJoin(found) + "].\n")
		defZ(&b, x, "clock_funcs_found", int64(nfuncs), true, "functions of interest found")
		return b.String()
	})
}

var instantNames = map[string]bool{"now": true, "epoch": true, "deadline": true, "lastMulticast": true, "next": true, "due": true,
	"start": true, "validT": true, "prefT": true, "t": true}

func isInstantExpr(e ast.Expr) bool {
	switch v := e.(type) {
	case *ast.Ident:
		return instantNames[v.Name]
	case *ast.SelectorExpr:
		return v.Sel.Name == "Epoch" || instantNames[v.Sel.Name]
	case *ast.CallExpr:
		switch f := v.Fun.(type) {
		case *ast.SelectorExpr:
			if id, ok := f.X.(*ast.Ident); ok && id.Name == "time" && f.Sel.Name == "Now" {
				return true
			}
			return f.Sel.Name == "TimeNow" || f.Sel.Name == "now" || f.Sel.Name == "Add"
		case *ast.Ident:
			return f.Name == "timeNow"
		}
	case *ast.ParenExpr:
		return isInstantExpr(v.X)
	}
	return false
}
