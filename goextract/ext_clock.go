package main

import (
	"go/ast"
	"sort"
	"strings"
)

// ExtClock: the code that computes deadlines and delays does so on ONE clock.  time.Now() carries a
// monotonic reading; the methods UTC, Local, In, Round(0), Truncate, AddDate and Zone-changing
// conversions strip it, after which Sub / After / Before silently fall back to the wall clock (NTP steps,
// suspend).  The models use a single clock (instants are integers), so this is the fact that ties
// them to the source: inside the functions below no such method is applied to a time value.
//
//   - clock_strips: occurrences "file:func:method" found (must be empty);
//   - clock_wall_reads: occurrences "file:func:method" where the WALL-clock reading of an instant is taken
//     (Unix, UnixNano, UnixMilli, UnixMicro, Nanosecond, Date, Clock, YearDay, Marshal*, or an instant
//     constructed by time.Unix / time.UnixMilli / time.UnixMicro / time.Date inside a function) and the
//     result flows anywhere but into one of the two sinks the code has: a float64(...) conversion (the
//     value of a Prometheus gauge) or rand.NewSource(...) (the seed of a PRNG).  Arithmetic on such
//     readings is arithmetic on the wall clock although no stripping method is called (must be empty);
//   - clock_wall_sinks: how many wall-clock readings flowed into the two sinks (sentinel: the scan sees them);
//   - clock_funcs_found: how many of the functions of interest were found (sentinel against renames).
func init() {
	register("ExtClock", func(x *ctx) string {
		var b strings.Builder
		b.WriteString("Open Scope string_scope.\n\n")
		type target struct {
			file  string
			funcs []string
		}
		targets := []target{
			{"internal/corerad/advertise.go", []string{"Advertiser.schedule", "Advertiser.multicast", "multicastDelay", "Advertiser.send", "Advertiser.sendWorker"}},
			{"internal/plugin/plugin.go", []string{"Prefix.lifetimes", "Route.lifetime", "timeNow", "Prefix.Prepare", "Route.Prepare"}},
			{"internal/config/config.go", []string{"Parse"}},
			{"internal/corerad/monitor.go", []string{"Monitor.handle"}},
			{"internal/corerad/listener.go", []string{"listener.Listen", "listener.receiveRetry"}},
			{"internal/system/dialer.go", []string{"Dialer.init", "Dialer.Dial"}},
		}
		stripping := map[string]bool{"UTC": true, "Local": true, "In": true, "AddDate": true}
		var found, wall []string
		nfuncs, sinks := 0, 0
		wallRead := map[string]bool{"Unix": true, "UnixNano": true, "UnixMilli": true, "UnixMicro": true, "Nanosecond": true,
			"Date": true, "Clock": true, "YearDay": true, "MarshalBinary": true, "MarshalText": true, "MarshalJSON": true, "GobEncode": true}
		wallMake := map[string]bool{"Unix": true, "UnixMilli": true, "UnixMicro": true, "Date": true, "Parse": true, "ParseInLocation": true}
		for _, tg := range targets {
			f := x.file(tg.file)
			if f == nil {
				x.warnf("%s not found", tg.file)
				continue
			}
			for _, fn := range tg.funcs {
				if fd := findFunc(f, fn); fd == nil || fd.Body == nil {
					x.warnf("%s: %s not found", tg.file, fn)
				} else {
					nfuncs++
				}
			}
			// every function of the file is scanned (a helper added later is as good a place to lose the reading)
			for _, d := range f.Decls {
				fd, ok := d.(*ast.FuncDecl)
				if !ok || fd.Body == nil {
					continue
				}
				fn := fd.Name.Name
				var stack []ast.Node
				ast.Inspect(fd.Body, func(nd ast.Node) bool {
					if nd == nil {
						stack = stack[:len(stack)-1]
						return true
					}
					stack = append(stack, nd)
					call, ok := nd.(*ast.CallExpr)
					if !ok {
						return true
					}
					if sel, ok := call.Fun.(*ast.SelectorExpr); ok {
						id, isPkg := sel.X.(*ast.Ident)
						isTimePkg := isPkg && id.Name == "time"
						switch {
						case isTimePkg && wallMake[sel.Sel.Name]:
							wall = append(wall, tg.file+":"+fn+":time."+sel.Sel.Name)
						case !isTimePkg && wallRead[sel.Sel.Name] && len(call.Args) == 0:
							// the enclosing expression, parentheses skipped
							var parent ast.Node
							for i := len(stack) - 2; i >= 0; i-- {
								if _, ok := stack[i].(*ast.ParenExpr); !ok {
									parent = stack[i]
									break
								}
							}
							if isWallSink(parent, call) {
								sinks++
							} else {
								wall = append(wall, tg.file+":"+fn+":"+sel.Sel.Name)
							}
						}
					}
					sel, ok := call.Fun.(*ast.SelectorExpr)
					if !ok {
						return true
					}
					m := sel.Sel.Name
					hit := false
					switch {
					case stripping[m] && len(call.Args) <= 3:
						// UTC() / Local() / In(loc) / AddDate(y, m, d) exist on time.Time only
						if id, ok := sel.X.(*ast.Ident); !(ok && id.Name == "time") {
							hit = true
						}
					case m == "Round" || m == "Truncate":
						// Duration.Round / Truncate are fine; on a time value they strip the monotonic reading.  A time
						// value here is: time.Now(), a call result of ....TimeNow() / timeNow(...), or one of the names
						// the code uses for instants.
						hit = isInstantExpr(sel.X)
					}
					if hit {
						found = append(found, tg.file+":"+fn+":"+m)
					}
					return true
				})
			}
		}
		sort.Strings(found)
		sort.Strings(wall)
		b.WriteString("(* methods that strip the monotonic clock reading, applied to a time value inside the scheduling / lifetime / parsing functions *)\n")
		b.WriteString("Definition clock_strips : list string := [" + quoteJoin(found) + "].\n")
		b.WriteString("(* wall-clock readings of an instant that flow anywhere but into a gauge value float64(...) or a PRNG seed rand.NewSource(...) *)\n")
		b.WriteString("Definition clock_wall_reads : list string := [" + quoteJoin(wall) + "].\n")
		defZ(&b, x, "clock_wall_sinks", int64(sinks), true, "wall-clock readings that are gauge values or PRNG seeds")
		defZ(&b, x, "clock_funcs_found", int64(nfuncs), true, "functions of interest found")
		return b.String()
	})
}

// isWallSink: parent is float64(<call>) or rand.NewSource(<call>) with <call> as its only argument.
func isWallSink(parent ast.Node, call *ast.CallExpr) bool {
	pc, ok := parent.(*ast.CallExpr)
	if !ok || len(pc.Args) != 1 {
		return false
	}
	arg := pc.Args[0]
	for {
		a, ok := arg.(*ast.ParenExpr)
		if !ok {
			break
		}
		arg = a.X
	}
	if arg != ast.Expr(call) {
		return false
	}
	switch f := pc.Fun.(type) {
	case *ast.Ident:
		return f.Name == "float64"
	case *ast.SelectorExpr:
		id, ok := f.X.(*ast.Ident)
		return ok && id.Name == "rand" && f.Sel.Name == "NewSource"
	}
	return false
}

var instantNames = map[string]bool{"now": true, "epoch": true, "deadline": true, "lastMulticast": true, "next": true, "due": true,
	"start": true, "validT": true, "prefT": true, "t": true}

func isInstantExpr(e ast.Expr) bool {
	switch v := e.(type) {
	case *ast.Ident:
		return instantNames[v.Name]
	case *ast.SelectorExpr:
		return v.Sel.Name == "Epoch" || instantNames[v.Sel.Name]
	case *ast.CallExpr:
		switch f := v.Fun.(type) {
		case *ast.SelectorExpr:
			if id, ok := f.X.(*ast.Ident); ok && id.Name == "time" && f.Sel.Name == "Now" {
				return true
			}
			return f.Sel.Name == "TimeNow" || f.Sel.Name == "now" || f.Sel.Name == "Add"
		case *ast.Ident:
			return f.Name == "timeNow"
		}
	case *ast.ParenExpr:
		return isInstantExpr(v.X)
	}
	return false
}
