package main

import (
	"fmt"
	"go/ast"
	"go/token"
	"strings"
)

// ExtServer: facts of internal/corerad/server.go and signals_unix.go used by the C20 model:
// Signals(), the body shape of isTerminal, the source order of the effect calls that
// signalTask.Run performs after its select, the shape of that select, and serve()'s attempts.
func init() {
	register("ExtServer", func(x *ctx) string {
		var b strings.Builder
		sig := "internal/corerad/signals_unix.go"
		srv := "internal/corerad/server.go"

		names, ok := srvSignals(x.file(sig))
		if !ok {
			x.warnf("%s: Signals() composite literal not found", sig)
		}
		b.WriteString("(* " + sig + ": Signals() *)\n")
		b.WriteString("Definition signals : list string := " + srvStrList(names) + ".\n")

		op, cmp, ok := srvIsTerminal(x.file(sig))
		if !ok {
			x.warnf("%s: isTerminal is not `return s <op> <signal>`", sig)
		}
		b.WriteString("(* " + sig + ": isTerminal is `return s <op> <sig>` *)\n")
		fmt.Fprintf(&b, "Definition is_terminal_op : string := %q%%string.\n", op)
		fmt.Fprintf(&b, "Definition is_terminal_sig : string := %q%%string.\n", cmp)

		order, selOK, ok := srvSignalRun(x.file(srv))
		if !ok {
			x.warnf("%s: signalTask.Run select not found", srv)
		}
		b.WriteString("(* " + srv + ": signalTask.Run, effect calls after the select, in source order *)\n")
		b.WriteString("Definition signal_run_order : list string := " + srvStrList(order) + ".\n")
		b.WriteString("(* the select has exactly the cases <-ctx.Done() (returning nil at once) and sig = <-t.sigC *)\n")
		fmt.Fprintf(&b, "Definition signal_select_shape : bool := %v.\n", selOK)

		constZ(&b, x, srv, "attempts", "httpServeAttempts")

		// Serve: every task's Run is called directly in its errgroup member and its error is what the member returns (no
		// wrapper that gives up waiting or swallows an error class); sdnotify.Ready is mentioned exactly once in the
		// production code of the package -- in Serve, after wg.Wait() -- and nowhere in cmd/corerad/main.go
		direct, readyOnce := srvServeShape(x.file(srv))
		fmt.Fprintf(&b, "Definition serve_runs_tasks_directly : bool := %v. (* %s Serve: `if err := t.Run(ctx); err != nil { return ... }` inside eg.Go *)\n", direct, srv)
		fmt.Fprintf(&b, "Definition ready_after_all_tasks : bool := %v. (* %s: sdnotify.Ready only after wg.Wait() in Serve *)\n", readyOnce, srv)
		mainReady := 0
		if mf := x.file("cmd/corerad/main.go"); mf != nil {
			ast.Inspect(mf, func(n ast.Node) bool {
				if sel, ok := n.(*ast.SelectorExpr); ok && sel.Sel.Name == "Ready" {
					if id, ok := sel.X.(*ast.Ident); ok && id.Name == "sdnotify" {
						mainReady++
					}
				}
				return true
			})
		} else {
			mainReady = -1
		}
		fmt.Fprintf(&b, "Definition main_announces_ready : Z := (%d)%%Z. (* occurrences of sdnotify.Ready in cmd/corerad/main.go *)\n", mainReady)
		return b.String()
	})
}

func srvStrList(xs []string) string {
	var q []string
	for _, s := range xs {
		q = append(q, fmt.Sprintf("%q%%string", s))
	}
	return "[" + strings.Join(q, "; ") + "]"
}

func srvExprName(e ast.Expr) string {
	switch e := e.(type) {
	case *ast.Ident:
		return e.Name
	case *ast.SelectorExpr:
		if p := srvExprName(e.X); p != "" {
			return p + "." + e.Sel.Name
		}
	}
	return ""
}

// srvSignals: the elements of the composite literal returned by Signals().
func srvSignals(f *ast.File) ([]string, bool) {
	fd := findFunc(f, "Signals")
	if fd == nil || fd.Body == nil || len(fd.Body.List) != 1 {
		return nil, false
	}
	ret, ok := fd.Body.List[0].(*ast.ReturnStmt)
	if !ok || len(ret.Results) != 1 {
		return nil, false
	}
	cl, ok := ret.Results[0].(*ast.CompositeLit)
	if !ok {
		return nil, false
	}
	var res []string
	for _, e := range cl.Elts {
		n := srvExprName(e)
		if n == "" {
			return nil, false
		}
		res = append(res, n)
	}
	return res, true
}

// srvIsTerminal: isTerminal's body must be the single statement `return <param> <op> <sel>`.
func srvIsTerminal(f *ast.File) (op, sig string, ok bool) {
	fd := findFunc(f, "isTerminal")
	if fd == nil || fd.Body == nil || len(fd.Body.List) != 1 ||
		len(fd.Type.Params.List) != 1 || len(fd.Type.Params.List[0].Names) != 1 {
		return "", "", false
	}
	param := fd.Type.Params.List[0].Names[0].Name
	ret, isRet := fd.Body.List[0].(*ast.ReturnStmt)
	if !isRet || len(ret.Results) != 1 {
		return "", "", false
	}
	be, isBin := ret.Results[0].(*ast.BinaryExpr)
	if !isBin || (be.Op != token.NEQ && be.Op != token.EQL) {
		return "", "", false
	}
	l, r := srvExprName(be.X), srvExprName(be.Y)
	switch {
	case l == param && r != "" && r != param:
		return be.Op.String(), r, true
	case r == param && l != "" && l != param:
		return be.Op.String(), l, true
	}
	return "", "", false
}

// srvSignalRun: tags of the calls made after the select statement of signalTask.Run, in
// source order; and whether the select has exactly the two expected cases.
func srvSignalRun(f *ast.File) (order []string, selOK, ok bool) {
	fd := findFunc(f, "signalTask.Run")
	if fd == nil || fd.Body == nil {
		return nil, false, false
	}
	tags := map[string]string{
		"t.t.set": "set", "t.ll.Print": "print", "t.ll.Printf": "print", "t.n.Notify": "notify",
		"t.cancel": "cancel", "signal.Stop": "stop",
	}
	after := false
	for _, st := range fd.Body.List {
		if sel, isSel := st.(*ast.SelectStmt); isSel && !after {
			after = true
			selOK = srvSelectShape(sel)
			continue
		}
		if !after {
			continue
		}
		ast.Inspect(st, func(n ast.Node) bool {
			call, isCall := n.(*ast.CallExpr)
			if !isCall {
				return true
			}
			name := srvExprName(call.Fun)
			if tag, found := tags[name]; found {
				order = append(order, tag)
			} else if name == "go" || strings.HasPrefix(name, "t.") {
				// an unknown effect on the task: make it visible
				order = append(order, "other:"+name)
			}
			return true
		})
		if _, isGo := st.(*ast.GoStmt); isGo {
			order = append(order, "other:go")
		}
		if _, isDefer := st.(*ast.DeferStmt); isDefer {
			order = append(order, "other:defer")
		}
	}
	return order, selOK, after
}

func srvSelectShape(sel *ast.SelectStmt) bool {
	if len(sel.Body.List) != 2 {
		return false
	}
	done, sig := false, false
	for _, c := range sel.Body.List {
		cc := c.(*ast.CommClause)
		switch comm := cc.Comm.(type) {
		case *ast.ExprStmt:
			// <-ctx.Done(): body must be a single `return nil`
			ue, isU := comm.X.(*ast.UnaryExpr)
			if !isU || ue.Op != token.ARROW {
				return false
			}
			call, isCall := ue.X.(*ast.CallExpr)
			if !isCall || srvExprName(call.Fun) != "ctx.Done" || len(cc.Body) != 1 {
				return false
			}
			ret, isRet := cc.Body[0].(*ast.ReturnStmt)
			if !isRet || len(ret.Results) != 1 || srvExprName(ret.Results[0]) != "nil" {
				return false
			}
			done = true
		case *ast.AssignStmt:
			// sig = <-t.sigC with an empty body
			if len(comm.Lhs) != 1 || len(comm.Rhs) != 1 || len(cc.Body) != 0 {
				return false
			}
			ue, isU := comm.Rhs[0].(*ast.UnaryExpr)
			if !isU || ue.Op != token.ARROW || srvExprName(ue.X) != "t.sigC" {
				return false
			}
			sig = true
		default:
			return false
		}
	}
	return done && sig
}

// srvServeShape inspects Server.Serve.
func srvServeShape(f *ast.File) (direct, readyOnce bool) {
	fd := findFunc(f, "Server.Serve")
	if fd == nil || fd.Body == nil {
		return false, false
	}
	// (1) inside a function literal passed to eg.Go: `if err := t.Run(ctx); err != nil { return <something with err> }`
	// followed by `return nil`, and nothing else
	ast.Inspect(fd.Body, func(n ast.Node) bool {
		c, ok := n.(*ast.CallExpr)
		if !ok || !isCallExpr(c, "eg", "Go") || len(c.Args) != 1 {
			return true
		}
		fl, ok := c.Args[0].(*ast.FuncLit)
		if !ok || len(fl.Body.List) != 2 {
			return true
		}
		is, ok1 := fl.Body.List[0].(*ast.IfStmt)
		rs, ok2 := fl.Body.List[1].(*ast.ReturnStmt)
		if !ok1 || !ok2 || is.Init == nil || len(rs.Results) != 1 {
			return true
		}
		as, ok := is.Init.(*ast.AssignStmt)
		if !ok || len(as.Rhs) != 1 || !isCallExpr(as.Rhs[0], "t", "Run") {
			return true
		}
		if id, ok := rs.Results[0].(*ast.Ident); ok && id.Name == "nil" && len(is.Body.List) == 1 {
			if r, ok := is.Body.List[0].(*ast.ReturnStmt); ok && len(r.Results) == 1 {
				direct = true
			}
		}
		return true
	})
	// (2) sdnotify.Ready: once in the file, inside a function literal of Serve whose first statement is wg.Wait()
	total, good := 0, 0
	ast.Inspect(f, func(n ast.Node) bool {
		if sel, ok := n.(*ast.SelectorExpr); ok && sel.Sel.Name == "Ready" {
			if id, ok := sel.X.(*ast.Ident); ok && id.Name == "sdnotify" {
				total++
			}
		}
		return true
	})
	ast.Inspect(fd.Body, func(n ast.Node) bool {
		fl, ok := n.(*ast.FuncLit)
		if !ok || len(fl.Body.List) == 0 || !isCall(fl.Body.List[0], "wg", "Wait") {
			return true
		}
		ast.Inspect(fl.Body, func(m ast.Node) bool {
			if sel, ok := m.(*ast.SelectorExpr); ok && sel.Sel.Name == "Ready" {
				if id, ok := sel.X.(*ast.Ident); ok && id.Name == "sdnotify" {
					good++
				}
			}
			return true
		})
		return true
	})
	return direct, total == 1 && good == 1
}
