package main

import (
	"go/ast"
	"strings"
)

// ExtFresh: every consumer of "the RA CoreRAD would send" builds it at the moment of use, from sources that ask
// the system at the moment of the call.  The models build an RA as a function of (configuration, system state,
// instant); these facts say at which instant and from which state the code does:
//
//   - send_builds_then_writes: Advertiser.send assigns the result of a.buildRA(..) to a variable at the top level
//     of its body and hands that variable, not reassigned in between, to conn.WriteTo;
//   - sendworker_sends: Advertiser.sendWorker calls a.send directly (not from a goroutine or closure);
//   - timer_callback_sends: in Advertiser.schedule a.sendWorker is called inside the function literal given to
//     time.AfterFunc, and nothing outside such a literal builds, sends or writes (the RA of a scheduled
//     transmission is built when its timer fires, not when it is requested);
//   - handle_verifies_fresh: Advertiser.handle assigns a.buildRA(a.cfg) to the variable that is the first
//     argument of verifyRAs, within one clause;
//   - prepare_binds_live_sources: Prefix.Prepare and RDNSS.Prepare have no branch, create `a :=
//     system.NewAddresser()` and assign to the plugin's Addrs a function literal whose whole body is `return
//     a.AddressesByIndex(ifi.Index)`; Route.Prepare assigns system.NewAddresser().LoopbackRoutes to Routes;
//     Prefix.Prepare and Route.Prepare assign time.Now to TimeNow;
//   - new_addresser_direct: system.NewAddresser is `return &addresser{execute: rtnlExecute}`.
func init() {
	register("ExtFresh", func(x *ctx) string {
		var b strings.Builder
		adv := x.file("internal/corerad/advertise.go")
		plg := x.file("internal/plugin/plugin.go")
		adr := x.file("internal/system/addresser_linux.go")
		defB := func(name string, v, ok bool, where string) {
			if !ok {
				x.warnf("%s: %s not found", where, name)
				b.WriteString("Definition " + name + " : bool := false. (* NOT FOUND in " + where + " *)\n")
				return
			}
			if v {
				b.WriteString("Definition " + name + " : bool := true. (* " + where + " *)\n")
			} else {
				b.WriteString("Definition " + name + " : bool := false. (* " + where + " *)\n")
			}
		}
		v, ok := sendBuildsThenWrites(findFunc(adv, "Advertiser.send"))
		defB("send_builds_then_writes", v, ok, "advertise.go send(): ra := a.buildRA(..) ... conn.WriteTo(ra, ..)")
		fd := findFunc(adv, "Advertiser.sendWorker")
		defB("sendworker_sends", fd != nil && fd.Body != nil && containsCall(fd.Body, "a", "send"), fd != nil && fd.Body != nil, "advertise.go sendWorker(): calls a.send directly")
		v, ok = timerCallbackSends(findFunc(adv, "Advertiser.schedule"))
		defB("timer_callback_sends", v, ok, "advertise.go schedule(): a.sendWorker inside the time.AfterFunc callback, nothing built or written outside it")
		v, ok = handleVerifiesFresh(findFunc(adv, "Advertiser.handle"))
		defB("handle_verifies_fresh", v, ok, "advertise.go handle(): want := a.buildRA(a.cfg); verifyRAs(want, m)")
		v1, ok1 := prepareAddrs(findFunc(plg, "Prefix.Prepare"), true)
		v2, ok2 := prepareAddrs(findFunc(plg, "RDNSS.Prepare"), false)
		v3, ok3 := prepareRoutes(findFunc(plg, "Route.Prepare"))
		defB("prepare_binds_live_sources", v1 && v2 && v3, ok1 && ok2 && ok3, "plugin.go Prefix/RDNSS/Route.Prepare: Addrs / Routes / TimeNow bound to the live sources, unconditionally")
		v, ok = newAddresserDirect(findFunc(adr, "NewAddresser"))
		defB("new_addresser_direct", v, ok, "addresser_linux.go NewAddresser(): return &addresser{execute: rtnlExecute}")
		return b.String()
	})
}

func selCall(e ast.Expr) (recv, name string, call *ast.CallExpr) {
	c, ok := e.(*ast.CallExpr)
	if !ok {
		return "", "", nil
	}
	sel, ok := c.Fun.(*ast.SelectorExpr)
	if !ok {
		return "", "", nil
	}
	id, ok := sel.X.(*ast.Ident)
	if !ok {
		return "", "", nil
	}
	return id.Name, sel.Sel.Name, c
}

func assignsIdent(s ast.Stmt, name string) bool {
	found := false
	ast.Inspect(s, func(n ast.Node) bool {
		if as, ok := n.(*ast.AssignStmt); ok {
			for _, l := range as.Lhs {
				if id, ok := l.(*ast.Ident); ok && id.Name == name {
					found = true
				}
			}
		}
		return true
	})
	return found
}

func sendBuildsThenWrites(fd *ast.FuncDecl) (bool, bool) {
	if fd == nil || fd.Body == nil {
		return false, false
	}
	list := fd.Body.List
	bi, v := -1, ""
	for i, s := range list {
		if as, ok := s.(*ast.AssignStmt); ok && len(as.Rhs) == 1 && len(as.Lhs) >= 1 {
			if r, n, _ := selCall(as.Rhs[0]); r == "a" && n == "buildRA" {
				if id, ok := as.Lhs[0].(*ast.Ident); ok {
					bi, v = i, id.Name
				}
			}
		}
	}
	if bi < 0 {
		return false, true
	}
	for j := bi + 1; j < len(list); j++ {
		wrote := false
		ast.Inspect(list[j], func(n ast.Node) bool {
			if _, ok := n.(*ast.FuncLit); ok {
				return false
			}
			if e, ok := n.(ast.Expr); ok {
				if _, name, c := selCall(e); c != nil && name == "WriteTo" && len(c.Args) >= 1 {
					if id, ok := c.Args[0].(*ast.Ident); ok && id.Name == v {
						wrote = true
					}
				}
			}
			return true
		})
		if wrote {
			return true, true
		}
		if assignsIdent(list[j], v) {
			return false, true
		}
		if _, ok := list[j].(*ast.GoStmt); ok {
			return false, true
		}
	}
	return false, true
}

func timerCallbackSends(fd *ast.FuncDecl) (bool, bool) {
	if fd == nil || fd.Body == nil {
		return false, false
	}
	inCallback, outside := false, false
	var walk func(n ast.Node, inTimer bool)
	walk = func(n ast.Node, inTimer bool) {
		ast.Inspect(n, func(nd ast.Node) bool {
			if nd == nil {
				return true
			}
			if e, ok := nd.(ast.Expr); ok {
				if r, name, c := selCall(e); c != nil {
					if r == "time" && name == "AfterFunc" && len(c.Args) == 2 {
						if fl, ok := c.Args[1].(*ast.FuncLit); ok {
							walk(c.Args[0], inTimer)
							walk(fl.Body, true)
							return false
						}
					}
					if (r == "a" && (name == "sendWorker" || name == "send" || name == "buildRA")) || name == "WriteTo" {
						if inTimer {
							if r == "a" && name == "sendWorker" {
								inCallback = true
							}
						} else {
							outside = true
						}
					}
				}
			}
			return true
		})
	}
	walk(fd.Body, false)
	return inCallback && !outside, true
}

func handleVerifiesFresh(fd *ast.FuncDecl) (bool, bool) {
	if fd == nil || fd.Body == nil {
		return false, false
	}
	res, found := false, false
	ast.Inspect(fd.Body, func(n ast.Node) bool {
		cc, ok := n.(*ast.CaseClause)
		if !ok {
			return true
		}
		v := ""
		for _, s := range cc.Body {
			if as, ok := s.(*ast.AssignStmt); ok && len(as.Rhs) == 1 {
				if r, name, c := selCall(as.Rhs[0]); r == "a" && name == "buildRA" && len(c.Args) == 1 {
					if sel, ok := c.Args[0].(*ast.SelectorExpr); ok && sel.Sel.Name == "cfg" {
						if id, ok := as.Lhs[0].(*ast.Ident); ok {
							v = id.Name
							continue
						}
					}
				}
				// verifyRAs(want, m) as the right-hand side of an assignment
				if c, ok := as.Rhs[0].(*ast.CallExpr); ok {
					if id, ok := c.Fun.(*ast.Ident); ok && id.Name == "verifyRAs" && len(c.Args) == 2 {
						found = true
						if a0, ok := c.Args[0].(*ast.Ident); ok && v != "" && a0.Name == v {
							res = true
						}
						continue
					}
				}
			}
			if v != "" && !found && assignsIdent(s, v) {
				v = ""
			}
		}
		return true
	})
	return res, found
}

func noBranch(fd *ast.FuncDecl) bool {
	ok := true
	ast.Inspect(fd.Body, func(n ast.Node) bool {
		switch n.(type) {
		case *ast.FuncLit:
			return false
		case *ast.IfStmt, *ast.SwitchStmt, *ast.TypeSwitchStmt, *ast.ForStmt, *ast.RangeStmt, *ast.GoStmt, *ast.SelectStmt:
			ok = false
		}
		return true
	})
	return ok
}

func isSel(e ast.Expr, x, sel string) bool {
	s, ok := e.(*ast.SelectorExpr)
	if !ok {
		return false
	}
	id, ok := s.X.(*ast.Ident)
	return ok && id.Name == x && s.Sel.Name == sel
}

func prepareAddrs(fd *ast.FuncDecl, wantNow bool) (bool, bool) {
	if fd == nil || fd.Body == nil || fd.Recv == nil || len(fd.Recv.List) != 1 || len(fd.Recv.List[0].Names) != 1 {
		return false, false
	}
	recv := fd.Recv.List[0].Names[0].Name
	ifi := ""
	if len(fd.Type.Params.List) == 1 && len(fd.Type.Params.List[0].Names) == 1 {
		ifi = fd.Type.Params.List[0].Names[0].Name
	}
	if !noBranch(fd) {
		return false, true
	}
	adr, addrs, now := "", false, false
	for _, s := range fd.Body.List {
		as, ok := s.(*ast.AssignStmt)
		if !ok || len(as.Lhs) != 1 || len(as.Rhs) != 1 {
			continue
		}
		if id, ok := as.Lhs[0].(*ast.Ident); ok {
			if r, name, c := selCall(as.Rhs[0]); r == "system" && name == "NewAddresser" && len(c.Args) == 0 {
				adr = id.Name
			} else if id.Name == adr {
				adr = ""
			}
			continue
		}
		if isSel(as.Lhs[0], recv, "TimeNow") {
			now = isSel(as.Rhs[0], "time", "Now")
		}
		if isSel(as.Lhs[0], recv, "Addrs") {
			addrs = false
			fl, ok := as.Rhs[0].(*ast.FuncLit)
			if !ok || len(fl.Body.List) != 1 {
				continue
			}
			rs, ok := fl.Body.List[0].(*ast.ReturnStmt)
			if !ok || len(rs.Results) != 1 {
				continue
			}
			if r, name, c := selCall(rs.Results[0]); adr != "" && r == adr && name == "AddressesByIndex" && len(c.Args) == 1 && isSel(c.Args[0], ifi, "Index") {
				addrs = true
			}
		}
	}
	return addrs && (now || !wantNow), true
}

func prepareRoutes(fd *ast.FuncDecl) (bool, bool) {
	if fd == nil || fd.Body == nil || fd.Recv == nil || len(fd.Recv.List) != 1 || len(fd.Recv.List[0].Names) != 1 {
		return false, false
	}
	recv := fd.Recv.List[0].Names[0].Name
	if !noBranch(fd) {
		return false, true
	}
	routes, now := false, false
	for _, s := range fd.Body.List {
		as, ok := s.(*ast.AssignStmt)
		if !ok || len(as.Lhs) != 1 || len(as.Rhs) != 1 {
			continue
		}
		if isSel(as.Lhs[0], recv, "TimeNow") {
			now = isSel(as.Rhs[0], "time", "Now")
		}
		if isSel(as.Lhs[0], recv, "Routes") {
			routes = false
			// system.NewAddresser().LoopbackRoutes
			if sel, ok := as.Rhs[0].(*ast.SelectorExpr); ok && sel.Sel.Name == "LoopbackRoutes" {
				if r, name, c := selCall(sel.X); r == "system" && name == "NewAddresser" && len(c.Args) == 0 {
					routes = true
				}
			}
		}
	}
	return routes && now, true
}

func newAddresserDirect(fd *ast.FuncDecl) (bool, bool) {
	if fd == nil || fd.Body == nil {
		return false, false
	}
	if len(fd.Body.List) != 1 {
		return false, true
	}
	rs, ok := fd.Body.List[0].(*ast.ReturnStmt)
	if !ok || len(rs.Results) != 1 {
		return false, true
	}
	u, ok := rs.Results[0].(*ast.UnaryExpr)
	if !ok {
		return false, true
	}
	cl, ok := u.X.(*ast.CompositeLit)
	if !ok || len(cl.Elts) != 1 {
		return false, true
	}
	if id, ok := cl.Type.(*ast.Ident); !ok || id.Name != "addresser" {
		return false, true
	}
	kv, ok := cl.Elts[0].(*ast.KeyValueExpr)
	if !ok {
		return false, true
	}
	k, ok1 := kv.Key.(*ast.Ident)
	val, ok2 := kv.Value.(*ast.Ident)
	return ok1 && ok2 && k.Name == "execute" && val.Name == "rtnlExecute", true
}
