package main

import (
	"bytes"
	"go/ast"
	"go/printer"
	"io/fs"
	"path/filepath"
	"sort"
	"strings"
)

// ExtSeams: three facts about the few lines that sit BEHIND the seams the drivers script (interface lookup,
// the connection, the rtnetlink socket) and therefore only run against the real operating system.  Every
// non-test Go file under internal/ and cmd/ is scanned (the overlay's zz_verif_* files and internal/verif* packages excepted).
//
//   - seam_iface_lookups: "file:func:callee" for every call of net.InterfaceByName / InterfaceByIndex /
//     Interfaces.  The Dialer's model (Model/Dialer.v, Model/Link.v) looks the interface up BY NAME at every
//     (re-)dial, which is what makes a link that was deleted and re-created under the same name come back;
//   - seam_deadlines: "file:func:method" for every Set{,Read,Write}Deadline call.  The models of the final RA
//     (Model/Shutdown.v, Model/Workers.v) and of the scheduler let a write take as long as it takes: there is
//     no write deadline; the two read deadlines are the "wake the reader up now" idiom (deadlineNow);
//   - seam_sockopts: socket options and netlink.Config fields of the rtnetlink sockets ("file:func:what").
//     The watcher's model (Model/Watcher.v) receives the link messages of ONE group in ONE namespace.
func init() {
	register("ExtSeams", func(x *ctx) string {
		var b strings.Builder
		b.WriteString("Open Scope string_scope.\n\n")
		var lookups, deadlines, sockopts []string
		nfiles := 0
		for _, top := range []string{"internal", "cmd"} {
			_ = filepath.WalkDir(filepath.Join(x.root, top), func(p string, d fs.DirEntry, err error) error {
				if err != nil || d.IsDir() || !strings.HasSuffix(p, ".go") || strings.HasSuffix(p, "_test.go") ||
					strings.HasPrefix(filepath.Base(p), "zz_verif") {
					return nil
				}
				rel, _ := filepath.Rel(x.root, p)
				if strings.HasPrefix(rel, "internal/verif") { // packages the drivers' overlay adds to the staged tree
					return nil
				}
				f := x.file(rel)
				if f == nil {
					return nil
				}
				nfiles++
				for _, dcl := range f.Decls {
					fd, ok := dcl.(*ast.FuncDecl)
					if !ok || fd.Body == nil {
						continue
					}
					fn := funcName(fd)
					ast.Inspect(fd.Body, func(nd ast.Node) bool {
						switch v := nd.(type) {
						case *ast.CallExpr:
							sel, ok := v.Fun.(*ast.SelectorExpr)
							if !ok {
								return true
							}
							m := sel.Sel.Name
							id, isId := sel.X.(*ast.Ident)
							switch {
							case isId && id.Name == "net" && (m == "InterfaceByName" || m == "InterfaceByIndex" || m == "Interfaces"):
								lookups = append(lookups, rel+":"+fn+":"+m)
							case m == "SetDeadline" || m == "SetReadDeadline" || m == "SetWriteDeadline":
								deadlines = append(deadlines, rel+":"+fn+":"+m)
							case m == "SetOption" || m == "SetBPF" || m == "RemoveBPF" || m == "SetReadBuffer" || m == "SetWriteBuffer" ||
								strings.HasPrefix(m, "Setsockopt"):
								sockopts = append(sockopts, rel+":"+fn+":"+m+"("+exprList(x, v.Args)+")")
							}
						case *ast.CompositeLit:
							if s, ok := v.Type.(*ast.SelectorExpr); ok && s.Sel.Name == "Config" {
								if id, ok := s.X.(*ast.Ident); ok && id.Name == "netlink" {
									sockopts = append(sockopts, rel+":"+fn+":netlink.Config{"+exprList(x, v.Elts)+"}")
								}
							}
						}
						return true
					})
				}
				return nil
			})
		}
		sort.Strings(lookups)
		sort.Strings(deadlines)
		sort.Strings(sockopts)
		b.WriteString("(* every interface lookup of the daemon *)\n")
		b.WriteString("Definition seam_iface_lookups : list string := [" + quoteJoin(lookups) + "].\n")
		b.WriteString("(* every deadline armed on a connection *)\n")
		b.WriteString("Definition seam_deadlines : list string := [" + quoteJoin(deadlines) + "].\n")
		b.WriteString("(* socket options and netlink.Config literals *)\n")
		b.WriteString("Definition seam_sockopts : list string := [" + quoteJoin(sockopts) + "].\n")
		// osWatch hands every batch it received to notify itself: exactly one notify(...) call in its body, outside any
		// function literal, with process(...) as its argument, and no select with a default clause (a non-blocking,
		// i.e. lossy, hand-over) anywhere in the function.
		direct := false
		if fd := findFunc(x.file("internal/netstate/watcher_linux.go"), "osWatch"); fd != nil && fd.Body != nil {
			calls, inLit, lossy, viaProcess := 0, 0, 0, 0
			var walk func(n ast.Node, lit bool)
			walk = func(n ast.Node, lit bool) {
				ast.Inspect(n, func(nd ast.Node) bool {
					switch v := nd.(type) {
					case *ast.FuncLit:
						if !lit {
							walk(v.Body, true)
							return false
						}
					case *ast.CommClause:
						if v.Comm == nil {
							lossy++
						}
					case *ast.CallExpr:
						if id, ok := v.Fun.(*ast.Ident); ok && id.Name == "notify" {
							calls++
							if lit {
								inLit++
							}
							if len(v.Args) == 1 {
								if a, ok := v.Args[0].(*ast.CallExpr); ok {
									if f, ok := a.Fun.(*ast.Ident); ok && f.Name == "process" {
										viaProcess++
									}
								}
							}
						}
					}
					return true
				})
			}
			walk(fd.Body, false)
			direct = calls == 1 && inLit == 0 && lossy == 0 && viaProcess == 1
		} else {
			x.warnf("osWatch not found")
		}
		b.WriteString("(* osWatch: one notify(process(...)) call, in the receive loop itself, no non-blocking hand-over *)\n")
		if direct {
			b.WriteString("Definition oswatch_notify_direct : bool := true.\n")
		} else {
			b.WriteString("Definition oswatch_notify_direct : bool := false.\n")
		}
		defZ(&b, x, "seam_files_scanned", int64(nfiles), nfiles > 0, "non-test Go files under internal/ and cmd/")
		return b.String()
	})
}

func funcName(fd *ast.FuncDecl) string {
	n := fd.Name.Name
	if fd.Recv != nil && len(fd.Recv.List) == 1 {
		t := fd.Recv.List[0].Type
		if s, ok := t.(*ast.StarExpr); ok {
			t = s.X
		}
		if id, ok := t.(*ast.Ident); ok {
			n = id.Name + "." + n
		}
	}
	return n
}

func exprList(x *ctx, es []ast.Expr) string {
	var parts []string
	for _, e := range es {
		var buf bytes.Buffer
		_ = printer.Fprint(&buf, x.fset, e)
		parts = append(parts, strings.ReplaceAll(strings.Join(strings.Fields(buf.String()), " "), "\"", "\"\""))
	}
	return strings.Join(parts, ", ")
}
