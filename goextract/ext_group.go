package main

import (
	"go/ast"
	"go/token"
	"strings"
)

// ExtGroup: syntactic facts about the blocking points of the advertiser's goroutine group that
// the teardown LTS (Model/Group.v) uses as guards:
//   - every send on the request channel ipC (listener callback, multicast loop) is a case of a
//     select that also has a `<-ctx.Done()` case;
//   - the send of a worker's error on errC likewise;
//   - schedule() calls ws.stop() before each of its returns that follow the main loop's select;
//   - Listen's deferred function calls cancel() before it waits for the interrupt goroutine.
func init() {
	register("ExtGroup", func(x *ctx) string {
		var b strings.Builder
		adv := x.file("internal/corerad/advertise.go")
		lis := x.file("internal/corerad/listener.go")

		defB := func(name string, v, ok bool, where string) {
			if !ok {
				x.warnf("%s: %s not found", where, name)
				b.WriteString("Definition " + name + " : bool := false. (* NOT FOUND in " + where + " *)\n")
				return
			}
			if v {
				b.WriteString("Definition " + name + " : bool := true. (* " + where + " *)\n")
			} else {
				b.WriteString("Definition " + name + " : bool := false. (* " + where + " *)\n")
			}
		}

		g, n := sendsGuarded(findFunc(adv, "Advertiser.advertise"), "ipC")
		defB("listener_send_guarded", g, n > 0, "advertise.go advertise(): ipC <- ip inside select with <-ctx.Done()")
		g, n = sendsGuarded(findFunc(adv, "Advertiser.multicast"), "ipC")
		defB("multicast_send_guarded", g, n > 0, "advertise.go multicast(): ipC <- all-nodes inside select with <-ctx.Done()")
		g, n = sendsGuarded(findFunc(adv, "Advertiser.schedule"), "errC")
		defB("worker_err_guarded", g, n > 0, "advertise.go schedule(): errC <- err inside select with <-ctx.Done()")
		v, ok := stopBeforeReturns(findFunc(adv, "Advertiser.schedule"))
		defB("sched_waits_workers", v, ok, "advertise.go schedule(): ws.stop() precedes every return inside the main select")
		v, ok = cancelBeforeStop(findFunc(adv, "Advertiser.schedule"))
		defB("sched_cancels_before_stop", v, ok, "advertise.go schedule(): in the errC case cancel() precedes ws.stop()")
		v, ok = cancelBeforeWait(findFunc(lis, "listener.Listen"))
		defB("listen_cancel_before_wait", v, ok, "listener.go Listen(): deferred func calls cancel() before eg.Wait()")
		v, ok = returnsAfterWait(findFunc(adv, "Advertiser.advertise"))
		defB("advertise_returns_after_wait", v, ok, "advertise.go advertise(): every eg.Go precedes eg.Wait() and no return precedes it")
		v, ok = shutdownAfterAdvertise(findFunc(adv, "Advertiser.Run"))
		defB("shutdown_after_advertise", v, ok, "advertise.go Run(): a.shutdown follows the return of a.advertise, is followed by a return, and no a.send follows a.advertise")
		return b.String()
	})
}

// sendsGuarded reports whether every send statement on channel ch inside fd is the Comm of a select
// case whose select also contains a receive from <X>.Done(); n is the number of sends found.
func sendsGuarded(fd *ast.FuncDecl, ch string) (all bool, n int) {
	if fd == nil || fd.Body == nil {
		return false, 0
	}
	guarded := map[*ast.SendStmt]bool{}
	ast.Inspect(fd.Body, func(nd ast.Node) bool {
		sel, ok := nd.(*ast.SelectStmt)
		if !ok {
			return true
		}
		hasDone := false
		var sends []*ast.SendStmt
		for _, c := range sel.Body.List {
			cc := c.(*ast.CommClause)
			switch s := cc.Comm.(type) {
			case *ast.SendStmt:
				sends = append(sends, s)
			case *ast.ExprStmt:
				if isDoneRecv(s.X) {
					hasDone = true
				}
			case *ast.AssignStmt:
				if len(s.Rhs) == 1 && isDoneRecv(s.Rhs[0]) {
					hasDone = true
				}
			}
		}
		for _, s := range sends {
			guarded[s] = hasDone
		}
		return true
	})
	all = true
	ast.Inspect(fd.Body, func(nd ast.Node) bool {
		s, ok := nd.(*ast.SendStmt)
		if !ok {
			return true
		}
		if id, ok := s.Chan.(*ast.Ident); ok && id.Name == ch {
			n++
			if !guarded[s] {
				all = false
			}
		}
		return true
	})
	return all && n > 0, n
}

func isDoneRecv(e ast.Expr) bool {
	u, ok := e.(*ast.UnaryExpr)
	if !ok || u.Op != token.ARROW {
		return false
	}
	call, ok := u.X.(*ast.CallExpr)
	if !ok {
		return false
	}
	sel, ok := call.Fun.(*ast.SelectorExpr)
	return ok && sel.Sel.Name == "Done"
}

func isCall(s ast.Stmt, recv, name string) bool {
	es, ok := s.(*ast.ExprStmt)
	if !ok {
		// _ = eg.Wait()
		if as, ok := s.(*ast.AssignStmt); ok && len(as.Rhs) == 1 {
			return isCallExpr(as.Rhs[0], recv, name)
		}
		return false
	}
	return isCallExpr(es.X, recv, name)
}

func isCallExpr(e ast.Expr, recv, name string) bool {
	call, ok := e.(*ast.CallExpr)
	if !ok {
		return false
	}
	switch f := call.Fun.(type) {
	case *ast.Ident:
		return recv == "" && f.Name == name
	case *ast.SelectorExpr:
		id, ok := f.X.(*ast.Ident)
		return ok && id.Name == recv && f.Sel.Name == name
	}
	return false
}

// stopBeforeReturns: in schedule(), inside the for-loop's select, every case body that returns
// has a ws.stop() statement before its return statement.
func stopBeforeReturns(fd *ast.FuncDecl) (bool, bool) {
	if fd == nil || fd.Body == nil {
		return false, false
	}
	found, all := false, true
	ast.Inspect(fd.Body, func(nd ast.Node) bool {
		sel, ok := nd.(*ast.SelectStmt)
		if !ok {
			return true
		}
		for _, c := range sel.Body.List {
			cc := c.(*ast.CommClause)
			stopped := false
			for _, s := range cc.Body {
				if isCall(s, "ws", "stop") {
					stopped = true
				}
				if _, ok := s.(*ast.ReturnStmt); ok {
					found = true
					if !stopped {
						all = false
					}
				}
				// returns nested in if statements
				if ifs, ok := s.(*ast.IfStmt); ok {
					ast.Inspect(ifs, func(n2 ast.Node) bool {
						if _, ok := n2.(*ast.ReturnStmt); ok {
							found = true
							if !stopped {
								all = false
							}
						}
						return true
					})
				}
			}
		}
		return true
	})
	return all && found, found
}

// cancelBeforeStop: in schedule(), the select case that takes a worker's error calls cancel() before
// ws.stop(); otherwise a second failing worker can neither hand over its error nor see the cancellation.
func cancelBeforeStop(fd *ast.FuncDecl) (bool, bool) {
	if fd == nil || fd.Body == nil {
		return false, false
	}
	found, good := false, true
	ast.Inspect(fd.Body, func(nd ast.Node) bool {
		sel, ok := nd.(*ast.SelectStmt)
		if !ok {
			return true
		}
		for _, c := range sel.Body.List {
			cc := c.(*ast.CommClause)
			// only the case that receives from errC
			recvErr := false
			if as, ok := cc.Comm.(*ast.AssignStmt); ok && len(as.Rhs) == 1 {
				if u, ok := as.Rhs[0].(*ast.UnaryExpr); ok && u.Op == token.ARROW {
					if id, ok := u.X.(*ast.Ident); ok && id.Name == "errC" {
						recvErr = true
					}
				}
			}
			if !recvErr {
				continue
			}
			cancelled := false
			for _, s := range cc.Body {
				if isCall(s, "", "cancel") {
					cancelled = true
				}
				if isCall(s, "ws", "stop") {
					found = true
					if !cancelled {
						good = false
					}
				}
			}
		}
		return true
	})
	return good && found, found
}

// cancelBeforeWait: Listen has a deferred function literal whose body calls cancel() and later
// eg.Wait(); a bare `defer func() { _ = eg.Wait() }()` (or cancel after wait) yields false.
func cancelBeforeWait(fd *ast.FuncDecl) (bool, bool) {
	if fd == nil || fd.Body == nil {
		return false, false
	}
	found, good := false, false
	for _, s := range fd.Body.List {
		ds, ok := s.(*ast.DeferStmt)
		if !ok {
			continue
		}
		fl, ok := ds.Call.Fun.(*ast.FuncLit)
		if !ok {
			continue
		}
		cancelled := false
		for _, bs := range fl.Body.List {
			if isCall(bs, "", "cancel") {
				cancelled = true
			}
			if isCall(bs, "eg", "Wait") {
				found = true
				good = cancelled
			}
		}
	}
	return good, found
}

// containsCall reports whether node n contains a call recv.name(...) outside function literals.
func containsCall(n ast.Node, recv, name string) bool {
	found := false
	ast.Inspect(n, func(nd ast.Node) bool {
		if _, ok := nd.(*ast.FuncLit); ok {
			return false
		}
		if e, ok := nd.(ast.Expr); ok && isCallExpr(e, recv, name) {
			found = true
		}
		return true
	})
	return found
}

// returnsAfterWait: among the top-level statements of advertise(), the first one that calls
// eg.Wait() comes after every statement that calls eg.Go(...), and no statement before it contains
// a return (function literals excluded): advertise returns only when every member has returned.
func returnsAfterWait(fd *ast.FuncDecl) (bool, bool) {
	if fd == nil || fd.Body == nil {
		return false, false
	}
	w := -1
	for i, s := range fd.Body.List {
		if containsCall(s, "eg", "Wait") {
			w = i
			break
		}
	}
	if w < 0 {
		return false, false
	}
	good, goes := true, 0
	for i, s := range fd.Body.List {
		if containsCall(s, "eg", "Go") {
			goes++
			if i > w {
				good = false
			}
		}
		if i < w {
			ast.Inspect(s, func(nd ast.Node) bool {
				if _, ok := nd.(*ast.FuncLit); ok {
					return false
				}
				if _, ok := nd.(*ast.ReturnStmt); ok {
					good = false
				}
				return true
			})
		}
	}
	return good && goes > 0, true
}

// shutdownAfterAdvertise: inside Run(), the only call of a.shutdown is a statement of a case
// clause that lies after the a.advertise(...) call, the statement right after it is a return, and
// no a.send(...) call lies after the a.advertise(...) call.
func shutdownAfterAdvertise(fd *ast.FuncDecl) (bool, bool) {
	if fd == nil || fd.Body == nil {
		return false, false
	}
	var advPos token.Pos
	ast.Inspect(fd.Body, func(nd ast.Node) bool {
		if e, ok := nd.(ast.Expr); ok && isCallExpr(e, "a", "advertise") && advPos == token.NoPos {
			advPos = e.Pos()
		}
		return true
	})
	if advPos == token.NoPos {
		return false, false
	}
	shutdowns, good := 0, true
	ast.Inspect(fd.Body, func(nd ast.Node) bool {
		if e, ok := nd.(ast.Expr); ok && isCallExpr(e, "a", "send") && e.Pos() > advPos {
			good = false
		}
		var body []ast.Stmt
		switch b := nd.(type) {
		case *ast.CaseClause:
			body = b.Body
		case *ast.BlockStmt:
			body = b.List
		}
		for i, s := range body {
			if isCall(s, "a", "shutdown") {
				shutdowns++
				if s.Pos() < advPos {
					good = false
				}
				if i+1 >= len(body) {
					good = false
				} else if _, ok := body[i+1].(*ast.ReturnStmt); !ok {
					good = false
				}
			}
		}
		return true
	})
	return good && shutdowns == 1, shutdowns > 0
}
