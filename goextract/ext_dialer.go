package main

import (
	"go/ast"
	"go/token"
	"strings"
)

// ExtDialer: the re-initialisation budget and back-off constants of
// internal/system/dialer.go (Dialer.init) and the attempt budget of corerad/server.go serve().
func init() {
	register("ExtDialer", func(x *ctx) string {
		var b strings.Builder
		dl := "internal/system/dialer.go"
		f := x.file(dl)

		// const ( attempts = 50; maxDelay = 3 * time.Second ) inside Dialer.init
		fd := findFunc(f, "Dialer.init")
		v, ok := constInFunc(f, fd, "attempts")
		defZ(&b, x, "dialAttempts", v, ok, dl+" Dialer.init attempts")
		v, ok = constInFunc(f, fd, "maxDelay")
		defZ(&b, x, "dialMaxDelay", v, ok, dl+" Dialer.init maxDelay")

		// delay = time.Duration(i+1) * 250 * time.Millisecond
		step, off, ok := delayStep(f, fd, "delay")
		defZ(&b, x, "dialStep", step, ok, dl+" Dialer.init delay step")
		defZ(&b, x, "dialStepOffset", off, ok, dl+" Dialer.init delay = Duration(i+OFFSET) * step")

		// for i := 0; i < attempts; i++ : loop start value
		v, ok = loopStart(fd, "attempts")
		defZ(&b, x, "dialLoopStart", v, ok, dl+" Dialer.init loop start index")

		sv := "internal/corerad/server.go"
		sf := x.file(sv)
		v, ok = constInFunc(sf, findFunc(sf, "serve"), "attempts")
		defZ(&b, x, "serveAttempts", v, ok, sv+" serve attempts")
		return b.String()
	})
}

// constInFunc evaluates the constant called name declared inside the body of fd.
func constInFunc(f *ast.File, fd *ast.FuncDecl, name string) (int64, bool) {
	if fd == nil || fd.Body == nil {
		return 0, false
	}
	var e ast.Expr
	ast.Inspect(fd.Body, func(n ast.Node) bool {
		gd, ok := n.(*ast.GenDecl)
		if !ok || gd.Tok != token.CONST {
			return true
		}
		for _, s := range gd.Specs {
			vs := s.(*ast.ValueSpec)
			for i, id := range vs.Names {
				if id.Name == name && i < len(vs.Values) && e == nil {
					e = vs.Values[i]
				}
			}
		}
		return true
	})
	if e == nil {
		return 0, false
	}
	return evalInt(f, e, 0)
}

// delayStep finds the single assignment `name = time.Duration(i+K) * C...` in fd whose right
// hand side is a product; returns the product of the constant factors C and the offset K.
func delayStep(f *ast.File, fd *ast.FuncDecl, name string) (step, off int64, ok bool) {
	if fd == nil || fd.Body == nil {
		return 0, 0, false
	}
	n := 0
	ast.Inspect(fd.Body, func(nd ast.Node) bool {
		as, isAs := nd.(*ast.AssignStmt)
		if !isAs || as.Tok != token.ASSIGN || len(as.Lhs) != 1 || len(as.Rhs) != 1 {
			return true
		}
		id, isId := as.Lhs[0].(*ast.Ident)
		if !isId || id.Name != name {
			return true
		}
		be, isBin := as.Rhs[0].(*ast.BinaryExpr)
		if !isBin || be.Op != token.MUL {
			return true
		}
		s, sok := constFactors(f, be)
		o, ook := varOffset(be)
		if sok && ook {
			step, off = s, o
			n++
		}
		return true
	})
	return step, off, n == 1
}

// varOffset finds the one non-constant factor conv(i+K) or conv(i) of a product and returns K.
func varOffset(e ast.Expr) (int64, bool) {
	switch e := e.(type) {
	case *ast.BinaryExpr:
		if e.Op == token.MUL {
			if v, ok := varOffset(e.X); ok {
				return v, true
			}
			return varOffset(e.Y)
		}
		if e.Op == token.ADD {
			if _, ok := e.X.(*ast.Ident); ok {
				if v, ok := evalInt(nil, e.Y, 0); ok {
					return v, true
				}
			}
		}
	case *ast.ParenExpr:
		return varOffset(e.X)
	case *ast.CallExpr:
		if len(e.Args) == 1 {
			if id, ok := e.Args[0].(*ast.Ident); ok && id.Name == "i" {
				return 0, true
			}
			return varOffset(e.Args[0])
		}
	}
	return 0, false
}

// loopStart finds `for i := START; i < bound; i++` in fd and returns START.
func loopStart(fd *ast.FuncDecl, bound string) (int64, bool) {
	if fd == nil || fd.Body == nil {
		return 0, false
	}
	var res int64
	n := 0
	ast.Inspect(fd.Body, func(nd ast.Node) bool {
		fs, ok := nd.(*ast.ForStmt)
		if !ok || fs.Init == nil || fs.Cond == nil || fs.Post == nil {
			return true
		}
		cond, ok := fs.Cond.(*ast.BinaryExpr)
		if !ok || cond.Op != token.LSS {
			return true
		}
		if id, ok := cond.Y.(*ast.Ident); !ok || id.Name != bound {
			return true
		}
		inc, ok := fs.Post.(*ast.IncDecStmt)
		if !ok || inc.Tok != token.INC {
			return true
		}
		as, ok := fs.Init.(*ast.AssignStmt)
		if !ok || len(as.Rhs) != 1 {
			return true
		}
		if v, ok := evalInt(nil, as.Rhs[0], 0); ok {
			res = v
			n++
		}
		return true
	})
	return res, n == 1
}
