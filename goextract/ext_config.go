package main

import (
	"fmt"
	"go/ast"
	"go/token"
	"math/big"
	"net/netip"
	"strconv"
	"strings"
)

// ExtConfig: the literals of the configuration parser that C02 ties to the documented values:
// default max_interval and hop limit (parseInterface), the interval bounds, the default lifetimes
// handed to parseDuration, defaultPREF64Prefix, the PREF64 prefix lengths accepted by
// parsePREF64Prefix and maxPref64Lifetime (plugin.NewPREF64).
func init() {
	register("ExtConfig", func(x *ctx) string {
		var b strings.Builder
		ifc := "internal/config/interface.go"
		plg := "internal/config/plugin.go"
		f := x.file(ifc)
		v, ok := localInit(f, "parseInterface", "maxInterval")
		defZ(&b, x, "cfg_default_max_interval", v, ok, ifc+" parseInterface maxInterval :=")
		v, ok = localInit(f, "parseInterface", "hopLimit")
		defZ(&b, x, "cfg_default_hop_limit", v, ok, ifc+" parseInterface hopLimit :=")
		// default lifetimes: the second argument of parseDuration(<field>, <default>)
		for _, d := range []struct{ fn, field, name string }{
			{"parsePrefix", "ValidLifetime", "cfg_default_valid_lifetime"},
			{"parsePrefix", "PreferredLifetime", "cfg_default_preferred_lifetime"},
			{"parseRoute", "Lifetime", "cfg_default_route_lifetime"},
		} {
			v, ok = durationDefault(x.file(plg), d.fn, d.field)
			defZ(&b, x, d.name, v, ok, plg+" "+d.fn+" parseDuration default of "+d.field)
		}
		pp := "internal/plugin/plugin.go"
		constZ(&b, x, pp, "maxPref64Lifetime", "cfg_max_pref64_lifetime")

		// defaultPREF64Prefix = "64:ff9b::/96"
		addr, bits := "0", int64(-1)
		if e, ok := findConst(x.file(plg), "defaultPREF64Prefix").(*ast.BasicLit); ok && e.Kind == token.STRING {
			if s, err := strconv.Unquote(e.Value); err == nil {
				if p, err := netip.ParsePrefix(s); err == nil && p.Addr().Is6() {
					a := p.Addr().As16()
					addr, bits = new(big.Int).SetBytes(a[:]).String(), int64(p.Bits())
				}
			}
		}
		if bits < 0 {
			x.warnf("%s: defaultPREF64Prefix not found / not an IPv6 prefix", plg)
		}
		fmt.Fprintf(&b, "Definition cfg_default_pref64_addr : N := %s%%N. (* %s defaultPREF64Prefix *)\n", addr, plg)
		defZ(&b, x, "cfg_default_pref64_bits", bits, bits >= 0, plg+" defaultPREF64Prefix")

		// switch prefix.Bits() { case 96, 64, 56, 48, 40, 32: ... } in parsePREF64Prefix
		var lens []string
		if fd := findFunc(x.file(plg), "parsePREF64Prefix"); fd != nil && fd.Body != nil {
			ast.Inspect(fd.Body, func(n ast.Node) bool {
				cc, ok := n.(*ast.CaseClause)
				if !ok {
					return true
				}
				for _, e := range cc.List {
					if v, ok := evalInt(x.file(plg), e, 0); ok {
						lens = append(lens, fmt.Sprintf("(%d)%%Z", v))
					}
				}
				return true
			})
		}
		if len(lens) == 0 {
			x.warnf("%s: parsePREF64Prefix length cases not found", plg)
		}
		fmt.Fprintf(&b, "Definition cfg_pref64_lengths : list Z := [%s]. (* %s parsePREF64Prefix cases *)\n", strings.Join(lens, "; "), plg)
		return b.String()
	})
}

// localInit finds `name := <const expr>` inside function fn.
func localInit(f *ast.File, fn, name string) (int64, bool) {
	fd := findFunc(f, fn)
	if fd == nil || fd.Body == nil {
		return 0, false
	}
	var res int64
	found := false
	ast.Inspect(fd.Body, func(n ast.Node) bool {
		as, ok := n.(*ast.AssignStmt)
		if !ok || as.Tok != token.DEFINE || len(as.Lhs) != 1 || len(as.Rhs) != 1 || found {
			return true
		}
		if id, ok := as.Lhs[0].(*ast.Ident); ok && id.Name == name {
			if v, ok := evalInt(f, as.Rhs[0], 0); ok {
				res, found = v, true
			}
		}
		return true
	})
	return res, found
}

// durationDefault finds parseDuration(<x>.<field>, <default>) inside fn and evaluates <default>.
func durationDefault(f *ast.File, fn, field string) (int64, bool) {
	fd := findFunc(f, fn)
	if fd == nil || fd.Body == nil {
		return 0, false
	}
	var res int64
	found := false
	ast.Inspect(fd.Body, func(n ast.Node) bool {
		call, ok := n.(*ast.CallExpr)
		if !ok || len(call.Args) != 2 || found {
			return true
		}
		if id, ok := call.Fun.(*ast.Ident); !ok || id.Name != "parseDuration" {
			return true
		}
		if sel, ok := call.Args[0].(*ast.SelectorExpr); ok && sel.Sel.Name == field {
			if v, ok := evalInt(f, call.Args[1], 0); ok {
				res, found = v, true
			}
		}
		return true
	})
	return res, found
}
