package main

import (
	"fmt"
	"go/ast"
	"go/token"
	"strings"
)

// ExtNetstate: the Change bit assignments of internal/netstate/change.go, the capacity of the
// channel made by Watcher.Subscribe, and the operStateChange table of watcher_linux.go as a
// list of (rtnetlink constant name, Change constant name).
func init() {
	register("ExtNetstate", func(x *ctx) string {
		var b strings.Builder
		chg := "internal/netstate/change.go"
		bits, ok := nsChangeBits(x.file(chg))
		if !ok {
			x.warnf("%s: Change constant block not found", chg)
		}
		b.WriteString("(* " + chg + ": const block of type Change *)\n")
		b.WriteString("Definition change_bits : list (string * Z) := [")
		for i, kv := range bits {
			if i > 0 {
				b.WriteString("; ")
			}
			fmt.Fprintf(&b, "(%q%%string, (%d)%%Z)", kv.name, kv.val)
		}
		b.WriteString("].\n")

		wat := "internal/netstate/watcher.go"
		v, ok := chanCap(x.file(wat), "Watcher.Subscribe", "changeC")
		defZ(&b, x, "subscribeChanCap", v, ok, wat+" Subscribe changeC capacity")

		lin := "internal/netstate/watcher_linux.go"
		tab, deflt, ok := nsOperTable(x.file(lin))
		if !ok {
			x.warnf("%s: operStateChange switch not found", lin)
		}
		b.WriteString("(* " + lin + ": operStateChange, case -> returned Change (ok = true) *)\n")
		b.WriteString("Definition oper_state_table : list (string * string) := [")
		for i, kv := range tab {
			if i > 0 {
				b.WriteString("; ")
			}
			fmt.Fprintf(&b, "(%q%%string, %q%%string)", kv[0], kv[1])
		}
		b.WriteString("].\n")
		// true when the default clause is `return 0, false`
		fmt.Fprintf(&b, "Definition oper_state_default_rejects : bool := %v.\n", deflt)

		// the events of the model are atomic: Subscribe and the closing of the channels run under the write lock from
		// their first statement to their return, notify under the read lock (w.mu.Lock(); defer w.mu.Unlock() /
		// w.mu.RLock(); defer w.mu.RUnlock() as the first two statements, no other lock operation in the body)
		atomic := func(fn, lock, unlock string) bool {
			fd := findFunc(x.file(wat), fn)
			if fd == nil || fd.Body == nil || len(fd.Body.List) < 2 {
				return false
			}
			return nsLockedWhole(fd.Body, lock, unlock)
		}
		fmt.Fprintf(&b, "Definition subscribe_atomic : bool := %v. (* %s Subscribe: w.mu held from the first statement to the return *)\n", atomic("Watcher.Subscribe", "Lock", "Unlock"), wat)
		fmt.Fprintf(&b, "Definition notify_atomic : bool := %v. (* %s notify: w.mu read-held from the first statement to the return *)\n", atomic("Watcher.notify", "RLock", "RUnlock"), wat)
		closeOK := false
		if fd := findFunc(x.file(wat), "Watcher.Watch"); fd != nil && fd.Body != nil {
			ast.Inspect(fd.Body, func(n ast.Node) bool {
				if d, ok := n.(*ast.DeferStmt); ok {
					if fl, ok := d.Call.Fun.(*ast.FuncLit); ok && nsLockedWhole(fl.Body, "Lock", "Unlock") && containsBuiltin(fl.Body, "close") {
						closeOK = true
					}
				}
				return true
			})
		}
		fmt.Fprintf(&b, "Definition close_atomic : bool := %v. (* %s Watch: the deferred closing of every channel runs under w.mu *)\n", closeOK, wat)
		return b.String()
	})
}

type nsBit struct {
	name string
	val  int64
}

// nsChangeBits evaluates the const block whose first spec has type Change, with iota and
// references to earlier constants of the block.
func nsChangeBits(f *ast.File) ([]nsBit, bool) {
	if f == nil {
		return nil, false
	}
	for _, d := range f.Decls {
		gd, ok := d.(*ast.GenDecl)
		if !ok || gd.Tok != token.CONST || len(gd.Specs) == 0 {
			continue
		}
		first := gd.Specs[0].(*ast.ValueSpec)
		if id, ok := first.Type.(*ast.Ident); !ok || id.Name != "Change" {
			continue
		}
		env := map[string]int64{}
		var res []nsBit
		var last ast.Expr
		for iota, s := range gd.Specs {
			vs := s.(*ast.ValueSpec)
			if len(vs.Names) != 1 {
				return nil, false
			}
			if len(vs.Values) == 1 {
				last = vs.Values[0]
			}
			v, ok := nsEval(last, int64(iota), env)
			if !ok {
				return nil, false
			}
			env[vs.Names[0].Name] = v
			res = append(res, nsBit{vs.Names[0].Name, v})
		}
		return res, true
	}
	return nil, false
}

func nsEval(e ast.Expr, iota int64, env map[string]int64) (int64, bool) {
	switch e := e.(type) {
	case *ast.BasicLit, *ast.UnaryExpr:
		return evalInt(nil, e, 0)
	case *ast.ParenExpr:
		return nsEval(e.X, iota, env)
	case *ast.Ident:
		if e.Name == "iota" {
			return iota, true
		}
		v, ok := env[e.Name]
		return v, ok
	case *ast.BinaryExpr:
		a, ok1 := nsEval(e.X, iota, env)
		b, ok2 := nsEval(e.Y, iota, env)
		if !ok1 || !ok2 {
			return 0, false
		}
		switch e.Op {
		case token.SHL:
			return a << uint(b), true
		case token.OR:
			return a | b, true
		case token.ADD:
			return a + b, true
		case token.MUL:
			return a * b, true
		}
	}
	return 0, false
}

// nsOperTable reads `switch s { case rtnetlink.X: return LinkY, true ... default: return 0, false }`.
func nsOperTable(f *ast.File) (tab [][2]string, defaultRejects bool, ok bool) {
	fd := findFunc(f, "operStateChange")
	if fd == nil || fd.Body == nil {
		return nil, false, false
	}
	var sw *ast.SwitchStmt
	for _, st := range fd.Body.List {
		if s, isSw := st.(*ast.SwitchStmt); isSw {
			sw = s
		}
	}
	if sw == nil {
		return nil, false, false
	}
	for _, c := range sw.Body.List {
		cc := c.(*ast.CaseClause)
		if len(cc.Body) != 1 {
			return nil, false, false
		}
		ret, isRet := cc.Body[0].(*ast.ReturnStmt)
		if !isRet || len(ret.Results) != 2 {
			return nil, false, false
		}
		okID, _ := ret.Results[1].(*ast.Ident)
		if cc.List == nil {
			lit, isLit := ret.Results[0].(*ast.BasicLit)
			defaultRejects = isLit && lit.Value == "0" && okID != nil && okID.Name == "false"
			continue
		}
		chg, isID := ret.Results[0].(*ast.Ident)
		if !isID || okID == nil || okID.Name != "true" {
			return nil, false, false
		}
		for _, e := range cc.List {
			sel, isSel := e.(*ast.SelectorExpr)
			if !isSel {
				return nil, false, false
			}
			tab = append(tab, [2]string{sel.Sel.Name, chg.Name})
		}
	}
	return tab, defaultRejects, true
}

// nsLockedWhole: the block starts with w.mu.<lock>(); defer w.mu.<unlock>() and contains no other operation on mu.
func nsLockedWhole(b *ast.BlockStmt, lock, unlock string) bool {
	if len(b.List) < 2 || !isSelSelCall(b.List[0], "mu", lock) {
		return false
	}
	d, ok := b.List[1].(*ast.DeferStmt)
	if !ok || !isSelSelCallExpr(d.Call, "mu", unlock) {
		return false
	}
	okAll := true
	for _, st := range b.List[2:] {
		ast.Inspect(st, func(n ast.Node) bool {
			if e, ok := n.(ast.Expr); ok {
				for _, m := range []string{"Lock", "Unlock", "RLock", "RUnlock"} {
					if isSelSelCallExpr(e, "mu", m) {
						okAll = false
					}
				}
			}
			return true
		})
	}
	return okAll
}

func containsBuiltin(n ast.Node, name string) bool {
	found := false
	ast.Inspect(n, func(nd ast.Node) bool {
		if c, ok := nd.(*ast.CallExpr); ok {
			if id, ok := c.Fun.(*ast.Ident); ok && id.Name == name {
				found = true
			}
		}
		return true
	})
	return found
}
