SPEC = {
    "id": "C06",
    "drivers": [{"pkg": "internal/corerad", "test": "TestVerifAdvRun", "newgo": True, "timeout": 1500},
                {"pkg": "internal/corerad", "test": "TestVerifSlowSink", "newgo": True, "timeout": 600, "arch386": []}],
    "rule": "runs of the real Advertiser.Run under testing/synctest: (a) bounded-exhaustive histories of <=3 (quick) / <=4 "
            "(thorough) solicitations on the gap grid {0,1,2.9,3,3,3.1,5.9,6,9} s around the 3 s boundary (mostly from ::), each "
            "with the periodic loop far away (min=max=1800s) and tight (min=3s,max=4s); (b) random bursty histories of <=30 "
            "solicitations from {::, fe80::2, fe80::3, 2001:db8::5} over 20..2200 s with six (min,max) pairs, 20% unicast-only; "
            "(c) floods of 20..70 solicitations within one instant. Non-trivial: at least one multicast trigger besides the "
            "periodic loop (an RS from ::) or a tight loop; distinct by canonical input.",
    "nontrivial": lambda c: any(e.get("Src") == "::" for e in (c.get("input", {}).get("Events") or [])) or c.get("input", {}).get("Min", 0) <= 4e9,
    "trusted": ["virtual time: a scheduled RA is transmitted at its scheduled instant; real transmit latency and OS timer jitter are not modelled (partial)",
                "the ticks of the multicast loop are computed by the C05 model from PRNG draws reproduced from the virtual-clock seed"],
    "assumptions": ["one scheduler goroutine handles requests in arrival (channel FIFO) order at the instant they are made"],
    "level_text": "Theorems (Coq, every request history with non-decreasing instants, any length): consecutive all-nodes RAs from the initial one on are >= 3 s apart, every multicast trigger at t is served by an all-nodes RA in [t, t+3 s], interleaved unicast solicitations do not affect the multicast state. Proved by induction with the invariant lastMulticast <= now + 3 s over the scheduler's step function; the 3 s literal is in the statement, the model value comes from goextract. Tie: exact comparison of the (instant, destination) log of the real Advertiser.Run under virtual time with the model.",
    "level_note": "Trusted: Coq kernel + vm_compute; goextract (minDelayBetweenRAs); Go driver + synctest virtual clock; transmit latency not modelled; the final zero-lifetime RA is exempt (C08).",
}
