SPEC = {
    "id": "C10",
    "disabled": True,   # merged into props/C10.py by the coordinator; run with ./check C10dial
    "property_file": "Properties/C10dial.v",
    "corr_module": "Corr.C10dial",
    "level_text": "",
    "level_note": "",
    "drivers": [{"pkg": "internal/system", "test": "TestVerifC10dial", "newgo": True, "timeout": 1500}],
    "rule": "",
    "nontrivial": lambda c: len(c.get("observed") or []) > 3,
    "trusted": [],
    "assumptions": [],
}
