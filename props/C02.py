SPEC = {
    "id": "C02",
    "level_text": "Theorems (Coq, all lexed documents of any size): the parser model accepts exactly when the documented "
                  "constraints (Accepts, written clause by clause from the property text and reference.toml) hold; an accepted "
                  "configuration equals the documented defaults; every accepted interface satisfies the ranges the RA builder relies "
                  "on (cfg_wf). The model is tied to config.Parse by differential runs on generated TOML documents (whole configuration "
                  "compared field by field), and the specification checker is evaluated on the implementation's own results.",
    "level_note": "Trusted: Coq kernel + vm_compute; the Go driver, its lexing of strings with time.ParseDuration / netip.ParsePrefix / "
                  "netip.ParseAddr / net.ResolveTCPAddr / ndp.NewCaptivePortal, and the rendering of cases. TOML decoding (go-toml strict "
                  "mode: unknown keys, wrong types, syntax) is outside the model: expected rejects are supplied by the generator. "
                  "'never panics' is tested only (byte-level malformed stream under recover) -- partial.",
    "drivers": [{"pkg": "internal/config", "test": "TestVerifC02", "timeout": 1500, "arch386": ["quick", "thorough"]}],
    "rule": "TOML documents generated from the key grammar. stream key: every key x every value of its vocabulary (limit-1s/-1ns/0/+1ns/+1s "
            "around each limit, far out, negative, fractional, int64 overflow, junk, \"\", auto, infinite, absent; CIDR / server / name / "
            "debug-address vocabularies (pref64.prefix: every prefix length 0..128); overlap pairs; name/names/mode combinations) on a random valid base document; stream interval: all "
            "1797 whole-second max_interval values and random ns values with the computed min, the largest accepted min, default_lifetime = max, "
            "and the first rejected value on each side; stream random: valid multi-stanza documents with 0-3 mutations; stream decode: unknown "
            "keys / wrong types / bad syntax (expected reject supplied by the generator); stream bytes: byte-mutated documents and noise "
            "(no-panic only). A case is non-trivial when it was evaluated against the model (has a lexed form); distinct by TOML text.",
    "nontrivial": lambda c: "coq" in c,
    "trusted": ["lexing of duration / CIDR / address / TCP-address / URI strings is done by the Go stdlib (and ndp.NewCaptivePortal), the same functions the parser calls",
                "0.33*float64(max) and 0.75*float64(max) are modelled as exact rational floors (validated on all 1797 whole-second values, "
                "on the points where the product crosses a whole second, and on random ns values)",
                "go-toml strict decoding is outside the model"],
    "assumptions": ["the document decodes (no unknown keys, well-typed values): expected rejects for the rest come from the generator",
                    "parsing never panics: tested on byte-level malformed input under recover(), not proved (partial)",
                    "lexer invariants (lex_wfb: addresses < 2^128, prefix lengths <= 128) are checked on every case and assumed by C02_cfg_wf"],
}
