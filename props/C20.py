def _nontrivial(c):
    inp = c.get("input") or {}
    if "tasks" in inp:
        return len(inp["tasks"] or []) > 0
    if "interfaces" in inp:
        return len(inp["interfaces"] or []) > 0
    return True


SPEC = {
    "id": "C20",
    "level_text": "Theorems (Coq): BuildTasks yields exactly one advertiser per advertising interface, one monitor per monitoring "
                  "(non-advertising) interface, none otherwise, in configuration order, then the HTTP task iff a debug address is "
                  "set, then the watcher (C20_tasks*). For every trace of the Serve transition system (any number of tasks, any "
                  "task behaviour, any signal arrivals, any interleaving): Serve returns error e only if e is the first task "
                  "failure, only after every task has returned, and the context is cancelled from that failure on "
                  "(C20_first_error); without a failure Serve returns nil, only after a signal was taken and every task returned "
                  "(C20_signal); without a failure every observation of the cancellation reads terminate = isTerminal(sig), "
                  "from the extracted source order set < cancel (C20_term_before_cancel); READY is preceded by every task's "
                  "ready event (C20_ready); isTerminal s <-> s <> SIGHUP from the extracted body; serve() makes at most 40 "
                  "attempts. The model is tied to the real Server by runs of Serve under testing/synctest with scripted tasks.",
    "level_note": "Trusted: Coq kernel + vm_compute; goextract; the Go driver (scripted tasks, recording logger and sdnotify writer "
                  "injected through the Notifier's only field). Liveness: every execution of the LTS (leaving aside repeated signal deliveries and repeated "
                  "observations) is bounded by a measure and, once the context is cancelled, never stuck before Serve has returned "
                  "(C20_serve_bounded, C20_serve_progress); that each task returns once cancelled is the tasks' own guarantee (C08 / C10); interleavings are at the granularity "
                  "of the LTS labels; the set/cancel order is decided by the extracted-order lemma.",
    "drivers": [
        {"pkg": "internal/corerad", "test": "TestVerifC20", "newgo": True, "timeout": 1200},
        # when the real Advertiser reports ready: after its first complete initialisation, never for a failed one
        {"pkg": "internal/corerad", "test": "TestVerifC20Ready", "newgo": True, "timeout": 300},
        # the daemon end to end: the real main() in a child process, private network namespace, veth pair
        {"pkg": "cmd/corerad", "test": "TestVerifE2E", "timeout": 300, "arch386": []}],
    "rule": "BuildTasks: every advertise/monitor flag combination for 0-3 interfaces x debug on/off, then random lists of 0-8 "
            "interfaces with repeating names. Serve: the real Serve under synctest (virtual time) with scripted tasks of the classes "
            "{until-cancelled, ready-at-once, fails, fails-before-ready, returns-early, slow-to-stop, fails-while-stopping, "
            "never-ready}: all ordered pairs of classes x {SIGINT, SIGTERM, SIGHUP} x signal placed before / between / after / at "
            "the same instant as the first task's scripted end, and random sets of 0-4 tasks with 0-2 signals at distinct instants "
            "(25% racing a failure at the same instant); every run gets a last signal so that it ends. Notification socket: healthy, or failing (the datagram is recorded, then the write "
            "returns an error) for every notification from the moment the first signal is delivered, or from the start -- half of the pair "
            "grid is repeated with a failing socket, half of the random runs draw one: the sd_notify datagrams are best-effort, Serve must still "
            "return nil after all tasks returned and the tasks must observe the right terminate() value. serve(): scripted listener "
            "results (0-45 net errors with durations, then closed / other error / nil / nothing), optional cancellation at an instant "
            "off every timer. Non-trivial: at least one task / interface; distinct by canonical input.",
    "nontrivial": _nontrivial,
    "trusted": ["errgroup, context, sync.WaitGroup, channels and the select statement are modelled, not verified",
                "the observation log is a linearisation: reads of terminate() and the log append happen under one lock; events that "
                "enable others are logged before they take effect, observations after they are made"],
    "assumptions": ["tasks only interact with the supervision through Run's context, their return value and their ready channel",
                    "the set-before-cancel clause is decided by the source order of the calls in signalTask.Run (extracted), since a "
                    "swapped order is a race the harness cannot place deterministically"],
    "extra_targets": ["Proofs/Server.v"],
}
