SPEC = {
    "id": "C18",
    "level_text": "Theorems (Coq, all messages, senders, receipt times, option lists, histories): Monitor.handle performs exactly one "
                  "Add 1, on received_total{interface, host, message type}; for an RA additionally the two flag gauges, the "
                  "default-route gauge = floor((now + router lifetime)/1s) iff the lifetime is non-zero, and for each prefix option in "
                  "order the four gauges (autonomous, on-link, preferred / valid expiry = floor((now + lifetime)/1s)) labelled by the "
                  "(prefix, length) pair exactly as received; nothing for other options or other message types; the listener strips "
                  "the zone; after any history the counter equals the number of matching messages and every gauge holds the value "
                  "written by the last message that set it (C18_history, induction over the history). The model is tied to the real "
                  "Monitor by differential runs on metricslite.Memory.",
    "level_note": "Trusted: Coq kernel + vm_compute; the Go driver (it computes the per-message sample delta from two full snapshots), "
                  "rendering of cases; time.Time arithmetic modelled on Z ns (Unix() = floor), float64 exact below 2^53.",
    "drivers": [{"pkg": "internal/corerad", "test": "TestVerifC18", "timeout": 900},
                # real parallelism: monitors of different interfaces at once, with a scraper beside them
                {"pkg": "internal/corerad", "test": "TestVerifParallel", "newgo": True, "timeout": 600, "arch386": [], "env": {"VERIF_PAR": "monitors"}}],
    "known_classes": {},
    "rule": "histories of 1..8 messages to one Monitor: 72% RAs (arbitrary header, router lifetime 0 / 1s / 65535s / sub-second, 0..6 "
            "prefix options from a pool (so prefixes repeat) or with random address and length 0..128, unmasked prefixes and sub-second "
            "lifetimes when hand-built, infinite / zero lifetimes, other and unknown options interleaved, option order shuffled in 30%), "
            "RS / NS / NA; 1..3 senders per history with and without zones (so senders repeat) from a pool of link-local, global, IPv4-mapped (::ffff:a.b.c.d, whose label must stay the 128-bit address), unspecified and loopback addresses; 60% of the histories go through "
            "Monitor.monitor + listener.Listen on a scripted connection after a real encode/decode (8% of those RAs get a prefix "
            "length byte > 128 patched in), the others call Monitor.handle directly; receipt times around 1970 (also before), second "
            "boundaries, 2^31 s, today, 2100; 20% repeat an earlier RA at a later time. A case is non-trivial when it contains an RA "
            "with at least one prefix option or more than one message; distinct by canonical input.",
    "nontrivial": lambda c: len((c.get("input") or {}).get("messages", [])) > 1 or any("prefix " in (m.get("ra") or "") for m in (c.get("input") or {}).get("messages", [])),
    "trusted": ["the per-message delta of samples is computed by the driver from two full Series() snapshots",
                "label strings are parsed back with netip.ParseAddr / netip.ParsePrefix; addresses are interned (equality only)"],
    "assumptions": ["receipt time and receipt time + lifetime are representable time.Time values (always true: lifetimes are below 2^32 s); "
                    "Unix() is the floor of the instant, also before 1970; the seconds value is below 2^53 so float64 is exact",
                    "prefix lengths above 128 (not a CIDR) are labelled \"invalid Prefix\" by net/netip; the theorems state the (prefix, length) "
                    "label for lengths 0..128"],
}
