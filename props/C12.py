SPEC = {
    "id": "C12",
    "level_text": "Theorems (Coq, all pairs of RAs, any option lists): for every label set (field, details) the number of "
                  "problems verifyRAs reports equals the declarative RFC 4861 6.2.7 characterisation (hop limit / M / O differ; "
                  "reachable / retransmit only when both non-zero and different; first MTU / captive-portal options differ; one "
                  "report per pair of prefix options with equal (prefix,length) and different preferred resp. valid lifetime; one per "
                  "pair of route options with equal route and preference and different lifetime; RDNSS / DNSSL count, else per index "
                  "lifetime / contents), nothing under any other label set, nothing for a kind absent on either side; the hook fires "
                  "iff the list is non-empty and every problem is counted and logged once; verify a a = [] and verify a (wire a) = [] "
                  "exactly for self-consistent RAs, for ALL durations (with fixes/c12-wire-granularity.diff). The model is tied to "
                  "verifyRAs / Advertiser.handle by differential runs on RAs that went through the real ndp codec.",
    "level_note": "Trusted: Coq kernel + vm_compute; the Go driver, the ndp codec and the rendering of cases; domain names / URIs "
                  "are interned (equality only); durations are modelled on Z (time.Duration.Truncate = d - d rem m).",
    "drivers": [{"pkg": "internal/corerad", "test": "TestVerifC12", "timeout": 900},
                # through the real Advertiser.Run on links of every kind: what the interface looks like is not a side
                {"pkg": "internal/corerad", "test": "TestVerifC12Run", "newgo": True, "timeout": 300, "arch386": []}],
    "known_classes": {},
    "rule": "exh: per aspect (hop limit, M, O, reachable, retransmit, MTU, prefix, route, RDNSS, DNSSL, captive portal) every "
            "pair (own value, peer value) of a 2..16 element domain (absent / equal / different / several options, same prefix "
            "with another length, sub-unit durations, unit boundaries -1ns/0/+1ns, infinity, zero) with equal-or-random background "
            "for the other aspects, option order shuffled in 40%, unknown / SLLA / PREF64 / flags-extension options sprinkled; each "
            "pair is run as verifyRAs(ours, decoded peer), verifyRAs(decoded peer, ours), verifyRAs(ours, decoded ours) and, for a "
            "third, through Advertiser.handle (counter deltas, hook, log lines; first or second delivery). rnd: larger RAs with "
            "0..3 extra prefix / route / RDNSS / DNSSL options and a peer derived by keep / change / drop / duplicate. cfg: own RA "
            "from config.Parse of generated TOML with sub-unit durations against its own wire image, directly and through handle "
            "with the parsed plugins (RDNSS / DNSSL stanzas with three elements not in ascending order; a deep by-content dump of the "
            "config.Interface taken before anything is compared must equal the dump after verifyRAs and after handle). Every direct verifyRAs "
            "call is bracketed by deep dumps of both arguments (an altered argument is an implementation violation: cases are rendered "
            "after the call). dyn: ONE advertiser receives 2-4 RAs while its own RA changes in between without a "
            "reinitialisation (configuration with wildcard ::/64 prefix / :: RDNSS / ::/0 route stanzas whose injected address and route "
            "lists change, a forwarding flip, a deprecated prefix / route under an advancing injected clock); the peer sends the wire "
            "image of the current own RA, of the own RA at the previous reception, or a mutated current image; every reception is one "
            "case whose own RA is computed by config.Interface.RouterAdvertisement on the state of that moment, independently of "
            "handle (and the hook's `ours` argument must equal it). A case is non-trivial when some option kind is present on both sides or something was "
            "reported; distinct by canonical input.",
    "nontrivial": lambda c: bool(c.get("input", {}).get("kinds_on_both_sides")) or bool((c.get("observed") or {}).get("reported")),
    "trusted": ["the ndp v1.1.0 codec (theirs is what ndp.ParseMessage returned); its float64 Seconds() conversion is modelled as "
                "truncation (exact below 2^24 s; above, a fraction within 2 ns of the next second may round up)",
                "domain names and URIs are compared as opaque tokens: names that the codec rewrites (punycode, trailing dot) and "
                "RDNSS addresses carrying a zone are outside the model"],
    "assumptions": ["verify.go carries fixes/c12-wire-granularity.diff (durations compared at wire granularity); without it the "
                    "self round-trip cases with sub-unit durations are reported as violations",
                    "own RAs in the self round-trip clause do not contradict themselves (no two options for the same prefix / "
                    "route+preference with different lifetimes); C12_self_iff shows this is necessary"],
}
