SPEC = {
    "id": "C09",
    "drivers": [{"pkg": "internal/corerad", "test": "TestVerifC09", "newgo": True, "timeout": 1500},
                # the real socket set up by dialNDP on a veth pair (root only): the hop limit of a received message reaches
                # the listener through the control message; only RS / RA pass the ICMPv6 filter
                {"pkg": "internal/system", "test": "TestVerifRealOS", "newgo": True, "timeout": 300},
                # real parallelism: listeners of several interfaces sharing one Context under floods of invalid messages
                {"pkg": "internal/corerad", "test": "TestVerifParallel", "newgo": True, "timeout": 600, "arch386": [], "env": {"VERIF_PAR": "listeners"}},
                # volume on the real Advertiser: > 2^16 invalid messages in a row, 300000 distinct sources (no memory per source)
                {"pkg": "internal/corerad", "test": "TestVerifC09Flood", "newgo": True, "timeout": 600, "arch386": []}],
    "extra_corr_modules": ["Corr.C06"],
    "rule": "scripted Conn.ReadFrom sequences fed to the real Advertiser.Run and Monitor.Run under testing/synctest: all 256 hop "
            "limits; runs of 1..12 consecutive invalid messages of each of the 4 NDP types (beyond the 5-retry budget) followed by "
            "valid messages; 1..6 consecutive timeouts with and without a resetting message; a fatal read error; random mixed "
            "scripts of <=40 reads; floods of 100 / 1025 / 3000 consecutive invalid messages; the real dialNDP socket on a veth pair (hop limits 255 and 64 as sent, NS / NA filtered). Non-trivial: the script contains at least one invalid message or timeout; distinct by input.",
    "nontrivial": lambda c: any(s.get("Kind") != "msg" or s.get("Hop") != 255 or s.get("Typ") in (135, 136)
                                for s in (c.get("input", {}).get("script") or [])),
    "trusted": ["the fake Conn delivers scripted datagrams in order; messages are constructed as Go values (the ndp wire decoder is not involved)"],
    "assumptions": ["an invalid message is one with hop limit != 255, or (on an advertiser) a type other than RS/RA; malformed packets are rejected by the ndp decoder before the listener sees them"],
    "level_text": "Theorems (Coq, scripts of any length, hop limits and types arbitrary): while running the listener delivers exactly the hop-limit-255 messages in order and counts exactly the others; any run of bad-hop-limit messages of ANY length is transparent (same deliveries, same outcome, same back-off afterwards), so a following valid message is always delivered; on an advertiser only an RS from a specified source causes a unicast transmission and other types only touch counters. Tie: scripted reads through the real Advertiser/Monitor, comparing answers, invalid/received counters by type and liveness.",
    "level_note": "Trusted: Coq kernel + vm_compute; goextract (rxRetries, back-off unit); Go driver + fake Conn under synctest; the receive-retry policy itself is C10.",
}
