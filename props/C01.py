SPEC = {
    "id": "C01",
    "level_text": "Theorems (Coq, all parsed configurations / system states / repeat counts): build = expected_ra (header fields copied, "
                  "options = the concatenation, in plugin order, of exactly the options each stanza calls for; first failing wildcard source "
                  "fails the build); option kinds non-decreasing in the documented order when the plugin list is grouped as parsePlugins "
                  "appends it (order extracted from the source); forwarding rule; Apply is state-passing and returns the plugin unchanged, "
                  "n-fold rebuilds are identical; PREF64 lifetime = min(65528 s, 8 s * ceil(3*max/8 s)). Tie: differential runs of "
                  "config.Parse + Interface.RouterAdvertisement on generated TOML x system states, plus implementation-only checks "
                  "(k builds deeply equal, deep configuration snapshot unchanged by building -- also by the rebuild and comparison which "
                  "Advertiser.handle performs when another router's RA is received).",
    "level_note": "Trusted: Coq kernel + vm_compute; goextract (plugin order, Apply option types, NewPREF64 constants); the Go driver "
                  "(conversion of config.Interface / ndp options to Gallina terms); wildcard expansion functions are mirrored from the "
                  "Go code (their own properties are C13-C15); go-toml decoding is outside the model.",
    "drivers": [{"pkg": "internal/config", "test": "TestVerifC01", "timeout": 1500},
                {"pkg": "internal/corerad", "test": "TestVerifC01Handle", "timeout": 600},
                # a running Advertiser re-dialled onto an interface that changed in between (hardware address, index)
                {"pkg": "internal/corerad", "test": "TestVerifC01Redial", "newgo": True, "timeout": 300},
                # the wildcards as in production: real Prepare + rtnetlink in a private network namespace whose addresses change
                {"pkg": "internal/plugin", "test": "TestVerifNetnsWildcards", "arch386": []},
                # the system layer under the wildcards ("for any system state: interface addresses, loopback routes"): the real
                # rtnetlink decoding of addresses and routes of every type, protocol and scope
                {"pkg": "internal/system", "test": "TestVerifC13Addresser", "corr_module": "Corr.C13sys"},
                # ... and the forwarding state behind the router lifetime: the real State against real sysctl files
                {"pkg": "internal/system", "test": "TestVerifState", "newgo": True, "timeout": 600}],
    "rule": "random TOML interface: every header key absent / at a limit / random (fractional max_interval, default_lifetime 0 / auto / max / 9000s, "
            "timers 0..1h with sub-ms parts), 0..3 stanzas of each kind (prefix static or ::/64, route static with lengths not multiple of 8 or ::/0, "
            "rdnss static / :: / empty, dnssl, pref64 default / given / invalid), mtu, source_lla, captive_portal, deprecated flags with boundary lifetimes; "
            "system state: 0..6 addresses (GUA/ULA/LL/IPv4/IPv4-mapped, flags, duplicates of a /64), 0..5 loopback routes (covering pairs, /128, IPv4, "
            "duplicates), failing OS calls, MAC absent / 6 / 8 bytes, clock at / around deadlines and before the epoch, forwarding on/off; 1..3 builds. "
            "Plus the cross product stanza kind present/absent (2^8) x forwarding x MAC (sampled in quick, full in thorough). "
            "Implementation-only stream TestVerifC01Handle (package corerad): a real Advertiser on a parsed configuration (static stanzas whose "
            "domain_names / servers lists have 2..5 elements NOT in ascending order, stanzas not in ascending order, 30% `names` groups of three "
            "interfaces sharing the decoded slices) receives 1..4 peer RAs derived from the wire image of its own RA (identical; lists permuted or "
            "sorted with the same option and element counts; one element replaced; lifetimes changed; options shuffled / dropped / duplicated; "
            "unrelated); a deep by-content dump of ALL interfaces taken before the first reception must equal the dump after every reception and "
            "every interface's RA rebuilt after every reception must equal the first one. "
            "Non-trivial: the configuration was accepted and has at least one plugin; distinct by canonical input.",
    "nontrivial": lambda c: (bool(c.get("coq")) or bool(c.get("input", {}).get("peers"))) and c.get("input", {}).get("plugins", 0) > 0,
    "trusted": ["wildcard expansions (Prefix.current, Route.current, RDNSS.current) are part of the model by mirroring; their specifications are C13-C15",
                "'building never alters the configuration' is checked on the implementation only (reflect-based deep snapshots before / after)"],
    "assumptions": ["the plugin sources are injected (Addrs/Routes/TimeNow/LLA.Addr) as Prepare would set them; a nil source (unprepared plugin) is C17's subject",
                    "clock readings and epoch + lifetime stay inside the int64 nanosecond range"],
    "extra_targets": ["Proofs/Build.v"],
}
