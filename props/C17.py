SPEC = {
    "id": "C17",
    "level_text": "Theorems (Coq, all interface lists, option lists, State answers): a successful scrape is, up to order, exactly one sample per prefix (x4) / route / RDNSS / DNSSL option of the RA that would be sent now plus the four interface gauges and the misconfiguration gauge; the JSON rendering maps every option to an entry with its values and every option kind plugin.go can construct is handled by packOptions and by collectMetrics' registration table (computed on tables regenerated from the source on every run); neither path can panic; /metrics and /debug/pprof/ are served iff enabled. The model is tied to Metrics.constScrape/collectMetrics, metricslite (Prometheus pedantic registry and Memory), crhttp.Handler and packRA by differential runs of the production wiring at six lifecycle points.",
    "level_note": "Trusted: Coq kernel + vm_compute; goextract tables (gen/ExtMetrics.v); the Go driver (fake State, fake address/route sources installed by Prepare, label strings parsed back into model values). RA construction is an input here (C01). Scrape vs. Prepare is atomic in the model; the thorough tier adds a -race run with concurrent scrapes during initialisation (a test). float64 rounding of Duration.Seconds() is outside the model (generated durations are whole milliseconds). Known finding duplicate_series_labels.",
    "drivers": [
        {"pkg": "internal/corerad", "test": "TestVerifC17", "newgo": True, "timeout": 900},
        {"pkg": "internal/corerad", "test": "TestVerifC17", "newgo": True, "timeout": 900, "tiers": ["thorough"],
         "race": True, "env": {"VERIF_C17_RACE": "1"}},
        # real parallelism: several scrapes of one Metrics value at once (and the other side-by-side parties)
        {"pkg": "internal/corerad", "test": "TestVerifParallel", "newgo": True, "timeout": 600, "arch386": [], "env": {"VERIF_PAR": "scrapes"}},
        # the daemon end to end: the real main() in a child process, private network namespace, veth pair
        {"pkg": "internal/corerad", "test": "TestVerifC20Ready", "newgo": True, "timeout": 300, "arch386": []},
        {"pkg": "cmd/corerad", "test": "TestVerifE2E", "timeout": 300, "arch386": []}],
    "known_classes": {1: "duplicate_series_labels"},
    "rule": "generated accepted TOML configurations (1-3 interface stanzas incl. names groups; advertise / monitor / idle; "
            "default_lifetime absent/auto/0/explicit/boundary; every stanza kind 0..3: static, ::/64 wildcard and deprecated prefixes, "
            "static, ::/0 wildcard (possibly twice) and deprecated routes, RDNSS with :: wildcard and repeated server sets, DNSSL "
            "with repeated name lists, MTU, source LLA, captive portal, PREF64 0..2; lifetimes 1s..2^32-2 s, infinite, fractional) "
            "wired as cmd/corerad/main.go does and observed at the points never / dialing / up / up+fail / up-later / redial / "
            "stopped, with State read failures and address/route source failures injected. One case per (configuration, point, "
            "{scrape, api, routes}). Last, in real time outside the bubbles (both tiers): 1500 scrapes of the production registry, 1500 API requests "
            "and 6000 RA builds of an interface carrying every wildcard stanza run concurrently with the plugin initialisation loop "
            "(Prepare) of another, static interface spinning back to back; everything must finish within a 3 s watchdog (a blocked "
            "daemon is an implementation violation). Non-trivial: at least one option is rendered, or a failure is injected.",
    "nontrivial": lambda c: bool(c.get("input", {}).get("options")) or bool(c.get("input", {}).get("injected")),
    "trusted": [
        "the driver's fake plugin sources (Prepare installs fake Addrs/Routes/TimeNow instead of rtnetlink and the wall clock; Apply is the real code)",
        "float64 rounding in time.Duration.Seconds() is outside the model; generated durations are whole milliseconds, for which the conversion is exact",
        "metricslite and the Prometheus pedantic registry are modelled (duplicate series -> failed Gather; Memory keeps the later sample), not verified",
    ],
    "assumptions": [
        "the RA as built from configuration and plugins is an input of the model (Interface.RouterAdvertisement(true) evaluated by the driver at the same virtual instant); its construction is property C01",
        "a scrape / request is atomic with respect to Prepare in the model (interleavings inside one scrape are exercised by the real-time stress -- blocking only -- and by the -race run)",
        "only routing/gating of /metrics and /debug/pprof/ and the CoreRAD state series are modelled, not the Go runtime collectors or pprof bodies",
    ],
}
