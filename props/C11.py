import os
import re


def stage_hook(repo_dir):
    """Seam for the C11 driver, applied to the STAGED copy only: inside Dialer.dial the three OS
    entry points become package variables (harness/overlay/internal/system/zz_verif_seam.go,
    defaulting to the real functions).  Nothing else changes.  Raises when a call site is not
    found exactly once inside dial() (= broken tie)."""
    p = os.path.join(repo_dir, "internal", "system", "dialer.go")
    src = open(p).read()
    m = re.search(r"^func \(d \*Dialer\) dial\(\) \(\*DialContext, error\) \{\n.*?^\}\n", src, re.S | re.M)
    if not m:
        raise RuntimeError("stage_hook: func (d *Dialer) dial() not found in internal/system/dialer.go")
    body = m.group(0)
    for old, new in (("lookupInterface(", "verifLookupInterface("),
                     ("checkInterface(", "verifCheckInterface("),
                     ("dialNDP(", "verifDialNDP(")):
        n = len(re.findall(r"(?<![A-Za-z0-9_.])" + re.escape(old), body))
        if n != 1:
            raise RuntimeError("stage_hook: expected exactly one call site %r inside Dialer.dial, found %d" % (old, n))
        body = re.sub(r"(?<![A-Za-z0-9_.])" + re.escape(old), new, body)
    with open(p, "w") as f:
        f.write(src[:m.start()] + body + src[m.end():])


SPEC = {
    "id": "C11",
    "stage_hook": stage_hook,
    "level_text": "Theorems (Coq, all fault scripts with the real dial(): initial sysctl value, mode, outcome of lookup / check / open / get / set-false in every dial, task results, leave / close / restore answers, cancellation points, select races): every trace of the model is accepted by the C11 acceptor written from the property text (C11_monitor_accepts) -- a connection is opened only when none is open and autoconf is back, closed exactly once before the next is opened or Dial returns, nothing is left open by a failed dial; while an advertising connection is handed out the sysctl is false unless the write was denied; whenever nothing is held it equals its initial value unless a set/restore call failed; every restore writes the value read by that dial; permission / not-exist on restore are tolerated and any other restore error makes done() fail (Dial then returns it); a monitor never touches the sysctl. Direct corollaries: cleaned = opened in the same order and cleaned before the next open (C11_once, also for every accepted log: C11_once_of_accepted), C11_tolerated, C11_restore_value, C11_monitor_mode. The same acceptor is evaluated on the call logs of the real Dial + dial() + setAutoconf + done closure, run against a recording State and fake connections through an identifier seam applied to the staged copy only.",
    "level_note": "Trusted: Coq kernel + vm_compute; the stage_hook (renames three call sites inside Dialer.dial in the staged copy; raises when they are not found exactly once); the recording State / fake connection; go1.26.8 testing/synctest.  The real lookupInterface / checkInterface / dialNDP (raw socket, ICMPv6 filter, multicast join) are outside: their outcomes are inputs.  A failed sysctl write is assumed to leave the value unchanged.",
    "drivers": [{"pkg": "internal/system", "test": "TestVerifC11", "newgo": True, "timeout": 1500},
                # the real operating-system State: error classes for a vanished interface, agreement with the sysctl files
                {"pkg": "internal/system", "test": "TestVerifState", "newgo": True, "timeout": 600},
                # the real Dialer.dial / setAutoconf / done closure on a veth pair against the real autoconf sysctl (root only)
                {"pkg": "internal/system", "test": "TestVerifRealOS", "newgo": True, "timeout": 300},
        # the daemon end to end: the real main() in a child process, private network namespace, veth pair
        {"pkg": "cmd/corerad", "test": "TestVerifE2E", "timeout": 300, "arch386": []}],
    "rule": "stream exhaustive: as C10dial, over mode {advertise, monitor} x initial autoconf {true, false} x real dial outcomes (all ok, set denied, lookup not-ready, open syscall error, get error, set other error, set not-exist with failing leave/close; thorough adds lookup other, check not-ready / syscall, open permission, get permission / not-exist) x task results {nil, link change, syscall, permission, canceled} x restore answers {ok, permission, not-exist, other} x failing leave/close x cancellation points, depth 4 (quick) / 6 (thorough) dial + task entries (= 2 / 3+ re-dials). stream random: long scripts as C10dial with real dials. stream state: the real NewState() of this host -- every State call on an interface that does not exist must return an error matching os.ErrNotExist (the class Dialer.setAutoconf tolerates on restore), reads agree with the sysctl files, concurrent reads of different files never mix. Non-trivial: more than 6 observed calls; distinct by script.",
    "nontrivial": lambda c: c.get("_driver") == "TestVerifState" or len(c.get("observed") or []) > 6,
    "trusted": ["props/C11.py stage_hook: in the staged internal/system/dialer.go only, `lookupInterface(`, `checkInterface(`, `dialNDP(` inside Dialer.dial become package variables (zz_verif_seam.go) that default to the real functions",
                "the fake State returns the current simulated sysctl value on a successful read and changes it only on a successful write"],
    "assumptions": ["the sysctl is changed by nobody else while CoreRAD runs",
                    "a failed SetIPv6Autoconf leaves the sysctl unchanged",
                    "'put back to the value it had before' is claimed provided no set/restore call failed (the property's proviso): after a denied restore the next dial reads the disabled value and restores that"],
}
