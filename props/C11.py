import os
import re


def stage_hook(repo_dir):
    """Seam for the C11 driver, applied to the STAGED copy only: inside Dialer.dial the three OS
    entry points become package variables (harness/overlay/internal/system/zz_verif_seam.go,
    defaulting to the real functions).  Nothing else changes.  Raises when a call site is not
    found exactly once inside dial() (= broken tie)."""
    p = os.path.join(repo_dir, "internal", "system", "dialer.go")
    src = open(p).read()
    m = re.search(r"^func \(d \*Dialer\) dial\(\) \(\*DialContext, error\) \{\n.*?^\}\n", src, re.S | re.M)
    if not m:
        raise RuntimeError("stage_hook: func (d *Dialer) dial() not found in internal/system/dialer.go")
    body = m.group(0)
    for old, new in (("lookupInterface(", "verifLookupInterface("),
                     ("checkInterface(", "verifCheckInterface("),
                     ("dialNDP(", "verifDialNDP(")):
        n = len(re.findall(r"(?<![A-Za-z0-9_.])" + re.escape(old), body))
        if n != 1:
            raise RuntimeError("stage_hook: expected exactly one call site %r inside Dialer.dial, found %d" % (old, n))
        body = re.sub(r"(?<![A-Za-z0-9_.])" + re.escape(old), new, body)
    with open(p, "w") as f:
        f.write(src[:m.start()] + body + src[m.end():])


SPEC = {
    "id": "C11",
    "stage_hook": stage_hook,
    "level_text": "",
    "level_note": "",
    "drivers": [{"pkg": "internal/system", "test": "TestVerifC11", "newgo": True, "timeout": 1500}],
    "rule": "",
    "nontrivial": lambda c: len(c.get("observed") or []) > 6,
    "trusted": [],
    "assumptions": [],
}
