SPEC = {
    "id": "C08",
    "drivers": [{"pkg": "internal/corerad", "test": "TestVerifC08", "newgo": True, "timeout": 1500}],
    "rule": "runs of the real Advertiser.Run under testing/synctest with Conn.WriteTo gated per call: stop instants {idle, unicast "
            "answer pending in its random delay, multicast pending in its 3 s delay, cancel exactly when the answer is due, "
            "solicitation in the same instant as the cancel, 1..3 workers blocked in WriteTo released after/at/before the cancel in "
            "several orders, scheduled multicast in flight, slow final RA} x {terminate, reload} x {normal, unicast-only}, plus "
            "random histories with random gating and release offsets. Non-trivial: at least one transmission was pending or in "
            "flight at the cancellation; distinct by canonical input.",
    "nontrivial": lambda c: "instant:idle" not in c.get("tags", []),
    "trusted": ["atomic steps of the LTS are the blocking points of the goroutines; data races inside a step are out of reach (thorough tier could add -race)",
                "SIGINT/SIGTERM/SIGHUP -> terminate flag is C20's business; here terminate() is a constant of the run"],
    "assumptions": ["the observable log is the order in which WriteTo begins/ends and Run's return are recorded under one mutex"],
    "level_text": "Theorems (Coq, every complete trace of the stop-sequence LTS, any number of pending/in-flight transmissions and any interleaving): when terminating the trace is pre ++ [final begin; final end; return nil] with every ordinary transmission completed inside pre and the cancellation in pre (exactly one final RA, last packet, success); when reloading pre ++ [return nil] with no final RA; nothing follows the return; from any state after the cancellation the run can complete (reachability; fairness is partial). Tie: every observed event log of the real Advertiser.Run with gated WriteTo must be accepted by the LTS and by the independent trace checker (incl. prompt return and final RA = ordinary RA except lifetime).",
    "level_note": "Trusted: Coq kernel + vm_compute; Go driver, fake Conn with gated WriteTo, synctest; the LTS's guards encode the synchronisation the code is read to perform (workers.stop, errgroup.Wait, shutdown after advertise) and are validated only by trace acceptance.",
}
