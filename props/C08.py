SPEC = {
    "id": "C08",
    "drivers": [{"pkg": "internal/corerad", "test": "TestVerifC08", "newgo": True, "timeout": 1500},
                # real parallelism: send workers against the scheduler's stop (and the other side-by-side parties)
                {"pkg": "internal/corerad", "test": "TestVerifParallel", "newgo": True, "timeout": 600, "arch386": [], "env": {"VERIF_PAR": "workers"}},
        # the daemon end to end: the real main() in a child process, private network namespace, veth pair
        {"pkg": "cmd/corerad", "test": "TestVerifE2E", "timeout": 300, "arch386": []}],
    "rule": "runs of the real Advertiser.Run under testing/synctest with Conn.WriteTo gated per call: stop instants {idle, unicast "
            "answer pending in its random delay, multicast pending in its 3 s delay, cancel exactly when the answer is due, "
            "solicitation in the same instant as the cancel, 1..3 workers blocked in WriteTo released after/at/before the cancel in "
            "several orders, scheduled multicast in flight, slow final RA} x {terminate, reload} x {normal, unicast-only}, plus "
            "random histories with random gating and release offsets. Non-trivial: at least one transmission was pending or in "
            "flight at the cancellation; distinct by canonical input.",
    "nontrivial": lambda c: "instant:idle" not in c.get("tags", []),
    "trusted": ["atomic steps of the LTS are the blocking points of the goroutines; data races inside a step are out of reach (thorough tier could add -race)",
                "SIGINT/SIGTERM/SIGHUP -> terminate flag is C20's business; here terminate() is a constant of the run"],
    "assumptions": ["the observable log is the order in which WriteTo begins/ends and Run's return are recorded under one mutex"],
    "level_text": "Theorems (Coq, every complete trace of the stop-sequence LTS, any number of pending/in-flight transmissions and any interleaving): when terminating the trace is pre ++ [final begin; final end; return nil] with every ordinary transmission completed inside pre and the cancellation in pre (exactly one final RA, last packet, success); when reloading pre ++ [return nil] with no final RA; nothing follows the return; from any state after the cancellation the run can complete (reachability; fairness is partial). On the model of the code -- Advertiser.Run around the goroutine-group LTS of C10 with the guards and the two orderings of Run extracted from the source (advertise returns only after eg.Wait, shutdown only after advertise returned and followed by return) -- every reachable state in which the final RA is in flight or Run has returned has the cancellation behind it, every member returned, no worker in WriteTo or able to start (C08_final_alone), and every execution after the cancellation is finite and cannot stop before Run has returned (C08_returns); without the scheduler's wait (defect 224e990) or either ordering an overtaken final RA is reachable (C08_legacy_overtaken). Tie: every observed event log of the real Advertiser.Run with gated WriteTo must be accepted by the LTS and by the independent trace checker (incl. prompt return and final RA = ordinary RA except lifetime).",
    "level_note": "Trusted: Coq kernel + vm_compute; Go driver, fake Conn with gated WriteTo, synctest; the acceptor's guards are validated by trace acceptance; the group LTS is tied by goextract (six guards + two orderings, gen/ExtGroup.v) and by the C10 fault-injection runs.",
}
