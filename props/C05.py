SPEC = {
    "id": "C05",
    "drivers": [{"pkg": "internal/corerad", "test": "TestVerifC05", "newgo": True, "timeout": 1200, "arch386": ["quick", "thorough"]},
                {"pkg": "internal/corerad", "test": "TestVerifC05Stall", "newgo": True, "timeout": 1200},
                # the connection dies with solicitations from :: in the queue: the next incarnation still advertises for ever
                {"pkg": "internal/corerad", "test": "TestVerifC05Redial", "newgo": True, "timeout": 600, "arch386": []}],
    "rule": "(i) multicastDelay called with an injected draw on (min,max) pairs produced by the real config.Parse: every "
            "whole-second max 4..1800 s with the default min x i in {2,3} x draws {0, range-1, a .5 s landing}; explicit "
            "min at 3s-1ns/3s/3s+1ns/upper-1s/upper/upper+1ns/upper+1s/max for sampled (quick) or all (thorough) max x i in "
            "{0,2,3,7}; random fractional pairs incl. the 9 s corner. (ii) the real multicast loop under testing/synctest (also with a consumer that stalls for up to four intervals: the wait after a stall must still be a full interval) "
            "for 8..48 requests from a random start instant, draws reproduced from the virtual-clock seed. Non-trivial: "
            "the pair is accepted (a delay was computed) or it is a loop case; distinct by canonical input.",
    "nontrivial": lambda c: "accepted" in c.get("tags", []) or "loop" in c.get("tags", []),
    "trusted": ["math/rand: Int63n(n) with a source whose Int63() is v returns v mod n; the loop's draws are reproduced with the same stdlib PRNG from the virtual-clock seed",
                "0.33*float64(max) / 0.75*float64(max) modelled as exact rational floors (validated by the sweep over all 1797 whole-second values and random ns values)"],
    "assumptions": ["the multicast loop is observed through an unbuffered request channel (requests = what the loop emits, before the scheduler's rate limiting)"],
    "level_text": "Theorems (Coq): for every (min,max) the parser accepts (explicit, default, min=max<9s), every advertisement index and every draw of the PRNG's range: the Int63n argument is positive, the wait lies in [floor_s(min), ceil_s(max)], the first 3 waits are min(16 s, .), never below 2 s; by induction over the draw list the loop's n-th and (n+1)-th requests are exactly one such wait apart for every run length. Literals 3 / 16 s are in the statements; the model takes them from goextract. Tie: differential runs of multicastDelay and of the real loop under virtual time.",
    "level_note": "Trusted: Coq kernel + vm_compute; goextract for maxInitialAdv/maxInitialAdvInterval; Go drivers (injected rand.Source, synctest virtual clock); the float expressions of parseMinInterval are modelled as rational floors.",
}
