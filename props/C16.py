SPEC = {
    "id": "C16",
    "level_text": "Theorems (Coq, all epochs/lifetimes/clock readings/sequence lengths): the advertised lifetime equals max(0, epoch+L-now), is non-negative, zero from the deadline on, non-increasing along any non-decreasing clock sequence, preferred<=valid at every instant, constants when not deprecated. The model is tied to plugin.Prefix/Route.Apply by differential runs of the real code along clock sequences around both deadlines.",
    "level_note": "Trusted: Coq kernel + vm_compute; the Go driver and the rendering of cases; time.Time arithmetic is modelled on Z without saturation (instants within +-2^62 ns).",
    "drivers": [{"pkg": "internal/plugin", "test": "TestVerifC16"},
                {"pkg": "internal/plugin", "test": "TestVerifC16Epoch"},
                {"pkg": "internal/plugin", "test": "TestVerifC16SlowLookup"},
                # on the wire: the real Advertiser.Run under a virtual clock; every RA written carries the remainder at the write
                {"pkg": "internal/corerad", "test": "TestVerifC16Run", "newgo": True, "timeout": 600, "arch386": []}],
    "rule": "random (epoch, valid, preferred<=valid | route lifetime, deprecated flag) with boundary-biased "
            "durations (1ns, 1s+-1ns, 1.5s, 4h, 24h, 30d, 2^32-2 s, infinity for non-deprecated); each plugin value is "
            "evaluated along a sequence of clock readings containing deadline-1s/-1ns/0/+1ns/+1s for both deadlines, "
            "epoch, epoch-1ns, before the epoch, far future, random instants; 70% sorted (monotonicity is checked on "
            "those), 30% shuffled; 30% of the plugins use the ::/64 / ::/0 wildcard form; in 35% the injected clock advances by "
            "1ns..7s on every reading within one Apply (all lifetimes of one RA must describe the first reading); 30% of the plugin values come out of config.Parse given the same epoch (sub-second part included) and 40% are Prepared once or twice before use, as at every (re)initialisation (the deadline must not move). A case is non-trivial when the plugin is deprecated (the countdown is exercised); "
            "distinct by canonical input.",
    "nontrivial": lambda c: bool(c.get("input", {}).get("deprecated")) or c.get("input", {}).get("kind") == "epoch-identity",
    "trusted": ["time.Time saturation (|now-epoch| near 2^63 ns) is outside the model; generated instants stay below 2^62 ns"],
    "assumptions": ["clock readings and epoch + lifetime stay inside the int64 nanosecond range (no time.Time/Duration saturation)",
                    "the plugin's Epoch is non-zero (config.Parse is always given time.Now())"],
}
