def _n(x):
    return x if isinstance(x, int) else len(x or [])


SPEC = {
    "id": "C14",
    "level_text": "Theorems (Coq, all address lists of any length): betterRDNSS returns the minimum under rank = (not stable, class ULA<GUA<link-local<other, address), which is proved to be a strict total order (irreflexive, transitive, total; equal ranks = equal addresses); the wildcard server is the address of an eligible listed entry (IPv6, not deprecated/temporary/tentative) whose rank is minimal among all eligible entries, hence a function of the SET of listed entries (permutation- and multiplicity-invariant); no eligible entry or a listing failure is an error; the option is exactly [wildcard server] ++ static servers with the stanza's lifetime, and an accepted server list is strictly ascending, contains exactly the non-:: servers written, independent of Go's map iteration order. The executable models of RDNSS.current/betterRDNSS/isStable/isEUI64/Apply and parseRDNSS are tied to the real code by differential runs (plugin with injected address lists; config.Parse on generated TOML).",
    "level_note": "Trusted: Coq kernel + vm_compute; the Go drivers and the rendering of cases; net/netip IsPrivate/IsGlobalUnicast/IsLinkLocalUnicast (incl. their IPv4-mapped branches), Addr.Less/Compare and netip.ParseAddr (used by the driver to lex server strings) are modelled arithmetically and sampled by the correspondence; go-toml decoding is outside the model.",
    "drivers": [{"pkg": "internal/plugin", "test": "TestVerifC14"},
                {"pkg": "internal/config", "test": "TestVerifC14Config"},
                # the rtnetlink layer that produces the addresses and their flags (shared with C13)
                {"pkg": "internal/system", "test": "TestVerifC13Addresser", "corr_module": "Corr.C13sys"},
                # real parallelism: wildcard expansions of several interfaces at the same time
                {"pkg": "internal/plugin", "test": "TestVerifParallelApply", "arch386": []},
                # the whole RA: one stanza for a `names` group, every member expands the wildcards over ITS addresses
                {"pkg": "internal/config", "test": "TestVerifC01", "corr_module": "Corr.C01", "env": {"VERIF_C01_SECTION": "fixed"}, "arch386": []},
                {"pkg": "internal/plugin", "test": "TestVerifNetnsWildcards", "arch386": []}],
    "rule": "plugin driver: bounded-exhaustive over every sequence with repetition of length <= 3 (quick) / <= 4 (thorough) of a 15-entry "
            "pool covering class (ULA, GUA, link-local, loopback, multicast) x stability source (valid-forever, manage-temporary, "
            "stable-privacy, EUI-64 pattern, none) x exclusion (deprecated, temporary, tentative, IPv4), one address with two flag sets; "
            "random lists up to length 40 (class boundaries fbff/fc00/fdff/fe00/fe7f/fe80/febf/fec0/feff/ff00, ff:fe / ff:fd / fe:fe "
            "byte patterns, IPv4-mapped addresses of every IPv4 class, same address with other flags); random static lists incl. one equal "
            "to the chosen address; listing failure / unprepared; Prepare itself (implementation-only, real read-only rtnetlink dumps): every sequence of 2..3 Prepare "
            "calls over {an interface index that does not exist, lo, a permanent interface with IPv6 addresses, one without} on ONE RDNSS / Prefix "
            "value with Apply after every Prepare: the outcome must equal that of a fresh value prepared for that interface only (evaluated before "
            "and after; skipped when the reference itself is unstable), must fail after a Prepare for the nonexistent index, and a chosen server / "
            "advertised prefix must belong to an address package net lists for that interface. config driver: every sequence of length <= 3 / <= 4 over 15 server "
            "strings (:: in two spellings, one address in two spellings, IPv4, IPv4-mapped, garbage, a prefix, a zoned address), omitted list, random lists "
            "up to 12 servers; each accepted (parser-produced) plugin value is applied 2..4 times to an address list and every result must be the option "
            "of the plugin as parsed (the plugin driver applies each plugin twice). Non-trivial = at least two listed addresses / servers "
            "or a failing source; distinct by canonical input.",
    "nontrivial": lambda c: _n(c.get("input", {}).get("addrs")) >= 2 or len(c.get("input", {}).get("servers") or []) >= 2
                            or c.get("input", {}).get("source") not in (None, "ok"),
    "trusted": ["net/netip IsPrivate / IsGlobalUnicast / IsLinkLocalUnicast / Less / Compare / As16 are modelled by Model.Wildcard.go_* and Base.IP",
                "netip.ParseAddr lexes the server strings on the Go side (RSbad / RSnot6 / RS6 a); go-toml decodes the stanza",
                "system.Addresser (rtnetlink address dump and flag decoding) enters the model as the input list"],
    "extra_targets": ["Legacy/WildcardRDNSSZone.v"],
    "explanation": "The model mirrors parseRDNSS as repaired by fixes/rdnss-zone.diff (= /repo commit f20e750: servers with an IPv6 zone are refused). On a tree "
                   "without that patch the check reports VIOLATION with servers = [\"::\", \"fe80::1\", \"fe80::1%eth0\"]: both spellings are "
                   "accepted and fe80::1 is put into the RDNSS option twice (coq/Legacy/WildcardRDNSSZone.v, legacy_parse_rdnss_refuted).",
    "assumptions": ["addresses listed by the operating system carry no zone (configured servers with a zone are refused by the parser)",
                    "every listed system.IP has a valid Address prefix",
                    "a static server equal to the automatically chosen address is not removed (the option then lists it twice); "
                    "C14_static states only that the servers after the first are the static ones"],
}
