def _n(x):
    return x if isinstance(x, int) else len(x or [])


SPEC = {
    "id": "C15",
    "level_text": "Theorems (Coq, all route dumps of any length): with the ::/0 wildcard the advertised routes are exactly the IPv6 non-/128 routes of the dump that are not contained in a strictly shorter IPv6 route of the dump, without duplicates, strictly ascending by address, a function of the SET of dumped routes only (permutation- and multiplicity-invariant); every dumped IPv6 non-host route is covered by an advertised one; for a canonical dump (no host bits, as the kernel guarantees) no two advertised routes overlap; every option carries the stanza's preference and (C16) lifetime; a dump failure is an error. The executable model of Route.current/apply/Apply (code as repaired by a252649) is tied to the real code by differential runs on injected dumps.",
    "level_note": "Trusted: Coq kernel + vm_compute; the Go driver and the rendering of cases; net/netip Prefix.Contains / IsSingleIP / Addr.Compare are modelled arithmetically (Base.IP) and sampled by the correspondence; the rtnetlink loopback route dump is outside the model.",
    "drivers": [{"pkg": "internal/plugin", "test": "TestVerifC15"},
                # the rtnetlink layer that produces the loopback route dump (shared with C13)
                {"pkg": "internal/system", "test": "TestVerifC13Addresser", "corr_module": "Corr.C13sys"},
                # real parallelism: wildcard expansions of several interfaces at the same time
                {"pkg": "internal/plugin", "test": "TestVerifParallelApply", "arch386": []},
                # the whole RA: a wildcard next to static stanzas that share a base address with its expansion at another length
                {"pkg": "internal/config", "test": "TestVerifC01", "corr_module": "Corr.C01", "env": {"VERIF_C01_SECTION": "fixed"}, "arch386": []}],
    "rule": "bounded-exhaustive: every sequence with repetition of length <= 3 (quick) / <= 4 (thorough) over a 14-entry pool "
            "(= all subsets x all permutations, plus all multiplicities) with /32 > /48 > /64 at the same base, /48 and /64 at other "
            "bases, /128s at a covered base and elsewhere, ::/0, fd00::/8 > /64, IPv4 routes incl. 0.0.0.0/0, one non-canonical "
            "entry; random dumps up to length 40 (same-base chains, exact duplicates, boundary lengths 0/1/47/48/49/63/64/65/127/128, "
            "25% with non-canonical entries); dump failure and unprepared plugin; 30% deprecated stanzas (clock before the epoch, inside the countdown, after expiry) and in half of the cases a clock that advances on every reading within one Apply (1 ns / 1 ms / 1 s / 7 s / half the lifetime, so a seconds boundary or the expiry falls between two readings): all options must carry the lifetime of the first reading. Non-trivial = at least two dumped routes or a "
            "failing source; distinct by canonical input.",
    "nontrivial": lambda c: _n(c.get("input", {}).get("routes")) >= 2 or c.get("input", {}).get("source") != "ok",
    "trusted": ["net/netip Prefix.Contains (false across families), IsSingleIP, Addr.Compare are modelled by Base.IP.contains, bits = 128 and numeric order",
                "system.Addresser.LoopbackRoutes (rtnetlink dump) enters the model as the input list"],
    "assumptions": ["C15_no_overlap assumes a canonical dump (route address has no bits below its length), which the kernel guarantees; "
                    "all other theorems hold for arbitrary dumps",
                    "every dumped system.Route has a valid Prefix; addresses carry no zone"],
}
