SPEC = {
    "id": "C10", "disabled": True,
    "property_file": "Properties/C09.v", "corr_module": "Corr.C10td",
    "drivers": [{"pkg": "internal/corerad", "test": "TestVerifC10TD", "newgo": True, "timeout": 1500}],
    "level_text": "x", "level_note": "x",
}
