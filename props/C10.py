SPEC = {
    "id": "C10",
    "corr_module": "Corr.C10td",
    "drivers": [
        {"pkg": "internal/corerad", "test": "TestVerifC10TD", "newgo": True, "timeout": {"quick": 400, "thorough": 1500}, "corr_module": "Corr.C10td"},
        {"pkg": "internal/corerad", "test": "TestVerifC10RX", "newgo": True, "timeout": {"quick": 400, "thorough": 1500}, "corr_module": "Corr.C10td"},
        {"pkg": "internal/system", "test": "TestVerifC10dial", "newgo": True, "timeout": 1500, "corr_module": "Corr.C10dial"},
        {"pkg": "internal/system", "test": "TestVerifC10link", "newgo": True, "timeout": 900, "corr_module": "Corr.C10link"},
        # the back-off on the wall clock, built like the shipped binary (no GODEBUG override: old timer-channel semantics)
        {"pkg": "internal/system", "test": "TestVerifC10dialReal", "newgo": False, "timeout": 120, "arch386": []},
                # real parallelism: send workers against the scheduler's stop (nothing in flight, nothing starts after it)
                {"pkg": "internal/corerad", "test": "TestVerifParallel", "newgo": True, "timeout": 600, "arch386": [], "env": {"VERIF_PAR": "workers"}},
                # the wiring that makes a link change reach the task at all: BuildTasks subscribes every interface task (monitors
                # included) to ITS interface through the watcher's real notify path
                {"pkg": "internal/corerad", "test": "TestVerifC20", "newgo": True, "timeout": 600, "corr_module": "Corr.C20", "env": {"VERIF_C20_SECTION": "build"}},
                # the policy applied to the first transmission of a connection (the initial RA)
                {"pkg": "internal/corerad", "test": "TestVerifC10Initial", "newgo": True, "timeout": 300, "arch386": []},
        # the real dialNDP / checkInterface / lookupInterface on a veth pair (root only; tagged unavailable otherwise)
        {"pkg": "internal/system", "test": "TestVerifRealOS", "newgo": True, "timeout": 300},
    ],
    "rule": "(a) every fault class {read error: syscall / permission / other, 5 consecutive timeouts, failing scheduled write: "
            "syscall / permission / other, a scheduled RA that cannot be generated (a plugin's Apply fails), link event, watcher channel closed} injected into a running Advertiser and Monitor "
            "under testing/synctest, with 0..40 (thorough: up to 100) solicitations queued at the fault instant and, for write "
            "faults with >=17 of them, another transmission blocked in WriteTo so that the request channel fills while the "
            "scheduler is waiting; observed: reaction (re-dial / return error / continue), its virtual delay, I/O on the old "
            "connection afterwards, a canary solicitation, leaked goroutines. (b) scripts of timeouts / messages / errors read by "
            "a Monitor: the instants of its ReadFrom calls give the back-off waits. (c) Dialer.Dial with scripted dial and task "
            "outcomes (Corr.C10dial). (d) the real checkInterface / isNoSuchInterface / lookupInterface / sysctlBool on generated interface states: flags, 0..5 addresses of every class (fe80::/10 edges, IPv4 link-local in 4-byte and IPv4-mapped form, wrong-length slices, non-IPNet types), address-query errors of every class, host interface names, sysctl file contents (Corr.C10link). Non-trivial: any case (each injects a fault or a timeout run); distinct by input.",
    "nontrivial": lambda c: c.get("_driver") != "TestVerifC10dial" or len(c.get("observed") or []) > 3,
    "trusted": ["the goroutine-group LTS (Model/Group.v) is tied to the code by the five extracted guards only (gen/ExtGroup.v: select cases next to <-ctx.Done(), ws.stop() before returns, cancel() before eg.Wait()) and by the fault-injection runs; its atomic steps are the blocking points",
                "a WriteTo call in progress eventually returns (internal step of the LTS)"],
    "assumptions": ["fairness: the Go scheduler eventually runs an enabled goroutine; the LTS theorem is over every interleaving but assumes enabled internal steps are eventually taken"],
    "level_text": "Theorems (Coq): (a) LTS of the advertiser's goroutine group with guards extracted from the source: every reachable state satisfies the invariant; once the group's context is cancelled every continuation (any interleaving, arrivals, failures) reaches 'all members returned' within measure(s) steps and until then an internal step is always enabled (no deadlock); afterwards nothing is read/written and no worker starts; the two repaired defects are proved to be reachable deadlocks of the same LTS with the old guards. (b) receive retry: waits 0,50,100,150 ms, the 5th consecutive timeout is an error after 200 ms, any message resets. (c) dialer policy/back-off and the full cancellation theorem C10_cancel (C10dial). (d) link readiness (C10link): the check passes iff the interface is up and owns a 16-byte IPNet address in fe80::/10, otherwise link-not-ready (or the address query's error, class intact); a missing / down / address-less interface makes Dialer.dial fail with the recoverable class before anything is opened. Tie: goextract guards + fault injection into the real Advertiser/Monitor under virtual time + scripted Dialer runs.",
    "level_note": "Trusted: Coq kernel + vm_compute; goextract (guards, retries, back-off unit, dialer constants); Go drivers, fake Conn, synctest; LTS atomicity = blocking points (data races out of reach).",
}
