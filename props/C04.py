SPEC = {
    "id": "C04",
    "level_text": "Theorems (Coq, all event lists over any number of interfaces): the k-th RA generation on any of the seven paths reads the forwarding flag in force at that moment (last flip of that interface, exactly one State read) and yields router lifetime = configured (0 on the final path) if forwarding else 0, the rest of the RA as configured, InterfaceNotForwarding reported iff not forwarding and configured lifetime > 0 (log line on advertiser paths, gauge on the scrape path), forwarding gauge = flag; nothing reported when forwarding or when default_lifetime = 0; outputs of one interface are independent of the events of all others; a monitoring / unused interface (scrape path ScrapeIdle: no RA is generated) exports its own forwarding flag and never a misconfiguration, whatever is listed before it (C04_idle_interface); a generation whose State read fails (GenFail: the failure is an input of the event) yields no RA at all on any path, flag on or off (C04_read_failure). The model is tied to config.Interface.RouterAdvertisement, Advertiser.buildRA and its callers, Metrics.constScrape and crhttp's interfaces handler by running the real advertisers under virtual time against random histories of forwarding flips.",
    "level_note": "Trusted: Coq kernel + vm_compute; the synctest driver (fake conn, recording State, production wiring of metrics and debug handler); go1.26.8 testing/synctest. The RA built from configuration + plugins is an input (C01); only static plugins are used so that it is constant along a history. Log lines are recognised by the words 'IPv6 forwarding' and attributed to generations in order.",
    "drivers": [{"pkg": "internal/corerad", "test": "TestVerifC04", "newgo": True, "timeout": 900},
                # the real operating-system State behind the forwarding flag: agreement with the sysctl files, error
                # classes, concurrent reads of different interfaces never mix
                {"pkg": "internal/system", "test": "TestVerifState", "newgo": True, "timeout": 600},
                # the daemon end to end (the real main() in a child process, private network namespace, veth pair):
                # forwarding flipped under it; the wire, the metrics and the API follow at once
                {"pkg": "cmd/corerad", "test": "TestVerifE2E", "timeout": 300, "arch386": []}],
    "rule": "generated accepted configurations with 1-3 advertising interfaces and 0-2 monitoring / unused interfaces (an unused stanza may carry a full "
            "advertising configuration) inserted anywhere in the interface list, half of them after every advertising interface; their forwarding flags "
            "flip like the others and every scrape is also observed for them (own forwarding gauge, no misconfiguration series at all) (default_lifetime absent / auto / 0s / = max_interval / "
            "9000s / fractional seconds; static prefix, route, RDNSS, DNSSL, MTU, captive portal, PREF64 stanzas) and a random script of "
            "10-27 (thorough: up to 60) steps: flip(i) (incl. rewriting the same value), start(i), advance(1s..40s), rs(i), peer RA(i), "
            "stop(i) with terminate, scrape, api, and (8% of the steps) fault(i, e): while State.IPv6Forwarding(i) fails with e in {os.ErrPermission bare / wrapped with %w, "
            "EACCES in *os.SyscallError, EPERM / ENOENT in *fs.PathError, a plain error} one of start / rs / peer RA / advance / stop / scrape / api is forced for i "
            "(advertising or idle, flag on or off): one GenFail event per failing read, carrying whatever was written / compared / exported / rendered "
            "(the specification: nothing). One case per history; non-trivial when it contains at least one flip and three "
            "generations.",
    "nontrivial": lambda c: c.get("input", {}).get("flips", 0) >= 1 and c.get("input", {}).get("generations", 0) >= 3,
    "trusted": [
        "while a fault is injected the driver attributes every State read and every RA of that interface to the forced path (a periodic RA falling into an rs window is labelled Solicited); the specification for a failing read is the same on every path",
        "during a failing scrape / API request the other interfaces are not observed",
        "the misconfiguration log line is recognised by the substring 'IPv6 forwarding' after the '<iface>: ' prefix and attributed to the RA generations of that interface in order",
        "within one observation window (one script step) the driver does not change the flag, so window-level counters (State reads, log lines) can be attributed to the generations of the window",
    ],
    "assumptions": [
        "the RA built from configuration and plugins is constant along a history (static plugins only; deprecated / wildcard stanzas are exercised by C16 / C13-C15 and by C17's scrape cases)",
        "configured default lifetime is >= 0 (guaranteed by the parser: 0 or within [max_interval, 9000 s])",
    ],
}
