SPEC = {
    "id": "C03",
    "level_text": "Theorems (Coq, all parsed configurations satisfying cfg_ok, all system states): every RA built is wire_ok (every duration "
                  "non-negative and inside its field, every option encodable per the RFCs); for a wire_ok RA outside the two known-finding classes "
                  "encode succeeds and the wire image read back equals the RA truncated to s / ms (PREF64 lifetimes are multiples of 8 s); "
                  "ndp v1.1.0's own decoder returns the same except the partial last byte of Route Information prefixes. Refutation lemmas with "
                  "witnesses for the two known-finding classes. Tie: differential runs of config.Parse + RouterAdvertisement + ndp.MarshalMessage / "
                  "ndp.ParseMessage; holds also evaluates cfg_ok on what config.Parse accepted.",
    "level_note": "Trusted: Coq kernel + vm_compute; the field-level codec model of mdlayher/ndp v1.1.0 (float64 Seconds() rounding and the uint8 "
                  "length overflow are modelled explicitly); DNS names / URIs are opaque (only their byte length enters the model).",
    "drivers": [{"pkg": "internal/config", "test": "TestVerifC03", "timeout": 1500},
                # a running Advertiser re-dialled onto an interface that changed (hardware address present / absent): every RA
                # handed to the socket is encodable
                {"pkg": "internal/corerad", "test": "TestVerifC01Redial", "newgo": True, "timeout": 300, "arch386": []}],
    "known_classes": {1: "float_seconds_roundup", 2: "option_over_248_bytes", 3: "lla_not_6_bytes"},
    "rule": "corpus (one witness per known-finding class, the repaired defects, field limits) then the C01 generator biased to extreme durations "
            "(1ns, sub-second, 2^24 s and 2^31 s with fractions around the float round-up window, 4294967294.999999xxx s, infinite, out-of-range and "
            "negative strings), arbitrary pref64 CIDRs (every prefix length 0..128 with the canonical address for that length -- a fixed stream c03-pref64-len-N and a random branch --, IPv4, host bits), option sizes around 248 bytes (14..17 and "
            "126..128 RDNSS servers, large DNSSL lists, URIs of 245..247 and up to 282 bytes), MAC of 8 bytes, clock before the epoch. "
            "Non-trivial: accepted configuration whose RA was built and has at least one option; distinct by canonical input.",
    "nontrivial": lambda c: bool(c.get("coq")) and c.get("input", {}).get("plugins", 0) > 0 and c.get("observed") not in ("build error",),
    "trusted": ["ndp v1.1.0 codec: modelled field by field, not verified; idna handling of DNS names is outside the model (generated names are ASCII LDH)",
                "dependency quirk kept out of the comparison: ndp v1.1.0's RouteInformation.unmarshal drops the partial last byte of a prefix whose length "
                "is not a multiple of 8; the emitted prefix bytes are compared with the configured prefix instead"],
    "assumptions": ["DNS names well-formed (non-empty ASCII labels, no trailing dot, not punycode), option element counts within the 8-bit length (sizes_ok)",
                    "MAC absent or 6 bytes, OS routes are masked prefixes (sys_wf)",
                    "deprecated stanzas: epoch + lifetime - now < 2^32 s (clock_ok; implied by now >= epoch)"],
    "extra_targets": ["Proofs/Build.v", "Proofs/Wire.v"],
}
