from props.C06 import SPEC as _S
SPEC = dict(_S)
SPEC.update({
    "id": "C07",
    # also on a 32-bit platform in the quick tier: the scheduler's bookkeeping of solicited answers
    "drivers": [dict(_S["drivers"][0], arch386=["quick", "thorough"]),
                # time that passes where the code does not expect it: the process stopped for 1.2 s (real clock)
                {"pkg": "internal/corerad", "test": "TestVerifStall", "newgo": True, "timeout": 300, "arch386": []},
                {"pkg": "internal/corerad", "test": "TestVerifC07Crowd", "newgo": True, "timeout": 300, "arch386": []},
                # the daemon end to end on a real socket: solicitations to ff02::2 and to the router's own address are answered
                {"pkg": "cmd/corerad", "test": "TestVerifE2E", "timeout": 300, "arch386": []}],
    "nontrivial": lambda c: any(e.get("Src") != "::" for e in (c.get("input", {}).get("Events") or [])),
    "rule": _S["rule"].replace("Non-trivial: at least one multicast trigger besides the periodic loop (an RS from ::) or a tight loop",
                               "Non-trivial: at least one solicitation from a specified source"),
    "level_text": "Theorems (Coq, every solicitation history, every draw in [0,500 ms)): the sends to a specified address a are exactly {t_k + r_k} for the solicitations from a (each exactly once, delay < 500 ms), every destination is a solicitor or all-nodes, solicitations from :: are served as in C06, unicast-only never transmits to a multicast destination; counters sent{unicast,multicast} equal the scheduled transmissions made (run without transmit failure; failures are covered by C10). Tie: exact comparison of the WriteTo log and the counters of the real Advertiser.Run under virtual time.",
    "level_note": "Trusted: as C06; arrival order on the request channel is the history order (one listener goroutine, FIFO channel); goroutine interleavings beyond the blocking points are not modelled (partial); stop/re-initialisation before an answer is due is observed only through the horizon rule.",
})
