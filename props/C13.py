def _n(x):
    return x if isinstance(x, int) else len(x or [])


SPEC = {
    "id": "C13",
    "level_text": "Theorems (Coq, all address lists of any length): with the ::/64 wildcard the advertised prefixes are exactly the /64 networks of the eligible addresses (IPv6, not link-local, length 64, not temporary, not tentative), without duplicates, strictly ascending, a function of the SET of listed entries only (permutation- and multiplicity-invariant), every option carries the stanza's length, flags and (C16) lifetimes, and a listing failure is an error -- down to the rtnetlink layer: a failed netlink request (with or without messages) makes AddressesByIndex fail, hence the plugin's source, hence Apply (C13_listing_failure); a successful request yields exactly the listed addresses with the documented meaning of the IFA_F_* bits and valid-forever (C13_listing_exact). The executable models of Prefix.current/apply/Apply and of addresser.AddressesByIndex / routesByIndex are tied to the real code by differential runs on injected address lists and on scripted netlink answers.",
    "level_note": "Trusted: Coq kernel + vm_compute; the Go driver and the rendering of cases; net/netip predicates (Masked, IsLinkLocalUnicast incl. its IPv4-mapped branch) are modelled arithmetically and sampled by the correspondence; the rtnetlink library itself (socket, message (un)marshalling) is outside the model: the answer of the injected execute function is the input.",
    "drivers": [{"pkg": "internal/plugin", "test": "TestVerifC13"},
                {"pkg": "internal/system", "test": "TestVerifC13Addresser", "corr_module": "Corr.C13sys"},
                # real parallelism: wildcard expansions of several interfaces at the same time
                {"pkg": "internal/plugin", "test": "TestVerifParallelApply", "arch386": []},
                # the whole RA: a wildcard next to static stanzas that share a base address with its expansion at another length
                {"pkg": "internal/config", "test": "TestVerifC01", "corr_module": "Corr.C01", "env": {"VERIF_C01_SECTION": "fixed"}, "arch386": []},
                {"pkg": "internal/plugin", "test": "TestVerifNetnsWildcards", "arch386": []}],
    "rule": "bounded-exhaustive: every sequence with repetition of length <= 3 (quick) / <= 4 (thorough) over a 14-entry pool "
            "(= all subsets x all permutations, plus all multiplicities) mixing ULA/GUA/link-local/IPv4, lengths 48/64/128, each flag, "
            "two hosts per /64, the edges of fe80::/10; random lists up to length 40 (exact duplicates, IPv4, IPv4-mapped, random "
            "lengths/flags, wildcard lengths other than 64); listing failure and unprepared plugin; in half of the cases the injected clock advances on every reading (1 ns .. 7 s, half the preferred lifetime) so that all options of one RA must carry the lifetimes of the first reading. rtnetlink layer (real linux addresser, scripted execute): every failure class (ENODEV, ENOBUFS, "
            "EMFILE, EINTR, opaque) x nil messages / partial dump x 0..3 messages for addresses and routes; the flag table (21 flag words incl. every "
            "documented bit, ignored bits, neighbours, all-ones x 7 valid-lifetime values); every prefix length 0..128; route preference absent / 0..4 / 255; "
            "random dumps of 0..6 messages (25% failing); LoopbackRoutes with a failing route request (assertion only). Non-trivial = at least two listed "
            "entries or a failing source; distinct by canonical input.",
    "nontrivial": lambda c: (len(c.get("input", {}).get("messages") or []) >= 1 or c.get("input", {}).get("failure") != "none")
                            if "failure" in c.get("input", {})
                            else (_n(c.get("input", {}).get("addrs")) >= 2 or c.get("input", {}).get("source") != "ok"),
    "trusted": ["net/netip Masked / IsLinkLocalUnicast / Is4 are modelled by Base.IP.mask, Model.Wildcard.go_link_local and the ip_v4 flag",
                "the plugin-level theorems take the address list as input; the rtnetlink request below system.Addresser (socket, wire format) enters "
                "Model.Addresser as the answer of execute; IFA_F_* values are those of linux/if_addr.h (the driver passes golang.org/x/sys/unix's "
                "constants numerically, a wrong literal in the model shows as a disagreement)",
                "malformed rtnetlink messages (wrong family, nil attributes, IPv4 / IPv4-mapped addresses) make the addresser panic on purpose and are not generated"],
    "extra_targets": ["Proofs/Addresser.v"],
    "assumptions": ["addresses carry no zone (rtnetlink never reports one)",
                    "every listed system.IP has a valid Address prefix (bits within the family's range)"],
}
