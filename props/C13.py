SPEC = {
    "id": "C13",
    "level_text": "Theorems (Coq, all address lists of any length): with the ::/64 wildcard the advertised prefixes are exactly the /64 networks of the eligible addresses (IPv6, not link-local, length 64, not temporary, not tentative), without duplicates, strictly ascending, a function of the SET of listed entries only (permutation- and multiplicity-invariant), every option carries the stanza's length, flags and (C16) lifetimes, and a listing failure is an error. The executable model of Prefix.current/apply/Apply is tied to the real code by differential runs on injected address lists.",
    "level_note": "Trusted: Coq kernel + vm_compute; the Go driver and the rendering of cases; net/netip predicates (Masked, IsLinkLocalUnicast incl. its IPv4-mapped branch) are modelled arithmetically and sampled by the correspondence; rtnetlink flag decoding is outside the model.",
    "drivers": [{"pkg": "internal/plugin", "test": "TestVerifC13"}],
    "rule": "bounded-exhaustive: every sequence with repetition of length <= 3 (quick) / <= 4 (thorough) over a 14-entry pool "
            "(= all subsets x all permutations, plus all multiplicities) mixing ULA/GUA/link-local/IPv4, lengths 48/64/128, each flag, "
            "two hosts per /64, the edges of fe80::/10; random lists up to length 40 (exact duplicates, IPv4, IPv4-mapped, random "
            "lengths/flags, wildcard lengths other than 64); listing failure and unprepared plugin. Non-trivial = at least two listed "
            "entries or a failing source; distinct by canonical input.",
    "nontrivial": lambda c: len(c.get("input", {}).get("addrs") or []) >= 2 or c.get("input", {}).get("source") != "ok",
    "trusted": ["net/netip Masked / IsLinkLocalUnicast / Is4 are modelled by Base.IP.mask, Model.Wildcard.go_link_local and the ip_v4 flag",
                "system.Addresser (rtnetlink address dump and flag decoding) enters the model as the input list"],
    "assumptions": ["addresses carry no zone (rtnetlink never reports one)",
                    "every listed system.IP has a valid Address prefix (bits within the family's range)"],
}
